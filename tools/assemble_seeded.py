#!/usr/bin/env python3
"""Assemble /verif/seeded/<id>/ from the sub-agents' output directories and the
logs of tools/try_seed.sh.
usage: assemble_seeded.py <confirmation log>... [--recheck <log>...]
Confirmation logs carry build/suite/demonstration results; a --recheck log
(try_seed.sh run with RECHECK=1 against a later checker) only replaces the list
of checks that fire."""
import json, os, re, shutil, subprocess, sys

results = {}
args = sys.argv[1:]
recheck = []
if '--recheck' in args:
    i = args.index('--recheck')
    args, recheck = args[:i], args[i + 1:]
pat = r'(C\d+_\d+[a-z]?) build=(\d+) suite=(\S+) demo_clean=(\S+) demo_patched=(\S+) caught:\[(.*)\]'
for log in args:
    for line in open(log):
        m = re.match(pat, line.strip())
        if m and m.group(3) != '-':
            results[m.group(1)] = dict(build=int(m.group(2)), suite=int(m.group(3)), demo_clean=m.group(4), demo_patched=m.group(5), caught=m.group(6).split())
for log in recheck:
    for line in open(log):
        m = re.match(pat, line.strip())
        if m and m.group(1) in results:
            results[m.group(1)].setdefault('first', results[m.group(1)]['caught'])
            results[m.group(1)]['caught'] = m.group(6).split()
            results[m.group(1)]['rechecked'] = True
head = subprocess.check_output(['git', '-C', '/repo', 'log', '--format=%h', '-1']).decode().strip()
kept, dropped = [], []
for label, r in sorted(results.items()):
    prop, k = label.split('_')
    src = f'/tmp/seed/{prop}/out/{k}'
    if not os.path.isdir(src):
        src = f'/tmp/seed2/{prop}/out/{k}'
    if not os.path.isdir(src):
        continue
    ok = r['build'] == 0 and r['suite'] == 0 and r['demo_clean'] == '0' and r['demo_patched'] not in ('0', '-')
    agent = {}
    try:
        agent = json.load(open(os.path.join(src, 'meta.json')))
    except Exception:
        pass
    caught = [c for c in r['caught'] if '(' not in c]
    undecided = [c for c in r['caught'] if '(undecided)' in c]
    if not ok:
        reason = 'benign on the repaired tree (the demonstration passes with the change applied)' if r['demo_patched'] == '0' else ('the existing suite fails with the change on the repaired tree' if r['suite'] else 'not confirmed')
        dropped.append((label, reason, agent.get('summary', '')))
        continue
    dst = f'/verif/seeded/{label}'
    # a directory assembled earlier (possibly with a hand-rebased patch) is kept
    if not os.path.isdir(dst):
        shutil.copytree(src, dst, ignore=shutil.ignore_patterns('*.log'))
    if os.path.exists(os.path.join(dst, 'patch.original.diff')):
        src = dst
    meta = {
        'id': label,
        'property': prop,
        'summary': agent.get('summary', ''),
        'files_changed': agent.get('files_changed', []),
        'what_it_needs_to_manifest': agent.get('what_it_needs_to_manifest', ''),
        'why_existing_tests_pass': agent.get('why_existing_tests_pass', ''),
        'written_by': 'independent sub-agent given only the property text and a scratch worktree',
        'rebased': os.path.exists(os.path.join(src, 'patch.original.diff')),
        'confirmed_against_repo_commit': head,
        'what_i_ran': [
            'tools/try_seed.sh <dir> <label>: scratch worktree of /repo HEAD, git apply --3way patch.diff',
            'go build ./... (ok)', 'go test -vet=off -count=1 ./... (all pass)',
            'run.sh /repo (exit 0)', 'run.sh <patched worktree> (exit non-zero)',
            'bebopcheck multi <all 19 properties> --repo <patched worktree>' + (' (re-run with the final checker)' if r.get('rechecked') else ''),
        ],
        'checks_reporting_VIOLATION_when_the_seed_was_first_run': [c for c in r.get('first', r['caught']) if '(' not in c],
        'checks_reporting_VIOLATION': caught,
        'checks_undecided': [c.replace('(undecided)', '') for c in undecided],
        'caught_by_own_property_check': prop in caught,
    }
    json.dump(meta, open(os.path.join(dst, 'meta.json'), 'w'), indent=1)
    kept.append(meta)
json.dump({'kept': [m['id'] for m in kept], 'dropped': [{'id': d[0], 'reason': d[1], 'summary': d[2]} for d in dropped]}, open('/verif/seeded/INDEX.json', 'w'), indent=1)
own = sum(1 for m in kept if m['caught_by_own_property_check'])
anyc = sum(1 for m in kept if m['checks_reporting_VIOLATION'])
print(f'kept {len(kept)} (own-property check fires on {own}, some check fires on {anyc}); dropped {len(dropped)}')
for m in kept:
    if not m['caught_by_own_property_check']:
        print('  not caught by own check:', m['id'], m['checks_reporting_VIOLATION'], '|', m['summary'][:90])
for d in dropped:
    print('  dropped:', d[0], d[1])
