#!/bin/bash
# usage: try_benign.sh <dir containing patch.diff> <label>
# A behaviour-preserving change: confirms build + suite in a scratch worktree and
# runs every check against it. Any check that does not exit 0 is a false alarm
# (exit 1) or a loss of verdict (exit 2) of the machinery.
set -u
SEED=$1; LABEL=$2
export GOFLAGS=-mod=mod GOPROXY=off GOSUMDB=off GOTOOLCHAIN=local; unset GOWORK
WT=/tmp/sw/$LABEL; SV=/tmp/sv/$LABEL; OUT=/tmp/sr/$LABEL
rm -rf $WT $SV $OUT; mkdir -p /tmp/sw /tmp/sv $SV $OUT
git -C /repo worktree add -q --detach $WT HEAD || exit 9
cp /verif/known_findings.txt $SV/; mkdir -p $SV/fixtures; cp -r /verif/fixtures/. $SV/fixtures/
( cd $WT && git apply --3way $SEED/patch.diff ) > $OUT/apply.log 2>&1 || { echo "$LABEL APPLY-FAILED"; git -C /repo worktree remove --force $WT; exit 1; }
( cd $WT && go build ./... ) > $OUT/build.log 2>&1; B=$?
S=-
[ -n "${RECHECK:-}" ] || { ( cd $WT && go test -vet=off -count=1 ./... ) > $OUT/suite.log 2>&1; S=$?; }
( cd $WT && git checkout -q -- testdata 2>/dev/null )
BC=${BEBOPCHECK:-/verif/bin/bebopcheck}
ALL=${CHECKS:-"C01 C02 C03 C04 C05 C06 C07 C08 C09 C10 C11 C12 C13 C14 C15 C16 C18 C19 C20"}
$BC multi $(echo $ALL | tr ' ' ',') --tier quick --repo $WT --verif $SV > $OUT/checks.log 2>&1
BAD=""
for c in $ALL; do
  e=$(grep "^RESULT $c " $OUT/checks.log | sed 's/.*exit=//')
  if [ "$e" = "1" ]; then BAD="$BAD $c(VIOLATION)"; elif [ "$e" = "2" ]; then BAD="$BAD $c(undecided)"; elif [ -z "$e" ]; then BAD="$BAD $c(crash)"; fi
done
echo "$LABEL build=$B suite=$S alarms:[$BAD ]"
git -C /repo worktree remove --force $WT
rm -rf $SV
