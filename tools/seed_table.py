#!/usr/bin/env python3
"""Print the markdown table of DESIGN.md §9 from /verif/seeded/*/meta.json."""
import json, glob, os
rows = []
for f in sorted(glob.glob('/verif/seeded/C*/meta.json')):
    m = json.load(open(f))
    s = ' '.join(m.get('summary', '').split())
    if len(s) > 150:
        s = s[:147] + '...'
    s = s.replace('|', '/')
    fired = ' '.join(m['checks_reporting_VIOLATION']) or '-'
    und = ' '.join(m.get('checks_undecided', []))
    own = 'yes' if m['caught_by_own_property_check'] else 'NO'
    rows.append((m['id'], own, fired, und, s))
print('| id | own check fires | checks reporting VIOLATION | UNDECIDED (exit 2) | change |')
print('|---|---|---|---|---|')
for r in rows:
    print('| %s | %s | %s | %s | %s |' % r)
idx = json.load(open('/verif/seeded/INDEX.json'))
print()
for d in idx.get('dropped', []):
    print('* dropped %s: %s — %s' % (d['id'], d['reason'], ' '.join(d['summary'].split())[:160]))
