#!/bin/bash
# usage: try_seed.sh <seed-dir containing patch.diff, run.sh, meta.json> <label> [checks...]
# Confirms a candidate seeded defect against the current /repo HEAD in a scratch
# worktree (never in /repo) and runs the static checks against it.
set -u
SEED=$1; LABEL=$2; shift 2
CHECKS=${*:-"C01 C02 C03 C04 C05 C06 C07 C08 C09 C10 C11 C12 C13 C14 C15 C16 C18 C19 C20"}
export GOFLAGS=-mod=mod GOPROXY=off GOSUMDB=off GOTOOLCHAIN=local; unset GOWORK
WT=/tmp/sw/$LABEL; SV=/tmp/sv/$LABEL; OUT=/tmp/sr/$LABEL
rm -rf $WT $SV $OUT; mkdir -p /tmp/sw /tmp/sv $SV $OUT
git -C /repo worktree add -q --detach $WT HEAD || exit 9
cp /verif/known_findings.txt $SV/; mkdir -p $SV/fixtures; cp -r /verif/fixtures/. $SV/fixtures/
( cd $WT && git apply --3way $SEED/patch.diff ) > $OUT/apply.log 2>&1 || { echo "$LABEL APPLY-FAILED"; git -C /repo worktree remove --force $WT; exit 1; }
( cd $WT && go build ./... ) > $OUT/build.log 2>&1; B=$?
S=-
# RECHECK=1: the change was confirmed before; only re-run the static checks
[ -n "${RECHECK:-}" ] || { ( cd $WT && go test -vet=off -count=1 ./... ) > $OUT/suite.log 2>&1; S=$?; }
DC=-; DP=-
if [ -z "${RECHECK:-}" ] && [ -f $SEED/run.sh ]; then
  ( cd $SEED && bash ./run.sh /repo ) > $OUT/demo_clean.log 2>&1; DC=$?
  ( cd $SEED && bash ./run.sh $WT ) > $OUT/demo_patched.log 2>&1; DP=$?
fi
( cd $WT && git checkout -q -- testdata 2>/dev/null )
CAUGHT=""
BC=${BEBOPCHECK:-/verif/bin/bebopcheck}
$BC multi $(echo $CHECKS | tr ' ' ',') --tier quick --repo $WT --verif $SV > $OUT/checks.log 2>&1
for c in $CHECKS; do
  e=$(grep "^RESULT $c " $OUT/checks.log | sed 's/.*exit=//')
  if [ "$e" = "1" ]; then CAUGHT="$CAUGHT $c"; elif [ "$e" = "2" ]; then CAUGHT="$CAUGHT $c(undecided)"; elif [ -z "$e" ]; then CAUGHT="$CAUGHT $c(crash)"; fi
done
echo "$LABEL build=$B suite=$S demo_clean=$DC demo_patched=$DP caught:[$CAUGHT ]"
git -C /repo worktree remove --force $WT
rm -rf $SV
