#!/usr/bin/env python3
"""Assemble /verif/seeded/BENIGN_<area>_<k>/ from the refactoring agents' output.
usage: assemble_benign.py <first-run log with suite results> <final log>"""
import json, os, re, shutil, subprocess, sys
first, final = sys.argv[1], sys.argv[2]
# optional: label prefix in the logs, source directory, name prefix of the kept directories
PFX = sys.argv[3] if len(sys.argv) > 3 else 'B'
SRC = sys.argv[4] if len(sys.argv) > 4 else '/tmp/benign'
DST = sys.argv[5] if len(sys.argv) > 5 else 'BENIGN' 
def parse(path):
    out = {}
    for line in open(path):
        m = re.match(PFX + r'_(\w+)_(\d) build=(\d+) suite=(\S+) alarms:\[(.*)\]', line.strip())
        if m:
            out[(m.group(1), m.group(2))] = dict(build=int(m.group(3)), suite=m.group(4), alarms=m.group(5).split())
    return out
a, b = parse(first), parse(final)
head = subprocess.check_output(['git', '-C', '/repo', 'log', '--format=%h', '-1']).decode().strip()
rows = []
for (area, k), fin in sorted(b.items()):
    src = f'{SRC}/{area}/out/{k}'
    if not os.path.isdir(src):
        continue
    fr = a.get((area, k), {})
    dst = f'/verif/seeded/{DST}_{area}_{k}'
    os.makedirs(dst, exist_ok=True)
    shutil.copy(os.path.join(src, 'patch.diff'), os.path.join(dst, 'patch.diff'))
    agent = {}
    try:
        agent = json.load(open(os.path.join(src, 'meta.json')))
    except Exception:
        pass
    meta = {
        'id': f'{DST}_{area}_{k}',
        'kind': 'negative control: behaviour-preserving refactoring, no check may report',
        'area': area,
        'summary': agent.get('summary', ''),
        'kind_of_refactoring': agent.get('kind_of_refactoring', ''),
        'why_behaviour_is_preserved': agent.get('why_behaviour_is_preserved', ''),
        'how_the_author_verified': agent.get('how_verified', []),
        'written_by': 'independent sub-agent given the area, the properties that must keep holding and a scratch worktree; nothing from /verif',
        'confirmed_against_repo_commit': head,
        'what_i_ran': ['tools/try_benign.sh: scratch worktree of /repo HEAD, git apply, go build ./... (ok), go test -vet=off -count=1 ./... (exit %s)' % fr.get('suite', '?'),
                       'bebopcheck multi <all 19 properties> --repo <worktree>'],
        'checks_not_exiting_0_at_first_run': fr.get('alarms', []),
        'checks_not_exiting_0_with_final_checker': fin['alarms'],
    }
    json.dump(meta, open(os.path.join(dst, 'meta.json'), 'w'), indent=1)
    rows.append(meta)
print('| id | first run | final | refactoring |')
print('|---|---|---|---|')
for m in rows:
    s = ' '.join(m['summary'].split())
    if len(s) > 140:
        s = s[:137] + '...'
    print('| %s | %s | %s | %s |' % (m['id'], ' '.join(m['checks_not_exiting_0_at_first_run']) or 'silent', ' '.join(m['checks_not_exiting_0_with_final_checker']) or 'silent', s.replace('|', '/')))
