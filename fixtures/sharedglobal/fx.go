// Package fx is the positive control of C14/R2c.
package fx

type tree struct {
	next  map[byte]*tree
	cache []string
}

func newTree() *tree { return &tree{next: map[byte]*tree{}} }

// built once, shared by every call
var sharedTree = newTree()

// valid fills a per-node cache the first time it is asked: a write to shared
// memory on a read path
func (t *tree) valid() []string {
	if t.cache == nil {
		for b := range t.next {
			t.cache = append(t.cache, string(b))
		}
	}
	return t.cache
}

// Lookup is the exported entry point through which valid is reached.
func Lookup(b byte) []string {
	if n := sharedTree.next[b]; n != nil {
		return n.valid()
	}
	return nil
}

type table struct{ names []string }

var readOnlyTable = &table{names: []string{"a"}}

func (t *table) has(s string) bool {
	for _, n := range t.names {
		if n == s {
			return true
		}
	}
	return false
}

// Has only reads the shared table.
func Has(s string) bool { return readOnlyTable.has(s) }
