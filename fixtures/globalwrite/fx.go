// Package fx is a positive control for rule C14/R2 (never part of /repo):
// every function but readonly, looked and builtOnce writes package-level state.
package fx

import "sync"

var table = map[string]int{}
var counter int
var memo sync.Map

func direct()      { table["x"] = 1 }
func aliased()     { t := table; t["y"] = 2 }
func deleted()     { delete(table, "x") }
func incremented() { counter++ }
func cached()      { memo.Store("k", 1) }
func looked() bool { _, ok := memo.Load("k"); return ok }
func readonly() int {
	local := map[string]int{}
	for k, v := range table {
		local[k] = v
	}
	return local["x"] + counter
}

var (
	once  sync.Once
	built map[string]int
)

// builtOnce initialises shared state once per process from nothing of the call
func builtOnce() map[string]int {
	once.Do(func() { built = map[string]int{"a": 1} })
	return built
}

// builtFromArg: what the first caller passes decides what every later caller sees
func builtFromArg(k string) map[string]int {
	once.Do(func() { built = map[string]int{k: 1} })
	return built
}
