// Package fx is the positive control of C13/R6: enumerating a map keyed by a
// one-byte index by counting.
package fx

type field struct{ name string }

// short stops one short of the index space: index 255 is never visited
func short(m map[uint8]field) []field {
	var out []field
	for num := uint8(1); num < 255 && len(out) < len(m); num++ {
		if f, ok := m[num]; ok {
			out = append(out, f)
		}
	}
	return out
}

// wide counts in an int up to and including 255: complete
func wide(m map[uint8]field) []field {
	var out []field
	for i := 1; i <= 255; i++ {
		if f, ok := m[uint8(i)]; ok {
			out = append(out, f)
		}
	}
	return out
}

// ranged is the usual way
func ranged(m map[uint8]field) []field {
	var out []field
	for _, f := range m {
		out = append(out, f)
	}
	return out
}
