// Package fx is the positive control of C11/R12 (never part of /repo): a
// scratch slice emptied with [:0] and what may and may not be done with it.
package fx

import "strings"

type item struct {
	tags []string
	text string
}

type holder struct{ last []string }

// keptInLiteral: every item ends up with the tags of the last one
func keptInLiteral(lines [][]string) []item {
	var out []item
	var tags []string
	for _, l := range lines {
		tags = append(tags, l...)
		out = append(out, item{tags: tags})
		tags = tags[:0]
	}
	return out
}

func keptInField(h *holder, lines [][]string) {
	var tags []string
	for _, l := range lines {
		tags = append(tags, l...)
		h.last = tags
		tags = tags[:0]
	}
}

func keptAsElement(lines [][]string) [][]string {
	var out [][]string
	var tags []string
	for _, l := range lines {
		tags = append(tags, l...)
		out = append(out, tags)
		tags = tags[:0]
	}
	return out
}

// joined copies the text out before the slice is re-used
func joined(lines [][]string) []item {
	var out []item
	var buf []string
	for _, l := range lines {
		buf = append(buf, l...)
		out = append(out, item{text: strings.Join(buf, "\n")})
		buf = buf[:0]
	}
	return out
}

// spread copies the elements
func spread(lines [][]string) []string {
	var out []string
	var buf []string
	for _, l := range lines {
		buf = append(buf, l...)
		out = append(out, buf...)
		buf = buf[:0]
	}
	return out
}

// fresh starts a new slice each round
func fresh(lines [][]string) []item {
	var out []item
	tags := []string{}
	for _, l := range lines {
		tags = append(tags, l...)
		out = append(out, item{tags: tags})
		tags = []string{}
	}
	return out
}
