// Package fx is the positive control of C11/R10 (never part of /repo): tables
// looked up with an input byte.
package fx

import "io"

type node struct{ next [128]*node }

type wide struct{ next [256]*node }

type lazy struct{ next *[256]*node }

type hashed struct{ next map[byte]*node }

var classes [64]bool

// masked files bytes 0x5B and 0xDB under one entry
func masked(n *node, b byte) *node { return n.next[b&127] }

// reduced does the same with a remainder
func reduced(n *node, b byte) *node { return n.next[b%128] }

// short may be handed program constants only (the table being built):
// undecided, not reported
func short(n *node, b byte) *node { return n.next[b] }

// shortRead panics on every input byte from 128 up
func shortRead(n *node, r io.ByteReader) *node {
	b, err := r.ReadByte()
	if err != nil {
		return nil
	}
	return n.next[b]
}

// maskedMap: a map does not save a masked key
func maskedMap(h *hashed, b byte) *node { return h.next[b&0x7f] }

// full tells all 256 values apart
func full(w *wide, b byte) *node { return w.next[b] }

func fullPtr(l *lazy, b byte) *node {
	if l.next == nil {
		return nil
	}
	return l.next[b]
}

func byMap(h *hashed, b byte) *node { return h.next[b] }

// guardedShort is a range-compacted table: undecided, not reported
func guardedShort(b byte) bool {
	if b < 32 || b >= 96 {
		return false
	}
	return classes[b-32]
}

// lowNibble translates, it does not classify
func lowNibble(b byte) byte {
	var digits = [16]byte{'0', '1', '2', '3', '4', '5', '6', '7', '8', '9', 'a', 'b', 'c', 'd', 'e', 'f'}
	return digits[b&0xf]
}
