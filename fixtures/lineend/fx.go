// Package fx is the positive control of C11/R11 (never part of /repo): ways of
// cutting the line break off a line of text.
package fx

import (
	"bytes"
	"strings"
)

// lfOnly leaves the carriage return of a CRLF line in place
func lfOnly(s string) string { return strings.Trim(s, "\n") }

func lfSuffix(b []byte) []byte { return bytes.TrimSuffix(b, []byte("\n")) }

func both(s string) string { return strings.Trim(s, "\r\n") }

func twoSteps(s string) string {
	s = strings.TrimSuffix(s, "\n")
	return strings.TrimSuffix(s, "\r")
}

func spaces(s string) string { return strings.Trim(s, " \t") }
