// Package fx is the positive control of C14/R3b: methods with a by-value
// receiver that write through storage shared with the caller's value.
package fx

import "sort"

type T struct {
	Items []int
	Names []string
}

func keep(int) bool { return true }

// the in-place filter idiom: appends within the caller's capacity
func (t T) filterInPlace() []int {
	out := t.Items[:0]
	for _, v := range t.Items {
		if keep(v) {
			out = append(out, v)
		}
	}
	return out
}

func (t T) store() { t.Items[0] = 1 }

func (t T) sortInPlace() {
	names := t.Names
	sort.Strings(names)
}

func (t T) appendReslice() []int { return append(t.Items[:1], 2) }

func (t T) copyInto(src []int) { copy(t.Items, src) }

// not reported: a fresh copy is written
func (t T) fresh() []int {
	out := append([]int{}, t.Items...)
	out[0] = 1
	sort.Ints(out)
	return out
}

// not reported: capacity clipped, append reallocates
func (t T) clipped() []int {
	out := t.Items[:len(t.Items):len(t.Items)]
	out = append(out, 1)
	return out
}

func (t T) readOnly() int {
	items := t.Items
	n := 0
	for _, v := range items {
		n += v
	}
	return n
}

// the in-place filter on a slice parameter: overwrites the caller's elements
func dedupe(items []string) []string {
	out := items[:0]
	for _, it := range items {
		if it != "" {
			out = append(out, it)
		}
	}
	return out
}
