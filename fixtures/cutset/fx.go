// Package fx is the positive control of C12/R4 (never part of /repo): the
// second argument of Trim, TrimLeft and TrimRight is a set of characters.
package fx

import (
	"bytes"
	"strings"
)

// bare strips "Data" off "DataPoint" too when the package is gameData
func bare(typename, namespace string) string { return strings.TrimLeft(typename, namespace+".") }

func bareBytes(b []byte, ns string) []byte { return bytes.TrimLeft(b, ns) }

func quotes(s string) string { return strings.Trim(s, "\"") }

func prefix(typename, namespace string) string { return strings.TrimPrefix(typename, namespace+".") }
