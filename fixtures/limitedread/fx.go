// Package fx is the positive control of C11/R6: each function uses a bufio
// primitive that fails or truncates on input longer than the buffer.
package fx

import (
	"bufio"
	"io"
)

func slice(r *bufio.Reader) ([]byte, error) { return r.ReadSlice('\n') }

func line(r *bufio.Reader) ([]byte, bool, error) { return r.ReadLine() }

func peek(r *bufio.Reader, n int) ([]byte, error) { return r.Peek(n) }

func scanner(r io.Reader) *bufio.Scanner { return bufio.NewScanner(r) }

// unlimited is fine: ReadBytes grows its result as needed
func unlimited(r *bufio.Reader) ([]byte, error) { return r.ReadBytes('\n') }
