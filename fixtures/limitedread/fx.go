// Package fx is the positive control of C11/R6: each function uses a bufio
// primitive that fails or truncates on input longer than the buffer.
package fx

import (
	"bufio"
	"io"
)

func slice(r *bufio.Reader) ([]byte, error) { return r.ReadSlice('\n') }

func line(r *bufio.Reader) ([]byte, bool, error) { return r.ReadLine() }

func peek(r *bufio.Reader, n int) ([]byte, error) { return r.Peek(n) }

func scanner(r io.Reader) *bufio.Scanner { return bufio.NewScanner(r) }

// unlimited is fine: ReadBytes grows its result as needed
func unlimited(r *bufio.Reader) ([]byte, error) { return r.ReadBytes('\n') }

// buffered takes "nothing buffered" for the end of the input
func buffered(r *bufio.Reader) bool { return r.Buffered() == 0 }

// chunkedKept reads a long line in pieces but keeps the first piece, a view of
// the reader's buffer, while reading on
func chunkedKept(r *bufio.Reader) ([]byte, error) {
	line, err := r.ReadSlice('\n')
	for err == bufio.ErrBufferFull {
		var more []byte
		more, err = r.ReadSlice('\n')
		line = append(line, more...)
	}
	return append([]byte{}, line...), err
}

// chunkedCopied copies every piece before reading on
func chunkedCopied(r *bufio.Reader) ([]byte, error) {
	var line []byte
	piece, err := r.ReadSlice('\n')
	line = append(line, piece...)
	for err == bufio.ErrBufferFull {
		piece, err = r.ReadSlice('\n')
		line = append(line, piece...)
	}
	return line, err
}

type tok struct{ text []byte }

// stored keeps the view in a field
func stored(r *bufio.Reader, t *tok) error {
	piece, err := r.ReadSlice('\n')
	for err == bufio.ErrBufferFull {
		piece, err = r.ReadSlice('\n')
	}
	t.text = piece
	return err
}

// peekFirst only looks at the view
func peekFirst(r *bufio.Reader) (byte, error) {
	p, err := r.Peek(1)
	if err != nil {
		return 0, err
	}
	return p[0], nil
}
