// Package fx is the positive control of C14/R2d (never part of /repo): values
// that carry a slice and live in package-level storage.
package fx

import "bytes"

type tok struct {
	kind int
	text []byte
}

type reader struct{ next tok }

var ready = map[string]tok{
	"enum":   {kind: 1, text: []byte("enum")},
	"struct": {kind: 2, text: []byte("struct")},
}

// lookup hands every caller the same backing array
func lookup(s string) (tok, bool) {
	t, ok := ready[s]
	return t, ok
}

func viaLocal(s string) tok {
	t := ready[s]
	u := t
	return u
}

func intoState(r *reader, s string) { r.next = ready[s] }

// kindOf reads a component that carries no slice
func kindOf(s string) int { return ready[s].kind }

// cloned copies the bytes out
func cloned(s string) tok {
	t := ready[s]
	return tok{kind: t.kind, text: append([]byte(nil), t.text...)}
}

func measured(s string) int { return len(ready[s].text) }

var terminator = []byte("*/")

// searched only reads the shared slice
func searched(b []byte) bool { return bytes.HasSuffix(b, terminator) }
