// Development-time calibration only (never part of a registered check):
// dumps, for every testdata schema, the parsed File as JSON and the real
// generator's output under several option sets, so that the static
// evaluator (internal/geneval) can be compared against them byte for byte.
package main

import (
	"bytes"
	"encoding/json"
	"fmt"
	"os"
	"path/filepath"
	"strings"

	"github.com/200sc/bebop"
)

func main() {
	out := os.Args[1]
	os.MkdirAll(out, 0o755)
	var files []string
	for _, pat := range os.Args[2:] {
		m, _ := filepath.Glob(pat)
		files = append(files, m...)
	}
	n := 0
	for _, path := range files {
		f, err := os.Open(path)
		if err != nil {
			continue
		}
		bf, _, err := bebop.ReadFile(f)
		f.Close()
		if err != nil || len(bf.Imports) != 0 {
			continue
		}
		name := strings.TrimSuffix(filepath.Base(path), ".bop")
		js, _ := json.Marshal(bf)
		os.WriteFile(filepath.Join(out, name+".json"), js, 0o644)
		for i := 0; i < 32; i++ {
			gs := bebop.GenerateSettings{PackageName: "gen", GenerateUnsafeMethods: i&1 != 0, SharedMemoryStrings: i&2 != 0, GenerateFieldTags: i&4 != 0, PrivateDefinitions: i&8 != 0, AlwaysUsePointerReceivers: i&16 != 0}
			var buf bytes.Buffer
			err := bf.Generate(&buf, gs)
			es := ""
			if err != nil {
				es = err.Error()
			}
			os.WriteFile(filepath.Join(out, fmt.Sprintf("%s.%d.go.txt", name, i)), buf.Bytes(), 0o644)
			os.WriteFile(filepath.Join(out, fmt.Sprintf("%s.%d.err.txt", name, i)), []byte(es), 0o644)
			n++
		}
	}
	fmt.Println("dumped", n)
}
