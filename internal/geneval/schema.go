package geneval

import (
	"fmt"
	"go/types"
	"strconv"

	"bebopverif/internal/load"
)

// Shape is an abstract bebop field type.
type Shape struct {
	Simple string
	Array  *Shape
	Key    string // map key (Map != nil)
	Map    *Shape // map value
}

func (s Shape) String() string {
	switch {
	case s.Array != nil:
		return s.Array.String() + "[]"
	case s.Map != nil:
		return "map[" + s.Key + "," + s.Map.String() + "]"
	}
	return s.Simple
}

func (s Shape) Depth() int {
	switch {
	case s.Array != nil:
		return 1 + s.Array.Depth()
	case s.Map != nil:
		return 1 + s.Map.Depth()
	}
	return 0
}

// Leaf returns the innermost simple type.
func (s Shape) Leaf() string {
	switch {
	case s.Array != nil:
		return s.Array.Leaf()
	case s.Map != nil:
		return s.Map.Leaf()
	}
	return s.Simple
}

func Arr(s Shape) Shape             { return Shape{Array: &s} }
func MapOf(k string, v Shape) Shape { return Shape{Key: k, Map: &v} }
func Simple(n string) Shape         { return Shape{Simple: n} }

type Builder struct {
	In  *Interp
	pkg *types.Package
}

func NewBuilder(in *Interp) (*Builder, error) {
	p := in.P.Bebop()
	if p == nil {
		return nil, fmt.Errorf("package %s not loaded", load.Mod)
	}
	return &Builder{In: in, pkg: p.Types}, nil
}

func (b *Builder) typ(name string) types.Type {
	o := b.pkg.Scope().Lookup(name)
	if o == nil {
		panic(evalErr("type bebop.%s not found (anchor moved)", name))
	}
	return o.Type()
}

func (b *Builder) New(name string) *StructV { return zero(b.typ(name)).(*StructV) }

func Strs(ss ...string) Value { return fromStrSlice(ss) }

func List(vs ...Value) Value {
	s := &SliceV{}
	for _, v := range vs {
		s.E = append(s.E, &Cell{V: v})
	}
	return s
}

func (b *Builder) FieldType(s Shape) *StructV {
	ft := b.New("FieldType")
	switch {
	case s.Array != nil:
		ft.Set("Array", &Ptr{C: &Cell{V: b.FieldType(*s.Array)}})
	case s.Map != nil:
		mt := b.New("MapType")
		mt.Set("Key", s.Key)
		mt.Set("Value", b.FieldType(*s.Map))
		ft.Set("Map", &Ptr{C: &Cell{V: mt}})
	default:
		ft.Set("Simple", s.Simple)
	}
	return ft
}

type FieldSpec struct {
	Name       string
	Shape      Shape
	Deprecated bool
	Comment    string
	Tags       []TagSpec
}

type TagSpec struct {
	Key, Value string
	Boolean    bool
}

func (b *Builder) Field(f FieldSpec) *StructV {
	fd := b.New("Field")
	fd.Set("FieldType", b.FieldType(f.Shape))
	fd.Set("Name", f.Name)
	fd.Set("Comment", f.Comment)
	fd.Set("Deprecated", f.Deprecated)
	if f.Deprecated {
		fd.Set("DeprecatedMessage", "old")
	}
	if len(f.Tags) > 0 {
		var ts []Value
		for _, t := range f.Tags {
			tv := b.New("Tag")
			tv.Set("Key", t.Key).Set("Value", t.Value).Set("Boolean", t.Boolean)
			ts = append(ts, tv)
		}
		fd.Set("Tags", List(ts...))
	}
	return fd
}

func (b *Builder) Struct(name string, readonly bool, opcode int64, fields ...FieldSpec) *StructV {
	st := b.New("Struct")
	st.Set("Name", name).Set("ReadOnly", readonly).Set("OpCode", opcode)
	var fs []Value
	for _, f := range fields {
		fs = append(fs, b.Field(f))
	}
	if len(fs) > 0 {
		st.Set("Fields", List(fs...))
	}
	return st
}

type NumField struct {
	Num int
	FieldSpec
}

func (b *Builder) Message(name string, opcode int64, fields ...NumField) *StructV {
	m := b.New("Message")
	m.Set("Name", name).Set("OpCode", opcode)
	mv := &MapV{M: map[interface{}]*Cell{}}
	for _, f := range fields {
		mv.M[int64(f.Num)] = &Cell{V: b.Field(f.FieldSpec)}
	}
	m.Set("Fields", mv)
	return m
}

type Branch struct {
	Num     int
	Struct  *StructV
	Message *StructV
}

func (b *Builder) Union(name string, opcode int64, branches ...Branch) *StructV {
	u := b.New("Union")
	u.Set("Name", name).Set("OpCode", opcode)
	mv := &MapV{M: map[interface{}]*Cell{}}
	for _, br := range branches {
		uf := b.New("UnionField")
		if br.Struct != nil {
			uf.Set("Struct", &Ptr{C: &Cell{V: br.Struct}})
		}
		if br.Message != nil {
			uf.Set("Message", &Ptr{C: &Cell{V: br.Message}})
		}
		mv.M[int64(br.Num)] = &Cell{V: uf}
	}
	u.Set("Fields", mv)
	return u
}

type OptSpec struct {
	Name       string
	Value      int64
	UintValue  uint64
	Deprecated bool
}

func (b *Builder) Enum(name, simple string, unsigned bool, opts ...OptSpec) *StructV {
	e := b.New("Enum")
	e.Set("Name", name).Set("SimpleType", simple).Set("Unsigned", unsigned)
	var os []Value
	for _, o := range opts {
		ov := b.New("EnumOption")
		ov.Set("Name", o.Name).Set("Value", o.Value).Set("UintValue", U64(o.UintValue)).Set("Deprecated", o.Deprecated)
		if o.Deprecated {
			ov.Set("DeprecatedMessage", "no longer\nused")
		}
		os = append(os, ov)
	}
	if len(os) > 0 {
		e.Set("Options", List(os...))
	}
	return e
}

func (b *Builder) Const(typ, name, value string) *StructV {
	c := b.New("Const")
	c.Set("SimpleType", typ).Set("Name", name).Set("Value", value)
	return c
}

type FileSpec struct {
	GoPackage string
	Structs   []Value
	Messages  []Value
	Enums     []Value
	Unions    []Value
	Consts    []Value
}

func (b *Builder) File(fs FileSpec) *StructV {
	f := b.New("File")
	f.Set("GoPackage", fs.GoPackage)
	set := func(name string, vs []Value) {
		if len(vs) > 0 {
			f.Set(name, List(vs...))
		}
	}
	set("Structs", fs.Structs)
	set("Messages", fs.Messages)
	set("Enums", fs.Enums)
	set("Unions", fs.Unions)
	set("Consts", fs.Consts)
	return f
}

// Options are the five public generator options plus the package name.
type Options struct {
	Unsafe, SharedMem, Tags, Private, PtrRecv bool
	Package                                   string
	Combined                                  bool
}

func (o Options) String() string {
	s := ""
	for _, p := range []struct {
		b bool
		c string
	}{{o.Unsafe, "U"}, {o.SharedMem, "S"}, {o.Tags, "T"}, {o.Private, "P"}, {o.PtrRecv, "R"}} {
		if p.b {
			s += p.c
		} else {
			s += "-"
		}
	}
	return s
}

func AllOptions() []Options {
	var out []Options
	for i := 0; i < 32; i++ {
		out = append(out, Options{Unsafe: i&1 != 0, SharedMem: i&2 != 0, Tags: i&4 != 0, Private: i&8 != 0, PtrRecv: i&16 != 0, Package: "gen"})
	}
	return out
}

func (b *Builder) Settings(o Options) *StructV {
	s := b.New("GenerateSettings")
	s.Set("PackageName", o.Package)
	s.Set("GenerateUnsafeMethods", o.Unsafe)
	s.Set("SharedMemoryStrings", o.SharedMem)
	s.Set("GenerateFieldTags", o.Tags)
	s.Set("PrivateDefinitions", o.Private)
	s.Set("AlwaysUsePointerReceivers", o.PtrRecv)
	if o.Combined {
		s.Set("ImportGenerationMode", int64(1))
	}
	return s
}

// GenerateFile folds File.Generate over the abstract file and returns the text
// the generator would emit, plus the generator's own error result (as text).
func (b *Builder) GenerateFile(f *StructV, o Options) (text string, genErr string, err error) {
	fn := b.In.P.Func(b.In.P.Bebop(), "File.Generate")
	if fn == nil {
		return "", "", fmt.Errorf("File.Generate not found")
	}
	buf := &Buf{}
	res, err := b.In.Call(fn, f, buf, b.Settings(o))
	if err != nil {
		return buf.B.String(), "", err
	}
	if len(res) == 1 && res[0] != nil {
		if e, ok := res[0].(*ErrV); ok {
			genErr = e.Msg
		} else {
			genErr = fmt.Sprint(res[0])
		}
	}
	return buf.B.String(), genErr, nil
}

// FromJSON converts decoded JSON (encoding/json of a bebop.File) to a value of
// type t; used only by the development-time calibration command.
func (b *Builder) FromJSON(t types.Type, j interface{}) Value {
	switch u := t.Underlying().(type) {
	case *types.Basic:
		switch {
		case u.Info()&types.IsString != 0:
			s, _ := j.(string)
			return s
		case u.Info()&types.IsBoolean != 0:
			v, _ := j.(bool)
			return v
		case u.Info()&types.IsInteger != 0:
			switch x := j.(type) {
			case float64:
				return int64(x)
			case string:
				n, _ := strconv.ParseInt(x, 10, 64)
				return n
			}
			return int64(0)
		}
	case *types.Struct:
		m, _ := j.(map[string]interface{})
		s := zero(t).(*StructV)
		for i := 0; i < u.NumFields(); i++ {
			f := u.Field(i)
			if f.Embedded() {
				s.F[i].V = b.FromJSON(f.Type(), j)
				continue
			}
			if v, ok := m[f.Name()]; ok {
				s.F[i].V = b.FromJSON(f.Type(), v)
			}
		}
		return s
	case *types.Pointer:
		if j == nil {
			return nil
		}
		return &Ptr{C: &Cell{V: b.FromJSON(u.Elem(), j)}}
	case *types.Slice:
		l, ok := j.([]interface{})
		if !ok {
			return nil
		}
		s := &SliceV{}
		for _, e := range l {
			s.E = append(s.E, &Cell{V: b.FromJSON(u.Elem(), e)})
		}
		return s
	case *types.Map:
		m, ok := j.(map[string]interface{})
		if !ok {
			return nil
		}
		mv := &MapV{M: map[interface{}]*Cell{}}
		for k, v := range m {
			mv.M[mapKey(b.FromJSON(u.Key(), k))] = &Cell{V: b.FromJSON(u.Elem(), v)}
		}
		return mv
	}
	return nil
}

func (b *Builder) FileFromJSON(j interface{}) *StructV {
	return b.FromJSON(b.typ("File"), j).(*StructV)
}
