package geneval

import (
	"fmt"
	"go/ast"
	"go/constant"
	"go/token"
	"go/types"
	"strings"

	"bebopverif/internal/load"

	"golang.org/x/tools/go/packages"
)

type Interp struct {
	P       *load.Prog
	globals map[types.Object]*Cell
	Fuel    int
	lits    map[*ast.FuncLit]*packages.Package
	// VFS is the virtual file system behind os.Open/ReadFile: absolute path ->
	// abstract File value. The parser is never evaluated: an imported file is
	// whatever abstract schema the checker placed at that path.
	VFS map[string]*StructV
	// Opened records every path the generator tried to open, in order.
	Opened []string
	// ReverseMaps makes `range` over a map visit the keys in descending
	// instead of ascending order: two folds that differ only in this flag
	// expose any dependence of the result on map iteration order.
	ReverseMaps bool
}

func New(p *load.Prog) *Interp {
	return &Interp{P: p, globals: map[types.Object]*Cell{}, Fuel: 50_000_000}
}

type frame struct {
	vars   map[types.Object]*Cell
	parent *frame
	pkg    *packages.Package
	ret    []Value
	named  []*Cell
	// labelled control flow: the label a pending break/continue names, and the
	// label of the statement about to be entered
	branchLabel string
	nextLabel   string
	// deferred calls of the function this frame belongs to, in order of the
	// defer statements (run last-in first-out when the function returns)
	defers []func()
}

func (f *frame) lookup(o types.Object) *Cell {
	for fr := f; fr != nil; fr = fr.parent {
		if c, ok := fr.vars[o]; ok {
			return c
		}
	}
	return nil
}

type FuncV struct {
	Obj  *types.Func
	Lit  *ast.FuncLit
	Env  *frame
	Recv Value
	Has  bool // has bound receiver
}

type ctl int

const (
	ctlNone ctl = iota
	ctlBreak
	ctlContinue
	ctlReturn
	ctlFallthrough
)

// Call evaluates function f on args. Evaluation errors (constructs outside
// the supported subset, unresolved anchors) are returned, never guessed.
func (in *Interp) Call(f *types.Func, recv Value, args ...Value) (res []Value, err error) {
	defer func() {
		if r := recover(); r != nil {
			if ee, ok := r.(evalError); ok {
				err = ee
				return
			}
			panic(r)
		}
	}()
	fv := &FuncV{Obj: f, Recv: recv, Has: recv != nil}
	return in.apply(fv, args, token.NoPos), nil
}

func (in *Interp) pos(p token.Pos) string { return in.P.Pos(p) }

func (in *Interp) burn(n ast.Node) {
	in.Fuel--
	if in.Fuel < 0 {
		panic(evalErr("evaluation fuel exhausted at %s (non-terminating generator loop?)", in.pos(n.Pos())))
	}
}

func (in *Interp) apply(fv *FuncV, args []Value, at token.Pos) []Value {
	if fv.Lit != nil {
		fr := &frame{vars: map[types.Object]*Cell{}, parent: fv.Env, pkg: fv.Env.pkg}
		in.bindParams(fr, fv.Lit.Type, nil, nil, args, fr.pkg.TypesInfo)
		in.execBlock(fr, fv.Lit.Body)
		in.runDefers(fr)
		return fr.results()
	}
	decl := in.P.Decl(fv.Obj)
	if decl == nil && fv.Obj != nil && fv.Obj.Origin() != fv.Obj && in.P.Decl(fv.Obj.Origin()) != nil {
		// a method of an instantiated generic type, or an instantiated generic
		// function: the declaration is the origin's (values carry no types, so
		// the body runs as written)
		fv = &FuncV{Obj: fv.Obj.Origin(), Recv: fv.Recv, Has: fv.Has, Lit: fv.Lit, Env: fv.Env}
		decl = in.P.Decl(fv.Obj)
	}
	if decl == nil && fv.Has {
		// a method of an interface (or of a type parameter's constraint): the
		// receiver's dynamic type decides which declaration runs
		if sig, ok := fv.Obj.Type().(*types.Signature); ok && sig.Recv() != nil {
			if _, isIface := sig.Recv().Type().Underlying().(*types.Interface); isIface {
				if conc := dynamicMethod(fv.Recv, fv.Obj); conc != nil && in.P.Decl(conc) != nil {
					return in.apply(&FuncV{Obj: conc, Recv: fv.Recv, Has: true}, args, at)
				}
			}
		}
	}
	if decl == nil || decl.Body == nil {
		return in.native(fv, args, at)
	}
	if decl.Recv != nil && !fv.Has && len(args) > 0 {
		// a method expression: the receiver travels as the first argument
		fv = &FuncV{Obj: fv.Obj, Recv: args[0], Has: true}
		args = args[1:]
	}
	pkg := in.P.Owner(fv.Obj)
	if fv.Obj.Name() == "ReadFile" && pkg == in.P.Bebop() && len(args) == 1 {
		// reading an imported schema: served from the virtual file system
		if f, ok := args[0].(*VFile); ok {
			return []Value{copyVal(f.File), nil, nil}
		}
		panic(evalErr("ReadFile on something that is not a virtual file"))
	}
	fr := &frame{vars: map[types.Object]*Cell{}, pkg: pkg}
	in.bindParams(fr, decl.Type, decl.Recv, fv.Recv, args, pkg.TypesInfo)
	in.execBlock(fr, decl.Body)
	in.runDefers(fr)
	return fr.results()
}

func (in *Interp) runDefers(fr *frame) {
	for i := len(fr.defers) - 1; i >= 0; i-- {
		fr.defers[i]()
	}
	fr.defers = nil
}

func (fr *frame) results() []Value {
	if fr.ret != nil {
		return fr.ret
	}
	if fr.named != nil {
		out := make([]Value, len(fr.named))
		for i, c := range fr.named {
			out[i] = c.V
		}
		return out
	}
	return nil
}

func (in *Interp) bindParams(fr *frame, ft *ast.FuncType, recvList *ast.FieldList, recv Value, args []Value, info *types.Info) {
	if recvList != nil && len(recvList.List) == 1 {
		rf := recvList.List[0]
		if len(rf.Names) == 1 && rf.Names[0].Name != "_" {
			obj := info.Defs[rf.Names[0]]
			v := recv
			if _, isPtr := obj.Type().(*types.Pointer); !isPtr {
				if p, ok := v.(*Ptr); ok {
					v = p.C.V
				}
				v = copyVal(v)
			}
			fr.vars[obj] = &Cell{V: v}
		}
	}
	i := 0
	if ft.Params != nil {
		n := 0
		for _, f := range ft.Params.List {
			if len(f.Names) == 0 {
				n++
			} else {
				n += len(f.Names)
			}
		}
		for _, f := range ft.Params.List {
			_, variadic := f.Type.(*ast.Ellipsis)
			names := f.Names
			if len(names) == 0 {
				i++
				continue
			}
			for _, nm := range names {
				var v Value
				if variadic {
					s := &SliceV{}
					for ; i < len(args); i++ {
						s.E = append(s.E, &Cell{V: copyVal(args[i])})
					}
					if len(args) == n && n > 0 {
						// caller may have passed a spread slice; handled by caller
					}
					v = s
				} else {
					if i >= len(args) {
						panic(evalErr("too few arguments in call"))
					}
					v = copyVal(args[i])
					i++
				}
				if nm.Name != "_" {
					fr.vars[info.Defs[nm]] = &Cell{V: v}
				}
			}
		}
	}
	if ft.Results != nil {
		anyNamed := false
		for _, f := range ft.Results.List {
			if len(f.Names) > 0 {
				anyNamed = true
			}
		}
		if anyNamed {
			for _, f := range ft.Results.List {
				for _, nm := range f.Names {
					c := &Cell{V: zero(info.TypeOf(f.Type))}
					if nm.Name != "_" {
						fr.vars[info.Defs[nm]] = c
					}
					fr.named = append(fr.named, c)
				}
			}
		}
	}
}

// ---- statements -----------------------------------------------------------

func (in *Interp) execBlock(fr *frame, b *ast.BlockStmt) ctl {
	for _, s := range b.List {
		if c := in.exec(fr, s); c != ctlNone {
			return c
		}
	}
	return ctlNone
}

func (in *Interp) exec(fr *frame, s ast.Stmt) ctl {
	in.burn(s)
	info := fr.pkg.TypesInfo
	switch s := s.(type) {
	case *ast.BlockStmt:
		return in.execBlock(fr, s)
	case *ast.ExprStmt:
		in.eval(fr, s.X)
		return ctlNone
	case *ast.DeclStmt:
		gd, ok := s.Decl.(*ast.GenDecl)
		if !ok {
			panic(evalErr("unsupported declaration at %s", in.pos(s.Pos())))
		}
		for _, sp := range gd.Specs {
			switch sp := sp.(type) {
			case *ast.ValueSpec:
				for i, nm := range sp.Names {
					var v Value
					if i < len(sp.Values) {
						v = copyVal(in.eval1(fr, sp.Values[i]))
					} else {
						v = zero(info.Defs[nm].Type())
					}
					if nm.Name != "_" {
						fr.vars[info.Defs[nm]] = &Cell{V: v}
					}
				}
			case *ast.TypeSpec:
				// local type declaration: nothing to evaluate
			}
		}
		return ctlNone
	case *ast.AssignStmt:
		in.assign(fr, s)
		return ctlNone
	case *ast.IncDecStmt:
		c := in.lvalue(fr, s.X)
		n, ok := c.get().(int64)
		if !ok {
			panic(evalErr("inc/dec of non-integer at %s", in.pos(s.Pos())))
		}
		if s.Tok == token.INC {
			c.set(wrapInt(n+1, info.TypeOf(s.X)))
		} else {
			c.set(wrapInt(n-1, info.TypeOf(s.X)))
		}
		return ctlNone
	case *ast.ReturnStmt:
		if len(s.Results) == 0 {
			return ctlReturn
		}
		var out []Value
		if len(s.Results) == 1 {
			v := in.eval(fr, s.Results[0])
			if t, ok := v.(Tuple); ok {
				out = []Value(t)
			} else {
				out = []Value{copyVal(v)}
			}
		} else {
			for _, r := range s.Results {
				out = append(out, copyVal(in.eval1(fr, r)))
			}
		}
		fr.ret = out
		if fr.named != nil {
			for i := range fr.named {
				if i < len(out) {
					fr.named[i].V = out[i]
				}
			}
		}
		return ctlReturn
	case *ast.IfStmt:
		if s.Init != nil {
			in.exec(fr, s.Init)
		}
		if in.evalBool(fr, s.Cond) {
			return in.execBlock(fr, s.Body)
		} else if s.Else != nil {
			return in.exec(fr, s.Else)
		}
		return ctlNone
	case *ast.LabeledStmt:
		fr.nextLabel = s.Label.Name
		c := in.exec(fr, s.Stmt)
		fr.nextLabel = ""
		return c
	case *ast.ForStmt:
		myLabel := fr.nextLabel
		fr.nextLabel = ""
		if s.Init != nil {
			in.exec(fr, s.Init)
		}
		for {
			in.burn(s)
			if s.Cond != nil && !in.evalBool(fr, s.Cond) {
				break
			}
			c := in.execBlock(fr, s.Body)
			if (c == ctlBreak || c == ctlContinue) && fr.branchLabel != "" {
				if fr.branchLabel != myLabel {
					return c // aimed at an enclosing statement
				}
				fr.branchLabel = ""
			}
			if c == ctlBreak {
				break
			}
			if c == ctlReturn {
				return c
			}
			if s.Post != nil {
				in.exec(fr, s.Post)
			}
		}
		return ctlNone
	case *ast.RangeStmt:
		return in.execRange(fr, s)
	case *ast.SwitchStmt:
		return in.execSwitch(fr, s)
	case *ast.BranchStmt:
		if s.Label != nil {
			if s.Tok != token.BREAK && s.Tok != token.CONTINUE {
				panic(evalErr("goto unsupported at %s", in.pos(s.Pos())))
			}
			fr.branchLabel = s.Label.Name
		}
		switch s.Tok {
		case token.BREAK:
			return ctlBreak
		case token.CONTINUE:
			return ctlContinue
		case token.FALLTHROUGH:
			return ctlFallthrough
		}
	case *ast.EmptyStmt:
		return ctlNone
	case *ast.DeferStmt:
		// function value and arguments are evaluated now, the call is made when
		// the surrounding function returns
		call := s.Call
		if tv, ok := info.Types[call.Fun]; ok && tv.IsType() {
			return ctlNone
		}
		if id, ok := ast.Unparen(call.Fun).(*ast.Ident); ok {
			if b, isB := info.Uses[id].(*types.Builtin); isB {
				// delete(m, k), close… : operands of these are variables that do not
				// change before the function returns in the generator; evaluated at exit
				name := b.Name()
				if name != "delete" {
					panic(evalErr("deferred builtin %s unsupported at %s", name, in.pos(s.Pos())))
				}
				fr.defers = append(fr.defers, func() { in.builtin(fr, name, call) })
				return ctlNone
			}
		}
		fnv := in.eval1(fr, call.Fun)
		fv, ok := fnv.(*FuncV)
		if !ok {
			panic(evalErr("defer of non-function %T at %s", fnv, in.pos(s.Pos())))
		}
		var args []Value
		for _, a := range call.Args {
			args = append(args, in.eval1(fr, a))
		}
		pos := call.Pos()
		root := fr
		root.defers = append(root.defers, func() { in.apply(fv, args, pos) })
		return ctlNone
	}
	panic(evalErr("unsupported statement %T at %s", s, in.pos(s.Pos())))
}

func (in *Interp) execRange(fr *frame, s *ast.RangeStmt) ctl {
	info := fr.pkg.TypesInfo
	x := in.eval1(fr, s.X)
	bind := func(e ast.Expr, v Value) {
		if e == nil {
			return
		}
		if id, ok := e.(*ast.Ident); ok && id.Name == "_" {
			return
		}
		if s.Tok == token.DEFINE {
			id := e.(*ast.Ident)
			fr.vars[info.Defs[id]] = &Cell{V: copyVal(v)}
		} else {
			in.lvalue(fr, e).set(copyVal(v))
		}
	}
	myLabel := fr.nextLabel
	fr.nextLabel = ""
	body := func() (stop bool, c ctl) {
		in.burn(s)
		c = in.execBlock(fr, s.Body)
		if (c == ctlBreak || c == ctlContinue) && fr.branchLabel != "" {
			if fr.branchLabel != myLabel {
				return true, c // aimed at an enclosing statement
			}
			fr.branchLabel = ""
		}
		if c == ctlBreak {
			return true, ctlNone
		}
		if c == ctlReturn {
			return true, c
		}
		return false, ctlNone
	}
	switch xv := x.(type) {
	case nil:
		return ctlNone
	case *SliceV:
		n := len(xv.E)
		for i := 0; i < n; i++ {
			bind(s.Key, int64(i))
			bind(s.Value, xv.E[i].V)
			if stop, c := body(); stop {
				return c
			}
		}
	case *MapV:
		keys := xv.Keys()
		if in.ReverseMaps {
			for i, j := 0, len(keys)-1; i < j; i, j = i+1, j-1 {
				keys[i], keys[j] = keys[j], keys[i]
			}
		}
		for _, k := range keys {
			c, ok := xv.M[k]
			if !ok {
				continue
			}
			bind(s.Key, k)
			bind(s.Value, c.V)
			if stop, c := body(); stop {
				return c
			}
		}
	case []byte:
		n := len(xv)
		for i := 0; i < n; i++ {
			bind(s.Key, int64(i))
			bind(s.Value, int64(xv[i]))
			if stop, c := body(); stop {
				return c
			}
		}
	case string:
		for i, r := range xv {
			bind(s.Key, int64(i))
			bind(s.Value, int64(r))
			if stop, c := body(); stop {
				return c
			}
		}
	case int64:
		for i := int64(0); i < xv; i++ {
			bind(s.Key, i)
			if stop, c := body(); stop {
				return c
			}
		}
	default:
		panic(evalErr("range over %T unsupported at %s", x, in.pos(s.Pos())))
	}
	return ctlNone
}

func (in *Interp) execSwitch(fr *frame, s *ast.SwitchStmt) ctl {
	myLabel := fr.nextLabel
	fr.nextLabel = ""
	if s.Init != nil {
		in.exec(fr, s.Init)
	}
	var tag Value = true
	hasTag := s.Tag != nil
	if hasTag {
		tag = in.eval1(fr, s.Tag)
	}
	clauses := s.Body.List
	match := -1
	def := -1
	for i, c := range clauses {
		cc := c.(*ast.CaseClause)
		if cc.List == nil {
			def = i
			continue
		}
		for _, e := range cc.List {
			v := in.eval1(fr, e)
			if hasTag {
				if equal(tag, v) {
					match = i
				}
			} else if b, _ := v.(bool); b {
				match = i
			}
			if match >= 0 {
				break
			}
		}
		if match >= 0 {
			break
		}
	}
	if match < 0 {
		match = def
	}
	if match < 0 {
		return ctlNone
	}
	for i := match; i < len(clauses); i++ {
		cc := clauses[i].(*ast.CaseClause)
		var c ctl
		for _, st := range cc.Body {
			if c = in.exec(fr, st); c != ctlNone {
				break
			}
		}
		switch c {
		case ctlFallthrough:
			continue
		case ctlBreak:
			if fr.branchLabel != "" {
				if fr.branchLabel != myLabel {
					return c
				}
				fr.branchLabel = ""
			}
			return ctlNone
		default:
			return c
		}
	}
	return ctlNone
}

// ---- lvalues --------------------------------------------------------------

type lval struct {
	cell *Cell
	m    *MapV
	key  interface{}
	disc bool
	zero Value // what a missing map entry reads as
}

func (l lval) get() Value {
	if l.disc {
		return nil
	}
	if l.m != nil {
		if c, ok := l.m.M[l.key]; ok {
			return c.V
		}
		return l.zero
	}
	return l.cell.V
}
func (l lval) set(v Value) {
	if l.disc {
		return
	}
	if l.m != nil {
		l.m.M[l.key] = &Cell{V: v}
		return
	}
	l.cell.V = v
}

func (in *Interp) lvalue(fr *frame, e ast.Expr) lval {
	info := fr.pkg.TypesInfo
	switch e := ast.Unparen(e).(type) {
	case *ast.Ident:
		if e.Name == "_" {
			return lval{disc: true}
		}
		obj := info.ObjectOf(e)
		if c := fr.lookup(obj); c != nil {
			return lval{cell: c}
		}
		if c := in.global(obj); c != nil {
			return lval{cell: c}
		}
		panic(evalErr("unbound variable %s at %s", e.Name, in.pos(e.Pos())))
	case *ast.SelectorExpr:
		if sel, ok := info.Selections[e]; ok && sel.Kind() == types.FieldVal {
			base := in.lvalueOrValue(fr, e.X)
			return lval{cell: in.followFields(base, sel.Index(), e)}
		}
		obj := info.Uses[e.Sel]
		if c := in.global(obj); c != nil {
			return lval{cell: c}
		}
	case *ast.StarExpr:
		v := in.eval1(fr, e.X)
		p, ok := v.(*Ptr)
		if !ok {
			panic(evalErr("dereference of non-pointer at %s", in.pos(e.Pos())))
		}
		return lval{cell: p.C}
	case *ast.IndexExpr:
		x := in.eval1(fr, e.X)
		switch xv := x.(type) {
		case *SliceV:
			i := in.evalInt(fr, e.Index)
			if i < 0 || int(i) >= len(xv.E) {
				panic(evalErr("index out of range at %s", in.pos(e.Pos())))
			}
			return lval{cell: xv.E[i]}
		case *MapV:
			return lval{m: xv, key: mapKey(in.eval1(fr, e.Index)), zero: zero(info.TypeOf(e))}
		case nil:
			panic(evalErr("assignment to entry in nil map at %s", in.pos(e.Pos())))
		}
	}
	panic(evalErr("unsupported assignment target %T at %s", e, in.pos(e.Pos())))
}

// lvalueOrValue evaluates the base of a field selection, preferring the
// addressable cell so that field writes are visible.
func (in *Interp) lvalueOrValue(fr *frame, e ast.Expr) Value {
	switch x := ast.Unparen(e).(type) {
	case *ast.Ident, *ast.SelectorExpr, *ast.StarExpr, *ast.IndexExpr:
		_ = x
		defer func() {}()
		if lv, ok := in.tryLvalue(fr, e); ok {
			if lv.m != nil {
				return lv.get()
			}
			return lv.cell.V
		}
	}
	return in.eval1(fr, e)
}

func (in *Interp) tryLvalue(fr *frame, e ast.Expr) (lv lval, ok bool) {
	defer func() {
		if r := recover(); r != nil {
			if _, is := r.(evalError); is {
				ok = false
				return
			}
			panic(r)
		}
	}()
	// only expressions that denote variables
	info := fr.pkg.TypesInfo
	if tv, has := info.Types[e]; has && !tv.Addressable() {
		if _, isIdx := ast.Unparen(e).(*ast.IndexExpr); !isIdx {
			return lval{}, false
		}
	}
	return in.lvalue(fr, e), true
}

func (in *Interp) followFields(base Value, index []int, at ast.Node) *Cell {
	var cell *Cell
	cur := base
	for _, i := range index {
		if p, ok := cur.(*Ptr); ok {
			cur = p.C.V
		}
		s, ok := cur.(*StructV)
		if !ok {
			panic(evalErr("field selection on %T at %s", cur, in.pos(at.Pos())))
		}
		cell = s.F[i]
		cur = cell.V
	}
	return cell
}

func (in *Interp) global(obj types.Object) *Cell {
	v, ok := obj.(*types.Var)
	if !ok || v.Pkg() == nil || v.Parent() != v.Pkg().Scope() {
		return nil
	}
	if c, ok := in.globals[obj]; ok {
		return c
	}
	pkg := in.P.Pkgs[v.Pkg().Path()]
	if pkg == nil {
		c := &Cell{V: &Ext{Name: v.Pkg().Path() + "." + v.Name()}}
		in.globals[obj] = c
		return c
	}
	// find its initialiser
	for _, f := range pkg.Syntax {
		for _, d := range f.Decls {
			gd, ok := d.(*ast.GenDecl)
			if !ok || gd.Tok != token.VAR {
				continue
			}
			for _, sp := range gd.Specs {
				vs := sp.(*ast.ValueSpec)
				for i, nm := range vs.Names {
					if pkg.TypesInfo.Defs[nm] != obj {
						continue
					}
					c := &Cell{}
					in.globals[obj] = c
					if i < len(vs.Values) {
						fr := &frame{vars: map[types.Object]*Cell{}, pkg: pkg}
						c.V = in.eval1(fr, vs.Values[i])
					} else {
						c.V = zero(obj.Type())
					}
					return c
				}
			}
		}
	}
	return nil
}

func (in *Interp) assign(fr *frame, s *ast.AssignStmt) {
	info := fr.pkg.TypesInfo
	var rhs []Value
	if len(s.Rhs) == 1 && len(s.Lhs) > 1 {
		v := in.evalMulti(fr, s.Rhs[0], len(s.Lhs))
		rhs = v
	} else {
		for _, r := range s.Rhs {
			rhs = append(rhs, in.eval1(fr, r))
		}
	}
	if s.Tok != token.ASSIGN && s.Tok != token.DEFINE {
		// op-assign
		lv := in.lvalue(fr, s.Lhs[0])
		op := map[token.Token]token.Token{token.ADD_ASSIGN: token.ADD, token.SUB_ASSIGN: token.SUB, token.MUL_ASSIGN: token.MUL, token.OR_ASSIGN: token.OR, token.AND_ASSIGN: token.AND, token.QUO_ASSIGN: token.QUO}[s.Tok]
		if op == 0 {
			panic(evalErr("unsupported assignment operator %s at %s", s.Tok, in.pos(s.Pos())))
		}
		lv.set(wrapInt(in.binop(op, lv.get(), rhs[0], s), info.TypeOf(s.Lhs[0])))
		return
	}
	for i, l := range s.Lhs {
		v := copyVal(rhs[i])
		if id, ok := l.(*ast.Ident); ok {
			if id.Name == "_" {
				continue
			}
			if s.Tok == token.DEFINE {
				if obj := info.Defs[id]; obj != nil {
					fr.vars[obj] = &Cell{V: v}
					continue
				}
			}
		}
		in.lvalue(fr, l).set(v)
	}
}

// evalMulti evaluates an expression in an n-value context (call, comma-ok).
func (in *Interp) evalMulti(fr *frame, e ast.Expr, n int) []Value {
	switch x := ast.Unparen(e).(type) {
	case *ast.IndexExpr:
		if n == 2 {
			base := in.eval1(fr, x.X)
			switch m := base.(type) {
			case *MapV:
				k := mapKey(in.eval1(fr, x.Index))
				if c, ok := m.M[k]; ok {
					return []Value{copyVal(c.V), true}
				}
				return []Value{zero(tupleFirst(fr.pkg.TypesInfo.TypeOf(x))), false}
			case nil:
				return []Value{zero(tupleFirst(fr.pkg.TypesInfo.TypeOf(x))), false}
			}
		}
	case *ast.TypeAssertExpr:
		if n == 2 {
			v := in.eval1(fr, x.X)
			ok := in.dynTypeIs(v, fr.pkg.TypesInfo.TypeOf(x.Type))
			if !ok {
				return []Value{nil, false}
			}
			return []Value{v, true}
		}
	}
	v := in.eval(fr, e)
	if t, ok := v.(Tuple); ok {
		if len(t) != n {
			panic(evalErr("assignment count mismatch at %s", in.pos(e.Pos())))
		}
		return []Value(t)
	}
	panic(evalErr("expected %d values at %s", n, in.pos(e.Pos())))
}

func tupleFirst(t types.Type) types.Type {
	if tt, ok := t.(*types.Tuple); ok && tt.Len() > 0 {
		return tt.At(0).Type()
	}
	return t
}

func (in *Interp) dynTypeIs(v Value, t types.Type) bool {
	if v == nil {
		return false
	}
	if pt, ok := t.(*types.Pointer); ok {
		p, ok := v.(*Ptr)
		if !ok {
			return false
		}
		s, ok := p.C.V.(*StructV)
		return ok && s.T != nil && types.Identical(s.T, pt.Elem())
	}
	if s, ok := v.(*StructV); ok {
		return s.T != nil && types.Identical(s.T, t)
	}
	return false
}

// ---- expressions ----------------------------------------------------------

func (in *Interp) eval1(fr *frame, e ast.Expr) Value {
	v := in.eval(fr, e)
	if t, ok := v.(Tuple); ok {
		if len(t) == 1 {
			return t[0]
		}
		panic(evalErr("multi-value in single-value context at %s", in.pos(e.Pos())))
	}
	return v
}

func (in *Interp) evalBool(fr *frame, e ast.Expr) bool {
	v := in.eval1(fr, e)
	b, ok := v.(bool)
	if !ok {
		panic(evalErr("non-boolean condition (%T) at %s", v, in.pos(e.Pos())))
	}
	return b
}

func (in *Interp) evalInt(fr *frame, e ast.Expr) int64 {
	v := in.eval1(fr, e)
	n, ok := v.(int64)
	if !ok {
		panic(evalErr("non-integer (%T) at %s", v, in.pos(e.Pos())))
	}
	return n
}

func constToValue(c constant.Value, t types.Type) (Value, bool) {
	switch c.Kind() {
	case constant.String:
		return constant.StringVal(c), true
	case constant.Bool:
		return constant.BoolVal(c), true
	case constant.Int:
		if n, ok := constant.Int64Val(c); ok {
			return n, true
		}
		if n, ok := constant.Uint64Val(c); ok {
			return int64(n), true
		}
	case constant.Float:
		if b, ok := t.Underlying().(*types.Basic); ok && b.Info()&types.IsInteger != 0 {
			if n, ok := constant.Int64Val(constant.ToInt(c)); ok {
				return n, true
			}
		}
		f, _ := constant.Float64Val(c)
		return f, true
	}
	return nil, false
}

func mapKey(v Value) interface{} {
	switch k := v.(type) {
	case string, int64, bool, U64:
		return k
	case *StructV:
		// struct keys (unused by the generator today) are keyed by rendering
		return fmt.Sprintf("%v", renderNative(k))
	}
	panic(evalErr("unsupported map key %T", v))
}

func equal(a, b Value) bool {
	switch x := a.(type) {
	case nil:
		return isNil(b)
	case string:
		y, ok := b.(string)
		return ok && x == y
	case int64:
		y, ok := b.(int64)
		return ok && x == y
	case bool:
		y, ok := b.(bool)
		return ok && x == y
	case float64:
		y, ok := b.(float64)
		return ok && x == y
	case U64:
		switch y := b.(type) {
		case U64:
			return x == y
		case int64:
			return y >= 0 && uint64(y) == uint64(x)
		}
		return false
	case *Ptr:
		if isNil(b) {
			return false
		}
		y, ok := b.(*Ptr)
		return ok && x.C == y.C
	case *ErrV, *Ext, *Buf:
		if isNil(b) {
			return false
		}
		return a == b
	case *SliceV, *MapV:
		if isNil(b) {
			return false
		}
	case *StructV:
		y, ok := b.(*StructV)
		if !ok || len(x.F) != len(y.F) {
			return false
		}
		for i := range x.F {
			if !equal(x.F[i].V, y.F[i].V) {
				return false
			}
		}
		return true
	}
	if isNil(a) && isNil(b) {
		return true
	}
	panic(evalErr("unsupported comparison of %T and %T", a, b))
}

func isNil(v Value) bool {
	return v == nil
}

func (in *Interp) eval(fr *frame, e ast.Expr) Value {
	in.burn(e)
	info := fr.pkg.TypesInfo
	if tv, ok := info.Types[e]; ok && tv.Value != nil {
		if v, ok := constToValue(tv.Value, tv.Type); ok {
			return v
		}
	}
	switch e := e.(type) {
	case *ast.ParenExpr:
		return in.eval(fr, e.X)
	case *ast.BasicLit:
		panic(evalErr("non-constant literal at %s", in.pos(e.Pos())))
	case *ast.Ident:
		if e.Name == "nil" {
			if _, ok := info.Uses[e].(*types.Nil); ok {
				return nil
			}
		}
		obj := info.ObjectOf(e)
		switch o := obj.(type) {
		case *types.Var:
			if c := fr.lookup(o); c != nil {
				return c.V
			}
			if c := in.global(o); c != nil {
				return c.V
			}
			panic(evalErr("unbound variable %s at %s", e.Name, in.pos(e.Pos())))
		case *types.Func:
			return &FuncV{Obj: o}
		case *types.TypeName:
			return &TypeV{T: o.Type()}
		case *types.Builtin:
			return &Ext{Name: "builtin." + o.Name()}
		}
		panic(evalErr("unsupported identifier %s at %s", e.Name, in.pos(e.Pos())))
	case *ast.SelectorExpr:
		if sel, ok := info.Selections[e]; ok {
			switch sel.Kind() {
			case types.FieldVal:
				base := in.lvalueOrValue(fr, e.X)
				return in.followFields(base, sel.Index(), e).V
			case types.MethodVal:
				recv := in.lvalueOrValue(fr, e.X)
				idx := sel.Index()
				if len(idx) > 1 {
					c := in.followFields(recv, idx[:len(idx)-1], e)
					recv = c.V
				}
				fn := sel.Obj().(*types.Func)
				sig := fn.Type().(*types.Signature)
				if _, isPtr := sig.Recv().Type().(*types.Pointer); isPtr {
					_, already := recv.(*Ptr)
					if _, isBuf := recv.(*Buf); isBuf {
						already = true
					}
					if !already {
						// take the address of an addressable operand
						if lv, ok := in.tryLvalue(fr, e.X); ok && lv.cell != nil && len(idx) == 1 {
							recv = &Ptr{C: lv.cell}
						} else {
							recv = &Ptr{C: &Cell{V: recv}}
						}
					}
				}
				return &FuncV{Obj: fn, Recv: recv, Has: true}
			case types.MethodExpr:
				// T.m: a function whose first argument is the receiver
				return &FuncV{Obj: sel.Obj().(*types.Func)}
			}
			panic(evalErr("unsupported selection at %s", in.pos(e.Pos())))
		}
		switch o := info.Uses[e.Sel].(type) {
		case *types.Var:
			if c := in.global(o); c != nil {
				return c.V
			}
		case *types.Func:
			return &FuncV{Obj: o}
		case *types.TypeName:
			return &TypeV{T: o.Type()}
		}
		panic(evalErr("unsupported qualified identifier at %s", in.pos(e.Pos())))
	case *ast.StarExpr:
		v := in.eval1(fr, e.X)
		p, ok := v.(*Ptr)
		if !ok {
			panic(evalErr("nil or non-pointer dereference at %s", in.pos(e.Pos())))
		}
		return p.C.V
	case *ast.UnaryExpr:
		switch e.Op {
		case token.NOT:
			return !in.evalBool(fr, e.X)
		case token.SUB:
			v := in.eval1(fr, e.X)
			switch n := v.(type) {
			case int64:
				return -n
			case float64:
				return -n
			}
		case token.AND:
			if cl, ok := ast.Unparen(e.X).(*ast.CompositeLit); ok {
				return &Ptr{C: &Cell{V: in.eval1(fr, cl)}}
			}
			lv := in.lvalue(fr, e.X)
			if lv.cell == nil {
				panic(evalErr("address of map element at %s", in.pos(e.Pos())))
			}
			return &Ptr{C: lv.cell}
		}
		panic(evalErr("unsupported unary %s at %s", e.Op, in.pos(e.Pos())))
	case *ast.BinaryExpr:
		switch e.Op {
		case token.LAND:
			return in.evalBool(fr, e.X) && in.evalBool(fr, e.Y)
		case token.LOR:
			return in.evalBool(fr, e.X) || in.evalBool(fr, e.Y)
		}
		return wrapInt(in.binop(e.Op, in.eval1(fr, e.X), in.eval1(fr, e.Y), e), info.TypeOf(e))
	case *ast.IndexExpr:
		if tv, ok := info.Types[e.X]; ok && tv.IsType() {
			panic(evalErr("generic instantiation unsupported at %s", in.pos(e.Pos())))
		}
		x := in.eval1(fr, e.X)
		switch xv := x.(type) {
		case *FuncV:
			// explicit instantiation of a generic function: firstDuplicate[Field, string]
			if tv, ok := info.Types[e.Index]; ok && tv.IsType() {
				return xv
			}
		case string:
			i := in.evalInt(fr, e.Index)
			if i < 0 || int(i) >= len(xv) {
				panic(evalErr("string index out of range at %s (generator would panic)", in.pos(e.Pos())))
			}
			return int64(xv[i])
		case *SliceV:
			i := in.evalInt(fr, e.Index)
			if i < 0 || int(i) >= len(xv.E) {
				panic(evalErr("slice index out of range at %s", in.pos(e.Pos())))
			}
			return xv.E[i].V
		case *MapV:
			k := mapKey(in.eval1(fr, e.Index))
			if c, ok := xv.M[k]; ok {
				return copyVal(c.V)
			}
			return zero(info.TypeOf(e))
		case nil:
			return zero(info.TypeOf(e))
		case []byte:
			i := in.evalInt(fr, e.Index)
			return int64(xv[i])
		}
		panic(evalErr("index of %T unsupported at %s", x, in.pos(e.Pos())))
	case *ast.SliceExpr:
		x := in.eval1(fr, e.X)
		lo, hi := int64(0), int64(-1)
		if e.Low != nil {
			lo = in.evalInt(fr, e.Low)
		}
		if e.High != nil {
			hi = in.evalInt(fr, e.High)
		}
		switch xv := x.(type) {
		case string:
			if hi < 0 {
				hi = int64(len(xv))
			}
			if lo < 0 || hi > int64(len(xv)) || lo > hi {
				panic(evalErr("string slice out of range at %s (generator would panic)", in.pos(e.Pos())))
			}
			return xv[lo:hi]
		case *SliceV:
			if hi < 0 {
				hi = int64(len(xv.E))
			}
			if lo < 0 || hi > int64(len(xv.E)) || lo > hi {
				panic(evalErr("slice bounds out of range at %s", in.pos(e.Pos())))
			}
			return &SliceV{E: xv.E[lo:hi]}
		case nil:
			return nil
		}
		panic(evalErr("slice of %T unsupported at %s", x, in.pos(e.Pos())))
	case *ast.CallExpr:
		return in.evalCall(fr, e)
	case *ast.CompositeLit:
		return in.evalComposite(fr, e)
	case *ast.FuncLit:
		return &FuncV{Lit: e, Env: fr}
	case *ast.TypeAssertExpr:
		v := in.eval1(fr, e.X)
		if e.Type == nil {
			panic(evalErr("type switch unsupported at %s", in.pos(e.Pos())))
		}
		if !in.dynTypeIs(v, info.TypeOf(e.Type)) {
			panic(evalErr("failed type assertion at %s", in.pos(e.Pos())))
		}
		return v
	case *ast.KeyValueExpr:
	}
	panic(evalErr("unsupported expression %T at %s", e, in.pos(e.Pos())))
}

// wrapInt truncates an integer result to the width of its static type, as Go's
// arithmetic does.
func wrapInt(v Value, t types.Type) Value {
	n, ok := v.(int64)
	if !ok || t == nil {
		return v
	}
	b, ok := t.Underlying().(*types.Basic)
	if !ok {
		return v
	}
	switch b.Kind() {
	case types.Uint8:
		return int64(uint8(n))
	case types.Uint16:
		return int64(uint16(n))
	case types.Uint32:
		return int64(uint32(n))
	case types.Int8:
		return int64(int8(n))
	case types.Int16:
		return int64(int16(n))
	case types.Int32:
		return int64(int32(n))
	}
	return v
}

func (in *Interp) binop(op token.Token, a, b Value, at ast.Node) Value {
	switch op {
	case token.EQL:
		return equal(a, b)
	case token.NEQ:
		return !equal(a, b)
	}
	switch x := a.(type) {
	case string:
		y, ok := b.(string)
		if !ok {
			break
		}
		switch op {
		case token.ADD:
			return x + y
		case token.LSS:
			return x < y
		case token.GTR:
			return x > y
		case token.LEQ:
			return x <= y
		case token.GEQ:
			return x >= y
		}
	case int64:
		y, ok := b.(int64)
		if !ok {
			break
		}
		switch op {
		case token.ADD:
			return x + y
		case token.SUB:
			return x - y
		case token.MUL:
			return x * y
		case token.QUO:
			if y == 0 {
				panic(evalErr("division by zero at %s", in.pos(at.Pos())))
			}
			return x / y
		case token.REM:
			if y == 0 {
				panic(evalErr("division by zero at %s", in.pos(at.Pos())))
			}
			return x % y
		case token.LSS:
			return x < y
		case token.GTR:
			return x > y
		case token.LEQ:
			return x <= y
		case token.GEQ:
			return x >= y
		case token.SHL:
			return x << uint(y)
		case token.SHR:
			return x >> uint(y)
		case token.AND:
			return x & y
		case token.OR:
			return x | y
		case token.XOR:
			return x ^ y
		}
	}
	panic(evalErr("unsupported binary %s on %T,%T at %s", op, a, b, in.pos(at.Pos())))
}

func (in *Interp) evalComposite(fr *frame, e *ast.CompositeLit) Value {
	info := fr.pkg.TypesInfo
	t := info.TypeOf(e)
	switch u := t.Underlying().(type) {
	case *types.Struct:
		s := zero(t).(*StructV)
		for i, el := range e.Elts {
			if kv, ok := el.(*ast.KeyValueExpr); ok {
				name := kv.Key.(*ast.Ident).Name
				idx := fieldIndex(u, name)
				s.F[idx].V = copyVal(in.evalElt(fr, kv.Value, u.Field(idx).Type()))
			} else {
				s.F[i].V = copyVal(in.evalElt(fr, el, u.Field(i).Type()))
			}
		}
		return s
	case *types.Slice:
		s := &SliceV{}
		if b, ok := u.Elem().Underlying().(*types.Basic); ok && b.Kind() == types.Uint8 {
			bs := []byte{}
			for _, el := range e.Elts {
				bs = append(bs, byte(in.evalInt(fr, el)))
			}
			return bs
		}
		for _, el := range e.Elts {
			if _, ok := el.(*ast.KeyValueExpr); ok {
				panic(evalErr("keyed slice literal unsupported at %s", in.pos(e.Pos())))
			}
			s.E = append(s.E, &Cell{V: copyVal(in.evalElt(fr, el, u.Elem()))})
		}
		return s
	case *types.Map:
		m := &MapV{M: map[interface{}]*Cell{}}
		for _, el := range e.Elts {
			kv := el.(*ast.KeyValueExpr)
			k := mapKey(in.evalElt(fr, kv.Key, u.Key()))
			m.M[k] = &Cell{V: copyVal(in.evalElt(fr, kv.Value, u.Elem()))}
		}
		return m
	}
	panic(evalErr("unsupported composite literal of %s at %s", t, in.pos(e.Pos())))
}

func (in *Interp) evalElt(fr *frame, e ast.Expr, t types.Type) Value {
	if cl, ok := e.(*ast.CompositeLit); ok && cl.Type == nil {
		// elided type
		info := fr.pkg.TypesInfo
		if _, has := info.Types[cl]; has {
			return in.eval1(fr, cl)
		}
	}
	return in.eval1(fr, e)
}

func (in *Interp) evalCall(fr *frame, e *ast.CallExpr) Value {
	info := fr.pkg.TypesInfo
	// conversion?
	if tv, ok := info.Types[e.Fun]; ok && tv.IsType() {
		if len(e.Args) != 1 {
			panic(evalErr("bad conversion at %s", in.pos(e.Pos())))
		}
		return in.convert(in.eval1(fr, e.Args[0]), tv.Type, info.TypeOf(e.Args[0]), e)
	}
	// builtin?
	if id, ok := ast.Unparen(e.Fun).(*ast.Ident); ok {
		if b, ok := info.Uses[id].(*types.Builtin); ok {
			return in.builtin(fr, b.Name(), e)
		}
	}
	fnv := in.eval1(fr, e.Fun)
	fv, ok := fnv.(*FuncV)
	if !ok {
		panic(evalErr("call of non-function %T at %s", fnv, in.pos(e.Pos())))
	}
	var args []Value
	if len(e.Args) == 1 {
		v := in.eval(fr, e.Args[0])
		if t, ok := v.(Tuple); ok {
			args = []Value(t)
		} else {
			args = []Value{v}
		}
	} else {
		for _, a := range e.Args {
			args = append(args, in.eval1(fr, a))
		}
	}
	if e.Ellipsis.IsValid() && len(args) > 0 {
		last := args[len(args)-1]
		args = args[:len(args)-1]
		switch s := last.(type) {
		case *SliceV:
			for _, c := range s.E {
				args = append(args, c.V)
			}
		case nil:
		default:
			panic(evalErr("unsupported spread of %T at %s", last, in.pos(e.Pos())))
		}
	}
	res := in.apply(fv, args, e.Pos())
	switch len(res) {
	case 0:
		return Tuple{}
	case 1:
		return res[0]
	}
	return Tuple(res)
}

func (in *Interp) convert(v Value, to, from types.Type, at ast.Node) Value {
	switch u := to.Underlying().(type) {
	case *types.Basic:
		switch {
		case u.Info()&types.IsString != 0:
			switch x := v.(type) {
			case string:
				return x
			case []byte:
				return string(x)
			case int64:
				return string(rune(x))
			}
		case u.Info()&types.IsInteger != 0:
			switch x := v.(type) {
			case int64:
				switch u.Kind() {
				case types.Uint8:
					return int64(uint8(x))
				case types.Uint16:
					return int64(uint16(x))
				case types.Uint32:
					return int64(uint32(x))
				case types.Int8:
					return int64(int8(x))
				case types.Int16:
					return int64(int16(x))
				case types.Int32:
					return int64(int32(x))
				}
				return x
			case float64:
				return int64(x)
			case U64:
				switch u.Kind() {
				case types.Uint64, types.Uint, types.Uintptr:
					return x
				case types.Uint8:
					return int64(uint8(x))
				case types.Uint16:
					return int64(uint16(x))
				case types.Uint32:
					return int64(uint32(x))
				case types.Int8:
					return int64(int8(x))
				case types.Int16:
					return int64(int16(x))
				case types.Int32:
					return int64(int32(x))
				}
				return int64(x)
			}
		case u.Info()&types.IsFloat != 0:
			switch x := v.(type) {
			case U64:
				return float64(uint64(x))
			case int64:
				return float64(x)
			case float64:
				return x
			}
		case u.Info()&types.IsBoolean != 0:
			return v
		}
	case *types.Slice:
		if b, ok := u.Elem().Underlying().(*types.Basic); ok && b.Kind() == types.Uint8 {
			switch x := v.(type) {
			case string:
				return []byte(x)
			case []byte:
				return x
			case nil:
				return []byte(nil)
			}
		}
		return v
	case *types.Struct, *types.Map, *types.Pointer, *types.Interface, *types.Signature:
		return v
	}
	panic(evalErr("unsupported conversion %s -> %s at %s", from, to, in.pos(at.Pos())))
}

func (in *Interp) builtin(fr *frame, name string, e *ast.CallExpr) Value {
	info := fr.pkg.TypesInfo
	switch name {
	case "len":
		switch x := in.eval1(fr, e.Args[0]).(type) {
		case string:
			return int64(len(x))
		case *SliceV:
			return int64(len(x.E))
		case *MapV:
			return int64(len(x.M))
		case []byte:
			return int64(len(x))
		case nil:
			return int64(0)
		}
	case "append":
		base := in.eval1(fr, e.Args[0])
		if bs, ok := base.([]byte); ok || (base == nil && isByteSlice(info.TypeOf(e.Args[0]))) {
			out := append([]byte{}, bs...)
			for i, a := range e.Args[1:] {
				v := in.eval1(fr, a)
				if e.Ellipsis.IsValid() && i == len(e.Args)-2 {
					switch x := v.(type) {
					case []byte:
						out = append(out, x...)
					case string:
						out = append(out, x...)
					}
				} else {
					out = append(out, byte(v.(int64)))
				}
			}
			return out
		}
		out := &SliceV{}
		if s, ok := base.(*SliceV); ok {
			out.E = append(out.E, s.E...)
		}
		for i, a := range e.Args[1:] {
			v := in.eval1(fr, a)
			if e.Ellipsis.IsValid() && i == len(e.Args)-2 {
				if s, ok := v.(*SliceV); ok {
					for _, c := range s.E {
						out.E = append(out.E, &Cell{V: copyVal(c.V)})
					}
				}
			} else {
				out.E = append(out.E, &Cell{V: copyVal(v)})
			}
		}
		return out
	case "make":
		t := info.TypeOf(e.Args[0])
		switch u := t.Underlying().(type) {
		case *types.Map:
			return &MapV{M: map[interface{}]*Cell{}}
		case *types.Slice:
			n := int64(0)
			if len(e.Args) > 1 {
				n = in.evalInt(fr, e.Args[1])
			}
			if isByteSlice(t) {
				return make([]byte, n)
			}
			s := &SliceV{}
			for i := int64(0); i < n; i++ {
				s.E = append(s.E, &Cell{V: zero(u.Elem())})
			}
			return s
		}
	case "new":
		t := info.TypeOf(e.Args[0])
		if isNamed(t, "bytes", "Buffer") {
			return &Buf{}
		}
		return &Ptr{C: &Cell{V: zero(t)}}
	case "delete":
		m := in.eval1(fr, e.Args[0])
		if mv, ok := m.(*MapV); ok {
			delete(mv.M, mapKey(in.eval1(fr, e.Args[1])))
		}
		return Tuple{}
	case "min", "max":
		best := in.eval1(fr, e.Args[0])
		for _, a := range e.Args[1:] {
			v := in.eval1(fr, a)
			c := compareValues(v, best, in, e.Pos())
			if (name == "min" && c < 0) || (name == "max" && c > 0) {
				best = v
			}
		}
		return best
	case "clear":
		switch x := in.eval1(fr, e.Args[0]).(type) {
		case *MapV:
			for k := range x.M {
				delete(x.M, k)
			}
		case *SliceV:
			if sl, ok := info.TypeOf(e.Args[0]).Underlying().(*types.Slice); ok {
				for _, c := range x.E {
					c.V = zero(sl.Elem())
				}
			}
		case []byte:
			for i := range x {
				x[i] = 0
			}
		}
		return Tuple{}
	case "panic":
		panic(evalErr("generator reaches panic() at %s", in.pos(e.Pos())))
	case "copy":
	}
	panic(evalErr("unsupported builtin %s at %s", name, in.pos(e.Pos())))
}

func isByteSlice(t types.Type) bool {
	s, ok := t.Underlying().(*types.Slice)
	if !ok {
		return false
	}
	b, ok := s.Elem().Underlying().(*types.Basic)
	return ok && b.Kind() == types.Uint8
}

func isNamed(t types.Type, pkg, name string) bool {
	n, ok := t.(*types.Named)
	return ok && n.Obj().Pkg() != nil && n.Obj().Pkg().Path() == pkg && n.Obj().Name() == name
}

func describe(v Value) string {
	switch x := v.(type) {
	case string:
		return fmt.Sprintf("%q", x)
	case *StructV:
		var parts []string
		for i, c := range x.F {
			parts = append(parts, x.S.Field(i).Name()+":"+describe(c.V))
		}
		return "{" + strings.Join(parts, " ") + "}"
	}
	return fmt.Sprintf("%v", v)
}

// dynamicMethod finds the method named like m in the method set of the
// dynamic type of recv (a struct value, or a pointer to one).
func dynamicMethod(recv Value, m *types.Func) *types.Func {
	var named *types.Named
	ptr := false
	switch r := recv.(type) {
	case *StructV:
		named = r.T
	case *Ptr:
		if sv, ok := r.C.V.(*StructV); ok {
			named, ptr = sv.T, true
		}
	}
	if named == nil {
		return nil
	}
	var t types.Type = named
	if ptr {
		t = types.NewPointer(named)
	}
	if sel := types.NewMethodSet(t).Lookup(m.Pkg(), m.Name()); sel != nil {
		if f, ok := sel.Obj().(*types.Func); ok {
			return f
		}
	}
	return nil
}
