package geneval

import (
	"fmt"
	"go/token"
	"path"
	"path/filepath"
	"sort"
	"strconv"
	"strings"
	"unicode"
	"unicode/utf8"

	"bebopverif/internal/load"
)

// renderNative converts an evaluator value to a Go value fmt can print the way
// the generator's own fmt call would.
func renderNative(v Value) interface{} {
	switch x := v.(type) {
	case string, int64, bool, float64:
		return x
	case U64:
		return uint64(x)
	case []byte:
		return x
	case nil:
		return nil
	case *ErrV:
		return fmt.Errorf("%s", x.Msg)
	case *SliceV:
		out := make([]interface{}, len(x.E))
		for i, c := range x.E {
			out[i] = renderNative(c.V)
		}
		return out
	case *StructV:
		return describe(x)
	}
	return fmt.Sprintf("%v", v)
}

func renderArgs(args []Value) []interface{} {
	out := make([]interface{}, len(args))
	for i, a := range args {
		out[i] = renderNative(a)
	}
	return out
}

// writeTo appends text to any evaluator writer value.
func (in *Interp) writeTo(w Value, s string) {
	switch x := w.(type) {
	case *Buf:
		x.B.WriteString(s)
	case *Ptr:
		// &b of a strings.Builder / bytes.Buffer variable
		if b, ok := x.C.V.(*Buf); ok {
			b.B.WriteString(s)
			return
		}
		// *iohelp.ErrorWriter
		if sv, ok := x.C.V.(*StructV); ok && sv.T != nil && sv.T.Obj().Name() == "ErrorWriter" {
			in.writeTo(sv.Get("Writer"), s)
			return
		}
		panic(evalErr("write to unsupported pointer value"))
	case nil:
		panic(evalErr("write to nil writer"))
	default:
		panic(evalErr("write to unsupported writer %T", w))
	}
}

func str(v Value) string {
	switch x := v.(type) {
	case string:
		return x
	case []byte:
		return string(x)
	}
	panic(evalErr("expected string, have %T", v))
}

func strSlice(v Value) []string {
	switch x := v.(type) {
	case nil:
		return nil
	case *SliceV:
		out := make([]string, len(x.E))
		for i, c := range x.E {
			out[i] = str(c.V)
		}
		return out
	}
	panic(evalErr("expected []string, have %T", v))
}

func fromStrSlice(ss []string) Value {
	s := &SliceV{}
	for _, x := range ss {
		s.E = append(s.E, &Cell{V: x})
	}
	return s
}

type sorter struct {
	in   *Interp
	s    *SliceV
	less *FuncV
}

func (s sorter) Len() int      { return len(s.s.E) }
func (s sorter) Swap(i, j int) { s.s.E[i].V, s.s.E[j].V = s.s.E[j].V, s.s.E[i].V }
func (s sorter) Less(i, j int) bool {
	r := s.in.apply(s.less, []Value{int64(i), int64(j)}, token.NoPos)
	b, _ := r[0].(bool)
	return b
}

type byteSorter struct {
	in   *Interp
	b    []byte
	less *FuncV
}

func (s byteSorter) Len() int      { return len(s.b) }
func (s byteSorter) Swap(i, j int) { s.b[i], s.b[j] = s.b[j], s.b[i] }
func (s byteSorter) Less(i, j int) bool {
	r := s.in.apply(s.less, []Value{int64(i), int64(j)}, token.NoPos)
	b, _ := r[0].(bool)
	return b
}

func (in *Interp) native(fv *FuncV, args []Value, at token.Pos) []Value {
	name := load.FullName(fv.Obj)
	recv := fv.Recv
	switch name {
	case "fmt.Fprintf":
		in.writeTo(args[0], fmt.Sprintf(str(args[1]), renderArgs(args[2:])...))
		return []Value{int64(0), nil}
	case "fmt.Fprint":
		in.writeTo(args[0], fmt.Sprint(renderArgs(args[1:])...))
		return []Value{int64(0), nil}
	case "fmt.Fprintln":
		in.writeTo(args[0], fmt.Sprintln(renderArgs(args[1:])...))
		return []Value{int64(0), nil}
	case "fmt.Sprintf":
		return []Value{fmt.Sprintf(str(args[0]), renderArgs(args[1:])...)}
	case "fmt.Sprint":
		return []Value{fmt.Sprint(renderArgs(args)...)}
	case "fmt.Errorf":
		return []Value{&ErrV{Msg: fmt.Errorf(str(args[0]), renderArgs(args[1:])...).Error()}}
	case "errors.New":
		return []Value{&ErrV{Msg: str(args[0])}}
	case "(*fmt.wrapError).Error", "(error).Error":
		if e, ok := recv.(*ErrV); ok {
			return []Value{e.Msg}
		}
	case "strings.Repeat":
		return []Value{strings.Repeat(str(args[0]), int(args[1].(int64)))}
	case "strings.Replace":
		return []Value{strings.Replace(str(args[0]), str(args[1]), str(args[2]), int(args[3].(int64)))}
	case "strings.ReplaceAll":
		return []Value{strings.ReplaceAll(str(args[0]), str(args[1]), str(args[2]))}
	case "strings.Contains":
		return []Value{strings.Contains(str(args[0]), str(args[1]))}
	case "strings.Split":
		return []Value{fromStrSlice(strings.Split(str(args[0]), str(args[1])))}
	case "strings.Join":
		return []Value{strings.Join(strSlice(args[0]), str(args[1]))}
	case "strings.ToUpper":
		return []Value{strings.ToUpper(str(args[0]))}
	case "strings.ToLower":
		return []Value{strings.ToLower(str(args[0]))}
	case "strings.Title":
		return []Value{strings.Title(str(args[0]))}
	case "strings.TrimPrefix":
		return []Value{strings.TrimPrefix(str(args[0]), str(args[1]))}
	case "strings.TrimSuffix":
		return []Value{strings.TrimSuffix(str(args[0]), str(args[1]))}
	case "strings.TrimSpace":
		return []Value{strings.TrimSpace(str(args[0]))}
	case "strings.Trim":
		return []Value{strings.Trim(str(args[0]), str(args[1]))}
	case "strings.TrimLeft":
		return []Value{strings.TrimLeft(str(args[0]), str(args[1]))}
	case "strings.TrimRight":
		return []Value{strings.TrimRight(str(args[0]), str(args[1]))}
	case "strings.IndexByte":
		return []Value{int64(strings.IndexByte(str(args[0]), byte(args[1].(int64))))}
	case "strings.LastIndexByte":
		return []Value{int64(strings.LastIndexByte(str(args[0]), byte(args[1].(int64))))}
	case "strings.LastIndex":
		return []Value{int64(strings.LastIndex(str(args[0]), str(args[1])))}
	case "strings.IndexRune":
		return []Value{int64(strings.IndexRune(str(args[0]), rune(args[1].(int64))))}
	case "strings.ContainsRune":
		return []Value{strings.ContainsRune(str(args[0]), rune(args[1].(int64)))}
	case "strings.ContainsAny":
		return []Value{strings.ContainsAny(str(args[0]), str(args[1]))}
	case "strings.IndexAny":
		return []Value{int64(strings.IndexAny(str(args[0]), str(args[1])))}
	case "strings.SplitN":
		return []Value{fromStrSlice(strings.SplitN(str(args[0]), str(args[1]), int(args[2].(int64))))}
	case "strings.Fields":
		return []Value{fromStrSlice(strings.Fields(str(args[0])))}
	case "strings.Compare":
		return []Value{int64(strings.Compare(str(args[0]), str(args[1])))}
	case "strings.HasPrefix":
		return []Value{strings.HasPrefix(str(args[0]), str(args[1]))}
	case "strings.HasSuffix":
		return []Value{strings.HasSuffix(str(args[0]), str(args[1]))}
	case "strings.Index":
		return []Value{int64(strings.Index(str(args[0]), str(args[1])))}
	case "strings.Count":
		return []Value{int64(strings.Count(str(args[0]), str(args[1])))}
	case "strings.Cut":
		a, b, ok := strings.Cut(str(args[0]), str(args[1]))
		return []Value{a, b, ok}
	case "strings.EqualFold":
		return []Value{strings.EqualFold(str(args[0]), str(args[1]))}
	case "unicode/utf8.DecodeRuneInString":
		r, size := utf8.DecodeRuneInString(str(args[0]))
		return []Value{int64(r), int64(size)}
	case "unicode/utf8.RuneLen":
		return []Value{int64(utf8.RuneLen(rune(args[0].(int64))))}
	case "unicode.ToUpper":
		return []Value{int64(unicode.ToUpper(rune(args[0].(int64))))}
	case "unicode.ToLower":
		return []Value{int64(unicode.ToLower(rune(args[0].(int64))))}
	case "unicode.IsUpper":
		return []Value{unicode.IsUpper(rune(args[0].(int64)))}
	case "unicode.IsLetter":
		return []Value{unicode.IsLetter(rune(args[0].(int64)))}
	case "go/token.IsKeyword":
		return []Value{token.IsKeyword(str(args[0]))}
	case "strconv.Itoa":
		return []Value{strconv.Itoa(int(args[0].(int64)))}
	case "strconv.FormatInt":
		return []Value{strconv.FormatInt(args[0].(int64), int(args[1].(int64)))}
	case "strconv.FormatUint":
		switch v := args[0].(type) {
		case U64:
			return []Value{strconv.FormatUint(uint64(v), int(args[1].(int64)))}
		case int64:
			return []Value{strconv.FormatUint(uint64(v), int(args[1].(int64)))}
		}
		panic(evalErr("strconv.FormatUint of %T", args[0]))
	case "strconv.Quote":
		return []Value{strconv.Quote(str(args[0]))}
	case "strconv.Unquote":
		s, err := strconv.Unquote(str(args[0]))
		if err != nil {
			return []Value{"", &ErrV{Msg: err.Error()}}
		}
		return []Value{s, nil}
	case "os.Getwd":
		return []Value{"/virt", nil}
	case "os.Open":
		path := str(args[0])
		in.Opened = append(in.Opened, path)
		if f, ok := in.VFS[path]; ok {
			fc := copyVal(f).(*StructV)
			fc.Set("FileName", path)
			return []Value{&VFile{Path: path, File: fc}, nil}
		}
		return []Value{nil, &ErrV{Msg: "open " + path + ": no such file or directory"}}
	case "(*os.File).Close":
		return []Value{nil}
	case "path.Base":
		return []Value{path.Base(str(args[0]))}
	case "path.Split":
		d, f := path.Split(str(args[0]))
		return []Value{d, f}
	case "path/filepath.Split":
		d, f := filepath.Split(str(args[0]))
		return []Value{d, f}
	case "path.Ext":
		return []Value{path.Ext(str(args[0]))}
	case "path.IsAbs":
		return []Value{path.IsAbs(str(args[0]))}
	case "path/filepath.Clean":
		return []Value{filepath.Clean(str(args[0]))}
	case "path/filepath.FromSlash":
		return []Value{filepath.FromSlash(str(args[0]))}
	case "path/filepath.ToSlash":
		return []Value{filepath.ToSlash(str(args[0]))}
	case "path/filepath.IsAbs":
		return []Value{filepath.IsAbs(str(args[0]))}
	case "path/filepath.Ext":
		return []Value{filepath.Ext(str(args[0]))}
	case "path.Clean":
		return []Value{path.Clean(str(args[0]))}
	case "path.Dir":
		return []Value{path.Dir(str(args[0]))}
	case "path.Join":
		var ss []string
		for _, a := range args {
			ss = append(ss, str(a))
		}
		return []Value{path.Join(ss...)}
	case "path/filepath.Base":
		return []Value{filepath.Base(str(args[0]))}
	case "path/filepath.Dir":
		return []Value{filepath.Dir(str(args[0]))}
	case "path/filepath.Join":
		var ss []string
		for _, a := range args {
			ss = append(ss, str(a))
		}
		return []Value{filepath.Join(ss...)}
	case "slices.ContainsFunc", "slices.IndexFunc":
		idx := int64(-1)
		if s, ok := args[0].(*SliceV); ok {
			pred := args[1].(*FuncV)
			for i, c := range s.E {
				if r := in.apply(pred, []Value{c.V}, at); len(r) == 1 && r[0] == true {
					idx = int64(i)
					break
				}
			}
		} else if args[0] != nil {
			panic(evalErr("%s of %T", name, args[0]))
		}
		if name == "slices.ContainsFunc" {
			return []Value{idx >= 0}
		}
		return []Value{idx}
	case "slices.Contains", "slices.Index":
		idx := int64(-1)
		if s, ok := args[0].(*SliceV); ok {
			for i, c := range s.E {
				if c.V == args[1] {
					idx = int64(i)
					break
				}
			}
		} else if args[0] != nil {
			panic(evalErr("%s of %T", name, args[0]))
		}
		if name == "slices.Contains" {
			return []Value{idx >= 0}
		}
		return []Value{idx}
	case "slices.Sort":
		if s, ok := args[0].(*SliceV); ok {
			allStr := true
			for _, c := range s.E {
				if _, isS := c.V.(string); !isS {
					allStr = false
				}
			}
			if allStr {
				ss := strSlice(s)
				sort.Strings(ss)
				for i := range ss {
					s.E[i].V = ss[i]
				}
				return nil
			}
			sort.SliceStable(s.E, func(i, j int) bool { return compareValues(s.E[i].V, s.E[j].V, in, at) < 0 })
			return nil
		}
		return nil
	case "sort.Strings":
		if s, ok := args[0].(*SliceV); ok {
			ss := strSlice(s)
			sort.Strings(ss)
			for i := range ss {
				s.E[i].V = ss[i]
			}
		}
		return nil
	case "sort.Ints":
		if s, ok := args[0].(*SliceV); ok {
			vals := make([]int, len(s.E))
			for i, c := range s.E {
				n, _ := c.V.(int64)
				vals[i] = int(n)
			}
			sort.Ints(vals)
			for i := range vals {
				s.E[i].V = int64(vals[i])
			}
		}
		return nil
	case "sort.Slice", "sort.SliceStable":
		if bs, isBytes := args[0].([]byte); isBytes {
			// a byte slice is held natively; the less function indexes the same backing array
			sort.Stable(byteSorter{in, bs, args[1].(*FuncV)})
			return nil
		}
		s, ok := args[0].(*SliceV)
		if !ok {
			if args[0] == nil {
				return nil
			}
			panic(evalErr("sort.Slice of %T", args[0]))
		}
		less := args[1].(*FuncV)
		if name == "sort.Slice" {
			sort.Stable(sorter{in, s, less}) // deterministic; order of equal keys is unspecified in Go anyway
		} else {
			sort.Stable(sorter{in, s, less})
		}
		return nil
	case "maps.Copy":
		dst, _ := args[0].(*MapV)
		src, _ := args[1].(*MapV)
		if src != nil {
			if dst == nil {
				panic(evalErr("maps.Copy into a nil map at %s (generator would panic)", in.pos(at)))
			}
			for k, c := range src.M {
				dst.M[k] = &Cell{V: copyVal(c.V)}
			}
		}
		return nil
	case "maps.Clone":
		src, _ := args[0].(*MapV)
		if src == nil {
			return []Value{nil}
		}
		out := &MapV{M: map[interface{}]*Cell{}}
		for k, c := range src.M {
			out.M[k] = &Cell{V: copyVal(c.V)}
		}
		return []Value{out}
	case "slices.SortFunc", "slices.SortStableFunc":
		if sv, ok := args[0].(*SliceV); ok {
			cmpf := args[1].(*FuncV)
			sort.SliceStable(sv.E, func(i, j int) bool {
				r := in.apply(cmpf, []Value{sv.E[i].V, sv.E[j].V}, at)
				n, _ := r[0].(int64)
				return n < 0
			})
		}
		return nil
	case "slices.Reverse":
		if sv, ok := args[0].(*SliceV); ok {
			for i, j := 0, len(sv.E)-1; i < j; i, j = i+1, j-1 {
				sv.E[i].V, sv.E[j].V = sv.E[j].V, sv.E[i].V
			}
		}
		return nil
	case "slices.Clone":
		switch sv := args[0].(type) {
		case *SliceV:
			out := &SliceV{}
			for _, c := range sv.E {
				out.E = append(out.E, &Cell{V: copyVal(c.V)})
			}
			return []Value{out}
		case []byte:
			return []Value{append([]byte{}, sv...)}
		case nil:
			return []Value{nil}
		}
	case "cmp.Compare":
		return []Value{int64(compareValues(args[0], args[1], in, at))}
	case "cmp.Less":
		return []Value{compareValues(args[0], args[1], in, at) < 0}
	case "(*bytes.Buffer).String", "(*strings.Builder).String":
		return []Value{asBuf(recv).B.String()}
	case "(*bytes.Buffer).Write", "(*strings.Builder).Write":
		asBuf(recv).B.WriteString(str(args[0]))
		return []Value{int64(len(str(args[0]))), nil}
	case "(*bytes.Buffer).WriteString", "(*strings.Builder).WriteString":
		asBuf(recv).B.WriteString(str(args[0]))
		return []Value{int64(len(str(args[0]))), nil}
	case "(*bytes.Buffer).WriteByte", "(*strings.Builder).WriteByte":
		asBuf(recv).B.WriteByte(byte(args[0].(int64)))
		return []Value{nil}
	case "(*bytes.Buffer).WriteRune", "(*strings.Builder).WriteRune":
		n, _ := asBuf(recv).B.WriteRune(rune(args[0].(int64)))
		return []Value{int64(n), nil}
	case "(*bytes.Buffer).Len", "(*strings.Builder).Len":
		return []Value{int64(asBuf(recv).B.Len())}
	case "(*bytes.Buffer).Grow", "(*strings.Builder).Grow":
		return nil
	case "(*bytes.Buffer).Reset", "(*strings.Builder).Reset":
		asBuf(recv).B.Reset()
		return nil
	case "(*bytes.Buffer).Bytes":
		return []Value{[]byte(asBuf(recv).B.String())}
	case "slices.DeleteFunc":
		sv, ok := args[0].(*SliceV)
		if !ok {
			return []Value{args[0]}
		}
		del := args[1].(*FuncV)
		j := 0
		for _, c := range sv.E {
			r := in.apply(del, []Value{c.V}, at)
			if b, _ := r[0].(bool); !b {
				sv.E[j].V, c.V = c.V, sv.E[j].V
				j++
			}
		}
		return []Value{&SliceV{E: sv.E[:j]}}
	case "bytes.NewBuffer":
		b := &Buf{}
		if args[0] != nil {
			b.B.WriteString(str(args[0]))
		}
		return []Value{b}
	case "(io.Writer).Write":
		in.writeTo(recv, str(args[0]))
		return []Value{int64(len(str(args[0]))), nil}
	}
	if strings.HasPrefix(name, load.Mod+"/iohelp.") || strings.HasPrefix(name, "(*"+load.Mod+"/iohelp.") {
		// iohelp is loaded from /repo too, but ErrorWriter talks to an
		// io.Writer interface; its three members the generator uses are
		// modelled on the loaded declarations' shape.
		short := fv.Obj.Name()
		switch short {
		case "NewErrorWriter":
			if p, ok := args[0].(*Ptr); ok {
				if sv, ok := p.C.V.(*StructV); ok && sv.T != nil && sv.T.Obj().Name() == "ErrorWriter" {
					return []Value{p}
				}
			}
			t := fv.Obj.Pkg().Scope().Lookup("ErrorWriter")
			if t == nil {
				panic(evalErr("iohelp.ErrorWriter not found"))
			}
			sv := zero(t.Type()).(*StructV)
			sv.Set("Writer", args[0])
			return []Value{&Ptr{C: &Cell{V: sv}}}
		case "SafeWrite", "Write":
			p, ok := recv.(*Ptr)
			if !ok {
				break
			}
			sv := p.C.V.(*StructV)
			if short == "SafeWrite" && sv.Get("Err") != nil {
				return []Value{int64(0)}
			}
			in.writeTo(sv.Get("Writer"), str(args[0]))
			if short == "SafeWrite" {
				return []Value{int64(len(str(args[0])))}
			}
			return []Value{int64(len(str(args[0]))), nil}
		}
	}
	panic(evalErr("call to %s is outside the evaluator's subset (at %s)", name, in.pos(at)))
}

// compareValues orders two values of one ordered type.
func compareValues(a, b Value, in *Interp, at token.Pos) int {
	switch x := a.(type) {
	case string:
		if y, ok := b.(string); ok {
			return strings.Compare(x, y)
		}
	case int64:
		if y, ok := b.(int64); ok {
			switch {
			case x < y:
				return -1
			case x > y:
				return 1
			}
			return 0
		}
	case U64:
		if y, ok := b.(U64); ok {
			switch {
			case x < y:
				return -1
			case x > y:
				return 1
			}
			return 0
		}
	case float64:
		if y, ok := b.(float64); ok {
			switch {
			case x < y:
				return -1
			case x > y:
				return 1
			}
			return 0
		}
	}
	panic(evalErr("comparison of %T and %T is outside the evaluator's subset (at %s)", a, b, in.pos(at)))
}

// asBuf: the buffer behind a *bytes.Buffer / *strings.Builder receiver, which
// is the buffer itself or a pointer to the variable that holds it.
func asBuf(v Value) *Buf {
	switch x := v.(type) {
	case *Buf:
		return x
	case *Ptr:
		if b, ok := x.C.V.(*Buf); ok {
			return b
		}
	}
	panic(evalErr("expected a buffer, have %T", v))
}
