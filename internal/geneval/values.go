// Package geneval is engine E2/E3 of DESIGN.md: a partial evaluator for the
// generator half of package bebop. It folds the generator's own source
// (gen*.go, read from /repo on every run) over abstract schema shapes and
// yields the text every emitter path produces. Nothing from /repo is compiled
// or executed: the evaluator walks the type-checked AST, understands a closed
// subset of Go, and refuses (error => UNDECIDED) anything outside it.
package geneval

import (
	"fmt"
	"go/types"
	"sort"
	"strings"
)

type Value interface{}

type Cell struct{ V Value }

type StructV struct {
	T *types.Named // may be nil for anonymous structs
	S *types.Struct
	F []*Cell // by field index
}

type Ptr struct{ C *Cell }

type SliceV struct{ E []*Cell }

type MapV struct {
	M map[interface{}]*Cell
}

type Tuple []Value

// ErrV is an error value produced by fmt.Errorf or an external sentinel.
type ErrV struct{ Msg string }

// Buf is the evaluator's io.Writer / bytes.Buffer.
type Buf struct{ B strings.Builder }

// Ext is an opaque external object (os.Stderr, io.EOF ...).
type Ext struct{ Name string }

type TypeV struct{ T types.Type }

// VFile is an opened virtual file.
type VFile struct {
	Path string
	File *StructV
}

// U64 carries a uint64 the evaluator must not squeeze into int64 (enum values).
type U64 uint64

func (m *MapV) Keys() []interface{} {
	keys := make([]interface{}, 0, len(m.M))
	for k := range m.M {
		keys = append(keys, k)
	}
	sort.Slice(keys, func(i, j int) bool { return keyLess(keys[i], keys[j]) })
	return keys
}

func keyLess(a, b interface{}) bool {
	switch x := a.(type) {
	case string:
		if y, ok := b.(string); ok {
			return x < y
		}
	case int64:
		if y, ok := b.(int64); ok {
			return x < y
		}
	case bool:
		if y, ok := b.(bool); ok {
			return !x && y
		}
	case U64:
		if y, ok := b.(U64); ok {
			return x < y
		}
	}
	return fmt.Sprint(a) < fmt.Sprint(b)
}

func fieldIndex(s *types.Struct, name string) int {
	for i := 0; i < s.NumFields(); i++ {
		if s.Field(i).Name() == name {
			return i
		}
	}
	return -1
}

// Field returns the cell of a named field (nil if absent).
func (s *StructV) Field(name string) *Cell {
	i := fieldIndex(s.S, name)
	if i < 0 {
		return nil
	}
	return s.F[i]
}

func (s *StructV) Get(name string) Value {
	c := s.Field(name)
	if c == nil {
		panic(evalErr("struct %v has no field %s", s.T, name))
	}
	return c.V
}

func (s *StructV) Set(name string, v Value) *StructV {
	c := s.Field(name)
	if c == nil {
		panic(evalErr("struct %v has no field %s (anchor moved?)", s.T, name))
	}
	c.V = v
	return s
}

// copyVal implements Go's value semantics for structs (and arrays, which the
// generator does not use).
func copyVal(v Value) Value {
	if s, ok := v.(*StructV); ok {
		n := &StructV{T: s.T, S: s.S, F: make([]*Cell, len(s.F))}
		for i, c := range s.F {
			n.F[i] = &Cell{V: copyVal(c.V)}
		}
		return n
	}
	return v
}

func zero(t types.Type) Value {
	switch u := t.Underlying().(type) {
	case *types.Basic:
		switch {
		case u.Info()&types.IsString != 0:
			return ""
		case u.Info()&types.IsBoolean != 0:
			return false
		case u.Info()&types.IsInteger != 0:
			return int64(0)
		case u.Info()&types.IsFloat != 0:
			return float64(0)
		}
		return nil
	case *types.Struct:
		named, _ := t.(*types.Named)
		if named != nil && named.Obj().Pkg() != nil {
			// var b strings.Builder / var b bytes.Buffer
			if pn := named.Obj().Pkg().Path() + "." + named.Obj().Name(); pn == "strings.Builder" || pn == "bytes.Buffer" {
				return &Buf{}
			}
		}
		if named == nil {
			if a, ok := t.(*types.Alias); ok {
				named, _ = types.Unalias(a).(*types.Named)
			}
		}
		s := &StructV{T: named, S: u, F: make([]*Cell, u.NumFields())}
		for i := 0; i < u.NumFields(); i++ {
			s.F[i] = &Cell{V: zero(u.Field(i).Type())}
		}
		return s
	}
	return nil
}

type evalError struct{ msg string }

func (e evalError) Error() string { return e.msg }

func evalErr(format string, a ...interface{}) evalError {
	return evalError{fmt.Sprintf(format, a...)}
}
