// Package core holds the obligation/evidence/known-finding protocol shared by
// every property check (DESIGN.md §1).
package core

import (
	"bufio"
	"encoding/json"
	"fmt"
	"os"
	"path/filepath"
	"regexp"
	"sort"
	"strings"
	"time"
)

// Obl is one obligation: a rule instantiated at one construct of /repo.
type Obl struct {
	Rule string   `json:"rule"` // e.g. "C10/R1"
	Key  string   `json:"key"`  // construct key, never a line number
	Pos  string   `json:"pos,omitempty"`
	OK   bool     `json:"ok"`
	Msg  string   `json:"msg,omitempty"`
	Path []string `json:"path,omitempty"`
}

func (o Obl) ID() string { return o.Rule + " " + o.Key }

// Ctx collects what one run of one property check did.
type Ctx struct {
	Prop     string
	Tier     string
	Seed     int
	RepoDir  string
	VerifDir string

	Obls        []Obl
	Analysed    map[string]int
	Undecided   []string
	Assumptions []string
	Explain     []string
	Samples     []interface{}
	Notes       map[string]interface{}

	start time.Time
	seen  map[string]bool
}

func NewCtx(prop, tier, repo, verif string) *Ctx {
	c := &Ctx{Prop: prop, Tier: tier, RepoDir: repo, VerifDir: verif,
		Analysed: map[string]int{}, Notes: map[string]interface{}{}, start: time.Now(), seen: map[string]bool{}}
	if s := os.Getenv("VERIF_SEED"); s != "" {
		fmt.Sscanf(s, "%d", &c.Seed)
	}
	return c
}

// Check records one obligation. Duplicate (rule,key) pairs are merged: the
// obligation holds only if every instance held.
func (c *Ctx) Check(rule, key, pos string, ok bool, msg string) {
	rule = c.Prop + "/" + rule
	id := rule + " " + key
	if c.seen[id] {
		for i := range c.Obls {
			if c.Obls[i].Rule == rule && c.Obls[i].Key == key {
				if !ok && c.Obls[i].OK {
					c.Obls[i].OK = false
					c.Obls[i].Msg = msg
					c.Obls[i].Pos = pos
				}
				return
			}
		}
	}
	c.seen[id] = true
	c.Obls = append(c.Obls, Obl{Rule: rule, Key: key, Pos: pos, OK: ok, Msg: msg})
}

func (c *Ctx) CheckPath(rule, key, pos string, ok bool, msg string, path []string) {
	c.Check(rule, key, pos, ok, msg)
	if !ok {
		for i := range c.Obls {
			if c.Obls[i].Rule == c.Prop+"/"+rule && c.Obls[i].Key == key {
				c.Obls[i].Path = path
			}
		}
	}
}

func (c *Ctx) Count(name string, n int) { c.Analysed[name] += n }

// Floor makes the run UNDECIDED when fewer instances were analysed than were
// confirmed by hand: a rule that matches nothing must not pass vacuously.
func (c *Ctx) Floor(name string, min int) {
	if c.Analysed[name] < min {
		c.Undecide(fmt.Sprintf("instance floor: %s analysed %d < %d confirmed by reading", name, c.Analysed[name], min))
	}
}

func (c *Ctx) Undecide(format string, a ...interface{}) {
	c.Undecided = append(c.Undecided, fmt.Sprintf(format, a...))
}
func (c *Ctx) Assume(s string) { c.Assumptions = append(c.Assumptions, s) }
func (c *Ctx) Explainf(f string, a ...interface{}) {
	c.Explain = append(c.Explain, fmt.Sprintf(f, a...))
}
func (c *Ctx) Sample(v interface{}) {
	if len(c.Samples) < 12 {
		c.Samples = append(c.Samples, v)
	}
}

// Known findings ----------------------------------------------------------

type Finding struct {
	Status string // "known" | "fixed"
	Prop   string
	Key    string // rule + " " + construct (known only)
	Text   string
}

var knownRe = regexp.MustCompile(`^known: property=(C\d+) key=\[([^\]]*)\] (.*)$`)
var fixedRe = regexp.MustCompile(`^fixed: property=(C\d+) (\S+) (.*)$`)

func LoadFindings(verif string) ([]Finding, error) {
	f, err := os.Open(filepath.Join(verif, "known_findings.txt"))
	if err != nil {
		if os.IsNotExist(err) {
			return nil, nil
		}
		return nil, err
	}
	defer f.Close()
	var out []Finding
	sc := bufio.NewScanner(f)
	sc.Buffer(make([]byte, 1<<20), 1<<20)
	for sc.Scan() {
		ln := strings.TrimSpace(sc.Text())
		if ln == "" || strings.HasPrefix(ln, "#") {
			continue
		}
		if m := knownRe.FindStringSubmatch(ln); m != nil {
			out = append(out, Finding{Status: "known", Prop: m[1], Key: m[2], Text: m[3]})
		} else if m := fixedRe.FindStringSubmatch(ln); m != nil {
			out = append(out, Finding{Status: "fixed", Prop: m[1], Text: m[2] + " " + m[3]})
		} else {
			return nil, fmt.Errorf("known_findings.txt: unparseable line %q", ln)
		}
	}
	return out, sc.Err()
}

// Finish writes evidence and replay files, prints the verdict lines and
// returns the process exit code (0 ok / 1 violation / 2 undecided).
func (c *Ctx) Finish() int {
	findings, err := LoadFindings(c.VerifDir)
	if err != nil {
		c.Undecide("cannot read known findings: %v", err)
	}
	known := map[string]Finding{}
	for _, f := range findings {
		if f.Status == "known" && f.Prop == c.Prop {
			known[f.Key] = f
		}
	}
	sort.SliceStable(c.Obls, func(i, j int) bool { return c.Obls[i].ID() < c.Obls[j].ID() })
	var viol []Obl
	var matched []string
	discharged := 0
	for _, o := range c.Obls {
		if o.OK {
			discharged++
			continue
		}
		if f, ok := known[o.ID()]; ok {
			fmt.Printf("KNOWN-FINDING: property=%s [%s] %s\n", c.Prop, o.ID(), f.Text)
			matched = append(matched, o.ID())
			continue
		}
		viol = append(viol, o)
	}
	// a known finding that no longer fails is reported (informational) so the
	// list can be pruned; it never suppresses anything.
	for k := range known {
		found := false
		for _, m := range matched {
			if m == k {
				found = true
			}
		}
		if !found {
			fmt.Printf("note: listed finding no longer reproduces: property=%s [%s]\n", c.Prop, k)
		}
	}
	exit := 0
	replayDir := filepath.Join(c.VerifDir, "replays", c.Prop)
	if len(viol) > 0 {
		os.MkdirAll(replayDir, 0o755)
	}
	if len(c.Undecided) > 0 {
		exit = 2
		for _, u := range c.Undecided {
			fmt.Printf("UNDECIDED property=%s %s\n", c.Prop, u)
		}
	}
	for _, o := range viol {
		exit = 1
		name := sanitize(o.ID()) + ".json"
		p := filepath.Join(replayDir, name)
		b, _ := json.MarshalIndent(map[string]interface{}{"property": c.Prop, "rule": o.Rule, "key": o.Key, "pos": o.Pos, "msg": o.Msg, "path": o.Path, "tier": c.Tier}, "", " ")
		os.WriteFile(p, b, 0o644)
		fmt.Printf("VIOLATION property=%s replay=%s\n", c.Prop, p)
		fmt.Printf("  %s at %s: %s\n", o.ID(), o.Pos, o.Msg)
	}
	c.writeEvidence(discharged, len(viol), matched)
	keys := make([]string, 0, len(c.Analysed))
	for k := range c.Analysed {
		keys = append(keys, k)
	}
	sort.Strings(keys)
	var parts []string
	for _, k := range keys {
		parts = append(parts, fmt.Sprintf("%s=%d", k, c.Analysed[k]))
	}
	fmt.Printf("%s tier=%s obligations=%d discharged=%d known=%d violations=%d undecided=%d analysed{%s} wall=%.1fs\n",
		c.Prop, c.Tier, len(c.Obls), discharged, len(matched), len(viol), len(c.Undecided), strings.Join(parts, " "), time.Since(c.start).Seconds())
	return exit
}

func sanitize(s string) string {
	var b strings.Builder
	for _, r := range s {
		switch {
		case r >= 'a' && r <= 'z', r >= 'A' && r <= 'Z', r >= '0' && r <= '9', r == '.', r == '-', r == '_':
			b.WriteRune(r)
		default:
			b.WriteByte('_')
		}
	}
	out := b.String()
	if len(out) > 150 {
		out = out[:150]
	}
	return out
}

func (c *Ctx) writeEvidence(discharged, violations int, matched []string) {
	samples := c.Samples
	if len(samples) == 0 {
		for i, o := range c.Obls {
			if i >= 8 {
				break
			}
			samples = append(samples, o)
		}
	}
	// always show the failing obligations among the samples
	for _, o := range c.Obls {
		if !o.OK && len(samples) < 40 {
			samples = append(samples, o)
		}
	}
	perRule := map[string][2]int{}
	for _, o := range c.Obls {
		v := perRule[o.Rule]
		v[0]++
		if o.OK {
			v[1]++
		}
		perRule[o.Rule] = v
	}
	rules := map[string]interface{}{}
	for k, v := range perRule {
		rules[k] = map[string]int{"obligations": v[0], "discharged": v[1]}
	}
	if matched == nil {
		matched = []string{}
	}
	und := c.Undecided
	if und == nil {
		und = []string{}
	}
	ev := map[string]interface{}{
		"property_id": c.Prop,
		"tier":        c.Tier,
		"seed":        c.Seed,
		"level":       "other",
		"coverage": map[string]interface{}{
			"explanation":            strings.Join(c.Explain, "\n"),
			"obligations":            len(c.Obls),
			"discharged":             discharged,
			"known_findings_matched": matched,
			"analysed":               c.Analysed,
			"per_rule":               rules,
			"samples":                samples,
			"undecided":              und,
			"notes":                  c.Notes,
			"exhaustive":             false,
		},
		"assumptions": append([]string{}, c.Assumptions...),
		"wall_s":      time.Since(c.start).Seconds(),
		"violations":  violations,
	}
	b, _ := json.MarshalIndent(ev, "", " ")
	dir := filepath.Join(c.VerifDir, "evidence")
	os.MkdirAll(dir, 0o755)
	os.WriteFile(filepath.Join(dir, c.Prop+".json"), b, 0o644)
}
