package rules

import (
	"fmt"
	"go/ast"
	"go/token"
	"go/types"
	"regexp"
	"sort"
	"strings"

	"bebopverif/internal/core"
	"bebopverif/internal/genfacts"
	"bebopverif/internal/load"
	"bebopverif/internal/wire"
)

// ---- C03 -------------------------------------------------------------------

func init() { register("C03", checkC03) }

func checkC03(c *core.Ctx) {
	c.Explainf("C03 (decided clause: spec-table conformance). The reference that shares no code with the repository is a spec table transcribed into the checker from the published Bebop wire format: scalar widths, enum = base integer, string/array/map = u32 count prefix, byte arrays raw, date = 100ns ticks as int64, message = u32(len after prefix) + (u8 index, value)* + 0, union = u32(len of body) + u8 discriminator + body, GUID byte order [3,2,1,0,5,4,7,6,8..15]. Every emitted encoder, decoder and Size() of every explored shape must reduce to the signature the table prescribes; R7: the byte decoders move their cursor past a nested message by 4+len and past a nested union by 5+len, as the format lays them out; the scalar layout and GUID tables of iohelp are read from its AST. NOT decided: acceptance of every conformant encoding as behaviour; little-endianness is an assumption (native-order unsafe loads).")
	c.Assume("GOARCH is little-endian: iohelp moves scalars with native-order unsafe loads/stores")
	c.Assume("the wire-format table in internal/genfacts/universe.go and internal/wire/spec.go is a faithful transcription of the published Bebop format")
	gr := startGen(c)
	if gr == nil {
		return
	}
	for _, rf := range gr.ga.Recs {
		ew, err1 := gr.ga.expectedRecord(rf, "w")
		er, err2 := gr.ga.expectedRecord(rf, "r")
		if err1 != nil || err2 != nil {
			c.Undecide("no spec signature for %s: %v %v", rf.shapeKey(), err1, err2)
			continue
		}
		for _, m := range []string{mBW, mSW, mBR, mBRu, mSR} {
			mf := rf.M[m]
			if !mf.Present {
				continue
			}
			want := ew
			if m == mBR || m == mBRu || m == mSR {
				want = er
			}
			gr.diffFrames("R3", rf, m, "spec", mf.Items, want)
			gr.diffBodies("R2", rf, m, "spec", mf.Items, want, true)
			// R7: a byte decoder reads each value at the offset the format puts it:
			// after a nested message 4+len bytes on, after a nested union 5+len
			if m == mBR || m == mBRu {
				bad := false
				for _, f := range mf.Fails {
					if f.Rule == "cursor" {
						bad = true
						c.Check("R7", failKey(rf, m, f), anchorPos(gr.p, rf.Spec.Kind, m), false, f.Msg+" — "+rf.where(f.Pos))
					}
				}
				if !bad {
					c.Check("R7", m+" reads every value at its offset "+bodyKeyAll(rf), anchorPos(gr.p, rf.Spec.Kind, m), true, "")
				}
			}
		}
		if sz := rf.M[mSZ]; sz.Present {
			want := wire.SzString(normSzTop(wire.SizeOf(ew)))
			got := wire.SzString(normSzTop(sz.Size))
			c.Check("R2s", "Size vs spec "+bodyKeyAll(rf), anchorPos(gr.p, rf.Spec.Kind, mSZ), got == want,
				fmt.Sprintf("Size() computes %s; the wire format's length is %s — %s", got, want, rf.where(sz.Decl.Pos())))
		}
		// R3: the stream decoder bounds the body by the prefix: message N=len, union N=len+1
		if sr := rf.M[mSR]; sr.Present && rf.Spec.Kind != genfacts.ClsStruct {
			wantExtra := 0
			if rf.Spec.Kind == genfacts.ClsUnion {
				wantExtra = 1
			}
			ok := sr.Lim.Installed && sr.Lim.Extra == wantExtra && len(sr.Lim.ShortReturns) == 0
			c.Check("R3", "stream limiter N=prefix+K "+frameKey(rf), anchorPos(gr.p, rf.Spec.Kind, mSR), ok,
				fmt.Sprintf("limiter installed=%v N=prefix+%d, the format needs +%d — %s", sr.Lim.Installed, sr.Lim.Extra, wantExtra, rf.where(sr.Lim.Pos)))
		}
	}
	// R1: width table in the generator == spec widths
	checkFixedSizeTable(c, gr)
	// R4/R5 + scalar layout live in iohelp
	iohelpLayoutRules(c, gr.p, "R1w", "R4", "R5")
	// R6: a conformant encoding is read back by helpers that take exactly the
	// declared bytes and never look at, or bound themselves by, the underlying reader
	iohelpStreamWidths(c, gr.p, "R6")
	iohelpLatchRules(c, gr.p, "-", "R6a", "-", "-")
	dropRules(c, "-")
	gr.sample(3)
}

// checkFixedSizeTable compares the generator's fixedSizeTypes literal with
// the spec table.
func checkFixedSizeTable(c *core.Ctx, gr *genRun) {
	pkg := gr.p.Bebop()
	obj := pkg.Types.Scope().Lookup("fixedSizeTypes")
	if obj == nil {
		c.Undecide("fixedSizeTypes not found")
		return
	}
	var lit *ast.CompositeLit
	var pos token.Pos
	for _, f := range pkg.Syntax {
		ast.Inspect(f, func(n ast.Node) bool {
			if vs, ok := n.(*ast.ValueSpec); ok {
				for i, nm := range vs.Names {
					if pkg.TypesInfo.Defs[nm] == obj && i < len(vs.Values) {
						lit, _ = vs.Values[i].(*ast.CompositeLit)
						pos = vs.Pos()
					}
				}
			}
			return true
		})
	}
	if lit == nil {
		c.Undecide("fixedSizeTypes is not a map literal any more")
		return
	}
	got := map[string]int{}
	for _, el := range lit.Elts {
		kv, ok := el.(*ast.KeyValueExpr)
		if !ok {
			continue
		}
		ktv, vtv := pkg.TypesInfo.Types[kv.Key], pkg.TypesInfo.Types[kv.Value]
		if ktv.Value == nil || vtv.Value == nil {
			c.Undecide("fixedSizeTypes has a non-constant entry at %s", gr.p.Pos(kv.Pos()))
			return
		}
		k := strings.Trim(ktv.Value.ExactString(), `"`)
		var v int
		fmt.Sscanf(vtv.Value.ExactString(), "%d", &v)
		got[k] = v
	}
	for name, w := range genfacts.SpecWidth {
		g, ok := got[name]
		c.Check("R1", "fixedSizeTypes["+name+"]", gr.p.Pos(pos), ok && g == w, fmt.Sprintf("generator width table says %d (present=%v), the wire format says %d", g, ok, w))
	}
	for name := range got {
		if _, ok := genfacts.SpecWidth[name]; !ok {
			c.Check("R1", "fixedSizeTypes["+name+"]", gr.p.Pos(pos), false, "entry for a type the wire format does not define as fixed-width")
		}
	}
	c.Count("width_table_entries", len(got))
}

// ---- C04 -------------------------------------------------------------------

func init() { register("C04", checkC04) }

func checkC04(c *core.Ctx) {
	c.Explainf("C04 (decided clauses). R1: after a nested record is decoded from buf[at:], the cursor advance must be derived from the input (a consumed count or the length on the wire), never from Size() of the decoded value — a reader that knows fewer fields computes a smaller Size() than what was sent; checked on every emitted UnmarshalBebop/MustUnmarshalBebop of every explored shape by symbolic cursor simulation; the wire-derived advance is 4+len after a message and 5+len after a union. R2: the dispatch of every message/union decoder has a default arm that ends decoding without an error (byte path) or drains the bounded region, restores the base reader and returns the latch (stream path). R3: the stream path bounds the body with io.LimitedReader{R: <saved r.Reader>, N: int64(<prefix read>)[+1]}. R4: decoders keep arms for deprecated fields, encoders and Size() omit them. R6: the encoders write message fields in ascending index order (an older reader stops at the first unknown index). R7: no byte decoder returns an error for the value of the length prefix alone (`if bodyLen > K { return … }`): a newer writer's body is longer than anything this reader's schema produces. NOT decided: equality of the restricted value on the common fields.")
	gr := startGen(c)
	if gr == nil {
		return
	}
	for _, rf := range gr.ga.Recs {
		for _, m := range []string{mBR, mBRu} {
			mf := rf.M[m]
			if !mf.Present {
				continue
			}
			bad := map[string]wire.Fail{}
			for _, f := range mf.Fails {
				if f.Rule == "sizeadv" {
					bad[failKey(rf, m, f)] = f
				}
			}
			for k, f := range bad {
				c.Check("R1", k, anchorPos(gr.p, rf.Spec.Kind, m), false, f.Msg+" — "+rf.where(f.Pos))
			}
			// R7: no record is refused for the value of its length prefix
			for _, f := range mf.Fails {
				if f.Rule == "prefixreject" {
					c.Check("R7", failKey(rf, m, f), anchorPos(gr.p, rf.Spec.Kind, m), false, f.Msg+" — "+rf.where(f.Pos))
				}
			}
			// positive instances: nested records whose advance is wire-derived
			if len(bad) == 0 {
				c.Check("R1", "wire-derived advance "+m+" "+bodyKeyAll(rf), anchorPos(gr.p, rf.Spec.Kind, m), true, "")
			}
			// R2 byte path: default arm returns without error
			if rf.Spec.Kind != genfacts.ClsStruct {
				ok := false
				for _, it := range mf.Items {
					if it.Kind == wire.KSwitch {
						for _, cs := range it.Cases {
							if cs.Default && cs.Returns {
								ok = true
							}
						}
					}
				}
				retOK := true
				for _, r := range mf.Returns {
					if !(r == "nil" || r == "" || r == "err" || r == "io.ErrUnexpectedEOF" || r == "iohelp.ErrUnpopulatedUnion") {
						retOK = false
					}
				}
				c.Check("R2", "unknown index ends decoding "+m+" "+frameKey(rf), anchorPos(gr.p, rf.Spec.Kind, m), ok && retOK,
					fmt.Sprintf("default arm present+returning=%v, returns=%v — %s", ok, mf.Returns, rf.where(mf.Decl.Pos())))
			}
		}
		if sr := rf.M[mSR]; sr.Present && rf.Spec.Kind != genfacts.ClsStruct {
			l := sr.Lim
			ok := l.Installed && l.OKShape && l.PrefixVar != "" && len(l.ReturnsBad) == 0 && len(l.DrainBad) == 0 && len(l.ShortReturns) == 0
			c.Check("R3", "stream body bounded by prefix "+frameKey(rf), anchorPos(gr.p, rf.Spec.Kind, mSR), ok,
				fmt.Sprintf("limiter %+v — %s", l, rf.where(l.Pos)))
			for _, f := range sr.Fails {
				if f.Rule == "limiter" {
					c.Check("R3", failKey(rf, mSR, f), anchorPos(gr.p, rf.Spec.Kind, mSR), false, f.Msg+" — "+rf.where(f.Pos))
				}
			}
			hasDefault := false
			for _, it := range sr.Items {
				if it.Kind == wire.KSwitch {
					for _, cs := range it.Cases {
						if cs.Default && cs.Returns {
							hasDefault = true
						}
					}
				}
			}
			c.Check("R2", "unknown index drains and returns the latch DecodeBebop "+frameKey(rf), anchorPos(gr.p, rf.Spec.Kind, mSR), hasDefault && gr.defaultDrains(rf),
				"default arm of the stream dispatch must be r.Drain(); r.Reader = baseReader; return r.Err — "+rf.where(sr.Decl.Pos()))
		}
		// R6: an older reader stops at the first index it does not know, so every
		// index it does know has to be on the wire before that one: the encoders
		// write message fields in ascending index order
		if rf.Spec.Kind == genfacts.ClsMessage {
			for _, m := range []string{mBW, mSW} {
				mf := rf.M[m]
				if !mf.Present {
					continue
				}
				var tags []int
				var walk func(items []wire.Item)
				walk = func(items []wire.Item) {
					for _, it := range items {
						if it.Kind == wire.KOpt && it.Tag >= 0 {
							tags = append(tags, it.Tag)
						}
					}
				}
				walk(mf.Items)
				asc := true
				for i := 1; i < len(tags); i++ {
					if tags[i] <= tags[i-1] {
						asc = false
					}
				}
				c.Check("R6", m+" writes fields in ascending index order "+frameKey(rf), anchorPos(gr.p, rf.Spec.Kind, m), asc,
					fmt.Sprintf("indices are written in the order %v: a reader of an older schema version stops at the first index it does not know and loses the lower, known indices that follow — %s", tags, rf.where(mf.Decl.Pos())))
			}
		}
		// R4: deprecated asymmetry
		if rf.Spec.Kind == genfacts.ClsMessage {
			for _, f := range rf.Spec.Fields {
				if !f.Deprecated {
					continue
				}
				for _, m := range []string{mBW, mSW} {
					if mf := rf.M[m]; mf.Present {
						_, has := bodies(rf.Spec.Kind, mf.Items)[f.Num]
						c.Check("R4", m+" omits deprecated fields "+frameKey(rf), anchorPos(gr.p, rf.Spec.Kind, m), !has, fmt.Sprintf("deprecated field %d is transmitted — %s", f.Num, rf.where(mf.Decl.Pos())))
					}
				}
				for _, m := range []string{mBR, mBRu, mSR} {
					if mf := rf.M[m]; mf.Present {
						_, has := bodies(rf.Spec.Kind, mf.Items)[f.Num]
						c.Check("R4", m+" accepts deprecated fields "+frameKey(rf), anchorPos(gr.p, rf.Spec.Kind, m), has, fmt.Sprintf("no dispatch arm for deprecated field %d — %s", f.Num, rf.where(mf.Decl.Pos())))
					}
				}
			}
		}
	}
	// R2d: skipping unknown fields on the stream path is Drain's job
	iohelpDrain(c, gr.p, "R2d", false)
	gr.sample(3)
}

// defaultDrains checks the statement order of the stream dispatch's default arm.
func (gr *genRun) defaultDrains(rf *RecFacts) bool {
	fd := rf.M[mSR].Decl
	base := rf.M[mSR].Lim.BaseVar
	// the statements run for a discriminator/index the reader does not know:
	// the default arm of the dispatch, or — when the dispatch has none and is
	// not inside a loop — what follows the switch
	var unknown []ast.Stmt
	found := false
	labelTail := map[string][]ast.Stmt{}
	var visit func(list []ast.Stmt, inLoop bool)
	visit = func(list []ast.Stmt, inLoop bool) {
		for i, st := range list {
			switch x := st.(type) {
			case *ast.ForStmt:
				visit(x.Body.List, true)
			case *ast.LabeledStmt:
				// L: for { switch … default: break L } followed by the statements
				// that `break L` leads to
				if loop, ok := x.Stmt.(*ast.ForStmt); ok {
					labelTail[x.Label.Name] = list[i+1:]
					visit(loop.Body.List, true)
				}
			case *ast.SwitchStmt:
				if x.Tag == nil || found {
					continue
				}
				isDispatch := false
				ast.Inspect(x.Tag, func(n ast.Node) bool {
					if call, ok := n.(*ast.CallExpr); ok && strings.HasSuffix(wire.Canon(call.Fun), "ReadByte") {
						isDispatch = true
					}
					return true
				})
				if !isDispatch {
					continue
				}
				found = true
				hasDefault := false
				for _, cc := range x.Body.List {
					if cl := cc.(*ast.CaseClause); cl.List == nil {
						hasDefault = true
						unknown = cl.Body
						if len(cl.Body) == 1 {
							if br, ok := cl.Body[0].(*ast.BranchStmt); ok && br.Tok == token.BREAK && br.Label != nil {
								if tail, ok := labelTail[br.Label.Name]; ok {
									unknown = tail
								}
							}
						}
					}
				}
				if !hasDefault && !inLoop {
					unknown = list[i+1:]
				}
			}
		}
	}
	visit(fd.Body.List, false)
	// the drain and the restore may be deferred (they then run at every exit):
	// the arm itself only returns the latch. That the latch is read before the
	// deferred Drain runs is C08's concern, not this property's.
	if lim := rf.M[mSR].Lim; found && lim.DeferredDrain && lim.DeferredRestore && len(unknown) == 1 {
		if rs, ok := unknown[0].(*ast.ReturnStmt); ok && len(rs.Results) == 1 && wire.Canon(rs.Results[0]) == "r.Err" {
			return true
		}
	}
	if !found || len(unknown) != 3 {
		return false
	}
	es, ok1 := unknown[0].(*ast.ExprStmt)
	as, ok2 := unknown[1].(*ast.AssignStmt)
	rs, ok3 := unknown[2].(*ast.ReturnStmt)
	if !ok1 || !ok2 || !ok3 {
		return false
	}
	return wire.Canon(es.X) == "r.Drain()" &&
		len(as.Lhs) == 1 && len(as.Rhs) == 1 && wire.Canon(as.Lhs[0]) == "r.Reader" && wire.Canon(as.Rhs[0]) == base &&
		len(rs.Results) == 1 && wire.Canon(rs.Results[0]) == "r.Err"
}

// ---- C06 / C07 (generator part) -------------------------------------------

func init() { register("C06", checkC06); register("C07", checkC07) }

func checkC06(c *core.Ctx) {
	c.Explainf("C06 (decided clauses). R1/R1b: in every emitted UnmarshalBebop, each read of buf (iohelp.Read*Bytes, buf[at], buf = buf[n:], copy from buf) must be covered by a preceding `len(buf[at:]) < n` check that proves at least the bytes it touches, tracked by symbolic cursor simulation (constant and len(x)*k byte counts, bulk checks before fixed-size element loops), or be a call to a helper that checks itself (ReadStringBytes*, Make*FromBytes); the cursor may only be advanced by amounts proven present — an advance by Size() of a decoded record is not. R2: the checked string readers of iohelp guard their slice by two dominating length tests. R3: no iohelp stream reader computes its result from the scratch buffer on the path where the read failed, unless ErrorReader.Read clears the destination on failure. R4: errors of nested reads are returned immediately. R5: Drain latches a premature end of the bounded region. R6: in the byte decoder every allocation sized by a count from the input is preceded by a check of that count against the remaining input (the stream decoder's unbounded allocations are the known finding recorded under C07/R2 and are not repeated here). NOT decided: 'does not hang' and memory proportionality as quantities.")
	c.Assume("int is 64 bits wide (int(sz)+4 in ReadStringBytes cannot wrap); 32-bit targets are outside the claim")
	gr := startGen(c)
	if gr == nil {
		return
	}
	for _, rf := range gr.ga.Recs {
		mf := rf.M[mBR]
		if !mf.Present {
			continue
		}
		bad := map[string]wire.Fail{}
		for _, f := range mf.Fails {
			switch f.Rule {
			case "check", "sizeadv", "errprop":
				bad[failKey(rf, mBR, f)] = f
			}
		}
		for k, f := range bad {
			rule := map[string]string{"check": "R1", "sizeadv": "R1b", "errprop": "R4"}[f.Rule]
			c.Check(rule, k, anchorPos(gr.p, rf.Spec.Kind, mBR), false, f.Msg+" — "+rf.where(f.Pos))
		}
		if len(bad) == 0 {
			c.Check("R1", "all reads covered "+bodyKeyAll(rf), anchorPos(gr.p, rf.Spec.Kind, mBR), true, "")
		}
		// R6 (= C07/R2 on the byte path): a prefix that still holds the count
		// must not make the decoder allocate for elements the prefix cannot hold
		for _, a := range mf.Allocs {
			key := fmt.Sprintf("alloc %s %s", mBR, a.Kind)
			c.Check("R6", key, anchorPos(gr.p, rf.Spec.Kind, mBR), a.Bounded || a.ZeroSize,
				fmt.Sprintf("make(%s) for %s is sized by a count read from the input with no preceding check against the remaining input: a short prefix of a large encoding allocates for the whole of it — %s", a.Kind, a.Operand, rf.where(a.Pos)))
		}
		for _, m := range []string{mSR} {
			for _, f := range rf.M[m].Fails {
				if f.Rule == "errprop" {
					c.Check("R4", failKey(rf, m, f), anchorPos(gr.p, rf.Spec.Kind, m), false, f.Msg+" — "+rf.where(f.Pos))
				}
			}
		}
	}
	iohelpCheckedStrings(c, gr.p, "R2")
	iohelpStaleReads(c, gr.p, "R3")
	iohelpLatchRules(c, gr.p, "R3l", "R3a", "R3d", "-")
	dropRules(c, "-")
	iohelpDrain(c, gr.p, "R5", true)
	gr.sample(2)
}

func checkC07(c *core.Ctx) {
	c.Explainf("C07 (decided clauses). R1: the checked decoder (UnmarshalBebop) of every explored shape reaches no unchecked helper (MustReadStringBytes*, MustMake*FromBytes); R2: every allocation sized by a count read from the input is preceded by a check relating that count to the remaining input — byte path sites and stream path sites are enumerated; R3: every count-bounded loop of the checked byte decoder contains, per iteration, a length check or a self-checking read, so iterations are bounded by len(buf); R4: no panic() is reachable from the iohelp functions the checked decoders call. R0: every read of the checked byte decoder is covered by a length check (the same analysis as C06/R1: an uncovered read is a panic on hostile input) and the checked string readers guard their slices; R3d: Drain terminates on any error. R5s: after a failed read no stream reader decodes stale scratch bytes (= C06/R3): a stale length prefix read back as a count is an allocation the input does not pay for. NOT decided: actual memory/time.")
	gr := startGen(c)
	if gr == nil {
		return
	}
	for _, rf := range gr.ga.Recs {
		mf := rf.M[mBR]
		if mf.Present {
			n := 0
			for _, f := range mf.Fails {
				if f.Rule == "check" {
					// an uncovered read is a panic on hostile input, not only on truncated input
					c.Check("R0", failKey(rf, mBR, f), anchorPos(gr.p, rf.Spec.Kind, mBR), false, f.Msg+" — "+rf.where(f.Pos))
				}
				if f.Rule == "unchecked" {
					n++
					c.Check("R1", failKey(rf, mBR, f), anchorPos(gr.p, rf.Spec.Kind, mBR), false, f.Msg+" — "+rf.where(f.Pos))
				}
			}
			if n == 0 {
				c.Check("R1", "no unchecked helper "+bodyKeyAll(rf), anchorPos(gr.p, rf.Spec.Kind, mBR), true, "")
			}
			for _, f := range mf.Fails {
				if f.Rule == "wrapcheck" {
					c.Check("R2", "wrapping length check "+mBR+" "+kindName(rf.Spec.Kind), anchorPos(gr.p, rf.Spec.Kind, mBR), false, f.Msg+" — "+rf.where(f.Pos))
				}
			}
			for _, a := range mf.Allocs {
				// one emitter branch (array / map) produces every such site
				key := fmt.Sprintf("alloc %s %s", mBR, a.Kind)
				c.Check("R2", key, anchorPos(gr.p, rf.Spec.Kind, mBR), a.Bounded || a.ZeroSize,
					fmt.Sprintf("make(%s) for %s is sized by a count read from the input with no preceding check against the remaining input — %s", a.Kind, a.Operand, rf.where(a.Pos)))
			}
			gr.loopProgress(rf)
		}
		if sr := rf.M[mSR]; sr.Present {
			for _, a := range sr.Allocs {
				if !a.Hint {
					continue // a map made without a size hint allocates nothing up front
				}
				key := fmt.Sprintf("alloc %s %s", mSR, a.Kind)
				c.Check("R2", key, anchorPos(gr.p, rf.Spec.Kind, mSR), false,
					fmt.Sprintf("stream decoder allocates %s for %s from a count read off the stream; nothing bounds it — %s", a.Kind, a.Operand, rf.where(a.Pos)))
			}
		}
	}
	iohelpNoPanic(c, gr.p, "R4")
	iohelpCheckedStrings(c, gr.p, "R0s")
	iohelpDrain(c, gr.p, "R3d", false)
	iohelpStaleReads(c, gr.p, "R5s")
	gr.sample(2)
}

// loopProgress: each counted loop body of the checked byte decoder holds a
// length check or a self-checking read.
func (gr *genRun) loopProgress(rf *RecFacts) {
	fd := rf.M[mBR].Decl
	info := rf.GF.Info
	_ = info
	ast.Inspect(fd.Body, func(n ast.Node) bool {
		var body *ast.BlockStmt
		switch x := n.(type) {
		case *ast.ForStmt:
			if x.Cond == nil {
				return true
			}
			body = x.Body
		case *ast.RangeStmt:
			body = x.Body
		default:
			return true
		}
		progress := false
		bulk := false
		zeroFootprint := false
		ast.Inspect(body, func(m ast.Node) bool {
			switch y := m.(type) {
			case *ast.IfStmt:
				if _, isRem := wire.RemainingBelow(y.Cond); isRem {
					progress = true
				}
			case *ast.CallExpr:
				fn := wire.Canon(y.Fun)
				if strings.HasPrefix(fn, "iohelp.ReadStringBytes") {
					progress = true
				}
				base := fn[strings.LastIndex(fn, ".")+1:]
				if strings.HasPrefix(strings.ToLower(base), "make") && strings.HasSuffix(base, "FromBytes") {
					// a nested record decoder fails on an exhausted buffer unless the
					// record has no wire footprint at all (a struct without fields)
					tname := base[4 : len(base)-len("FromBytes")]
					if sz := rf.GF.Methods[tname+".Size"]; sz != nil && sz.Body != nil && len(sz.Body.List) == 1 && strings.Join(strings.Fields(rf.GF.Snippet(sz.Body.List[0])), " ") == "return 0" {
						zeroFootprint = true
					} else {
						progress = true
					}
				}
			}
			return true
		})
		// a loop right after a bulk check `len(buf[at:]) < len(x)*k` is bounded by it
		if !progress {
			bulk = gr.precededByBulkCheck(rf, fd, n)
		}
		typ := "loop"
		key := fmt.Sprintf("loop progress %s %s", mBR, bodyKeyAll(rf))
		if len(rf.Spec.Fields) == 1 && rf.Spec.Kind != genfacts.ClsUnion {
			leaf := rf.Spec.Fields[0].Shape.Leaf()
			if strings.HasPrefix(leaf, "En") {
				leaf = "enum"
			}
			key = fmt.Sprintf("loop progress %s leaf=%s", mBR, leaf)
		}
		_ = typ
		gr.c.Check("R3", key, anchorPos(gr.p, rf.Spec.Kind, mBR), progress || bulk,
			fmt.Sprintf("a count-bounded loop of the checked decoder has neither a per-iteration length check nor a preceding bulk check (element without wire footprint: %v): its iteration count is whatever the 4 count bytes say — %s", zeroFootprint, rf.where(n.Pos())))
		return true
	})
}

func (gr *genRun) precededByBulkCheck(rf *RecFacts, fd *ast.FuncDecl, loop ast.Node) bool {
	found := false
	scanList := func(list []ast.Stmt) {
		for i, s := range list {
			if s == loop && i > 0 {
				if ifs, ok := list[i-1].(*ast.IfStmt); ok {
					if bound, isRem := wire.RemainingBelow(ifs.Cond); isRem && strings.HasPrefix(rf.GF.Snippet(bound), "len(") {
						found = true
					}
				}
			}
		}
	}
	ast.Inspect(fd.Body, func(n ast.Node) bool {
		switch b := n.(type) {
		case *ast.BlockStmt:
			scanList(b.List)
		case *ast.CaseClause:
			scanList(b.Body)
		}
		return true
	})
	return found
}

// ---- C09 -------------------------------------------------------------------

func init() { register("C09", checkC09) }

var lnCounter = regexp.MustCompile(`\bln[0-9]+\b`)

var bbpField = regexp.MustCompile(`bbp\.([A-Za-z_])`)

func optionNeutral(s string) string {
	return bbpField.ReplaceAllStringFunc(s, func(m string) string { return strings.ToLower(m) })
}

func checkC09(c *core.Ctx) {
	c.Explainf("C09 (decided clauses: option-influence analysis). R1: every read of one of the five public option fields of GenerateSettings in package bebop is enumerated (type-resolved selectors) and must be the condition of an if/else-if, so its influence is a choice between two emit sequences. R2: the generator is folded under all 32 option combinations for every explored shape and the wire-op signature of each emitted method must be identical across all combinations (operands compared modulo the exported/private spelling of field names). R3: GenerateUnsafeMethods only adds MustUnmarshalBebop/MustMake*; no other method's text depends on it. R4: MustUnmarshalBebop has the same signature as UnmarshalBebop (checks and error returns are not part of a signature). NOT decided: value equality; that differing identifiers compile under every combination is C12.")
	gr := startGen(c)
	if gr == nil {
		return
	}
	type key struct {
		batch int
		name  string
		m     string
	}
	ref := map[key]string{}
	refOpt := map[key]string{}
	for _, rf := range gr.ga.Recs {
		for _, m := range allMethods {
			mf := rf.M[m]
			if !mf.Present {
				continue
			}
			var sig string
			if m == mSZ {
				sig = wire.SzString(normSzTop(mf.Size))
			} else {
				sig = wire.Sig(mf.Items)
			}
			sig = optionNeutral(sig)
			k := key{rf.GF.Batch, rf.Spec.Name, m}
			if prev, ok := ref[k]; ok {
				c.Check("R2", m+" "+bodyKeyAll(rf), anchorPos(gr.p, rf.Spec.Kind, m), prev == sig,
					fmt.Sprintf("signature under options %s differs from options %s:\n   %s\n   %s\n — %s", rf.GF.Opts, refOpt[k], sig, prev, rf.where(mf.Decl.Pos())))
			} else {
				ref[k] = sig
				refOpt[k] = rf.GF.Opts.String()
			}
		}
		// R4
		if a, b := rf.M[mBR], rf.M[mBRu]; a.Present && b.Present {
			d, pos, same := wire.Diff(b.Items, a.Items)
			c.Check("R4", "MustUnmarshalBebop vs UnmarshalBebop "+bodyKeyAll(rf), anchorPos(gr.p, rf.Spec.Kind, mBRu), same, d+" — "+rf.where(pos))
		}
		// R4b: under every option set both byte decoders keep the cursor in step
		for _, m := range []string{mBR, mBRu} {
			if mf := rf.M[m]; mf.Present {
				for _, f := range mf.Fails {
					if f.Rule == "cursor" {
						c.Check("R4", failKey(rf, m, f)+" options="+rf.GF.Opts.String(), anchorPos(gr.p, rf.Spec.Kind, m), false, f.Msg+" — "+rf.where(f.Pos))
					}
				}
			}
		}
		// R3: unsafe methods present iff the option is on
		has := rf.M[mBRu].Emitted
		c.Check("R3", "MustUnmarshalBebop emitted iff GenerateUnsafeMethods "+kindName(rf.Spec.Kind), anchorPos(gr.p, rf.Spec.Kind, mBRu), has == rf.GF.Opts.Unsafe,
			fmt.Sprintf("present=%v under options %s — %s", has, rf.GF.Opts, rf.where(token.NoPos)))
	}
	// R3b: the text of every method other than the Must* pair is identical
	// whether or not GenerateUnsafeMethods is set
	type tkey struct {
		batch        int
		name, method string
		rest         string // the other four options
	}
	texts := map[tkey]string{}
	for _, rf := range gr.ga.Recs {
		o := rf.GF.Opts
		rest := fmt.Sprintf("%v%v%v%v%v", o.SharedMem, o.Tags, o.Private, o.PtrRecv, o.Combined)
		for _, m := range []string{mBW, mSW, mSZ, mBR, mSR} {
			mf := rf.M[m]
			if !mf.Present {
				continue
			}
			// the shared counter behind ln<N> advances when Must* methods are emitted too
			txt := lnCounter.ReplaceAllString(rf.GF.Snippet(mf.Decl), "ln#")
			k := tkey{rf.GF.Batch, rf.Spec.Name, m, rest}
			if prev, ok := texts[k]; ok {
				same := prev == txt
				msg := ""
				if !same {
					msg = "the emitted text of " + m + " changes with GenerateUnsafeMethods, which must only add MustUnmarshalBebop/MustMake* — " + rf.where(mf.Decl.Pos())
				}
				c.Check("R3", "text of "+m+" independent of GenerateUnsafeMethods "+bodyKeyAll(rf), anchorPos(gr.p, rf.Spec.Kind, m), same, msg)
			} else {
				texts[k] = txt
			}
		}
	}
	// R5: SharedMemoryStrings selects iohelp readers that differ from the copying
	// ones only in the final conversion: same guards, no index outside them
	iohelpCheckedStrings(c, gr.p, "R5")
	iohelpMustStrings(c, gr.p, "R5")
	optionReadSites(c, gr)
	gr.sample(2)
}

// optionReadSites enumerates reads of the public option fields (R1).
func optionReadSites(c *core.Ctx, gr *genRun) {
	pkg := gr.p.Bebop()
	gs, _ := pkg.Types.Scope().Lookup("GenerateSettings").(*types.TypeName)
	if gs == nil {
		c.Undecide("GenerateSettings not found")
		return
	}
	st, _ := gs.Type().Underlying().(*types.Struct)
	opt := map[*types.Var]bool{}
	for i := 0; i < st.NumFields(); i++ {
		f := st.Field(i)
		if f.Exported() && !f.Embedded() {
			if b, ok := f.Type().Underlying().(*types.Basic); ok && b.Kind() == types.Bool {
				opt[f] = true
			}
		}
	}
	c.Count("option_fields", len(opt))
	for _, f := range pkg.Syntax {
		var stack []ast.Node
		ast.Inspect(f, func(n ast.Node) bool {
			if n == nil {
				stack = stack[:len(stack)-1]
				return true
			}
			stack = append(stack, n)
			sel, ok := n.(*ast.SelectorExpr)
			if !ok {
				return true
			}
			s := pkg.TypesInfo.Selections[sel]
			if s == nil || s.Kind() != types.FieldVal {
				return true
			}
			v, _ := s.Obj().(*types.Var)
			if !opt[v] {
				return true
			}
			c.Count("option_reads", 1)
			// walk up through !, &&, ||, parens to an IfStmt condition
			inCond := false
			for i := len(stack) - 2; i >= 0; i-- {
				switch p := stack[i].(type) {
				case *ast.ParenExpr, *ast.UnaryExpr, *ast.BinaryExpr:
					continue
				case *ast.IfStmt:
					inCond = containsNode(p.Cond, sel)
				}
				break
			}
			fn := enclosingFunc(stack)
			// an inventory, not a verdict: however the option is read (an if, a
			// map[bool] key, an argument), it has two values, and R2/R3 compare
			// what is emitted under every one of the 2^5 option sets
			if !inCond {
				c.Count("option_reads_outside_if", 1)
			}
			c.Check("R1", fmt.Sprintf("option read %s in %s", v.Name(), fn), gr.p.Pos(sel.Pos()), true, "")
			return true
		})
	}
	c.Floor("option_reads", 8)
	c.Floor("option_fields", 5)
}

func containsNode(root ast.Node, target ast.Node) bool {
	found := false
	ast.Inspect(root, func(n ast.Node) bool {
		if n == target {
			found = true
		}
		return !found
	})
	return found
}

func enclosingFunc(stack []ast.Node) string {
	for i := len(stack) - 1; i >= 0; i-- {
		if fd, ok := stack[i].(*ast.FuncDecl); ok {
			if fd.Recv != nil && len(fd.Recv.List) == 1 {
				t := fd.Recv.List[0].Type
				if s, ok := t.(*ast.StarExpr); ok {
					t = s.X
				}
				return wire.Canon(t) + "." + fd.Name.Name
			}
			return fd.Name.Name
		}
	}
	return "?"
}

// ---- C12 -------------------------------------------------------------------

func init() { register("C12", checkC12) }

var posPrefix = regexp.MustCompile(`^[^ ]+\.go:\d+:\d+: `)
var quotedIdent = regexp.MustCompile("`[^`]*`")

func checkC12(c *core.Ctx) {
	c.Explainf("C12 (decided clause). The generator's source is folded over every explored schema shape (all leaf classes incl. enums over the 8 accepted base types, records of the three kinds, empty and readonly records, containers to the tier's depth, multi-field records, a union with struct/message/empty branches) under all 32 option sets, and the text of each resulting file is parsed with go/parser and type-checked with go/types against the real bebop and iohelp packages loaded from /repo; `var _ bebop.Record = &T{}` in that text makes the checker verify the method set. Also: the generator must not refuse (error) a schema Validate accepts, and the evaluator must not hit a generator-side panic (index out of range on a name, nil map). R4: no strings/bytes Trim, TrimLeft or TrimRight in the package takes a computed string as its set of characters (a prefix mistaken for a cutset; positive control fixtures/cutset). This decides 'compiles' for the explored shapes only — schemas mixing shapes in ways not enumerated, identifier clashes between user names and generated names, and Go keywords as field names are NOT decided.")
	gr := startGen(c)
	if gr == nil {
		return
	}
	nFiles := 0
	for _, gf := range gr.ga.Files {
		if gf.EvalErr != nil {
			continue
		}
		nFiles++
		genPos := "gen.go (File.Generate)"
		if d := gr.p.FuncDecl(gr.p.Bebop(), "File.Generate"); d != nil {
			genPos = gr.p.Pos(d.Pos()) + " (File.Generate)"
		}
		c.Check("R0", fmt.Sprintf("Generate accepts the explored schema batch=%d", gf.Batch), genPos, gf.GenErr == "", "Generate returns an error for a valid schema: "+gf.GenErr)
		if gf.GenErr != "" {
			continue
		}
		c.Check("R1", fmt.Sprintf("emitted file parses batch=%d", gf.Batch), genPos, gf.ParseErr == nil, fmt.Sprintf("options %s: %v", gf.Opts, gf.ParseErr))
		if gf.ParseErr != nil {
			continue
		}
		// type errors, keyed by message class + emitting method + leaf class
		type te struct {
			key, msg string
		}
		seen := map[string]bool{}
		for _, e := range gf.TypeErrs {
			meth, rec := enclosingGenDecl(gf, e.Pos)
			msg := quotedIdent.ReplaceAllString(e.Msg, "`…`")
			leaf := "-"
			kind := "-"
			for _, r := range gf.Records {
				if genfacts.GoTypeName(r.Name, gf.Opts) == rec {
					kind = kindName(r.Kind)
					if len(r.Fields) == 1 && r.Kind != genfacts.ClsUnion {
						leaf = shapePattern(r.Fields[0].Shape, gr.ga.G.U)
					} else {
						leaf = "record:" + r.Name
					}
				}
			}
			msgClass := classifyTypeErr(msg)
			key := fmt.Sprintf("typecheck %s %s %s: %s", meth, kind, leaf, msgClass)
			if seen[key] {
				continue
			}
			seen[key] = true
			c.Check("R2", key, genPos, false, fmt.Sprintf("emitted code does not type-check under options %s: %s — %s", gf.Opts, e.Msg, gf.Line(e.Pos)))
		}
		c.Check("R2", fmt.Sprintf("emitted file type-checks batch=%d", gf.Batch), genPos, len(gf.TypeErrs) == 0, fmt.Sprintf("%d type errors under options %s (each reported under its own key)", len(gf.TypeErrs), gf.Opts))
	}
	c.Count("files_typechecked", nFiles)
	c.Floor("files_typechecked", 30)
	casingProbe(c, gr)
	importListRule(c, gr)
	cutsetsAreConstants(c, gr.p)
}

// scanComputedCutsets: strings/bytes Trim, TrimLeft and TrimRight take a *set
// of characters*. A set that is computed from a name (TrimLeft(typename,
// namespace+".")) is a prefix or suffix mistaken for a cutset: every leading
// character of the rest that also occurs in the name is stripped with it, and
// the identifier the generator then emits is not the one that was declared.
func scanComputedCutsets(info *types.Info, files []*ast.File, report func(fn, what string, pos token.Pos)) (sites int) {
	for _, f := range files {
		for _, d := range f.Decls {
			fd, ok := d.(*ast.FuncDecl)
			if !ok || fd.Body == nil {
				continue
			}
			ast.Inspect(fd.Body, func(n ast.Node) bool {
				call, ok := n.(*ast.CallExpr)
				if !ok || len(call.Args) != 2 {
					return true
				}
				callee := load.Callee(info, call)
				if callee == nil || callee.Pkg() == nil || (callee.Pkg().Path() != "strings" && callee.Pkg().Path() != "bytes") {
					return true
				}
				switch callee.Name() {
				case "Trim", "TrimLeft", "TrimRight":
				default:
					return true
				}
				sites++
				set := call.Args[1]
				if cl, isConv := ast.Unparen(set).(*ast.CallExpr); isConv && len(cl.Args) == 1 && info.Types[cl.Fun].IsType() {
					set = cl.Args[0]
				}
				if info.Types[set].Value == nil {
					report(fd.Name.Name, callee.Pkg().Name()+"."+callee.Name()+"(…, "+wire.Canon(call.Args[1])+")", call.Pos())
				}
				return true
			})
		}
	}
	return sites
}

func cutsetsAreConstants(c *core.Ctx, p *load.Prog) {
	pkg := p.Bebop()
	n := scanComputedCutsets(pkg.TypesInfo, pkg.Syntax, func(fn, what string, pos token.Pos) {
		c.Check("R4", fn+" trims by a constant set of characters", p.Pos(pos), false, what+" takes its second argument as a set of characters, not as a prefix or suffix: whatever follows and is spelled with characters of that computed string is stripped too (a type DataPoint of package gameData becomes Point), and the emitted identifier is not the declared one")
	})
	c.Check("R4", "no Trim/TrimLeft/TrimRight with a computed cutset (scan complete)", "gen*.go, parse.go", true, "")
	c.Count("trim_cutset_sites", n)
	f, info, err := typeCheckFixture(c, "cutset")
	if err != nil {
		c.Undecide("positive control fixture cutset: %v", err)
		return
	}
	hits := map[string]bool{}
	scanComputedCutsets(info, []*ast.File{f}, func(fn, what string, pos token.Pos) { hits[fn] = true })
	c.Check("R4", "positive control: a computed cutset is recognised", "fixtures/cutset/fx.go", hits["bare"] && hits["bareBytes"], "the rule no longer matches the shape it is meant to find")
	c.Check("R4", "positive control: constant cutsets and prefixes are not reported", "fixtures/cutset/fx.go", !hits["quotes"] && !hits["prefix"], "")
}

// shapePattern abstracts a shape to container skeleton + leaf class.
func shapePattern(s interface{ String() string }, u *genfacts.Universe) string {
	str := s.String()
	for _, b := range genfacts.EnumBases {
		str = strings.ReplaceAll(str, genfacts.EnumName(b), "enum")
	}
	return str
}

func classifyTypeErr(msg string) string {
	msg = regexp.MustCompile(`\b(S|M)\d+\b`).ReplaceAllString(msg, "T")
	msg = regexp.MustCompile(`En(Byte|Uint8|Uint16|Uint32|Uint64|Int16|Int32|Int64)`).ReplaceAllString(msg, "enum")
	msg = regexp.MustCompile(`\b(ln|i|k|v)\d+\b`).ReplaceAllString(msg, "$1N")
	if len(msg) > 120 {
		msg = msg[:120]
	}
	return msg
}

func enclosingGenDecl(gf *genfacts.GenFile, pos token.Pos) (method, recv string) {
	for _, d := range gf.AST.Decls {
		if d.Pos() <= pos && pos <= d.End() {
			if fd, ok := d.(*ast.FuncDecl); ok {
				if fd.Recv != nil && len(fd.Recv.List) == 1 {
					t := fd.Recv.List[0].Type
					if s, ok := t.(*ast.StarExpr); ok {
						t = s.X
					}
					return fd.Name.Name, wire.Canon(t)
				}
				return "func", fd.Name.Name
			}
			return "decl", ""
		}
	}
	return "?", ""
}

// casingProbe generates a schema whose type names start with a lower-case
// letter (legal bebop) and type-checks the result.
func casingProbe(c *core.Ctx, gr *genRun) {
	// filled in by gen_probe.go
	probeLowercaseNames(c, gr)
}

func importListRule(c *core.Ctx, gr *genRun) {
	probeImports(c, gr)
}

func sortedKeys(m map[string]bool) []string {
	var out []string
	for k := range m {
		out = append(out, k)
	}
	sort.Strings(out)
	return out
}
