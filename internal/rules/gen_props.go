package rules

import (
	"fmt"
	"go/ast"
	"go/token"
	"sort"
	"strings"

	"bebopverif/internal/core"
	"bebopverif/internal/genfacts"
	"bebopverif/internal/load"
	"bebopverif/internal/wire"
)

func loadRepo(c *core.Ctx, extra ...string) *load.Prog {
	p, err := load.Load(c.RepoDir, "", extra...)
	if err != nil {
		c.Undecide("cannot load %s: %v", c.RepoDir, err)
		return nil
	}
	c.Count("packages", len(p.All))
	if p.Bebop() == nil || p.Iohelp() == nil {
		c.Undecide("packages bebop / iohelp not found in %s", c.RepoDir)
		return nil
	}
	roleInfo = p.Bebop().TypesInfo
	discoverTokenAPI(p)
	return p
}

var kindRecv = map[genfacts.Class]string{genfacts.ClsStruct: "Struct", genfacts.ClsMessage: "Message", genfacts.ClsUnion: "Union"}

// anchorPos is the /repo position of the emitter of a method for a record kind.
var anchorCache = map[string]string{}

func anchorPos(p *load.Prog, kind genfacts.Class, method string) string {
	name := kindRecv[kind] + ".generate" + method
	if v, ok := anchorCache[p.Dir+name]; ok {
		return v
	}
	v := anchorPosSlow(p, kind, method)
	anchorCache[p.Dir+name] = v
	return v
}

func anchorPosSlow(p *load.Prog, kind genfacts.Class, method string) string {
	name := kindRecv[kind] + ".generate" + method
	if fd := p.FuncDecl(p.Bebop(), name); fd != nil {
		return p.Pos(fd.Pos()) + " (" + name + ")"
	}
	return name
}

// frame strips the per-field bodies from a record signature so that framing
// (prefix, tags, terminator, dispatch arms) and field bodies are compared and
// keyed separately.
func frame(items []wire.Item) []wire.Item {
	var out []wire.Item
	for _, it := range items {
		switch it.Kind {
		case wire.KOpt:
			it.Body = nil
			out = append(out, it)
		case wire.KSwitch:
			cs := make([]wire.Case, len(it.Cases))
			for i, c := range it.Cases {
				c.Body = nil
				cs[i] = c
			}
			it.Cases = cs
			out = append(out, it)
		case wire.KPrefix, wire.KConstByte:
			out = append(out, it)
		}
	}
	return out
}

// bodies returns the per-tag field bodies (tag -1 = the struct body).
func bodies(kind genfacts.Class, items []wire.Item) map[int][]wire.Item {
	out := map[int][]wire.Item{}
	if kind == genfacts.ClsStruct {
		out[-1] = items
		return out
	}
	for _, it := range items {
		switch it.Kind {
		case wire.KOpt:
			out[it.Tag] = it.Body
		case wire.KSwitch:
			for _, c := range it.Cases {
				if !c.Default {
					out[c.Tag] = c.Body
				}
			}
		}
	}
	return out
}

func fieldByTag(rf *RecFacts, tag int) (genfacts.RecField, bool) {
	if tag == -1 && len(rf.Spec.Fields) > 0 {
		return rf.Spec.Fields[0], true
	}
	for _, f := range rf.Spec.Fields {
		if f.Num == tag {
			return f, true
		}
	}
	return genfacts.RecField{}, false
}

// bodyKey keys a field-body obligation: single-field exploration records by
// their shape, named multi-field records by record and tag.
func bodyKey(rf *RecFacts, tag int) string {
	if len(rf.Spec.Fields) == 1 && rf.Spec.Kind != genfacts.ClsUnion {
		return kindName(rf.Spec.Kind) + " shape=" + rf.Spec.Fields[0].Shape.String()
	}
	if tag >= 0 {
		return fmt.Sprintf("%s record=%s tag=%d", kindName(rf.Spec.Kind), rf.Spec.Name, tag)
	}
	return fmt.Sprintf("%s record=%s", kindName(rf.Spec.Kind), rf.Spec.Name)
}

func frameKey(rf *RecFacts) string {
	// frames depend on the record kind and its field list, not on shapes
	if len(rf.Spec.Fields) == 1 && rf.Spec.Kind != genfacts.ClsUnion {
		return kindName(rf.Spec.Kind) + " single-field"
	}
	return kindName(rf.Spec.Kind) + " record=" + rf.Spec.Name
}

// failKey keys a side-condition failure by rule, method, record kind and the
// type and container of the construct it is about.
func failKey(rf *RecFacts, method string, f wire.Fail) string {
	typ, ctx := f.Leaf, "-"
	switch f.Leaf {
	case "prefix", "tag", "mapcount", "arraycount", "":
	default:
		typ, ctx = rf.resolve(f)
	}
	if f.Rule == "sizeadv" {
		// one template per record class emits this advance, wherever it is used
		return fmt.Sprintf("%s %s leafclass=%s", f.Rule, method, rf.leafClass(typ))
	}
	return fmt.Sprintf("%s %s %s type=%s ctx=%s", f.Rule, method, kindName(rf.Spec.Kind), typ, ctx)
}

// resolve maps the operand of a failure to the schema type it holds and the
// container it sits in.
func (rf *RecFacts) resolve(f wire.Fail) (typ, ctx string) {
	root := strings.TrimPrefix(f.Root, "*")
	var fld *genfacts.RecField
	for i := range rf.Spec.Fields {
		fd := &rf.Spec.Fields[i]
		names := []string{"bbp." + genfacts.GoFieldName(fd.Name, rf.Spec.RO, rf.GF.Opts), "bbp." + genfacts.GoTypeName(fd.Name, rf.GF.Opts)}
		if root == names[0] || (rf.Spec.Kind == genfacts.ClsUnion && root == names[1]) {
			fld = fd
		}
	}
	if fld == nil && len(rf.Spec.Fields) == 1 {
		fld = &rf.Spec.Fields[0]
	}
	if fld == nil {
		return f.Leaf, "-"
	}
	if rf.Spec.Kind == genfacts.ClsUnion {
		return "branch:" + fld.Branch, "field"
	}
	return shapeCtx(fld.Shape, f.Leaf)
}

func (rf *RecFacts) leafClass(typ string) string {
	if strings.HasPrefix(typ, "branch:") {
		if strings.HasPrefix(typ, "branch:message") {
			return "message"
		}
		return "struct"
	}
	switch typ {
	case genfacts.StructA, genfacts.StructE, genfacts.StructR, genfacts.StructM, genfacts.StructW, genfacts.StructX, genfacts.StructV, genfacts.StructF, genfacts.StructBig, genfacts.StructN, "ISt", "IBs":
		return "struct"
	case genfacts.MessageA, genfacts.MessageE, "IMs":
		return "message"
	case genfacts.UnionA, "IUn":
		return "union"
	}
	return typ
}

// ---------------------------------------------------------------------------

type genRun struct {
	c  *core.Ctx
	p  *load.Prog
	ga *GenAnalysis
}

// genCache lets one process decide several properties from one fold of the
// generator (bebopcheck multi); keyed by repo directory and tier.
var genCache = map[string]*cachedGen{}

type cachedGen struct {
	p         *load.Prog
	ga        *GenAnalysis
	undecided []string
	analysed  map[string]int
}

func startGen(c *core.Ctx) *genRun {
	key := c.RepoDir + "|" + c.Tier
	cg := genCache[key]
	if cg == nil {
		tmp := core.NewCtx(c.Prop, c.Tier, c.RepoDir, c.VerifDir)
		p := loadRepo(tmp)
		var ga *GenAnalysis
		if p != nil {
			ga = runGen(tmp, p, configFor(tmp))
		}
		cg = &cachedGen{p: p, ga: ga, undecided: tmp.Undecided, analysed: tmp.Analysed}
		genCache[key] = cg
	}
	for _, u := range cg.undecided {
		c.Undecide("%s", u)
	}
	for k, v := range cg.analysed {
		c.Count(k, v)
	}
	if cg.p == nil || cg.ga == nil {
		return nil
	}
	p, ga := cg.p, cg.ga
	gr := &genRun{c: c, p: p, ga: ga}
	// every emitted codec method must be fully understood by the reader;
	// otherwise nothing is claimed about it.
	unk := map[string]string{}
	for _, rf := range ga.Recs {
		for _, m := range allMethods {
			mf := rf.M[m]
			opaque := false
			if t, pos, ok := wire.HasUnknown(mf.Items); ok {
				unk[m+": "+t] = rf.where(pos)
				opaque = true
			}
			if mf.InvalidAt.IsValid() {
				unk[m+": an expression whose type does not check (the emitted file has type errors, reported by C12)"] = rf.where(mf.InvalidAt)
				opaque = true
			}
			for _, n := range mf.Size {
				if n.Unknown != "" && n.Unknown != "$return" {
					unk[m+": "+n.Unknown] = rf.where(n.Pos)
					opaque = true
				}
			}
			for _, n := range flattenSz(mf.Size) {
				if n.Unknown != "" && n.Unknown != "$return" {
					unk[m+": "+n.Unknown] = rf.where(n.Pos)
					opaque = true
				}
			}
			if opaque {
				// not understood: nothing is derived from this method
				mf.Present = false
			}
		}
	}
	var keys []string
	for k := range unk {
		keys = append(keys, k)
	}
	sort.Strings(keys)
	for i, k := range keys {
		if i < 6 {
			c.Undecide("emitted statement not understood by the signature reader: %s (%s)", k, unk[k])
		}
	}
	c.Floor("records", 300)
	c.Floor("methods_read", 1500)
	return gr
}

func flattenSz(nodes []wire.SzNode) []wire.SzNode {
	var out []wire.SzNode
	for _, n := range nodes {
		out = append(out, n)
		if n.Loop != nil {
			out = append(out, flattenSz(n.Loop.Body)...)
		}
		if n.Opt != nil {
			out = append(out, flattenSz(n.Opt.Body)...)
		}
	}
	return out
}

// diffBodies compares the per-field bodies of two signatures.
func (gr *genRun) diffBodies(rule string, rf *RecFacts, ma, mb string, a, b []wire.Item, bIsSpec bool) {
	ba, bb := bodies(rf.Spec.Kind, a), bodies(rf.Spec.Kind, b)
	for tag, wa := range ba {
		wb, ok := bb[tag]
		if !ok {
			continue // arm sets are compared by the frame rule
		}
		d, pos, same := wire.Diff(wa, wb)
		what := ma + " vs " + mb
		msg := ""
		if !same {
			msg = fmt.Sprintf("%s: %s — %s", what, d, rf.where(pos))
		}
		gr.c.Check(rule, what+" "+bodyKey(rf, tag), anchorPos(gr.p, rf.Spec.Kind, ma), same, msg)
	}
}

func (gr *genRun) diffFrames(rule string, rf *RecFacts, ma, mb string, a, b []wire.Item) {
	d, pos, same := wire.Diff(frame(a), frame(b))
	what := ma + " vs " + mb
	msg := ""
	if !same {
		msg = fmt.Sprintf("%s framing: %s — %s", what, d, rf.where(pos))
	}
	gr.c.Check(rule, what+" "+frameKey(rf), anchorPos(gr.p, rf.Spec.Kind, ma), same, msg)
}

// readerView converts a writer signature into what a reader of the same
// format must look like: OPT members become dispatch arms, the terminator
// becomes the default arm.
func readerView(kind genfacts.Class, w []wire.Item) []wire.Item {
	if kind == genfacts.ClsStruct {
		return w
	}
	var out []wire.Item
	sw := wire.Item{Kind: wire.KSwitch}
	for _, it := range w {
		switch it.Kind {
		case wire.KPrefix:
			it.Tag = -1
			out = append(out, it)
		case wire.KOpt:
			sw.Cases = append(sw.Cases, wire.Case{Tag: it.Tag, Body: it.Body, Returns: kind == genfacts.ClsUnion})
		}
	}
	sw.Cases = append(sw.Cases, wire.Case{Default: true, Returns: true})
	return append(out, sw)
}

// dropDeprecatedArms removes dispatch arms of deprecated message fields so a
// reader can be compared with a writer's view.
func dropDeprecatedArms(rf *RecFacts, r []wire.Item) ([]wire.Item, []int) {
	var dropped []int
	var out []wire.Item
	for _, it := range r {
		if it.Kind == wire.KSwitch {
			var cs []wire.Case
			for _, c := range it.Cases {
				if f, ok := fieldByTag(rf, c.Tag); ok && !c.Default && f.Deprecated && rf.Spec.Kind == genfacts.ClsMessage {
					dropped = append(dropped, c.Tag)
					continue
				}
				cs = append(cs, c)
			}
			it.Cases = cs
		}
		out = append(out, it)
	}
	return out, dropped
}

func normPrefix(items []wire.Item) []wire.Item {
	out := append([]wire.Item{}, items...)
	for i := range out {
		if out[i].Kind == wire.KPrefix {
			out[i].Tag = -1
		}
	}
	return out
}

// ---- C01 -------------------------------------------------------------------

func init() { register("C01", checkC01) }

func checkC01(c *core.Ctx) {
	c.Explainf("C01 (decided clause: encoder/decoder emitters are siblings). The generator's own source is folded over %s; every emitted MarshalBebopTo/EncodeBebop/UnmarshalBebop/MustUnmarshalBebop/DecodeBebop is read into a wire-op signature and the decoders are required to GET exactly what the encoders PUT (same primitives via the resolved iohelp functions, same container walk, same framing, same field set with only deprecated message fields skipped on encode). R6: Size() (hence the length prefix decoders rely on) equals what the encoders write. R8: the byte decoders step over every nested record they decode, by 4+len after a message and 5+len after a union (what the encoders put there). R7: the iohelp primitives behind the signatures move exactly their width with one Go type both ways, and ErrorReader.Read absorbs read fragmentation. R9: a count check before an array allocation demands no more bytes per element than the smallest encoding of an element occupies (0 for a field-less struct): a stricter check rejects what the encoders write. NOT decided: that equal signatures imply equal values for every bit pattern (NaN payloads, time zones, nil-vs-empty) — Go semantics.", "abstract schema shapes (every leaf class x containers to the tier's depth x 32 option sets)")
	gr := startGen(c)
	if gr == nil {
		return
	}
	for _, rf := range gr.ga.Recs {
		bw, sw := rf.M[mBW], rf.M[mSW]
		for _, pair := range [][2]string{{mBR, mBW}, {mBRu, mBW}, {mSR, mSW}} {
			dec, enc := rf.M[pair[0]], rf.M[pair[1]]
			if !dec.Present || !enc.Present {
				continue
			}
			want := readerView(rf.Spec.Kind, enc.Items)
			got, dropped := dropDeprecatedArms(rf, dec.Items)
			// R4: framing agreement (prefix, arms, default)
			gr.diffFrames("R4", rf, pair[0], pair[1], got, want)
			// R2/R3: per-field bodies agree
			gr.diffBodies("R2", rf, pair[0], pair[1], got, want, false)
			// R5: decoders keep an arm for every deprecated field
			if rf.Spec.Kind == genfacts.ClsMessage {
				nDep := 0
				for _, f := range rf.Spec.Fields {
					if f.Deprecated {
						nDep++
					}
				}
				c.Check("R5", pair[0]+" decodes deprecated fields "+frameKey(rf), anchorPos(gr.p, rf.Spec.Kind, pair[0]), len(dropped) == nDep,
					fmt.Sprintf("%d deprecated fields but %d dispatch arms for them in %s — %s", nDep, len(dropped), pair[0], rf.where(dec.Decl.Pos())))
			}
		}
		_ = bw
		// R8: the byte decoders step over everything they decode (a nested record
		// left under the cursor makes every later field read the wrong bytes)
		for _, m := range []string{mBR, mBRu} {
			if mf := rf.M[m]; mf.Present {
				bad := false
				for _, f := range mf.Fails {
					if f.Rule == "cursor" {
						bad = true
						c.Check("R8", failKey(rf, m, f), anchorPos(gr.p, rf.Spec.Kind, m), false, f.Msg+" — "+rf.where(f.Pos))
					}
				}
				if !bad {
					c.Check("R8", m+" steps over what it decodes "+bodyKeyAll(rf), anchorPos(gr.p, rf.Spec.Kind, m), true, "")
				}
				// R9: no length check demands more than the smallest encoding holds
				for _, f := range mf.Fails {
					if f.Rule == "overcheck" {
						c.Check("R9", failKey(rf, m, f), anchorPos(gr.p, rf.Spec.Kind, m), false, f.Msg+" — "+rf.where(f.Pos))
					}
				}
			}
		}
		if mf := rf.M[mSR]; mf.Present {
			for _, f := range mf.Fails {
				if f.Rule == "overcheck" {
					c.Check("R9", failKey(rf, mSR, f), anchorPos(gr.p, rf.Spec.Kind, mSR), false, f.Msg+" — "+rf.where(f.Pos))
				}
			}
		}
		// R6: decoders bound a message/union body by its length prefix, so the
		// prefix the encoders write (Size()-K) must be the exact number of bytes
		// that follow: Size() has to equal what EncodeBebop writes.
		if sz := rf.M[mSZ]; sz.Present && sw.Present {
			want := wire.SzString(normSzTop(wire.SizeOf(sw.Items)))
			got := wire.SzString(normSzTop(sz.Size))
			c.Check("R6", "length prefix is exact: Size vs EncodeBebop "+bodyKeyAll(rf), anchorPos(gr.p, rf.Spec.Kind, mSZ), got == want,
				fmt.Sprintf("Size() computes %s but EncodeBebop writes %s: the length prefix (Size()-K) misleads every decoder that bounds the record by it — %s", got, want, rf.where(sz.Decl.Pos())))
		}
	}
	// R7: the stream decoders only read back what the stream encoders wrote if
	// every iohelp primitive moves exactly its width, however reads are split
	iohelpStreamWidths(c, gr.p, "R7")
	iohelpLayoutRules(c, gr.p, "R7w", "R7g", "R7b")
	gr.sample(3)
}

func (gr *genRun) sample(n int) {
	step := len(gr.ga.Recs)/n + 1
	for i := 0; i < len(gr.ga.Recs); i += step {
		rf := gr.ga.Recs[i]
		m := map[string]string{"record": kindName(rf.Spec.Kind) + " " + rf.shapeKey(), "options": rf.GF.Opts.String()}
		for _, mm := range allMethods {
			if rf.M[mm].Present {
				if mm == mSZ {
					m[mm] = wire.SzString(normSzTop(rf.M[mm].Size))
				} else {
					m[mm] = wire.Sig(rf.M[mm].Items)
				}
			}
		}
		gr.c.Sample(m)
	}
}

// ---- C02 -------------------------------------------------------------------

func init() { register("C02", checkC02) }

// normSzTop normalises a Size tree: within each run between returning
// branches the straight-line counts commute, so they are summed to the front.
func normSzTop(nodes []wire.SzNode) []wire.SzNode {
	nodes = wire.NormSz(nodes)
	var out []wire.SzNode
	var seg []wire.SzNode
	acc := wire.Const(0)
	flush := func() {
		if !acc.IsZero() {
			out = append(out, wire.SzNode{Lin: acc})
		}
		out = append(out, seg...)
		seg, acc = nil, wire.Const(0)
	}
	for _, n := range nodes {
		switch {
		case n.Unknown != "":
			seg = append(seg, n)
		case n.Opt != nil:
			n.Opt.Body = normSzTop(n.Opt.Body)
			if n.Opt.Returns {
				flush()
				out = append(out, n)
			} else {
				seg = append(seg, n)
			}
		case n.Loop != nil:
			n.Loop.Body = normSzTop(n.Loop.Body)
			seg = append(seg, n)
		default:
			acc = acc.Add(n.Lin)
		}
	}
	flush()
	return out
}

func checkC02(c *core.Ctx) {
	c.Explainf("C02 (decided clauses): for every explored record shape, sig(MarshalBebopTo) == sig(EncodeBebop) incl. length prefix constant K and message terminator; the symbolic value of Size() equals the sum of the widths of that signature; the byte writer's cursor is simulated symbolically (every write starts where the previous ended, `at` ends where the last write ended, `return at` is reached in that state — so MarshalBebopTo returns Size() and writes nothing outside the first Size() bytes, given REC widths are the callee's Size()); MarshalBebop is make(Size())+MarshalBebopTo. NOT decided: map entry order (exempt by the statement); that Size() is evaluated on the same value state as the encode.")
	gr := startGen(c)
	if gr == nil {
		return
	}
	for _, rf := range gr.ga.Recs {
		bw, sw, sz := rf.M[mBW], rf.M[mSW], rf.M[mSZ]
		if !bw.Emitted || !sw.Emitted || !sz.Emitted {
			c.Check("R0", "six methods present "+frameKey(rf), anchorPos(gr.p, rf.Spec.Kind, mBW), false, "MarshalBebopTo, EncodeBebop or Size is not emitted — "+rf.where(token.NoPos))
			continue
		}
		if !bw.Present || !sw.Present || !sz.Present {
			continue // emitted but not understood: UNDECIDED was raised for it
		}
		// R1/R4/R5: same bytes from both encoders
		gr.diffFrames("R4", rf, mBW, mSW, bw.Items, sw.Items)
		gr.diffBodies("R1", rf, mBW, mSW, bw.Items, sw.Items, false)
		// R1 (size): Size() == sum of widths of what EncodeBebop writes
		want := wire.SzString(normSzTop(wire.SizeOf(sw.Items)))
		got := wire.SzString(normSzTop(sz.Size))
		szKey := "Size vs EncodeBebop " + bodyKey(rf, -1)
		if rf.Spec.Kind != genfacts.ClsStruct && len(rf.Spec.Fields) == 1 {
			szKey = "Size vs EncodeBebop " + bodyKey(rf, rf.Spec.Fields[0].Num)
		}
		c.Check("R1s", szKey, anchorPos(gr.p, rf.Spec.Kind, mSZ), got == want,
			fmt.Sprintf("Size() computes %s but EncodeBebop writes %s — %s", got, want, rf.where(sz.Decl.Pos())))
		// R2/R3: cursor discipline and return value of the byte writer
		seen := map[string]bool{}
		for _, f := range bw.Fails {
			if f.Rule != "cursor" && f.Rule != "return" {
				continue
			}
			k := failKey(rf, mBW, f)
			seen[k] = true
			c.Check("R2", k, anchorPos(gr.p, rf.Spec.Kind, mBW), false, f.Msg+" — "+rf.where(f.Pos))
		}
		ck := fmt.Sprintf("cursor %s %s", mBW, bodyKeyAll(rf))
		if len(seen) == 0 {
			c.Check("R2", ck, anchorPos(gr.p, rf.Spec.Kind, mBW), true, "")
		}
		for _, f := range sz.Fails {
			c.Check("R3", failKey(rf, mSZ, f), anchorPos(gr.p, rf.Spec.Kind, mSZ), false, f.Msg+" — "+rf.where(f.Pos))
		}
		retOK := len(bw.Returns) > 0
		for _, r := range bw.Returns {
			if r != "at" && r != "0" {
				retOK = false
			}
		}
		c.Check("R3", "MarshalBebopTo returns the cursor "+frameKey(rf), anchorPos(gr.p, rf.Spec.Kind, mBW), retOK, fmt.Sprintf("returns %v — %s", bw.Returns, rf.where(bw.Decl.Pos())))
		// R3: the MarshalBebop wrapper
		gr.checkMarshalWrapper(rf)
	}
	// R6: the byte-slice primitives store every byte of their width (a skipped
	// store is invisible in a zeroed buffer, which is all MarshalBebop uses)
	iohelpLayoutRules(c, gr.p, "R6", "R6g", "R6b")
	iohelpStreamWidths(c, gr.p, "R6s")
	gr.sample(3)
}

func bodyKeyAll(rf *RecFacts) string {
	if len(rf.Spec.Fields) == 1 && rf.Spec.Kind != genfacts.ClsUnion {
		return bodyKey(rf, rf.Spec.Fields[0].Num)
	}
	return bodyKey(rf, -1)
}

func (gr *genRun) checkMarshalWrapper(rf *RecFacts) {
	fd := rf.GF.Methods[rf.GoName+".MarshalBebop"]
	key := "MarshalBebop wrapper " + frameKey(rf)
	pos := "gen.go (writeMarshalBebop)"
	if d := gr.p.FuncDecl(gr.p.Bebop(), "writeMarshalBebop"); d != nil {
		pos = gr.p.Pos(d.Pos()) + " (writeMarshalBebop)"
	}
	if fd == nil || fd.Body == nil {
		gr.c.Check("R3", key, pos, false, "MarshalBebop is not emitted — "+rf.where(token.NoPos))
		return
	}
	src := strings.Join(strings.Fields(rf.GF.Snippet(fd.Body)), " ")
	ok := false
	switch len(fd.Body.List) {
	case 1:
		// only legal for a record whose Size() is the constant 0
		if r, isRet := fd.Body.List[0].(*ast.ReturnStmt); isRet && len(r.Results) == 1 {
			if cl, isCl := r.Results[0].(*ast.CompositeLit); isCl && len(cl.Elts) == 0 {
				sz := wire.SzString(normSzTop(rf.M[mSZ].Size))
				ok = sz == "0" || sz == ""
			}
		}
	case 3:
		a, isA := fd.Body.List[0].(*ast.AssignStmt)
		e, isE := fd.Body.List[1].(*ast.ExprStmt)
		r, isR := fd.Body.List[2].(*ast.ReturnStmt)
		if isA && isE && isR && len(a.Rhs) == 1 && len(r.Results) == 1 {
			ok = wire.Canon(a.Rhs[0]) == "make([]byte, bbp.Size())" && wire.Canon(a.Lhs[0]) == "buf" &&
				wire.Canon(e.X) == "bbp.MarshalBebopTo(buf)" && wire.Canon(r.Results[0]) == "buf"
		}
	}
	gr.c.Check("R3", key, pos, ok, "MarshalBebop is not make([]byte, Size()) + MarshalBebopTo(buf) + return buf: "+src+" — "+rf.where(fd.Pos()))
}
