package rules

import (
	"fmt"
	"go/ast"
	"go/constant"
	"go/token"
	"go/types"
	"sort"
	"strings"

	"bebopverif/internal/core"
	"bebopverif/internal/load"
	"bebopverif/internal/wire"

	"golang.org/x/tools/go/packages"
)

// Index-in-bounds rule for the parser (C10/R8).
//
// Every expression x[k] / x[i] over a slice or string, and every slice-to-array
// conversion, in the files of the ReadFile path needs a proof that the index is
// below len(x) on every path that reaches it.  The proofs accepted are the
// idioms of this code base, enumerated by reading it:
//
//   G1  an earlier statement of an enclosing block `if COND { …return }` whose
//       negation implies the bound, with x and the index unmodified in between;
//   G2  an enclosing if/for condition (or an earlier operand of the same &&)
//       that implies the bound, with x and the index unmodified up to the site;
//   G3  x is the result of expectNext(tr, k1…kn): its length is n on every
//       return of expectNext (contract checked on expectNext itself);
//   G4  the index is the key of an enclosing `range a` and x := make(T, len(a));
//   G7  x, err := r.Peek(K) on a *bufio.Reader, followed at once by
//       `if err != nil {…return}`: Peek returns K bytes exactly when err is nil;
//   G5  x is a parameter: the bound must be proven at every call site of the
//       function for the argument passed there.
//
// A site none of these discharges is reported: the lengths in the parser are
// input-controlled (token counts, token text), so an unguarded index is an
// input that panics.

type boundSite struct {
	fd    *ast.FuncDecl
	node  ast.Node // the IndexExpr / conversion
	x     ast.Expr // the indexed operand
	k     int      // constant index (when idx == nil)
	idx   *ast.Ident
	what  string
	depth int
}

type boundsChecker struct {
	p       *load.Prog
	pkg     *packages.Package
	info    *types.Info
	parents map[ast.Node]ast.Node
	funcs   []*ast.FuncDecl
	encl    map[ast.Node]*ast.FuncDecl
	expectN map[types.Object]bool // functions with the expectNext contract
}

func newBoundsChecker(p *load.Prog, pkg *packages.Package, fds []*ast.FuncDecl) *boundsChecker {
	bc := &boundsChecker{p: p, pkg: pkg, info: pkg.TypesInfo, parents: map[ast.Node]ast.Node{}, funcs: fds, expectN: map[types.Object]bool{}}
	for _, fd := range fds {
		var stack []ast.Node
		ast.Inspect(fd, func(n ast.Node) bool {
			if n == nil {
				stack = stack[:len(stack)-1]
				return true
			}
			if len(stack) > 0 {
				bc.parents[n] = stack[len(stack)-1]
			}
			stack = append(stack, n)
			return true
		})
	}
	return bc
}

func (bc *boundsChecker) funcOfObj(obj types.Object) *ast.FuncDecl {
	for _, fd := range bc.funcs {
		if fd.Pos() <= obj.Pos() && obj.Pos() < fd.End() {
			return fd
		}
	}
	return nil
}

func (bc *boundsChecker) funcOf(n ast.Node) *ast.FuncDecl {
	for n != nil {
		if fd, ok := n.(*ast.FuncDecl); ok {
			return fd
		}
		n = bc.parents[n]
	}
	return nil
}

// lenFact: what a condition says about len(x): len(x) OP n  or  len(x) OP i.
type lenFact struct {
	x    string
	op   token.Token
	n    int
	id   string
	isID bool
}

func negOp(op token.Token) token.Token {
	switch op {
	case token.EQL:
		return token.NEQ
	case token.NEQ:
		return token.EQL
	case token.LSS:
		return token.GEQ
	case token.GEQ:
		return token.LSS
	case token.GTR:
		return token.LEQ
	case token.LEQ:
		return token.GTR
	}
	return token.ILLEGAL
}

func flipOp(op token.Token) token.Token {
	switch op {
	case token.LSS:
		return token.GTR
	case token.GTR:
		return token.LSS
	case token.LEQ:
		return token.GEQ
	case token.GEQ:
		return token.LEQ
	}
	return op
}

func (bc *boundsChecker) lenArg(e ast.Expr) (string, bool) {
	// n := len(x), with n assigned nowhere else, stands for len(x)
	if id, ok := ast.Unparen(e).(*ast.Ident); ok {
		if obj := bc.info.ObjectOf(id); obj != nil {
			if fd := bc.funcOfObj(obj); fd != nil {
				var def ast.Expr
				defs := 0
				ast.Inspect(fd.Body, func(n ast.Node) bool {
					switch y := n.(type) {
					case *ast.AssignStmt:
						for i, l := range y.Lhs {
							if lid, ok := l.(*ast.Ident); ok && bc.info.ObjectOf(lid) == obj {
								defs++
								if len(y.Lhs) == len(y.Rhs) {
									def = y.Rhs[i]
								}
							}
						}
					case *ast.IncDecStmt:
						if lid, ok := y.X.(*ast.Ident); ok && bc.info.ObjectOf(lid) == obj {
							defs += 2
						}
					}
					return true
				})
				if defs == 1 && def != nil {
					if _, isIdent := ast.Unparen(def).(*ast.Ident); !isIdent {
						return bc.lenArg(def)
					}
				}
			}
		}
		return "", false
	}
	call, ok := ast.Unparen(e).(*ast.CallExpr)
	if !ok || len(call.Args) != 1 {
		return "", false
	}
	if id, ok := call.Fun.(*ast.Ident); !ok || id.Name != "len" {
		return "", false
	} else if _, isB := bc.info.Uses[id].(*types.Builtin); !isB {
		return "", false
	}
	return wire.Canon(call.Args[0]), true
}

// facts returns the atomic length facts that hold when cond evaluates to
// `truth` (conjunctions when true, disjunctions when false are split).
func (bc *boundsChecker) facts(cond ast.Expr, truth bool) []lenFact {
	cond = ast.Unparen(cond)
	switch c := cond.(type) {
	case *ast.UnaryExpr:
		if c.Op == token.NOT {
			return bc.facts(c.X, !truth)
		}
	case *ast.BinaryExpr:
		if (c.Op == token.LAND && truth) || (c.Op == token.LOR && !truth) {
			return append(bc.facts(c.X, truth), bc.facts(c.Y, truth)...)
		}
		op := c.Op
		l, r := c.X, c.Y
		x, isLen := bc.lenArg(l)
		if !isLen {
			if x, isLen = bc.lenArg(r); !isLen {
				return nil
			}
			l, r = r, l
			op = flipOp(op)
		}
		if !truth {
			op = negOp(op)
		}
		if op == token.ILLEGAL {
			return nil
		}
		if v, ok := constInt(bc.info, r); ok {
			return []lenFact{{x: x, op: op, n: v}}
		}
		if id, ok := ast.Unparen(r).(*ast.Ident); ok {
			return []lenFact{{x: x, op: op, id: id.Name, isID: true}}
		}
	}
	return nil
}

func (s *boundSite) xs() string { return wire.Canon(s.x) }

func (f lenFact) proves(s *boundSite) bool {
	if f.x != s.xs() {
		return false
	}
	if s.idx != nil {
		return f.isID && f.id == s.idx.Name && f.op == token.GTR
	}
	if f.isID {
		return false
	}
	switch f.op {
	case token.GTR:
		return f.n >= s.k
	case token.GEQ, token.EQL:
		return f.n > s.k
	case token.NEQ:
		return f.n == 0 && s.k == 0
	}
	return false
}

// killed: is x (or its root variable) or the index variable assigned, or its
// address taken, anywhere in the source range (from, to)?
func (bc *boundsChecker) killed(fd *ast.FuncDecl, s *boundSite, from, to token.Pos) bool {
	xs := s.xs()
	root := xs
	if i := strings.IndexAny(root, ".["); i >= 0 {
		root = root[:i]
	}
	hit := func(e ast.Expr) bool {
		t := wire.Canon(e)
		if t == xs || t == root {
			return true
		}
		return s.idx != nil && t == s.idx.Name
	}
	k := false
	ast.Inspect(fd.Body, func(n ast.Node) bool {
		if n == nil || k {
			return false
		}
		if n.End() <= from || n.Pos() >= to {
			return false
		}
		switch y := n.(type) {
		case *ast.AssignStmt:
			// an assignment whose right-hand side contains the site stores after
			// the site was evaluated
			if y.Pos() > from && y.Pos() < to && !(y.Pos() <= to && to <= y.End()) {
				for _, l := range y.Lhs {
					if hit(l) {
						k = true
					}
				}
			}
		case *ast.IncDecStmt:
			if y.Pos() > from && y.Pos() < to && hit(y.X) {
				k = true
			}
		case *ast.UnaryExpr:
			if y.Op == token.AND && y.Pos() > from && y.Pos() < to && hit(y.X) {
				k = true
			}
		case *ast.RangeStmt:
			if y.Pos() > from && y.Pos() < to && y.Tok == token.ASSIGN {
				if (y.Key != nil && hit(y.Key)) || (y.Value != nil && hit(y.Value)) {
					k = true
				}
			}
		}
		return true
	})
	return k
}

func terminates(b *ast.BlockStmt) bool {
	if b == nil || len(b.List) == 0 {
		return false
	}
	switch x := b.List[len(b.List)-1].(type) {
	case *ast.ReturnStmt:
		return true
	case *ast.BranchStmt:
		return x.Tok == token.CONTINUE || x.Tok == token.BREAK || x.Tok == token.GOTO
	case *ast.ExprStmt:
		if call, ok := x.X.(*ast.CallExpr); ok {
			if id, ok := call.Fun.(*ast.Ident); ok && id.Name == "panic" {
				return true
			}
		}
	}
	return false
}

// stmtList returns the statement list directly holding n, and n's index in it.
func stmtList(parent ast.Node, n ast.Node) ([]ast.Stmt, int) {
	var list []ast.Stmt
	switch b := parent.(type) {
	case *ast.BlockStmt:
		list = b.List
	case *ast.CaseClause:
		list = b.Body
	case *ast.CommClause:
		list = b.Body
	}
	for i, s := range list {
		if ast.Node(s) == n {
			return list, i
		}
	}
	return nil, -1
}

// prove searches the proof idioms for one site. It returns a description of
// the proof, or "" and the reason it failed.
func (bc *boundsChecker) prove(s *boundSite) (proof string, why string) {
	fd := s.fd
	sitePos := s.node.Pos()
	xs := s.xs()
	var child ast.Node = s.node
	for n := bc.parents[s.node]; n != nil; child, n = n, bc.parents[n] {
		switch a := n.(type) {
		case *ast.BinaryExpr:
			// G2: earlier operand of the same && / later operand of ||
			if a.Op == token.LAND && a.Y == child {
				for _, f := range bc.facts(a.X, true) {
					if f.proves(s) {
						return "G2 " + wire.Canon(a.X), ""
					}
				}
			}
			if a.Op == token.LOR && a.Y == child {
				for _, f := range bc.facts(a.X, false) {
					if f.proves(s) {
						return "G2 !(" + wire.Canon(a.X) + ")", ""
					}
				}
			}
		case *ast.IfStmt:
			if a.Body == child {
				for _, f := range bc.facts(a.Cond, true) {
					if f.proves(s) && !bc.killed(fd, s, a.Body.Pos(), sitePos) {
						return "G2 if " + wire.Canon(a.Cond), ""
					}
				}
			}
			if a.Else == child {
				for _, f := range bc.facts(a.Cond, false) {
					if f.proves(s) && !bc.killed(fd, s, a.Else.Pos(), sitePos) {
						return "G2 else of " + wire.Canon(a.Cond), ""
					}
				}
			}
		case *ast.ForStmt:
			if a.Body == child && a.Cond != nil {
				for _, f := range bc.facts(a.Cond, true) {
					if f.proves(s) && !bc.killed(fd, s, a.Body.Pos(), sitePos) {
						return "G2 for " + wire.Canon(a.Cond), ""
					}
				}
			}
		case *ast.RangeStmt:
			// G6: x := make(T, len(a)); i := 0; for … := range a { x[i] = …; i++ }
			if a.Body == child && s.idx != nil && bc.countingFill(fd, s, a) {
				return "G6 counting fill over " + wire.Canon(a.X), ""
			}
			// G4: for i := range a { x[i] } with x := make(T, len(a))
			if a.Body == child && s.idx != nil && a.Key != nil && wire.Canon(a.Key) == s.idx.Name && a.Tok == token.DEFINE {
				if bc.madeWithLenOf(fd, s, wire.Canon(a.X), a.Pos()) && !bc.killed(fd, s, a.Body.Pos(), sitePos) {
					return "G4 range " + wire.Canon(a.X), ""
				}
				// ranging over x itself
				if wire.Canon(a.X) == xs && !bc.killed(fd, s, a.Body.Pos(), sitePos) {
					return "G4 range over the slice itself", ""
				}
			}
		}
		// G1/G3: earlier statements of the list holding `child`
		if list, at := stmtList(n, child); at >= 0 {
			for j := at - 1; j >= 0; j-- {
				switch st := list[j].(type) {
				case *ast.IfStmt:
					if st.Else == nil && terminates(st.Body) {
						for _, f := range bc.facts(st.Cond, false) {
							if f.proves(s) && !bc.killed(fd, s, st.End(), sitePos) {
								return "G1 after `if " + wire.Canon(st.Cond) + " {…return}`", ""
							}
						}
					}
				case *ast.SwitchStmt:
					// switch { case COND: …return } (tagless)
					if st.Tag == nil {
						for _, cc := range st.Body.List {
							cl := cc.(*ast.CaseClause)
							if len(cl.List) == 1 && len(cl.Body) > 0 && terminates(&ast.BlockStmt{List: cl.Body}) {
								for _, f := range bc.facts(cl.List[0], false) {
									if f.proves(s) && !bc.killed(fd, s, st.End(), sitePos) {
										return "G1 after switch case " + wire.Canon(cl.List[0]), ""
									}
								}
							}
						}
					}
				case *ast.AssignStmt:
					if n, ok := bc.expectNextLen(st, xs); ok {
						if s.idx == nil && s.k < n && !bc.killed(fd, s, st.End(), sitePos) {
							return fmt.Sprintf("G3 expectNext with %d kinds", n), ""
						}
					}
					// G7: x, err := r.Peek(K) followed at once by `if err != nil
					// {…return}`: bufio's Peek returns K bytes exactly when err is nil
					if n, ok := bc.peekLen(st, xs); ok && j+1 < at+1 && j+1 < len(list) {
						if ifs, isIf := list[j+1].(*ast.IfStmt); isIf && ifs.Else == nil && ifs.Init == nil && terminates(ifs.Body) && len(st.Lhs) == 2 {
							if be, isB := ast.Unparen(ifs.Cond).(*ast.BinaryExpr); isB && be.Op == token.NEQ && wire.Canon(be.X) == wire.Canon(st.Lhs[1]) && wire.Canon(be.Y) == "nil" {
								if s.idx == nil && s.k < n && !bc.killed(fd, s, st.End(), sitePos) {
									return fmt.Sprintf("G7 Peek(%d) with its error tested", n), ""
								}
							}
						}
					}
				}
			}
		}
		// an if-statement's Init may define x via expectNext
		if ifs, ok := n.(*ast.IfStmt); ok && ifs.Init != nil && child != ifs.Init {
			if as, ok := ifs.Init.(*ast.AssignStmt); ok {
				if cnt, ok := bc.expectNextLen(as, xs); ok && s.idx == nil && s.k < cnt && !bc.killed(fd, s, as.End(), sitePos) {
					return fmt.Sprintf("G3 expectNext with %d kinds", cnt), ""
				}
			}
		}
		if _, ok := n.(*ast.FuncLit); ok {
			break
		}
	}
	// G5: parameter
	if s.depth < 2 {
		if id, ok := ast.Unparen(s.x).(*ast.Ident); ok {
			if pi, isParam := bc.paramIndex(fd, id); isParam && !bc.killed(fd, s, fd.Body.Pos(), sitePos) {
				idxParam := -1
				if s.idx != nil {
					// the index is a parameter too: the relation is the callers' to establish
					ii, isP := bc.paramIndex(fd, s.idx)
					if !isP {
						return "", "index variable over a parameter: no guard relates " + s.idx.Name + " to len(" + xs + ")"
					}
					idxParam = ii
				}
				calls := bc.callsOf(fd)
				if len(calls) == 0 {
					return "", "parameter " + xs + " is indexed without a length test and the function has no resolvable caller"
				}
				var proofs []string
				for _, call := range calls {
					if pi >= len(call.Args) || call.Ellipsis.IsValid() {
						return "", "call at " + bc.p.Pos(call.Pos()) + " passes the argument in a form that is not analysed"
					}
					arg := ast.Unparen(call.Args[pi])
					cs := &boundSite{fd: bc.funcOf(call), node: call, x: arg, k: s.k, depth: s.depth + 1}
					if idxParam >= 0 {
						if idxParam >= len(call.Args) {
							return "", "call at " + bc.p.Pos(call.Pos()) + " passes the index in a form that is not analysed"
						}
						ia := ast.Unparen(call.Args[idxParam])
						if tv := bc.info.Types[ia]; tv.Value != nil {
							if v, ok := constant.Int64Val(constant.ToInt(tv.Value)); ok {
								cs.k = int(v)
							}
						} else if iid, ok := ia.(*ast.Ident); ok {
							cs.idx = iid
						} else {
							return "", fmt.Sprintf("the call %s at %s passes the index %s, which no length test can be matched to", wire.Canon(call.Fun), bc.p.Pos(call.Pos()), wire.Canon(ia))
						}
					}
					if cs.fd == nil {
						return "", "call at " + bc.p.Pos(call.Pos()) + " is outside the analysed functions"
					}
					switch arg.(type) {
					case *ast.Ident, *ast.SelectorExpr:
						pr, w := bc.prove(cs)
						if pr == "" {
							return "", fmt.Sprintf("the call %s at %s passes %s, whose length is not bounded below there (%s)", wire.Canon(call.Fun), bc.p.Pos(call.Pos()), wire.Canon(arg), w)
						}
						proofs = append(proofs, pr)
					case *ast.BasicLit:
						// a string literal: its length is in the source
						if tv := bc.info.Types[arg]; tv.Value != nil && tv.Value.Kind() == constant.String && cs.idx == nil && len(constant.StringVal(tv.Value)) > cs.k {
							proofs = append(proofs, fmt.Sprintf("literal of length %d at %s", len(constant.StringVal(tv.Value)), bc.p.Pos(call.Pos())))
							continue
						}
						return "", fmt.Sprintf("the call %s at %s passes %s, which can be shorter than %d element(s)", wire.Canon(call.Fun), bc.p.Pos(call.Pos()), wire.Canon(arg), s.k+1)
					default:
						return "", fmt.Sprintf("the call %s at %s passes %s, which can be shorter than %d element(s)", wire.Canon(call.Fun), bc.p.Pos(call.Pos()), wire.Canon(arg), s.k+1)
					}
				}
				return "G5 every call site: " + strings.Join(proofs, "; "), ""
			}
		}
	}
	return "", "no dominating length test on " + xs
}

func (bc *boundsChecker) paramIndex(fd *ast.FuncDecl, id *ast.Ident) (int, bool) {
	obj := bc.info.ObjectOf(id)
	i := 0
	for _, f := range fd.Type.Params.List {
		for _, n := range f.Names {
			if bc.info.ObjectOf(n) == obj {
				if _, variadic := f.Type.(*ast.Ellipsis); variadic {
					return 0, false
				}
				return i, true
			}
			i++
		}
	}
	return 0, false
}

func (bc *boundsChecker) callsOf(fd *ast.FuncDecl) []*ast.CallExpr {
	obj := bc.info.ObjectOf(fd.Name)
	var out []*ast.CallExpr
	for _, f := range bc.pkg.Syntax {
		ast.Inspect(f, func(n ast.Node) bool {
			if call, ok := n.(*ast.CallExpr); ok {
				if cal := load.Callee(bc.info, call); cal != nil && types.Object(cal) == obj {
					out = append(out, call)
				}
			}
			return true
		})
	}
	return out
}

// countingFill: the index variable starts at 0 right before the loop, is
// incremented exactly once per iteration (a direct statement of the loop body,
// after the site) and nowhere else, the loop ranges over a, and x was made with
// len(a): the index stays below len(x).
func (bc *boundsChecker) countingFill(fd *ast.FuncDecl, s *boundSite, loop *ast.RangeStmt) bool {
	if !bc.madeWithLenOf(fd, s, wire.Canon(loop.X), loop.Pos()) {
		return false
	}
	obj := bc.info.ObjectOf(s.idx)
	zeroDef, incs, other := false, 0, false
	ast.Inspect(fd.Body, func(n ast.Node) bool {
		switch y := n.(type) {
		case *ast.AssignStmt:
			for i, l := range y.Lhs {
				if id, ok := l.(*ast.Ident); ok && bc.info.ObjectOf(id) == obj {
					if y.Tok == token.DEFINE && len(y.Lhs) == len(y.Rhs) && y.End() < loop.Pos() {
						if v, ok := constInt(bc.info, y.Rhs[i]); ok && v == 0 {
							zeroDef = true
							continue
						}
					}
					other = true
				}
			}
		case *ast.IncDecStmt:
			if id, ok := y.X.(*ast.Ident); ok && bc.info.ObjectOf(id) == obj {
				direct := false
				for _, st := range loop.Body.List {
					if st == ast.Stmt(y) {
						direct = true
					}
				}
				if y.Tok == token.INC && direct && y.Pos() > s.node.End() {
					incs++
				} else {
					other = true
				}
			}
		case *ast.UnaryExpr:
			if id, ok := y.X.(*ast.Ident); ok && y.Op == token.AND && bc.info.ObjectOf(id) == obj {
				other = true
			}
		}
		return true
	})
	// no way to run the body twice for one element: no continue-less re-entry
	// is possible in a range loop, so one increment per iteration suffices
	return zeroDef && incs == 1 && !other
}

// expectNextLen: `x, err := expectNext(tr, k1…kn)` defines x with length n.
func (bc *boundsChecker) expectNextLen(as *ast.AssignStmt, xs string) (int, bool) {
	if len(as.Lhs) != 2 || len(as.Rhs) != 1 || wire.Canon(as.Lhs[0]) != xs {
		return 0, false
	}
	call, ok := as.Rhs[0].(*ast.CallExpr)
	if !ok {
		return 0, false
	}
	callee := load.Callee(bc.info, call)
	if callee == nil || !bc.expectN[types.Object(callee)] {
		return 0, false
	}
	if call.Ellipsis.IsValid() {
		// expectNext(tr, kinds...): at least as many slots as kinds is known to
		// hold when it is built in this function, in straight-line code
		return bc.minBuiltLen(call.Args[len(call.Args)-1], call.Pos())
	}
	return len(call.Args) - 1, true
}

// minBuiltLen is a lower bound on the length of a local slice at pos: the
// variable is defined once by make([]T, n[, c]) or a composite literal in the
// top-level statements of its function, and every other assignment before pos
// is x = append(x, …) in those top-level statements (an append never shortens).
func (bc *boundsChecker) minBuiltLen(x ast.Expr, pos token.Pos) (int, bool) {
	id, ok := ast.Unparen(x).(*ast.Ident)
	if !ok {
		return 0, false
	}
	o, ok := bc.info.ObjectOf(id).(*types.Var)
	if !ok {
		return 0, false
	}
	var fd *ast.FuncDecl
	for _, d := range bc.funcs {
		if d.Body != nil && d.Body.Pos() <= o.Pos() && o.Pos() < d.Body.End() {
			fd = d
		}
	}
	if fd == nil {
		return 0, false
	}
	isX := func(e ast.Expr) bool {
		i, ok := ast.Unparen(e).(*ast.Ident)
		return ok && bc.info.ObjectOf(i) == types.Object(o)
	}
	n, defined, okAll := 0, false, true
	top := map[ast.Stmt]bool{}
	for _, st := range fd.Body.List {
		top[st] = true
	}
	ast.Inspect(fd.Body, func(k ast.Node) bool {
		switch y := k.(type) {
		case *ast.AssignStmt:
			for i, l := range y.Lhs {
				if !isX(l) {
					continue
				}
				if !top[y] || len(y.Lhs) != len(y.Rhs) || y.Pos() >= pos {
					okAll = false
					continue
				}
				switch r := ast.Unparen(y.Rhs[i]).(type) {
				case *ast.CompositeLit:
					if defined {
						okAll = false
					}
					defined, n = true, len(r.Elts)
				case *ast.CallExpr:
					fn, _ := ast.Unparen(r.Fun).(*ast.Ident)
					switch {
					case fn != nil && fn.Name == "make" && len(r.Args) >= 2 && !defined:
						tv := bc.info.Types[r.Args[1]]
						v, isInt := int64(0), false
						if tv.Value != nil {
							v, isInt = constant.Int64Val(tv.Value)
						}
						if !isInt || v < 0 {
							okAll = false
						}
						defined, n = true, int(v)
					case fn != nil && fn.Name == "append" && len(r.Args) >= 1 && isX(r.Args[0]) && defined:
						if !r.Ellipsis.IsValid() {
							n += len(r.Args) - 1
						}
					default:
						okAll = false
					}
				default:
					okAll = false
				}
			}
		case *ast.UnaryExpr:
			if y.Op == token.AND && isX(y.X) {
				okAll = false
			}
		case *ast.SliceExpr:
			if isX(y.X) {
				okAll = false
			}
		}
		return true
	})
	return n, defined && okAll
}

// peekLen: `x, err := r.Peek(K)` on a *bufio.Reader with constant K.
func (bc *boundsChecker) peekLen(as *ast.AssignStmt, xs string) (int, bool) {
	if len(as.Lhs) != 2 || len(as.Rhs) != 1 || wire.Canon(as.Lhs[0]) != xs {
		return 0, false
	}
	call, ok := as.Rhs[0].(*ast.CallExpr)
	if !ok || len(call.Args) != 1 {
		return 0, false
	}
	callee := load.Callee(bc.info, call)
	if callee == nil || callee.Name() != "Peek" || callee.Pkg() == nil || callee.Pkg().Path() != "bufio" {
		return 0, false
	}
	return constInt(bc.info, call.Args[0])
}

// madeWithLenOf: x := make(T, len(a)) is the only definition of x before pos.
func (bc *boundsChecker) madeWithLenOf(fd *ast.FuncDecl, s *boundSite, a string, before token.Pos) bool {
	xs := s.xs()
	found := false
	var defEnd token.Pos
	ast.Inspect(fd.Body, func(n ast.Node) bool {
		as, ok := n.(*ast.AssignStmt)
		if !ok || as.Pos() >= before || len(as.Lhs) != 1 || len(as.Rhs) != 1 || wire.Canon(as.Lhs[0]) != xs {
			return true
		}
		call, ok := as.Rhs[0].(*ast.CallExpr)
		if !ok || len(call.Args) != 2 {
			return true
		}
		if id, ok := call.Fun.(*ast.Ident); !ok || id.Name != "make" {
			return true
		}
		if x, ok := bc.lenArg(call.Args[1]); ok && x == a {
			// the nearest enclosing definition wins
			if as.End() > defEnd {
				found, defEnd = true, as.End()
			}
		}
		return true
	})
	if !found {
		return false
	}
	// neither x nor a reassigned between the make and the loop
	tmp := &boundSite{x: s.x}
	if bc.killed(fd, tmp, defEnd, before) {
		return false
	}
	ka := false
	ast.Inspect(fd.Body, func(n ast.Node) bool {
		if as, ok := n.(*ast.AssignStmt); ok && as.Pos() > defEnd && as.Pos() < before {
			for _, l := range as.Lhs {
				if wire.Canon(l) == a {
					ka = true
				}
			}
		}
		return true
	})
	return !ka
}

// checkExpectNextContract: every return of the function returns the slice made
// with len(kinds), never resliced or reassigned.
func (bc *boundsChecker) checkExpectNextContract(fd *ast.FuncDecl) (bool, string) {
	if fd == nil || fd.Type.Params == nil || len(fd.Type.Params.List) < 2 {
		return false, "signature changed"
	}
	last := fd.Type.Params.List[len(fd.Type.Params.List)-1]
	if _, ok := last.Type.(*ast.Ellipsis); !ok || len(last.Names) != 1 {
		return false, "no variadic kinds parameter"
	}
	kinds := last.Names[0].Name
	var sl string
	for _, st := range fd.Body.List {
		if as, ok := st.(*ast.AssignStmt); ok && as.Tok == token.DEFINE && len(as.Lhs) == 1 && len(as.Rhs) == 1 {
			if call, ok := as.Rhs[0].(*ast.CallExpr); ok && len(call.Args) == 2 {
				if id, ok := call.Fun.(*ast.Ident); ok && id.Name == "make" {
					if x, ok := bc.lenArg(call.Args[1]); ok && x == kinds {
						sl = wire.Canon(as.Lhs[0])
					}
				}
			}
		}
	}
	if sl == "" {
		return false, "the result slice is not make(…, len(" + kinds + "))"
	}
	ok, why := true, ""
	ast.Inspect(fd.Body, func(n ast.Node) bool {
		switch y := n.(type) {
		case *ast.ReturnStmt:
			if len(y.Results) != 2 || wire.Canon(y.Results[0]) != sl {
				ok, why = false, "a return does not yield "+sl
			}
		case *ast.AssignStmt:
			for _, l := range y.Lhs {
				if wire.Canon(l) == sl && y.Tok == token.ASSIGN {
					ok, why = false, sl+" is reassigned"
				}
			}
		}
		return true
	})
	return ok, why
}

func checkParserBounds(c *core.Ctx, p *load.Prog, rule string) {
	pkg := p.Bebop()
	info := pkg.TypesInfo
	fds := funcsOfFiles(p, pkg, "parse.go", "parse_expr.go", "eval_expr.go", "tokenize.go", "token_tree.go")
	bc := newBoundsChecker(p, pkg, fds)
	en := p.FuncDecl(pkg, "expectNext")
	if en == nil {
		c.Undecide("expectNext not found")
	} else {
		ok, why := bc.checkExpectNextContract(en)
		c.Check(rule, "expectNext returns one token slot per kind on every return", p.Pos(en.Pos()), ok, why+": callers index the result by position")
		if ok {
			bc.expectN[info.ObjectOf(en.Name)] = true
		}
	}
	// sites decided by a dedicated rule of this check, one line of reason each
	delegated := map[string]string{
		"tokenTree.find": "successor tables are indexed by byte through maps; the recovery index nextValid[0][0] is rule R5",
	}
	type rec struct {
		key, pos, why string
		ok            bool
	}
	var recs []rec
	counts := map[string]int{}
	nSites := 0
	for _, fd := range fds {
		name := fd.Name.Name
		if fd.Recv != nil && len(fd.Recv.List) == 1 {
			name = strings.TrimPrefix(wire.Canon(fd.Recv.List[0].Type), "*") + "." + name
		}
		if _, skip := delegated[name]; skip {
			continue
		}
		ast.Inspect(fd.Body, func(n ast.Node) bool {
			var s *boundSite
			switch y := n.(type) {
			case *ast.IndexExpr:
				t := info.TypeOf(y.X)
				if t == nil {
					return true
				}
				switch u := t.Underlying().(type) {
				case *types.Slice:
				case *types.Basic:
					if u.Info()&types.IsString == 0 {
						return true
					}
				default:
					return true
				}
				s = &boundSite{fd: fd, node: y, x: y.X, what: wire.Canon(y)}
				if tv := info.Types[y.Index]; tv.Value != nil {
					if v, ok := constant.Int64Val(constant.ToInt(tv.Value)); ok {
						s.k = int(v)
					}
				} else if id, ok := ast.Unparen(y.Index).(*ast.Ident); ok {
					s.idx = id
				} else if be, ok := ast.Unparen(y.Index).(*ast.BinaryExpr); ok && be.Op == token.SUB && func() bool {
					x, isLen := bc.lenArg(be.X)
					cst, isC := constInt(info, be.Y)
					if isLen && isC && x == wire.Canon(y.X) && cst >= 1 {
						// x[len(x)-c] is in bounds iff len(x) >= c
						s.k = cst - 1
						return true
					}
					return false
				}() {
				} else {
					c.Undecide("%s: the index expression of %s (%s) has a form no length test can be matched to", name, wire.Canon(y), p.Pos(y.Pos()))
					return true
				}
			case *ast.CallExpr:
				// slice -> array (pointer) conversion panics when the slice is shorter
				if len(y.Args) != 1 {
					return true
				}
				tv, ok := info.Types[y.Fun]
				if !ok || !tv.IsType() {
					return true
				}
				var arr *types.Array
				switch u := tv.Type.Underlying().(type) {
				case *types.Pointer:
					arr, _ = u.Elem().Underlying().(*types.Array)
				case *types.Array:
					arr = u
				}
				if arr == nil {
					return true
				}
				if _, isSlice := info.TypeOf(y.Args[0]).Underlying().(*types.Slice); !isSlice {
					return true
				}
				s = &boundSite{fd: fd, node: y, x: y.Args[0], k: int(arr.Len()) - 1, what: wire.Canon(y)}
			default:
				return true
			}
			// the recovery index nextValid[0][0], wherever the recovery now
			// lives: the list comes from nextValidBytes, and that it is not empty
			// at an inner node is rule R5
			if bc.fromNextValidBytes(fd, s.x) {
				return true
			}
			nSites++
			proof, why := bc.prove(s)
			if proof == "" && bc.builtLocally(fd, s.x) {
				// the length of a slice this function builds itself (literal, make,
				// append) is a relation between program variables, not an input
				// quantity the enumerated idioms can bound: no verdict
				c.Undecide("%s: %s at %s indexes a slice the function builds itself; its length is a program invariant the rule has no idiom for", name, s.what, p.Pos(s.node.Pos()))
				return true
			}
			if proof == "" && bc.fromSpreadExpect(fd, s.x) {
				c.Undecide("%s: %s at %s indexes the result of an expectNext-style call whose kinds are passed as a slice (kinds...) the rule cannot size", name, s.what, p.Pos(s.node.Pos()))
				return true
			}
			if proof == "" && bc.fromFuncValue(fd, s.x) {
				c.Undecide("%s: %s at %s indexes what a call through a function value returned (a combinator, a table entry): how many elements it returns cannot be read off the call", name, s.what, p.Pos(s.node.Pos()))
				return true
			}
			counts[name+"\x00"+s.what]++
			key := fmt.Sprintf("%s: %s in bounds (#%d)", name, s.what, counts[name+"\x00"+s.what])
			recs = append(recs, rec{key: key, pos: p.Pos(s.node.Pos()), ok: proof != "", why: why + " — the token counts and token text are chosen by the input, so this is an input on which ReadFile panics"})
			if proof != "" {
				c.Sample(key + " by " + proof)
			}
			return true
		})
	}
	sort.Slice(recs, func(i, j int) bool { return recs[i].key < recs[j].key })
	for _, r := range recs {
		c.Check(rule, r.key, r.pos, r.ok, r.why)
	}
	c.Count("parser_index_sites", nSites)
	c.Floor("parser_index_sites", 10)
}

// builtLocally: x is a local variable of fd (not a parameter, not a result of
// a call) that is only ever assigned a composite literal, make, nil or
// append(x, …).
func (bc *boundsChecker) builtLocally(fd *ast.FuncDecl, x ast.Expr) bool {
	id, ok := ast.Unparen(x).(*ast.Ident)
	if !ok {
		return false
	}
	o, ok := bc.info.ObjectOf(id).(*types.Var)
	if !ok || isParamOf(bc.info, fd, o) || !(fd.Body.Pos() <= o.Pos() && o.Pos() < fd.Body.End()) {
		return false
	}
	if _, isSlice := o.Type().Underlying().(*types.Slice); !isSlice {
		return false
	}
	local := true
	defs := 0
	ast.Inspect(fd.Body, func(n ast.Node) bool {
		switch y := n.(type) {
		case *ast.ValueSpec:
			for i, nm := range y.Names {
				if bc.info.Defs[nm] == types.Object(o) {
					defs++
					if i < len(y.Values) && !bc.freshSlice(y.Values[i], o) {
						local = false
					}
				}
			}
		case *ast.AssignStmt:
			for i, l := range y.Lhs {
				lid, isId := ast.Unparen(l).(*ast.Ident)
				if !isId || bc.info.ObjectOf(lid) != types.Object(o) {
					continue
				}
				defs++
				if len(y.Lhs) != len(y.Rhs) {
					// v, ok = helper(v, …): a package function that builds what
					// it returns (append, make, literal, nil) on every return
					if len(y.Rhs) == 1 {
						if call, isCall := ast.Unparen(y.Rhs[0]).(*ast.CallExpr); isCall && bc.builtByCallee(call, i) {
							continue
						}
					}
					local = false
				} else if !bc.freshSlice(y.Rhs[i], o) {
					if call, isCall := ast.Unparen(y.Rhs[i]).(*ast.CallExpr); isCall && bc.builtByCallee(call, 0) {
						continue
					}
					local = false
				}
			}
		case *ast.RangeStmt:
			for _, kv := range []ast.Expr{y.Key, y.Value} {
				if kid, isId := kv.(*ast.Ident); isId && bc.info.ObjectOf(kid) == types.Object(o) {
					local = false
				}
			}
		}
		return true
	})
	return local && defs > 0
}

func (bc *boundsChecker) freshSlice(e ast.Expr, o *types.Var) bool {
	e = ast.Unparen(e)
	switch y := e.(type) {
	case *ast.CompositeLit:
		return true
	case *ast.Ident:
		return y.Name == "nil"
	case *ast.CallExpr:
		fn := wire.Canon(y.Fun)
		if fn == "make" {
			// make with an input-derived length is the G4 idiom: not "built locally"
			return len(y.Args) >= 2 && func() bool { c, isC := constInt(bc.info, y.Args[1]); return isC && c == 0 }()
		}
		if fn == "append" && len(y.Args) > 0 {
			if aid, ok := ast.Unparen(y.Args[0]).(*ast.Ident); ok && (bc.info.ObjectOf(aid) == types.Object(o) || aid.Name == "nil") {
				return true
			}
			// append([]byte{}, first)
			if _, isLit := ast.Unparen(y.Args[0]).(*ast.CompositeLit); isLit {
				return true
			}
		}
	}
	return false
}

// builtByCallee: call is a static call of a package function (not the
// expectNext family, whose contract is a rule of its own) whose i-th result is,
// on every return, nil, a composite literal, make or append: the length of
// what it returns is a relation between program variables.
func (bc *boundsChecker) builtByCallee(call *ast.CallExpr, i int) bool {
	callee := load.Callee(bc.info, call)
	if callee == nil || callee.Pkg() != bc.pkg.Types || bc.expectN[types.Object(callee)] {
		return false
	}
	d := bc.p.Decl(callee)
	if d == nil || d.Body == nil {
		return false
	}
	all, any := true, false
	ast.Inspect(d.Body, func(n ast.Node) bool {
		switch r := n.(type) {
		case *ast.FuncLit:
			return false
		case *ast.ReturnStmt:
			if i >= len(r.Results) {
				all = false
				return true
			}
			any = true
			switch y := ast.Unparen(r.Results[i]).(type) {
			case *ast.CompositeLit:
			case *ast.Ident:
				if y.Name != "nil" {
					all = false
				}
			case *ast.CallExpr:
				if fn := wire.Canon(y.Fun); fn != "append" && fn != "make" {
					all = false
				}
			default:
				all = false
			}
		}
		return true
	})
	return all && any
}

// fromSpreadExpect: x is defined in fd by a call with the expectNext contract
// whose kinds are passed as a spread slice.
func (bc *boundsChecker) fromSpreadExpect(fd *ast.FuncDecl, x ast.Expr) bool {
	id, ok := ast.Unparen(x).(*ast.Ident)
	if !ok {
		return false
	}
	o := bc.info.ObjectOf(id)
	found := false
	ast.Inspect(fd.Body, func(n ast.Node) bool {
		as, ok := n.(*ast.AssignStmt)
		if !ok || len(as.Rhs) != 1 || len(as.Lhs) == 0 {
			return true
		}
		lid, ok := ast.Unparen(as.Lhs[0]).(*ast.Ident)
		if !ok || bc.info.ObjectOf(lid) != o {
			return true
		}
		if call, ok := ast.Unparen(as.Rhs[0]).(*ast.CallExpr); ok && call.Ellipsis.IsValid() {
			if callee := load.Callee(bc.info, call); callee != nil && bc.expectN[types.Object(callee)] {
				found = true
			}
		}
		return true
	})
	return found
}

// fromFuncValue: x is a local that is assigned the result of a call through a
// function value, or of a package function that returns what such a call
// returned (two levels).
func (bc *boundsChecker) fromFuncValue(fd *ast.FuncDecl, x ast.Expr) bool {
	id, ok := ast.Unparen(x).(*ast.Ident)
	if !ok {
		return false
	}
	o := bc.info.ObjectOf(id)
	var dynamic func(call *ast.CallExpr, depth int) bool
	dynamic = func(call *ast.CallExpr, depth int) bool {
		callee := load.Callee(bc.info, call)
		if callee == nil {
			tv, ok := bc.info.Types[call.Fun]
			if !ok || tv.IsType() || tv.IsBuiltin() {
				return false
			}
			_, isSig := tv.Type.Underlying().(*types.Signature)
			return isSig
		}
		if callee.Pkg() != bc.pkg.Types || depth >= 2 {
			return false
		}
		d := bc.p.Decl(callee)
		if d == nil || d.Body == nil {
			return false
		}
		found := false
		ast.Inspect(d.Body, func(n ast.Node) bool {
			switch r := n.(type) {
			case *ast.FuncLit:
				return false
			case *ast.ReturnStmt:
				if len(r.Results) >= 1 {
					if c2, ok := ast.Unparen(r.Results[0]).(*ast.CallExpr); ok && dynamic(c2, depth+1) {
						found = true
					}
				}
			}
			return !found
		})
		return found
	}
	found := false
	ast.Inspect(fd.Body, func(n ast.Node) bool {
		as, ok := n.(*ast.AssignStmt)
		if !ok || len(as.Rhs) != 1 || len(as.Lhs) == 0 {
			return true
		}
		lid, ok := ast.Unparen(as.Lhs[0]).(*ast.Ident)
		if !ok || bc.info.ObjectOf(lid) != o {
			return true
		}
		if call, ok := ast.Unparen(as.Rhs[0]).(*ast.CallExpr); ok && dynamic(call, 0) {
			found = true
		}
		return true
	})
	return found
}

// fromNextValidBytes: x is, or indexes into, a local that is only assigned the
// result of the token tree's nextValidBytes.
func (bc *boundsChecker) fromNextValidBytes(fd *ast.FuncDecl, x ast.Expr) bool {
	x = ast.Unparen(x)
	for {
		ix, ok := x.(*ast.IndexExpr)
		if !ok {
			break
		}
		x = ast.Unparen(ix.X)
	}
	id, ok := x.(*ast.Ident)
	if !ok {
		return false
	}
	o := bc.info.ObjectOf(id)
	defs, fromNV := 0, 0
	ast.Inspect(fd.Body, func(n ast.Node) bool {
		as, ok := n.(*ast.AssignStmt)
		if !ok {
			return true
		}
		for i, l := range as.Lhs {
			lid, ok := ast.Unparen(l).(*ast.Ident)
			if !ok || bc.info.ObjectOf(lid) != o {
				continue
			}
			defs++
			if len(as.Lhs) == len(as.Rhs) {
				if call, ok := ast.Unparen(as.Rhs[i]).(*ast.CallExpr); ok {
					if cal := load.Callee(bc.info, call); cal != nil && cal.Pkg() == bc.pkg.Types && cal.Name() == "nextValidBytes" {
						fromNV++
					}
				}
			}
		}
		return true
	})
	return defs > 0 && defs == fromNV
}
