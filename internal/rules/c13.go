package rules

import (
	"fmt"
	"go/ast"
	"go/importer"
	"go/parser"
	"go/token"
	"go/types"
	"path/filepath"
	"sort"
	"strings"

	"bebopverif/internal/core"
	"bebopverif/internal/load"
	"bebopverif/internal/wire"

	"golang.org/x/tools/go/packages"
)

func init() { register("C13", checkC13) }

func checkC13(c *core.Ctx) {
	c.Explainf("C13 (decided clause: exhaustiveness of the hand-enumerated checks; that each check's predicate is right is behaviour and NOT decided). R1 facet x kind matrix over File.Validate: for each of enum, struct, message, union the loop over that kind must perform every applicable check — primitive-name clash (lookup in primitiveTypes), duplicate definition (customTypes), duplicate member names (a per-definition name set), duplicate enum values (signed and unsigned sets), duplicate opcode (allOpCodes), and a walk reaching typeDefined for every field-bearing kind incl. the struct/message branches of a union; union branches are checked like definitions of their own. R1c: every name stored into the set typeDefined consults is traced to the collection it ranges over, which must be one of the four definition lists, the union branches or the primitive table (a const or option name in that set would pass as a type). R2: message and union indices are parsed with ParseUint(_, 10, 8), tested against the existing map before insertion, and a zero message index is rejected. R3: the enum option parser's bit size flows from decodeIntegerType, and the flag-expression evaluators do not narrow a 64-bit parse result without a range test. R4: readConst's type switch covers every primitive with an arm that tests the token kind, and has an erroring default. R5: the struct-recursion fixpoint only ever adds `true` entries (monotone, hence terminating) and propagates only through struct names; a search with a visited set (R5b) keeps that set to one search. R6: no counting loop over a map keyed by a one-byte index stops before index 255 or fails to stop (positive control: fixtures/indexspace). R7: the function that fills the per-struct usage sets of the self-containment analysis ranges over all fields and skips none (a deprecated struct field is still part of the type). R9: every strconv parse of a const's numeric literal is made at the width of the const's type and its failure is returned as an error (on the pinned tree it is not: three known findings). R8: every function on the enum-value path that is handed the enum's bit size passes it to each strconv.ParseInt/ParseUint it calls itself.")
	p := loadRepo(c)
	if p == nil {
		return
	}
	pkg := p.Bebop()
	info := pkg.TypesInfo
	fd := p.FuncDecl(pkg, "File.Validate")
	if fd == nil {
		c.Undecide("File.Validate not found")
		return
	}
	// ---- R1
	type facts map[string]bool
	kinds := map[string]facts{"Enums": {}, "Structs": {}, "Messages": {}, "Unions": {}, "UnionBranch": {}}
	// helper functions called from Validate that take part in a facet
	defSets := definedTypeSets(p, pkg, fd)
	setTakers := setTakingFuncs(p, pkg)
	// inside a generic helper (firstDuplicate[T, K]) a key type that is a type
	// parameter stands for the type argument of the call that led there
	subst := map[*types.TypeParam]types.Type{}
	resolveKey := func(t types.Type) types.Type {
		if tp, ok := t.(*types.TypeParam); ok {
			if r, ok := subst[tp]; ok {
				return r
			}
		}
		return t
	}
	var scan func(n ast.Node, kind string, depth int)
	scan = func(n ast.Node, kind string, depth int) {
		ast.Inspect(n, func(m ast.Node) bool {
			switch x := m.(type) {
			case *ast.IndexExpr:
				// maps are told apart by role, not by name: the package-level table
				// of primitives; the set of defined type names (whatever reaches
				// typeDefined); the opcode table (keyed by uint32)
				var mobj types.Object
				if id, isId := ast.Unparen(x.X).(*ast.Ident); isId {
					mobj = info.ObjectOf(id)
				}
				isDefSet := mobj != nil && defSets[mobj]
				isPkgLevel := mobj != nil && mobj.Parent() == pkg.Types.Scope()
				switch {
				case wire.Canon(x.X) == "primitiveTypes":
					kinds[kind]["primitive"] = true
				case isDefSet:
					kinds[kind]["dupdef"] = true
				}
				if t := info.TypeOf(x.X); t != nil {
					if mt, ok := t.Underlying().(*types.Map); ok {
						if k, ok := resolveKey(mt.Key()).Underlying().(*types.Basic); ok && k.Kind() == types.Uint32 {
							kinds[kind]["opcode"] = true
						}
						if _, isEmpty := mt.Elem().Underlying().(*types.Struct); isEmpty && mt.Elem().Underlying().(*types.Struct).NumFields() == 0 {
							if !isDefSet && !isPkgLevel {
								if k, ok := resolveKey(mt.Key()).Underlying().(*types.Basic); ok {
									if k.Info()&types.IsString != 0 {
										kinds[kind]["dupname"] = true
									} else if k.Info()&types.IsInteger != 0 {
										kinds[kind]["dupvalue"] = true
									}
								}
							}
						}
					}
				}
			case *ast.CallExpr:
				if callee := load.Callee(info, x); callee != nil && callee.Pkg() == pkg.Types && depth < 3 {
					if _, isTaker := setTakers[callee]; isTaker {
						kinds[kind]["undefined"] = true
					} else if d := p.Decl(callee); d != nil && d.Body != nil && callee.Name() != "Validate" && callee.Name() != "usedTypes" {
						// a helper that receives one of the role-carrying maps plays
						// that role through its parameter
						added := []types.Object{}
						if sig, okS := callee.Type().(*types.Signature); okS {
							for i, a := range x.Args {
								if id, isId := ast.Unparen(a).(*ast.Ident); isId && defSets[info.ObjectOf(id)] && i < sig.Params().Len() {
									po := types.Object(sig.Params().At(i))
									if !defSets[po] {
										defSets[po] = true
										added = append(added, po)
									}
								}
							}
						}
						// type arguments of a generic helper, explicit or inferred
						var bound []*types.TypeParam
						var fid *ast.Ident
						switch f := ast.Unparen(x.Fun).(type) {
						case *ast.Ident:
							fid = f
						case *ast.IndexExpr:
							fid, _ = ast.Unparen(f.X).(*ast.Ident)
						case *ast.IndexListExpr:
							fid, _ = ast.Unparen(f.X).(*ast.Ident)
						}
						if fid != nil {
							if inst, ok := info.Instances[fid]; ok && inst.TypeArgs != nil {
								if sig, okS := callee.Type().(*types.Signature); okS && sig.TypeParams() != nil {
									for i := 0; i < sig.TypeParams().Len() && i < inst.TypeArgs.Len(); i++ {
										tp := sig.TypeParams().At(i)
										if _, had := subst[tp]; !had {
											subst[tp] = resolveKey(inst.TypeArgs.At(i))
											bound = append(bound, tp)
										}
									}
								}
							}
						}
						scan(d.Body, kind, depth+1)
						for _, tp := range bound {
							delete(subst, tp)
						}
						for _, po := range added {
							delete(defSets, po)
						}
					}
				}
			}
			return true
		})
	}
	nLoops := 0
	var walkTop func(stmts []ast.Stmt)
	walkTop = func(stmts []ast.Stmt) {
		for _, s := range stmts {
			rs, ok := s.(*ast.RangeStmt)
			if !ok {
				continue
			}
			kind := fileField(info, rs.X)
			if kind == "" {
				continue
			}
			if _, tracked := kinds[kind]; !tracked {
				continue
			}
			nLoops++
			scan(rs.Body, kind, 0)
			if kind == "Unions" {
				// the loop over a union's branches: a branch is a definition of
				// its own (name clashes) with members of its own (nested loop)
				ast.Inspect(rs.Body, func(m ast.Node) bool {
					inner, ok := m.(*ast.RangeStmt)
					if !ok || !strings.Contains(wire.Canon(inner.X), "ields") {
						return true
					}
					before := map[string]bool{}
					for k, v := range kinds["UnionBranch"] {
						before[k] = v
					}
					scan(inner.Body, "UnionBranch", 0)
					// a name set consulted directly in the branch loop is the
					// union's own duplicate-branch check, not the branch's fields
					kinds["UnionBranch"]["dupname"] = before["dupname"]
					ast.Inspect(inner.Body, func(k ast.Node) bool {
						var body ast.Node
						switch y := k.(type) {
						case *ast.RangeStmt:
							body = y.Body
						case *ast.CallExpr:
							// the loop over the branch's fields may sit in a helper
							// that is handed them (a []Field argument)
							for _, a := range y.Args {
								if sl, ok := info.TypeOf(a).(*types.Slice); ok {
									if nt, ok := sl.Elem().(*types.Named); ok && nt.Obj().Name() == "Field" && nt.Obj().Pkg() == pkg.Types {
										body = &ast.ExprStmt{X: y}
									}
								}
							}
						}
						if body == nil {
							return true
						}
						tmp := kinds["UnionBranch"]
						kinds["UnionBranch"] = facts{}
						scan(body, "UnionBranch", 0)
						if kinds["UnionBranch"]["dupname"] {
							tmp["dupname"] = true
						}
						kinds["UnionBranch"] = tmp
						return true
					})
					return false
				})
			}
		}
	}
	walkTop(fd.Body.List)
	c.Count("validate_kind_loops", nLoops)
	// a kind whose loop is not in Validate's own statement list but in a
	// function Validate reaches (a phase method, a table of check functions):
	// the matrix below is read off Validate's own loops, so that arrangement is
	// not recognised — UNDECIDED for the kind, not a missing check
	delegated := map[string]string{}
	{
		ownLoops := map[string]bool{}
		for _, s := range fd.Body.List {
			if rs, ok := s.(*ast.RangeStmt); ok {
				ownLoops[fileField(info, rs.X)] = true
			}
		}
		self, _ := info.Defs[fd.Name].(*types.Func)
		reach := reachableFuncs(p, pkg, fd)
		for fn := range reach {
			d := p.Decl(fn)
			if fn == self || d == nil || d.Body == nil {
				continue
			}
			ast.Inspect(d.Body, func(m ast.Node) bool {
				if rs, ok := m.(*ast.RangeStmt); ok {
					if k := fileField(info, rs.X); k != "" && !ownLoops[k] {
						if _, tracked := kinds[k]; tracked {
							if old, had := delegated[k]; !had || fn.Name() < old {
								delegated[k] = fn.Name()
							}
						}
					}
				}
				return true
			})
		}
		if _, ok := delegated["Unions"]; ok {
			delegated["UnionBranch"] = delegated["Unions"]
		}
		for _, k := range []string{"Enums", "Structs", "Messages", "Unions"} {
			if fnName, ok := delegated[k]; ok {
				c.Undecide("Validate: the loop over File.%s is not in Validate's own statement list but in %s, which Validate reaches: the facet matrix is read off Validate's own loops, this arrangement is not recognised", k, fnName)
			}
		}
	}
	if len(delegated) == 0 {
		c.Floor("validate_kind_loops", 4)
	}
	required := []struct{ kind, facet, why string }{
		{"Enums", "primitive", "an enum named like a primitive"},
		{"Enums", "dupdef", "two definitions with one name"},
		{"Enums", "dupname", "two options with one name"},
		{"Enums", "dupvalue", "two options with one value"},
		{"Structs", "primitive", "a struct named like a primitive"},
		{"Structs", "dupdef", "two definitions with one name"},
		{"Structs", "dupname", "two fields with one name"},
		{"Structs", "opcode", "two records with one opcode"},
		{"Structs", "undefined", "a field of an undefined type"},
		{"Messages", "primitive", "a message named like a primitive"},
		{"Messages", "dupdef", "two definitions with one name"},
		{"Messages", "dupname", "two fields with one name"},
		{"Messages", "opcode", "two records with one opcode"},
		{"Messages", "undefined", "a field of an undefined type"},
		{"Unions", "primitive", "a union named like a primitive"},
		{"Unions", "dupdef", "two definitions with one name"},
		{"Unions", "dupname", "two branches with one name"},
		{"Unions", "opcode", "two records with one opcode"},
		{"Unions", "undefined", "a branch field of an undefined type"},
		{"UnionBranch", "primitive", "a union branch named like a primitive"},
		{"UnionBranch", "dupdef", "a union branch that re-uses the name of another definition"},
		{"UnionBranch", "dupname", "two fields with one name inside a union branch"},
	}
	// the facets that hang on the set of defined names can only be read off
	// when that set was identified (a map that reaches the definedness check)
	setKnown := len(defSets) > 0 && len(setTakers) > 0
	if !setKnown {
		c.Undecide("Validate: no map of defined type names reaches a definedness check: the duplicate-definition and undefined-type facets are not recognised in this arrangement")
	}
	for _, r := range required {
		if !setKnown && (r.facet == "dupdef" || r.facet == "undefined") {
			continue
		}
		if _, ok := delegated[r.kind]; ok {
			continue
		}
		c.Check("R1", fmt.Sprintf("Validate checks %s for %s", r.facet, r.kind), p.Pos(fd.Pos()), kinds[r.kind][r.facet],
			fmt.Sprintf("no loop over %s performs the %q check: a schema with %s is accepted and compiled", r.kind, r.facet, r.why))
	}
	// a union's own name must also be checked against the names its (and other
	// unions') branches define: some map is filled with branch names inside a
	// branch loop and consulted with the union's name in a loop over f.Unions
	branchSets := map[string]bool{}
	ast.Inspect(fd.Body, func(m ast.Node) bool {
		rs, ok := m.(*ast.RangeStmt)
		if !ok || fileField(info, rs.X) != "Unions" {
			return true
		}
		ast.Inspect(rs.Body, func(k ast.Node) bool {
			inner, ok := k.(*ast.RangeStmt)
			if !ok || !strings.Contains(wire.Canon(inner.X), "ields") {
				return true
			}
			ast.Inspect(inner.Body, func(q ast.Node) bool {
				if as, ok := q.(*ast.AssignStmt); ok && len(as.Lhs) == 1 {
					if ix, ok := as.Lhs[0].(*ast.IndexExpr); ok && strings.Contains(wire.Canon(ix.Index), "name()") {
						branchSets[wire.Canon(ix.X)] = true
					}
				}
				return true
			})
			return true
		})
		return true
	})
	consulted := false
	ast.Inspect(fd.Body, func(m ast.Node) bool {
		rs, ok := m.(*ast.RangeStmt)
		if !ok || fileField(info, rs.X) != "Unions" {
			return true
		}
		v := wire.Canon(rs.Value)
		ast.Inspect(rs.Body, func(k ast.Node) bool {
			if ix, ok := k.(*ast.IndexExpr); ok && branchSets[wire.Canon(ix.X)] && wire.Canon(ix.Index) == v+".Name" {
				consulted = true
			}
			return true
		})
		return true
	})
	if setKnown {
		c.Check("R1", "Validate checks dupdef for Unions against union branch names", p.Pos(fd.Pos()), len(branchSets) > 0 && consulted,
			"no loop compares a union's own name with the names defined by union branches: `union Shape { 1 -> struct Circle {} }` followed by `union Circle {}` declares Circle twice")
	}
	// the definedness check (typeDefined, or whatever it is called or shaped as:
	// the function that looks a FieldType's .Simple up in a set of names)
	// recurses into array elements, map keys and map values
	if dc := findDefinednessCheck(p, pkg); dc != nil {
		td := dc.fd
		var pathOf func(e ast.Expr) (string, bool)
		pathOf = func(e ast.Expr) (string, bool) {
			switch x := ast.Unparen(e).(type) {
			case *ast.Ident:
				if info.ObjectOf(x) == dc.ft {
					return "", true
				}
				// a local that names a part of the field type: key, value := ft.Map.Key, ft.Map.Value
				var def ast.Expr
				defs := 0
				ast.Inspect(td.Body, func(n ast.Node) bool {
					if as, ok := n.(*ast.AssignStmt); ok && len(as.Lhs) == len(as.Rhs) {
						for i, l := range as.Lhs {
							if lid, ok := l.(*ast.Ident); ok && info.ObjectOf(lid) == info.ObjectOf(x) {
								defs++
								def = as.Rhs[i]
							}
						}
					}
					return true
				})
				if defs == 1 {
					if _, self := ast.Unparen(def).(*ast.Ident); !self {
						return pathOf(def)
					}
				}
				return "", false
			case *ast.SelectorExpr:
				pre, ok := pathOf(x.X)
				return pre + "." + x.Sel.Name, ok
			case *ast.StarExpr:
				return pathOf(x.X)
			case *ast.UnaryExpr:
				return pathOf(x.X)
			}
			return "", false
		}
		recurse, lookup := map[string]bool{}, map[string]bool{}
		ast.Inspect(td.Body, func(n ast.Node) bool {
			switch x := n.(type) {
			case *ast.CallExpr:
				if cal := load.Callee(info, x); cal != nil && types.Object(cal) == info.ObjectOf(td.Name) {
					// function form f(ft.X, set) or method form ft.X.f(set)
					if td.Recv == nil && len(x.Args) >= 1 {
						if pth, ok := pathOf(x.Args[0]); ok {
							recurse[pth] = true
						}
					} else if sel, isSel := ast.Unparen(x.Fun).(*ast.SelectorExpr); isSel {
						if pth, ok := pathOf(sel.X); ok {
							recurse[pth] = true
						}
					}
				}
			case *ast.IndexExpr:
				if id, ok := ast.Unparen(x.X).(*ast.Ident); ok && info.ObjectOf(id) == dc.set {
					if pth, ok := pathOf(x.Index); ok {
						lookup[pth] = true
					}
				}
			}
			return true
		})
		c.Check("R1", "typeDefined descends into arrays", p.Pos(td.Pos()), recurse[".Array"], "no recursive call on the array element type")
		c.Check("R1", "typeDefined checks map keys", p.Pos(td.Pos()), lookup[".Map.Key"], "the map key name is never looked up in the set of defined types")
		c.Check("R1", "typeDefined descends into map values", p.Pos(td.Pos()), recurse[".Map.Value"], "no recursive call on the map value type")
		c.Check("R1", "typeDefined checks simple names", p.Pos(td.Pos()), lookup[".Simple"], "the simple type name is never looked up in the set of defined types")
	} else {
		c.Undecide("no function looks a field type's name up in a set of defined names (typeDefined not found)")
	}
	definedSetHoldsTypes(c, p, fd)
	indexSpaceComplete(c, p)
	usageLeavesNoFieldOut(c, p, fd)
	bitSizeReachesParses(c, p)
	constLiteralsFit(c, p)

	// ---- R2 index rules
	for _, cfgx := range []struct {
		fn       string
		needZero bool
	}{{"readMessage", true}, {"readUnion", false}} {
		f := p.FuncDecl(pkg, cfgx.fn)
		if f == nil {
			c.Undecide("%s not found", cfgx.fn)
			continue
		}
		parse8, dup, zero := false, false, false
		var idxVar string
		ast.Inspect(f.Body, func(m ast.Node) bool {
			switch x := m.(type) {
			case *ast.AssignStmt:
				if len(x.Rhs) == 1 {
					if call, ok := x.Rhs[0].(*ast.CallExpr); ok && wire.Canon(call.Fun) == "strconv.ParseUint" && len(call.Args) == 3 {
						b, ok1 := constInt(info, call.Args[1])
						s, ok2 := constInt(info, call.Args[2])
						if ok1 && ok2 && b == 10 && s == 8 {
							parse8 = true
							idxVar = wire.Canon(x.Lhs[0])
						}
					}
				}
			case *ast.IfStmt:
				if x.Init != nil && endsInReturn(x.Body) {
					if as, ok := x.Init.(*ast.AssignStmt); ok && len(as.Rhs) == 1 {
						if ix, ok := as.Rhs[0].(*ast.IndexExpr); ok && strings.HasSuffix(wire.Canon(ix.X), ".Fields") && wire.Canon(x.Cond) == "ok" {
							dup = true
						}
					}
				}
				cs := wire.Canon(x.Cond)
				if idxVar != "" && (cs == idxVar+" == 0" || cs == "uint8("+idxVar+") == 0" || cs == idxVar+" < 1") && endsInReturn(x.Body) {
					zero = true
				}
			}
			return true
		})
		c.Check("R2", cfgx.fn+" parses the index as a decimal that fits 8 bits", p.Pos(f.Pos()), parse8, "the index literal must go through strconv.ParseUint(_, 10, 8)")
		c.Check("R2", cfgx.fn+" rejects a duplicate index", p.Pos(f.Pos()), dup, "the index must be looked up in .Fields, with an error return, before the member is stored")
		if cfgx.needZero {
			c.Check("R2", cfgx.fn+" rejects index 0", p.Pos(f.Pos()), zero, "index 0 is the message terminator on the wire: a field with that index can never be decoded")
		}
	}

	// ---- R3
	bitParam := -1
	if f := p.FuncDecl(pkg, "readEnumOptionValue"); f != nil {
		// the parameter that carries the enum's bit size: it reaches the bitSize
		// argument of a strconv parse, here or in a callee (the parses themselves
		// are R8's obligations)
		roles, _, _ := bitSizeRoles(p)
		pi := 0
		for _, fl := range f.Type.Params.List {
			for _, nm := range fl.Names {
				if roles[info.Defs[nm]] {
					bitParam = pi
				}
				pi++
			}
		}
		c.Check("R3", "enum option literals are range-checked against the enum's width", p.Pos(f.Pos()), bitParam >= 0, "no parameter of readEnumOptionValue reaches the bitSize argument of a ParseInt/ParseUint: option literals are parsed at a fixed width")
	} else {
		c.Undecide("readEnumOptionValue not found")
	}
	if f := p.FuncDecl(pkg, "readEnum"); f != nil {
		// results of decodeIntegerType, and whether one of them is what readEnum
		// passes as the bit size of readEnumOptionValue
		fromDecode := map[types.Object]bool{}
		ast.Inspect(f.Body, func(m ast.Node) bool {
			if as, ok := m.(*ast.AssignStmt); ok && len(as.Rhs) == 1 {
				if call, ok := as.Rhs[0].(*ast.CallExpr); ok && calleeNamed(call, "decodeIntegerType") {
					for _, l := range as.Lhs {
						if id, ok := l.(*ast.Ident); ok {
							fromDecode[info.ObjectOf(id)] = true
						}
					}
				}
			}
			return true
		})
		passed := false
		ast.Inspect(f.Body, func(m ast.Node) bool {
			if call, ok := m.(*ast.CallExpr); ok && calleeNamed(call, "readEnumOptionValue") && bitParam >= 0 && bitParam < len(call.Args) {
				if id, ok := ast.Unparen(call.Args[bitParam]).(*ast.Ident); ok && fromDecode[info.ObjectOf(id)] {
					passed = true
				}
			}
			return true
		})
		c.Check("R3", "readEnum derives bit size and signedness from decodeIntegerType", p.Pos(f.Pos()), passed, "the bit size handed to readEnumOptionValue is not a result of decodeIntegerType")
	}
	for _, name := range []string{"evaluateBitflagExpSigned", "evaluateBitflagExprUnsigned"} {
		f := p.FuncDecl(pkg, name)
		if f == nil {
			c.Undecide("%s not found", name)
			continue
		}
		// in the numberNode case: the parse result must not be narrowed unchecked
		ok := false
		found := false
		computedBits, undecided := "", ""
		var computedExpr ast.Expr
		// the arm for a literal: in the evaluator or in the worker it delegates to
		var bodies []ast.Node
		for _, d := range declClosure(p, pkg, f, 2) {
			if d != f && (d.Name.Name == "evaluateBitflagExpSigned" || d.Name.Name == "evaluateBitflagExprUnsigned") {
				continue // the sibling evaluator has obligations of its own
			}
			bodies = append(bodies, d.Body)
		}
		for _, body := range bodies {
			ast.Inspect(body, func(m ast.Node) bool {
				cc, is := m.(*ast.CaseClause)
				if !is || len(cc.List) != 1 || wire.Canon(cc.List[0]) != "numberNode" || found {
					return true
				}
				found = true
				parse64 := false
				rangeTest := false
				for _, s := range cc.Body {
					ast.Inspect(s, func(k ast.Node) bool {
						if call, is := k.(*ast.CallExpr); is && len(call.Args) == 3 && strings.HasPrefix(wire.Canon(call.Fun), "strconv.Parse") {
							if b, isC := constInt(info, call.Args[2]); isC && b == 64 {
								parse64 = true
							} else if !isC {
								// a parameter is R8's business; anything computed is a
								// width the rule cannot evaluate per instantiation of T
								isParam := false
								if id, isId := ast.Unparen(call.Args[2]).(*ast.Ident); isId {
									if v, isVar := info.ObjectOf(id).(*types.Var); isVar {
										for _, d := range declClosure(p, pkg, f, 2) {
											if isParamOf(info, d, v) {
												isParam = true
											}
										}
									}
								}
								if !isParam {
									computedBits = wire.Canon(call.Args[2])
									computedExpr = call.Args[2]
								}
							}
						}
						return true
					})
					if ifs, is := s.(*ast.IfStmt); is && endsInReturn(ifs.Body) {
						// a comparison one side of which converts the parsed value to the
						// evaluator's integer type (any type-parameter name)
						ast.Inspect(ifs.Cond, func(k ast.Node) bool {
							be, isB := k.(*ast.BinaryExpr)
							if !isB || (be.Op != token.NEQ && be.Op != token.LSS && be.Op != token.GTR) {
								return true
							}
							ast.Inspect(be, func(q ast.Node) bool {
								if call, isC := q.(*ast.CallExpr); isC && len(call.Args) == 1 {
									if tv := info.Types[call.Fun]; tv.IsType() {
										if _, isTP := tv.Type.(*types.TypeParam); isTP {
											rangeTest = true
										}
									}
								}
								return true
							})
							return true
						})
					}
				}
				ok = !parse64 || rangeTest
				if computedBits != "" && !rangeTest {
					undecided = computedBits
				}
				return false
			})
		}
		if undecided != "" {
			// evaluate the width for every type of the evaluator's type set
			verdict, detail := evalWidthPerInstance(p, pkg, f, computedExpr)
			switch verdict {
			case "ok":
				c.Check("R3", name+" does not narrow a flag literal without a range test", p.Pos(f.Pos()), true, "")
			case "bad":
				c.Check("R3", name+" does not narrow a flag literal without a range test", p.Pos(f.Pos()), false,
					"a literal is parsed at a width computed by "+undecided+" and converted with T(x) without a range test; "+detail+": a value outside the enum's base type is silently truncated instead of rejected")
			default:
				c.Undecide("C13/R3: %s parses a flag literal at a width computed by %s and converts the result with T(x) without a range test: whether that width is the width of T for every instantiation could not be evaluated (%s)", name, undecided, detail)
			}
			continue
		}
		c.Check("R3", name+" does not narrow a flag literal without a range test", p.Pos(f.Pos()), found && ok,
			"a literal is parsed as a 64-bit integer and converted with T(x): a value outside the enum's base type is silently truncated instead of rejected")
	}

	// R3b: the range test above is only meaningful if the arithmetic happens in
	// the enum's own integer type
	flagDispatch(c, p, "R3")
	// ---- R4
	if f := p.FuncDecl(pkg, "readConst"); f != nil {
		covered := map[string]bool{}
		hasDefault := false
		armsTestKind := true
		nArms := 0
		// the type dispatch is a tagless switch in readConst or in a helper it calls
		var dispatch *ast.SwitchStmt
		for _, d := range declClosure(p, pkg, f, 2) {
			ast.Inspect(d.Body, func(m ast.Node) bool {
				sw, is := m.(*ast.SwitchStmt)
				if !is || sw.Tag != nil || dispatch != nil {
					return true
				}
				for _, cl := range sw.Body.List {
					for _, e := range cl.(*ast.CaseClause).List {
						if call, isC := ast.Unparen(e).(*ast.CallExpr); isC && strings.HasSuffix(wire.Canon(call.Fun), "Primitive") {
							dispatch = sw
						}
					}
				}
				return dispatch == nil
			})
		}
		scanRoot := ast.Node(f.Body)
		if dispatch != nil {
			scanRoot = dispatch
		}
		ast.Inspect(scanRoot, func(m ast.Node) bool {
			sw, is := m.(*ast.SwitchStmt)
			if !is || sw.Tag != nil {
				return true
			}
			for _, cl := range sw.Body.List {
				cc := cl.(*ast.CaseClause)
				if cc.List == nil {
					hasDefault = endsInReturnList(cc.Body)
					continue
				}
				nArms++
				src := wire.Canon(cc.List[0])
				for pred, table := range map[string]string{"isUintPrimitive": "uintTypes", "isIntPrimitive": "intTypes", "isFloatPrimitive": "floatTypes"} {
					if strings.HasPrefix(src, pred+"(") {
						ks, _ := mapLitKeys(p, table)
						for _, k := range ks {
							covered[k] = true
						}
					}
				}
				if be, isB := ast.Unparen(cc.List[0]).(*ast.BinaryExpr); isB && be.Op == token.EQL {
					// <the const's type name> == "<primitive>": a field or a parameter holding it
					lhsOK := false
					if sel, isS := ast.Unparen(be.X).(*ast.SelectorExpr); isS && sel.Sel.Name == "SimpleType" {
						lhsOK = true
					}
					if id, isId := ast.Unparen(be.X).(*ast.Ident); isId {
						if o := info.ObjectOf(id); o != nil && o.Type().String() == "string" {
							lhsOK = true
						}
					}
					if tv := info.Types[be.Y]; lhsOK && tv.Value != nil {
						covered[strings.Trim(tv.Value.ExactString(), `"`)] = true
					}
				}
				testsKind := false
				ast.Inspect(cc, func(k ast.Node) bool {
					if sel, isS := k.(*ast.SelectorExpr); isS && sel.Sel.Name == "kind" {
						testsKind = true
					}
					return true
				})
				if !testsKind {
					armsTestKind = false
				}
			}
			return false
		})
		prims, _ := mapLitKeys(p, "primitiveTypes")
		var missing []string
		for _, k := range prims {
			if !covered[k] && k != "date" {
				missing = append(missing, k)
			}
		}
		sort.Strings(missing)
		c.Count("const_arms", nArms)
		c.Floor("const_arms", 6)
		c.Check("R4", "readConst has an arm for every primitive that can be a const", p.Pos(f.Pos()), len(missing) == 0, fmt.Sprintf("no arm for %v", missing))
		c.Check("R4", "readConst rejects other types in a default arm", p.Pos(f.Pos()), hasDefault, "")
		c.Check("R4", "every arm of readConst tests the literal's token kind", p.Pos(f.Pos()), armsTestKind, "an arm accepts a literal without looking at its kind")
	} else {
		c.Undecide("readConst not found")
	}

	// ---- R5 monotone fixpoint
	nStores := 0
	ast.Inspect(fd.Body, func(m ast.Node) bool {
		as, is := m.(*ast.AssignStmt)
		if !is || len(as.Lhs) != 1 || len(as.Rhs) != 1 {
			return true
		}
		ix, is := as.Lhs[0].(*ast.IndexExpr)
		if !is {
			return true
		}
		t := info.TypeOf(ix.X)
		if t == nil || t.String() != "map[string]bool" {
			return true
		}
		nStores++
		ok := false
		if tv := info.Types[as.Rhs[0]]; tv.Value != nil && tv.Value.ExactString() == "true" {
			ok = true
		}
		if id, is := as.Rhs[0].(*ast.Ident); is {
			// value variable of a range over a map[string]bool of the same family
			ast.Inspect(fd.Body, func(k ast.Node) bool {
				if rs, is := k.(*ast.RangeStmt); is && rs.Value != nil {
					if vid, is := rs.Value.(*ast.Ident); is && info.ObjectOf(vid) == info.ObjectOf(id) {
						if rt := info.TypeOf(rs.X); rt != nil && rt.String() == "map[string]bool" {
							ok = true
						}
					}
				}
				return true
			})
		}
		c.Check("R5", "recursion fixpoint only adds true entries", p.Pos(as.Pos()), ok, "a store into a usage set writes something other than `true` or an entry of another usage set: the fixpoint is no longer monotone and may not terminate")
		return true
	})
	c.Count("usage_set_stores", nStores)
	// usedTypes family: only literal true
	for _, name := range []string{"FieldType.usedTypes"} {
		if f := p.FuncDecl(pkg, name); f != nil {
			// every value put into a usage set here is the constant true
			stores, allTrue := 0, true
			ast.Inspect(f.Body, func(m ast.Node) bool {
				switch x := m.(type) {
				case *ast.CompositeLit:
					if t := info.TypeOf(x); t != nil && t.String() == "map[string]bool" {
						for _, el := range x.Elts {
							if kv, ok := el.(*ast.KeyValueExpr); ok {
								stores++
								if tv := info.Types[kv.Value]; tv.Value == nil || tv.Value.ExactString() != "true" {
									allTrue = false
								}
							}
						}
					}
				case *ast.AssignStmt:
					for i, l := range x.Lhs {
						if ix, ok := l.(*ast.IndexExpr); ok && i < len(x.Rhs) {
							if t := info.TypeOf(ix.X); t != nil && t.String() == "map[string]bool" {
								stores++
								if tv := info.Types[x.Rhs[i]]; tv.Value == nil || tv.Value.ExactString() != "true" {
									allTrue = false
								}
							}
						}
					}
				}
				return true
			})
			if stores == 0 {
				c.Undecide("C13/R5: %s stores nothing into a map[string]bool usage set: how direct field types are recorded is not recognised", name)
			} else {
				c.Check("R5", name+" records direct field types with value true", p.Pos(f.Pos()), allTrue, fmt.Sprintf("%d stores into usage sets, all constant true: %v (a false entry would be overwritten or read as 'not used' by the fixpoint)", stores, allTrue))
			}
		}
	}
	// delta is only raised when an entry is new
	deltaGuarded := false
	loopFlags := map[types.Object]bool{}
	ast.Inspect(fd.Body, func(m ast.Node) bool {
		if fs, is := m.(*ast.ForStmt); is && fs.Init == nil && fs.Post == nil {
			if id, isId := ast.Unparen(fs.Cond).(*ast.Ident); fs.Cond != nil && isId {
				loopFlags[info.ObjectOf(id)] = true
			}
		}
		return true
	})
	// the flag must not be raised anywhere else inside the loop
	unguarded := false
	ast.Inspect(fd.Body, func(m ast.Node) bool {
		if as, is := m.(*ast.AssignStmt); is && len(as.Lhs) == 1 && len(as.Rhs) == 1 && as.Tok == token.ASSIGN {
			if id, isId := as.Lhs[0].(*ast.Ident); isId && loopFlags[info.ObjectOf(id)] {
				if tv := info.Types[as.Rhs[0]]; tv.Value != nil && tv.Value.ExactString() == "true" {
					guarded := false
					ast.Inspect(fd.Body, func(k ast.Node) bool {
						if ifs, is := k.(*ast.IfStmt); is && ifs.Body.Pos() <= as.Pos() && as.End() <= ifs.Body.End() {
							if u, isU := ast.Unparen(ifs.Cond).(*ast.UnaryExpr); isU && u.Op == token.NOT {
								if _, isIx := ast.Unparen(u.X).(*ast.IndexExpr); isIx {
									guarded = true
								}
							}
						}
						return true
					})
					if !guarded {
						unguarded = true
					}
				}
			}
		}
		return true
	})
	ast.Inspect(fd.Body, func(m ast.Node) bool {
		// if !<usage set>[k] { …; <loop flag> = true }: the flag of the enclosing
		// `for <flag>` loop is raised only when an entry is missing
		ifs, is := m.(*ast.IfStmt)
		if !is {
			return true
		}
		u, isU := ast.Unparen(ifs.Cond).(*ast.UnaryExpr)
		if !isU || u.Op != token.NOT {
			return true
		}
		ix, isIx := ast.Unparen(u.X).(*ast.IndexExpr)
		if !isIx {
			return true
		}
		if t := info.TypeOf(ix.X); t == nil || t.String() != "map[string]bool" {
			return true
		}
		for _, s := range ifs.Body.List {
			if as, is := s.(*ast.AssignStmt); is && len(as.Lhs) == 1 && len(as.Rhs) == 1 {
				if id, isId := as.Lhs[0].(*ast.Ident); isId && loopFlags[info.ObjectOf(id)] {
					if tv := info.Types[as.Rhs[0]]; tv.Value != nil && tv.Value.ExactString() == "true" {
						deltaGuarded = true
					}
				}
			}
		}
		return true
	})
	if len(loopFlags) > 0 {
		c.Check("R5", "the fixpoint continues only when a set grew", p.Pos(fd.Pos()), deltaGuarded && !unguarded, "the loop flag is set to true outside a test that the entry is new: the fixpoint loop may never end")
	} else if !visitedSetSearch(c, p, fd) {
		c.Undecide("Validate: the struct self-containment analysis is neither the closure fixpoint nor a search with a visited set: not recognised")
	}
	_ = token.NoPos
}

func endsInReturnList(stmts []ast.Stmt) bool {
	if len(stmts) == 0 {
		return false
	}
	_, ok := stmts[len(stmts)-1].(*ast.ReturnStmt)
	return ok
}

// definedSetHoldsTypes (R1c): the set of names typeDefined consults must hold
// names of types and nothing else. Every key stored into that map (or into a
// map it is an alias of) is traced to the collection it ranges over: the four
// definition lists of the File, union branches, or the primitive table. A name
// of any other origin (a const, an enum option, a field) in that set makes
// `struct S { ThatName x; }` pass as a defined type.
func definedSetHoldsTypes(c *core.Ctx, p *load.Prog, fd *ast.FuncDecl) {
	pkg := p.Bebop()
	info := pkg.TypesInfo
	sets := definedTypeSets(p, pkg, fd)
	if len(sets) == 0 {
		c.Undecide("Validate: no set of defined names is passed to typeDefined")
		return
	}
	// range bindings of the function
	rangeOf := map[types.Object]string{}
	defOf := map[types.Object]ast.Expr{}
	ast.Inspect(fd.Body, func(n ast.Node) bool {
		switch x := n.(type) {
		case *ast.RangeStmt:
			for _, kv := range []ast.Expr{x.Key, x.Value} {
				if id, ok := kv.(*ast.Ident); ok && id.Name != "_" {
					rangeOf[info.ObjectOf(id)] = collectionName(info, x.X)
				}
			}
		case *ast.AssignStmt:
			if x.Tok == token.DEFINE && len(x.Lhs) == len(x.Rhs) {
				for i, l := range x.Lhs {
					if id, ok := l.(*ast.Ident); ok {
						defOf[info.ObjectOf(id)] = x.Rhs[i]
					}
				}
			}
		}
		return true
	})
	var origin func(e ast.Expr, depth int) string
	origin = func(e ast.Expr, depth int) string {
		if depth > 4 {
			return ""
		}
		res := ""
		ast.Inspect(e, func(n ast.Node) bool {
			if res != "" {
				return false
			}
			id, ok := n.(*ast.Ident)
			if !ok {
				return true
			}
			obj := info.ObjectOf(id)
			if r, ok := rangeOf[obj]; ok {
				res = r
			} else if d, ok := defOf[obj]; ok {
				res = origin(d, depth+1)
			}
			return true
		})
		return res
	}
	allowed := func(coll string) bool {
		switch coll {
		case "primitiveTypes", "File.Enums", "File.Structs", "File.Messages", "File.Unions":
			return true
		}
		// union branch names are kept in a set of their own (they are checked for
		// clashes, but a field cannot name a branch as its type): putting them
		// among the defined types lets `struct D { Branch b; }` through, and the
		// self-containment analysis never sees branch structs
		return false
	}
	n := 0
	ast.Inspect(fd.Body, func(nd ast.Node) bool {
		as, ok := nd.(*ast.AssignStmt)
		if !ok {
			return true
		}
		for _, l := range as.Lhs {
			ix, ok := l.(*ast.IndexExpr)
			if !ok {
				continue
			}
			id, ok := ast.Unparen(ix.X).(*ast.Ident)
			if !ok || !sets[info.ObjectOf(id)] {
				continue
			}
			n++
			coll := origin(ix.Index, 0)
			key := fmt.Sprintf("Validate: names stored in the defined-type set come from types (%s <- %s)", id.Name, coll)
			if coll == "" {
				c.Undecide("Validate: the key %s stored into %s cannot be traced to a collection", wire.Canon(ix.Index), id.Name)
				continue
			}
			c.Check("R1c", key, p.Pos(as.Pos()), allowed(coll),
				fmt.Sprintf("%s[%s] records a name taken from %s in the set typeDefined consults: a field whose type is such a name passes as defined, and the generator emits it as a type", id.Name, wire.Canon(ix.Index), coll))
		}
		return true
	})
	// writes made by a helper that receives the set: the key it stores is one
	// of its parameters (possibly trimmed), traced at every call site in Validate
	ast.Inspect(fd.Body, func(nd ast.Node) bool {
		call, ok := nd.(*ast.CallExpr)
		if !ok {
			return true
		}
		cal := load.Callee(info, call)
		if cal == nil || cal.Pkg() != pkg.Types {
			return true
		}
		hd := p.Decl(cal)
		sig, _ := cal.Type().(*types.Signature)
		if hd == nil || hd.Body == nil || sig == nil {
			return true
		}
		setParam := -1
		for i, a := range call.Args {
			if id, ok := ast.Unparen(a).(*ast.Ident); ok && sets[info.ObjectOf(id)] && i < sig.Params().Len() {
				setParam = i
			}
		}
		if setParam < 0 {
			return true
		}
		po := types.Object(sig.Params().At(setParam))
		// local definitions inside the helper
		hdef := map[types.Object]ast.Expr{}
		ast.Inspect(hd.Body, func(k ast.Node) bool {
			if as, ok := k.(*ast.AssignStmt); ok && as.Tok == token.DEFINE && len(as.Lhs) == len(as.Rhs) {
				for i, l := range as.Lhs {
					if id, ok := l.(*ast.Ident); ok {
						hdef[info.ObjectOf(id)] = as.Rhs[i]
					}
				}
			}
			return true
		})
		var argOf func(e ast.Expr, depth int) ast.Expr
		argOf = func(e ast.Expr, depth int) ast.Expr {
			var res ast.Expr
			ast.Inspect(e, func(k ast.Node) bool {
				if res != nil {
					return false
				}
				id, ok := k.(*ast.Ident)
				if !ok {
					return true
				}
				o := info.ObjectOf(id)
				for i := 0; i < sig.Params().Len(); i++ {
					if types.Object(sig.Params().At(i)) == o && i < len(call.Args) && i != setParam {
						res = call.Args[i]
					}
				}
				if d, ok := hdef[o]; ok && res == nil && depth < 3 {
					res = argOf(d, depth+1)
				}
				return true
			})
			return res
		}
		ast.Inspect(hd.Body, func(k ast.Node) bool {
			as, ok := k.(*ast.AssignStmt)
			if !ok {
				return true
			}
			for _, l := range as.Lhs {
				ix, ok := l.(*ast.IndexExpr)
				if !ok {
					continue
				}
				id, ok := ast.Unparen(ix.X).(*ast.Ident)
				if !ok || info.ObjectOf(id) != po {
					continue
				}
				n++
				arg := argOf(ix.Index, 0)
				coll := ""
				if arg != nil {
					coll = origin(arg, 0)
				}
				if coll == "" {
					c.Undecide("Validate: the key %s stored by %s cannot be traced to a collection at %s", wire.Canon(ix.Index), cal.Name(), p.Pos(call.Pos()))
					continue
				}
				key := fmt.Sprintf("Validate: names stored in the defined-type set come from types (via %s <- %s)", cal.Name(), coll)
				c.Check("R1c", key, p.Pos(call.Pos()), allowed(coll),
					fmt.Sprintf("%s stores a name taken from %s in the set the definedness check consults: a field whose type is such a name passes as defined", cal.Name(), coll))
			}
			return true
		})
		return true
	})
	c.Count("defined_set_writes", n)
	c.Floor("defined_set_writes", 2)
}

// fileField returns the field name when e selects a field of a value of the
// package's File type ("" otherwise), whatever the variable is called.
func fileField(info *types.Info, e ast.Expr) string {
	sel, ok := ast.Unparen(e).(*ast.SelectorExpr)
	if !ok {
		return ""
	}
	if typeBaseName(info.TypeOf(sel.X)) != "File" {
		return ""
	}
	return sel.Sel.Name
}

func typeBaseName(t types.Type) string {
	if t == nil {
		return ""
	}
	if p, ok := t.(*types.Pointer); ok {
		t = p.Elem()
	}
	if n, ok := t.(*types.Named); ok {
		return n.Obj().Name()
	}
	return ""
}

// collectionName names what a range statement iterates over independently of
// variable names: "File.Enums", "Union.sortedFields()", or a package-level
// identifier such as "primitiveTypes".
func collectionName(info *types.Info, e ast.Expr) string {
	switch x := ast.Unparen(e).(type) {
	case *ast.SelectorExpr:
		if tn := typeBaseName(info.TypeOf(x.X)); tn != "" {
			return tn + "." + x.Sel.Name
		}
	case *ast.CallExpr:
		if sel, ok := ast.Unparen(x.Fun).(*ast.SelectorExpr); ok {
			if tn := typeBaseName(info.TypeOf(sel.X)); tn != "" {
				return tn + "." + sel.Sel.Name + "()"
			}
		}
	case *ast.Ident:
		return x.Name
	}
	return wire.Canon(e)
}

// definednessCheck: the function that decides whether a field type's name is
// defined: it takes a FieldType (parameter or receiver) and a set of names and
// indexes the set with <ft>.Simple.
type definednessCheck struct {
	fd  *ast.FuncDecl
	fn  *types.Func
	ft  types.Object
	set types.Object
}

func findDefinednessCheck(p *load.Prog, pkg *packages.Package) *definednessCheck {
	info := pkg.TypesInfo
	var best *definednessCheck
	for fn, fd := range p.AllDecls() {
		if p.Owner(fn) != pkg || fd.Body == nil {
			continue
		}
		var fts, sets []types.Object
		collect := func(fl *ast.FieldList) {
			if fl == nil {
				return
			}
			for _, f := range fl.List {
				for _, n := range f.Names {
					o := info.ObjectOf(n)
					if o == nil {
						continue
					}
					if typeBaseName(o.Type()) == "FieldType" {
						fts = append(fts, o)
					}
					if m, ok := o.Type().Underlying().(*types.Map); ok {
						if b, isB := m.Key().Underlying().(*types.Basic); isB && b.Kind() == types.String {
							sets = append(sets, o)
						}
					}
				}
			}
		}
		collect(fd.Recv)
		collect(fd.Type.Params)
		if len(fts) == 0 || len(sets) == 0 {
			continue
		}
		// it reports what it finds: an error result
		sig := fn.Type().(*types.Signature)
		if sig.Results().Len() == 0 || !isErrorType(sig.Results().At(sig.Results().Len()-1).Type()) {
			continue
		}
		// stores into the set are not lookups
		stores := map[*ast.IndexExpr]bool{}
		ast.Inspect(fd.Body, func(n ast.Node) bool {
			if as, ok := n.(*ast.AssignStmt); ok {
				for _, l := range as.Lhs {
					if ix, ok := l.(*ast.IndexExpr); ok {
						stores[ix] = true
					}
				}
			}
			return true
		})
		var hit *definednessCheck
		ast.Inspect(fd.Body, func(n ast.Node) bool {
			ix, ok := n.(*ast.IndexExpr)
			if !ok || hit != nil || stores[ix] {
				return true
			}
			id, ok := ast.Unparen(ix.X).(*ast.Ident)
			if !ok {
				return true
			}
			sel, ok := ast.Unparen(ix.Index).(*ast.SelectorExpr)
			if !ok || sel.Sel.Name != "Simple" {
				return true
			}
			root, ok := ast.Unparen(sel.X).(*ast.Ident)
			if !ok {
				return true
			}
			for _, so := range sets {
				for _, fo := range fts {
					if info.ObjectOf(id) == so && info.ObjectOf(root) == fo {
						hit = &definednessCheck{fd: fd, fn: fn, ft: fo, set: so}
					}
				}
			}
			return true
		})
		if hit != nil && (best == nil || hit.fd.Name.Name < best.fd.Name.Name) {
			best = hit
		}
	}
	return best
}

// setTakingFuncs: the definedness check and the helpers that hand a parameter
// of theirs to it; the value is the index of that parameter.
func setTakingFuncs(p *load.Prog, pkg *packages.Package) map[*types.Func]int {
	info := pkg.TypesInfo
	out := map[*types.Func]int{}
	dc := findDefinednessCheck(p, pkg)
	if dc == nil {
		return out
	}
	paramIndex := func(fn *types.Func, o types.Object) int {
		sig := fn.Type().(*types.Signature)
		for i := 0; i < sig.Params().Len(); i++ {
			if types.Object(sig.Params().At(i)) == o {
				return i
			}
		}
		return -1
	}
	if i := paramIndex(dc.fn, dc.set); i >= 0 {
		out[dc.fn] = i
	}
	for round := 0; round < 2; round++ {
		for fn, fd := range p.AllDecls() {
			if p.Owner(fn) != pkg || fd.Body == nil {
				continue
			}
			if _, done := out[fn]; done {
				continue
			}
			ast.Inspect(fd.Body, func(n ast.Node) bool {
				call, ok := n.(*ast.CallExpr)
				if !ok {
					return true
				}
				cal := load.Callee(info, call)
				if cal == nil {
					return true
				}
				at, isTaker := out[cal]
				if !isTaker || at >= len(call.Args) {
					return true
				}
				if id, ok := ast.Unparen(call.Args[at]).(*ast.Ident); ok {
					if i := paramIndex(fn, info.ObjectOf(id)); i >= 0 {
						out[fn] = i
					}
				}
				return true
			})
		}
	}
	return out
}

// definedTypeSets: the map variables of fd that are handed to the definedness
// check (directly or through a helper), closed under `a := b` aliasing.
func definedTypeSets(p *load.Prog, pkg *packages.Package, fd *ast.FuncDecl) map[types.Object]bool {
	info := pkg.TypesInfo
	takers := setTakingFuncs(p, pkg)
	sets := map[types.Object]bool{}
	ast.Inspect(fd.Body, func(n ast.Node) bool {
		if call, ok := n.(*ast.CallExpr); ok {
			if cal := load.Callee(info, call); cal != nil {
				if at, isTaker := takers[cal]; isTaker && at < len(call.Args) {
					if id, ok := ast.Unparen(call.Args[at]).(*ast.Ident); ok {
						sets[info.ObjectOf(id)] = true
					}
				}
			}
		}
		return true
	})
	// alias closure: a := b makes writes to either visible through both
	for changed := true; changed; {
		changed = false
		ast.Inspect(fd.Body, func(n ast.Node) bool {
			as, ok := n.(*ast.AssignStmt)
			if !ok || len(as.Lhs) != len(as.Rhs) {
				return true
			}
			for i := range as.Lhs {
				l, lok := ast.Unparen(as.Lhs[i]).(*ast.Ident)
				r, rok := ast.Unparen(as.Rhs[i]).(*ast.Ident)
				if !lok || !rok {
					continue
				}
				lo, ro := info.ObjectOf(l), info.ObjectOf(r)
				if sets[lo] != sets[ro] {
					sets[lo], sets[ro] = true, true
					changed = true
				}
			}
			return true
		})
	}
	return sets
}

// visitedSetSearch: R5b. When the self-containment analysis is a graph search
// (depth-first or with a work list) it terminates because of its visited set,
// and it is complete only if that set belongs to one search: a set shared by
// the searches from all structs makes the search from B skip what the search
// from A already expanded, and a cycle B->C->B reached first from A is missed.
// Returns false when no visited-set search is found at all.
func visitedSetSearch(c *core.Ctx, p *load.Prog, validate *ast.FuncDecl) bool {
	pkg := p.Bebop()
	info := pkg.TypesInfo
	type body struct {
		node  ast.Node // FuncDecl or FuncLit
		block *ast.BlockStmt
		name  types.Object // the variable or function by which it is called
	}
	var bodies []body
	for _, d := range declClosure(p, pkg, validate, 2) {
		bodies = append(bodies, body{d, d.Body, info.ObjectOf(d.Name)})
		ast.Inspect(d.Body, func(n ast.Node) bool {
			switch x := n.(type) {
			case *ast.AssignStmt:
				for i, r := range x.Rhs {
					if lit, ok := r.(*ast.FuncLit); ok && i < len(x.Lhs) {
						if id, ok := x.Lhs[i].(*ast.Ident); ok {
							bodies = append(bodies, body{lit, lit.Body, info.ObjectOf(id)})
						}
					}
				}
			}
			return true
		})
	}
	found := false
	for _, b := range bodies {
		// maps used as a visited set inside b: tested-then-skipped and stored
		tested, stored := map[types.Object]bool{}, map[types.Object]bool{}
		ast.Inspect(b.block, func(n ast.Node) bool {
			switch x := n.(type) {
			case *ast.IfStmt:
				// guard form: if … && !M[x] { M[x] = true; descend }
				ast.Inspect(x.Cond, func(k ast.Node) bool {
					if u, ok := k.(*ast.UnaryExpr); ok && u.Op == token.NOT {
						if ix, ok := ast.Unparen(u.X).(*ast.IndexExpr); ok {
							if id, ok := ast.Unparen(ix.X).(*ast.Ident); ok {
								if _, isMap := info.TypeOf(id).Underlying().(*types.Map); isMap {
									tested[info.ObjectOf(id)] = true
								}
							}
						}
					}
					return true
				})
				skips := false
				if len(x.Body.List) > 0 {
					switch y := x.Body.List[len(x.Body.List)-1].(type) {
					case *ast.BranchStmt:
						skips = y.Tok == token.CONTINUE
					case *ast.ReturnStmt:
						skips = true
					}
				}
				if !skips {
					return true
				}
				var ix *ast.IndexExpr
				if as, ok := x.Init.(*ast.AssignStmt); ok && len(as.Rhs) == 1 {
					ix, _ = ast.Unparen(as.Rhs[0]).(*ast.IndexExpr)
				} else {
					ix, _ = ast.Unparen(x.Cond).(*ast.IndexExpr)
				}
				if ix != nil {
					if id, ok := ast.Unparen(ix.X).(*ast.Ident); ok {
						if _, isMap := info.TypeOf(id).Underlying().(*types.Map); isMap {
							tested[info.ObjectOf(id)] = true
						}
					}
				}
				// the membership test may be one operand of the skipping condition:
				// if !isStruct || seen[x] { continue }
				ast.Inspect(x.Cond, func(k ast.Node) bool {
					if u, ok := k.(*ast.UnaryExpr); ok && u.Op == token.NOT {
						return false
					}
					if kx, ok := k.(*ast.IndexExpr); ok {
						if id, ok := ast.Unparen(kx.X).(*ast.Ident); ok {
							if t := info.TypeOf(id); t != nil {
								if _, isMap := t.Underlying().(*types.Map); isMap {
									tested[info.ObjectOf(id)] = true
								}
							}
						}
					}
					return true
				})
			case *ast.AssignStmt:
				for _, l := range x.Lhs {
					if ix, ok := l.(*ast.IndexExpr); ok {
						if id, ok := ast.Unparen(ix.X).(*ast.Ident); ok {
							stored[info.ObjectOf(id)] = true
						}
					}
				}
			}
			return true
		})
		for m := range tested {
			if !stored[m] {
				continue
			}
			found = true
			perSearch := b.block.Pos() <= m.Pos() && m.Pos() < b.block.End()
			why := ""
			if !perSearch {
				// declared outside the searching function: are the searches started
				// from a loop that does not re-create it?
				ast.Inspect(validate.Body, func(n ast.Node) bool {
					var lb *ast.BlockStmt
					switch x := n.(type) {
					case *ast.RangeStmt:
						lb = x.Body
					case *ast.ForStmt:
						lb = x.Body
					default:
						return true
					}
					starts := false
					ast.Inspect(lb, func(k ast.Node) bool {
						if call, ok := k.(*ast.CallExpr); ok {
							if id, ok := ast.Unparen(call.Fun).(*ast.Ident); ok && info.ObjectOf(id) == b.name {
								starts = true
							}
						}
						return true
					})
					declaredInLoop := lb.Pos() <= m.Pos() && m.Pos() < lb.End()
					if starts && !declaredInLoop && !(b.block.Pos() >= lb.Pos() && b.block.End() <= lb.End()) {
						why = "the visited set " + m.Name() + " is created once, before the loop at " + p.Pos(n.Pos()) + " that starts one search per struct"
					}
					return true
				})
			}
			c.Check("R5", "the visited set "+m.Name()+" of the self-containment search belongs to one search", p.Pos(m.Pos()), perSearch || why == "",
				why+": what the search from one struct expanded is skipped by the search from the next, so a cycle that is first reached from a struct outside it is not found")
		}
	}
	return found
}

// ---- R6: the index space of members is enumerated completely ---------------

// scanIndexSpaceLoops reports every counting loop that visits a map keyed by
// a one-byte index through its counter and stops before index 255 (or, with a
// one-byte counter and an inclusive bound of 255, never stops).
func scanIndexSpaceLoops(info *types.Info, files []*ast.File, report func(fn string, pos token.Pos, why string)) int {
	n := 0
	for _, f := range files {
		for _, d := range f.Decls {
			fd, ok := d.(*ast.FuncDecl)
			if !ok || fd.Body == nil {
				continue
			}
			ast.Inspect(fd.Body, func(nd ast.Node) bool {
				loop, ok := nd.(*ast.ForStmt)
				if !ok || loop.Cond == nil {
					return true
				}
				// the conjunct of the condition that bounds a variable by a constant
				var bound *ast.BinaryExpr
				var walk func(e ast.Expr)
				walk = func(e ast.Expr) {
					be, ok := ast.Unparen(e).(*ast.BinaryExpr)
					if !ok {
						return
					}
					if be.Op == token.LAND {
						walk(be.X)
						walk(be.Y)
						return
					}
					if be.Op == token.LSS || be.Op == token.LEQ {
						if _, isId := ast.Unparen(be.X).(*ast.Ident); isId {
							if _, isC := constInt(info, be.Y); isC && bound == nil {
								bound = be
							}
						}
					}
				}
				walk(loop.Cond)
				if bound == nil {
					return true
				}
				ctr := info.ObjectOf(ast.Unparen(bound.X).(*ast.Ident))
				k, _ := constInt(info, bound.Y)
				// does the body index a map keyed by a one-byte integer with the counter?
				indexes := false
				ast.Inspect(loop.Body, func(m ast.Node) bool {
					ix, ok := m.(*ast.IndexExpr)
					if !ok {
						return true
					}
					mt, ok := info.TypeOf(ix.X).Underlying().(*types.Map)
					if !ok {
						return true
					}
					kb, ok := mt.Key().Underlying().(*types.Basic)
					if !ok || (kb.Kind() != types.Uint8) {
						return true
					}
					idx := ast.Unparen(ix.Index)
					if call, isC := idx.(*ast.CallExpr); isC && len(call.Args) == 1 {
						if tv, okT := info.Types[call.Fun]; okT && tv.IsType() {
							idx = ast.Unparen(call.Args[0])
						}
					}
					if id, isId := idx.(*ast.Ident); isId && info.ObjectOf(id) == ctr {
						indexes = true
					}
					return true
				})
				if !indexes {
					return true
				}
				n++
				oneByte := false
				if b, isB := ctr.Type().Underlying().(*types.Basic); isB && b.Kind() == types.Uint8 {
					oneByte = true
				}
				last := k
				if bound.Op == token.LSS {
					last = k - 1
				}
				switch {
				case oneByte && bound.Op == token.LEQ && k >= 255:
					report(fd.Name.Name, loop.Pos(), "the one-byte counter is always <= 255: the loop never ends")
				case last < 255:
					report(fd.Name.Name, loop.Pos(), fmt.Sprintf("the loop stops after index %d: a member at index 255 (the largest the format allows) is never visited", last))
				}
				return true
			})
		}
	}
	return n
}

func indexSpaceComplete(c *core.Ctx, p *load.Prog) {
	pkg := p.Bebop()
	scanIndexSpaceLoops(pkg.TypesInfo, pkg.Syntax, func(fn string, pos token.Pos, why string) {
		c.Check("R6", fn+" enumerates the one-byte index space completely", p.Pos(pos), false,
			why+": the checks (and whatever else walks the members this way) skip that member, so a field of an undefined type or with a duplicate name at that index is accepted")
	})
	c.Check("R6", "every counting loop over a one-byte index space reaches index 255 (scan complete)", "gen_types.go", true, "")
	f, info, err := typeCheckFixture(c, "indexspace")
	if err != nil {
		c.Undecide("positive control fixture indexspace: %v", err)
		return
	}
	hits := map[string]bool{}
	scanIndexSpaceLoops(info, []*ast.File{f}, func(fn string, pos token.Pos, why string) { hits[fn] = true })
	c.Check("R6", "positive control: a loop that stops at 254 is recognised", "fixtures/indexspace/fx.go", hits["short"], "the rule no longer matches the shape it is meant to find")
	c.Check("R6", "positive control: an int counter up to 255 and a range are not reported", "fixtures/indexspace/fx.go", !hits["wide"] && !hits["ranged"], "")
}

// typeCheckFixture parses and type-checks fixtures/<name>/fx.go.
func typeCheckFixture(c *core.Ctx, name string) (*ast.File, *types.Info, error) {
	path := filepath.Join(c.VerifDir, "fixtures", name, "fx.go")
	fset := token.NewFileSet()
	f, err := parser.ParseFile(fset, path, nil, 0)
	if err != nil {
		return nil, nil, err
	}
	info := &types.Info{Types: map[ast.Expr]types.TypeAndValue{}, Defs: map[*ast.Ident]types.Object{}, Uses: map[*ast.Ident]types.Object{}, Selections: map[*ast.SelectorExpr]*types.Selection{}, Instances: map[*ast.Ident]types.Instance{}}
	if _, err := (&types.Config{Importer: importer.ForCompiler(fset, "source", nil)}).Check("fx", fset, []*ast.File{f}, info); err != nil {
		return nil, nil, err
	}
	return f, info, nil
}

// ---- R7: the usage relation of structs leaves no field out ------------------

// usageLeavesNoFieldOut: whatever function fills the per-struct usage sets
// that the self-containment analysis works on ranges over all the struct's
// fields and skips none: a field that is deprecated is still part of the Go
// type and of every encoded value of a struct.
func usageLeavesNoFieldOut(c *core.Ctx, p *load.Prog, validate *ast.FuncDecl) {
	pkg := p.Bebop()
	info := pkg.TypesInfo
	n := 0
	seen := map[*ast.FuncDecl]bool{}
	ast.Inspect(validate.Body, func(nd ast.Node) bool {
		as, ok := nd.(*ast.AssignStmt)
		if !ok || len(as.Lhs) != 1 || len(as.Rhs) != 1 {
			return true
		}
		ix, ok := ast.Unparen(as.Lhs[0]).(*ast.IndexExpr)
		if !ok {
			return true
		}
		// a map from names to sets of names: map[string]map[string]bool
		mt, ok := info.TypeOf(ix.X).Underlying().(*types.Map)
		if !ok {
			return true
		}
		if _, inner := mt.Elem().Underlying().(*types.Map); !inner {
			return true
		}
		call, ok := ast.Unparen(as.Rhs[0]).(*ast.CallExpr)
		if !ok {
			return true
		}
		cal := load.Callee(info, call)
		if cal == nil || cal.Pkg() != pkg.Types {
			return true
		}
		cd := p.Decl(cal)
		if cd == nil || cd.Body == nil || seen[cd] {
			return true
		}
		seen[cd] = true
		n++
		skipped := ""
		ast.Inspect(cd.Body, func(m ast.Node) bool {
			rs, ok := m.(*ast.RangeStmt)
			if !ok || !strings.HasSuffix(collectionName(info, rs.X), ".Fields") {
				return true
			}
			ast.Inspect(rs.Body, func(k ast.Node) bool {
				ifs, ok := k.(*ast.IfStmt)
				if !ok {
					return true
				}
				leaves := false
				ast.Inspect(ifs.Body, func(q ast.Node) bool {
					if br, ok := q.(*ast.BranchStmt); ok && br.Tok == token.CONTINUE {
						leaves = true
					}
					return true
				})
				if leaves {
					skipped = wire.Canon(ifs.Cond) + " at " + p.Pos(ifs.Pos())
				}
				return true
			})
			return true
		})
		c.Check("R7", load.FuncName(cal)+" (the usage sets of the struct self-containment analysis) leaves no field out", p.Pos(cd.Pos()), skipped == "",
			"the loop over the struct's fields skips those for which "+skipped+": a struct that contains itself through such a field is accepted, and its Go type has infinite size")
		return true
	})
	c.Count("struct_usage_fillers", n)
	if n == 0 {
		c.Undecide("Validate: no function fills a map of per-struct usage sets: the usage relation of the self-containment analysis is not recognised")
	}
}

// ---- R8: the bit size reaches every integer parse on the enum value path ----

// bitSizeReachesParses: a function on the path of an enum option's value that
// is handed the enum's bit size (a parameter that flows, in it or in a callee,
// into the bitSize argument of strconv.ParseInt/ParseUint or into a callee's
// bit-size parameter) gives that parameter to every ParseInt/ParseUint it
// calls itself: a parse at 64 bits accepts `B = 256` in an enum of uint8.
func bitSizeReachesParses(c *core.Ctx, p *load.Prog) {
	pkg := p.Bebop()
	info := pkg.TypesInfo
	role, decls, isParse := bitSizeRoles(p)
	n := 0
	for _, fd := range decls {
		var sizeParam *types.Var
		for _, fl := range fd.Type.Params.List {
			for _, nm := range fl.Names {
				if v, ok := info.Defs[nm].(*types.Var); ok && role[v] {
					sizeParam = v
				}
			}
		}
		if sizeParam == nil {
			continue
		}
		ast.Inspect(fd.Body, func(nd ast.Node) bool {
			call, ok := nd.(*ast.CallExpr)
			if !ok || !isParse(call) {
				return true
			}
			n++
			id, isId := ast.Unparen(call.Args[2]).(*ast.Ident)
			okSize := isId && info.ObjectOf(id) == types.Object(sizeParam)
			c.Check("R8", fmt.Sprintf("%s parses an enum value at the enum's bit size (%s)", fd.Name.Name, wire.Canon(call.Fun)), p.Pos(call.Pos()), okSize,
				fmt.Sprintf("the function is handed the enum's bit size (%s) but parses the literal with bitSize %s: a value outside the range of the enum's base type is accepted, and the generated constant does not compile or wraps", sizeParam.Name(), wire.Canon(call.Args[2])))
			return true
		})
	}
	c.Count("enum_value_parses_with_bit_size", n)
	c.Floor("enum_value_parses_with_bit_size", 1)
}

// bitSizeRoles: the parameters of the enum-value path that carry the enum's
// bit size (they flow, in their function or in a callee, into the bitSize
// argument of strconv.ParseInt/ParseUint, or select the evaluator's width).
func bitSizeRoles(p *load.Prog) (map[types.Object]bool, []*ast.FuncDecl, func(*ast.CallExpr) bool) {
	pkg := p.Bebop()
	info := pkg.TypesInfo
	isParse := func(call *ast.CallExpr) bool {
		cal := load.Callee(info, call)
		return cal != nil && cal.Pkg() != nil && cal.Pkg().Path() == "strconv" && (cal.Name() == "ParseInt" || cal.Name() == "ParseUint") && len(call.Args) == 3
	}
	// bit-size parameters, to a fixpoint
	role := map[types.Object]bool{}
	decls := funcsOfFiles(p, pkg, "parse.go", "parse_expr.go", "eval_expr.go")
	for changed := true; changed; {
		changed = false
		for _, fd := range decls {
			obj, _ := info.Defs[fd.Name].(*types.Func)
			if obj == nil {
				continue
			}
			ast.Inspect(fd.Body, func(n ast.Node) bool {
				call, ok := n.(*ast.CallExpr)
				if !ok {
					return true
				}
				mark := func(arg ast.Expr) {
					if id, ok := ast.Unparen(arg).(*ast.Ident); ok {
						if v, ok := info.ObjectOf(id).(*types.Var); ok && isParamOf(info, fd, v) && !role[v] {
							role[v] = true
							changed = true
						}
					}
				}
				if isParse(call) {
					mark(call.Args[2])
					return true
				}
				if cal := load.Callee(info, call); cal != nil && cal.Pkg() == pkg.Types {
					if sig, ok := cal.Type().(*types.Signature); ok {
						for i, a := range call.Args {
							if i < sig.Params().Len() && role[sig.Params().At(i)] {
								mark(a)
							}
						}
					}
				}
				return true
			})
		}
	}
	// evaluateBitflagExpr dispatches on the size with a switch instead of a parse
	for _, fd := range decls {
		ast.Inspect(fd.Body, func(n ast.Node) bool {
			if sw, ok := n.(*ast.SwitchStmt); ok && sw.Tag != nil {
				if id, ok := ast.Unparen(sw.Tag).(*ast.Ident); ok {
					if v, ok := info.ObjectOf(id).(*types.Var); ok && isParamOf(info, fd, v) {
						if b, isB := v.Type().Underlying().(*types.Basic); isB && b.Kind() == types.Int {
							allSizes := len(sw.Body.List) > 0
							for _, cc := range sw.Body.List {
								for _, e := range cc.(*ast.CaseClause).List {
									if k, isC := constInt(info, e); !isC || (k != 8 && k != 16 && k != 32 && k != 64) {
										allSizes = false
									}
								}
							}
							if allSizes {
								role[v] = true
							}
						}
					}
				}
			}
			return true
		})
	}
	// one more propagation round for callers of the dispatching function
	for changed := true; changed; {
		changed = false
		for _, fd := range decls {
			ast.Inspect(fd.Body, func(n ast.Node) bool {
				call, ok := n.(*ast.CallExpr)
				if !ok {
					return true
				}
				if cal := load.Callee(info, call); cal != nil && cal.Pkg() == pkg.Types {
					if sig, ok := cal.Type().(*types.Signature); ok {
						for i, a := range call.Args {
							if i < sig.Params().Len() && role[sig.Params().At(i)] {
								if id, ok := ast.Unparen(a).(*ast.Ident); ok {
									if v, ok := info.ObjectOf(id).(*types.Var); ok && isParamOf(info, fd, v) && !role[v] {
										role[v] = true
										changed = true
									}
								}
							}
						}
					}
				}
				return true
			})
		}
	}
	return role, decls, isParse
}

// constLiteralsFit: R9. A numeric const literal that does not fit its type is
// rejected: in readConst (and the helpers it calls) every strconv parse of a
// const's literal is made at the width of the const's type (its bitSize
// argument is not the constant 64 — unless the type is 64 bits wide), and a
// failed parse ends in a return of a non-nil error, not in a warning.
// One obligation per numeric class (unsigned, signed, float).
func constLiteralsFit(c *core.Ctx, p *load.Prog) {
	pkg := p.Bebop()
	info := pkg.TypesInfo
	f := p.FuncDecl(pkg, "readConst")
	if f == nil {
		return // R4 already says so
	}
	type verdict struct {
		sized, returned bool
		pos             token.Pos
		seen            bool
	}
	classes := map[string]*verdict{"unsigned": {}, "signed": {}, "float": {}}
	for _, fd := range declClosure(p, pkg, f, 2) {
		// error variables of parses, per class
		ast.Inspect(fd.Body, func(n ast.Node) bool {
			as, ok := n.(*ast.AssignStmt)
			if !ok || len(as.Rhs) != 1 || len(as.Lhs) != 2 {
				return true
			}
			call, ok := as.Rhs[0].(*ast.CallExpr)
			if !ok {
				return true
			}
			cal := load.Callee(info, call)
			if cal == nil || cal.Pkg() == nil || cal.Pkg().Path() != "strconv" {
				return true
			}
			class := map[string]string{"ParseUint": "unsigned", "ParseInt": "signed", "ParseFloat": "float"}[cal.Name()]
			if class == "" {
				return true
			}
			// an integer literal given to a float const is parsed with ParseInt:
			// that is the float class, told by the enclosing clause
			if class == "signed" && enclosedByFloatArm(info, fd, call) {
				class = "float"
			}
			v := classes[class]
			if !v.seen {
				v.seen, v.sized, v.returned, v.pos = true, true, true, call.Pos()
			}
			size := call.Args[len(call.Args)-1]
			if k, isC := constInt(info, size); isC && k == 64 {
				v.sized = false
			}
			// what happens to the error: the next `if err != nil` over it
			errID, _ := as.Lhs[1].(*ast.Ident)
			if errID == nil || errID.Name == "_" {
				v.returned = false
				return true
			}
			eo := info.ObjectOf(errID)
			handled := false
			ast.Inspect(fd.Body, func(m ast.Node) bool {
				ifs, ok := m.(*ast.IfStmt)
				if !ok || ifs.Pos() < as.End() || handled {
					return true
				}
				if v2, isErr := errNilTest(info, ifs.Cond); isErr && v2 == eo {
					handled = true
					if !endsInReturn(ifs.Body) || lastResultIsNil(ifs.Body.List[len(ifs.Body.List)-1].(*ast.ReturnStmt)) {
						v.returned = false
					}
				}
				return true
			})
			if !handled {
				// returned directly with the value?
				v.returned = false
			}
			return true
		})
	}
	for _, class := range []string{"unsigned", "signed", "float"} {
		v := classes[class]
		if !v.seen {
			c.Undecide("readConst: no strconv parse of a %s const literal found", class)
			continue
		}
		c.Check("R9", "readConst rejects a "+class+" literal that does not fit the const's type", p.Pos(v.pos), v.sized && v.returned,
			fmt.Sprintf("parsed at the width of the type: %v; a failed parse is returned as an error: %v — `const uint8 x = 300;`, `const uint32 y = -1;`, `const float32 f = 1e400;` are accepted (at most with a warning) and the generated constant cannot be used at its declared type", v.sized, v.returned))
	}
}

// enclosedByFloatArm: the call sits in a clause whose condition (or an
// enclosing clause's) calls the float predicate / mentions a float type name.
func enclosedByFloatArm(info *types.Info, fd *ast.FuncDecl, call *ast.CallExpr) bool {
	in := false
	ast.Inspect(fd.Body, func(n ast.Node) bool {
		cc, ok := n.(*ast.CaseClause)
		if !ok || !(cc.Pos() <= call.Pos() && call.End() <= cc.End()) {
			return true
		}
		for _, e := range cc.List {
			s := wire.Canon(e)
			if strings.Contains(strings.ToLower(s), "float") {
				in = true
			}
		}
		return true
	})
	return in
}

// evalWidthPerInstance evaluates an integer expression that may mention the
// type parameter of fd (bits.Len64(uint64(^T(0))), unsafe.Sizeof(T(0))*8, a
// call of a parameterless generic helper whose body is one return) for every
// type in the type set of that parameter's constraint, and compares the value
// with the width of the type in bits. Go's conversion rules are applied: a
// signed value converted to a wider unsigned type is sign-extended.
func evalWidthPerInstance(p *load.Prog, pkg *packages.Package, fd *ast.FuncDecl, e ast.Expr) (verdict, detail string) {
	info := pkg.TypesInfo
	if e == nil || fd.Type.TypeParams == nil || len(fd.Type.TypeParams.List) != 1 || len(fd.Type.TypeParams.List[0].Names) != 1 {
		return "unknown", "the evaluator is not generic in one type parameter"
	}
	tpObj, _ := info.Defs[fd.Type.TypeParams.List[0].Names[0]].(*types.TypeName)
	if tpObj == nil {
		return "unknown", "type parameter not found"
	}
	tp, _ := tpObj.Type().(*types.TypeParam)
	if tp == nil {
		return "unknown", "type parameter not found"
	}
	var terms []*types.Basic
	var collect func(t types.Type) bool
	collect = func(t types.Type) bool {
		switch u := t.(type) {
		case *types.Named:
			return collect(u.Underlying())
		case *types.Interface:
			for i := 0; i < u.NumEmbeddeds(); i++ {
				if !collect(u.EmbeddedType(i)) {
					return false
				}
			}
			return u.NumEmbeddeds() > 0
		case *types.Union:
			for i := 0; i < u.Len(); i++ {
				if !collect(u.Term(i).Type()) {
					return false
				}
			}
			return true
		case *types.Basic:
			if u.Info()&types.IsInteger == 0 {
				return false
			}
			terms = append(terms, u)
			return true
		}
		return false
	}
	if !collect(tp.Constraint()) || len(terms) == 0 {
		return "unknown", "the constraint is not a union of integer types"
	}
	type val struct {
		bits   uint64 // two's complement, already wrapped to the width
		width  int
		signed bool
	}
	widthOf := func(b *types.Basic) (int, bool) {
		switch b.Kind() {
		case types.Int8:
			return 8, true
		case types.Uint8:
			return 8, false
		case types.Int16:
			return 16, true
		case types.Uint16:
			return 16, false
		case types.Int32:
			return 32, true
		case types.Uint32:
			return 32, false
		case types.Int64, types.Int, types.UntypedInt:
			return 64, true
		case types.Uint64, types.Uint, types.Uintptr:
			return 64, false
		}
		return 0, false
	}
	wrap := func(bitsv uint64, w int) uint64 {
		if w >= 64 {
			return bitsv
		}
		return bitsv & (1<<uint(w) - 1)
	}
	extend := func(v val) uint64 {
		if v.signed && v.width < 64 && v.bits&(1<<uint(v.width-1)) != 0 {
			return v.bits | ^(1<<uint(v.width) - 1)
		}
		return v.bits
	}
	bad := ""
	for _, term := range terms {
		subst := map[*types.TypeParam]*types.Basic{tp: term}
		var eval func(x ast.Expr, depth int) (val, bool)
		basicOf := func(t types.Type) *types.Basic {
			if q, ok := t.(*types.TypeParam); ok {
				return subst[q]
			}
			b, _ := t.Underlying().(*types.Basic)
			return b
		}
		eval = func(x ast.Expr, depth int) (val, bool) {
			x = ast.Unparen(x)
			if depth > 12 {
				return val{}, false
			}
			if tv := info.Types[x]; tv.Value != nil {
				if n, ok := constInt(info, x); ok {
					return val{bits: uint64(int64(n)), width: 64, signed: true}, true
				}
			}
			switch y := x.(type) {
			case *ast.UnaryExpr:
				v, ok := eval(y.X, depth+1)
				if !ok {
					return val{}, false
				}
				switch y.Op {
				case token.XOR:
					return val{bits: wrap(^v.bits, v.width), width: v.width, signed: v.signed}, true
				case token.SUB:
					return val{bits: wrap(-v.bits, v.width), width: v.width, signed: v.signed}, true
				}
			case *ast.BinaryExpr:
				a, ok1 := eval(y.X, depth+1)
				b, ok2 := eval(y.Y, depth+1)
				if !ok1 || !ok2 {
					return val{}, false
				}
				w, sg := a.width, a.signed
				if info.Types[y.X].Value != nil && info.Types[y.Y].Value == nil {
					w, sg = b.width, b.signed
				}
				var r uint64
				switch y.Op {
				case token.ADD:
					r = a.bits + b.bits
				case token.SUB:
					r = a.bits - b.bits
				case token.MUL:
					r = a.bits * b.bits
				case token.SHL:
					r = a.bits << (b.bits & 127)
				case token.AND:
					r = a.bits & b.bits
				case token.OR:
					r = a.bits | b.bits
				default:
					return val{}, false
				}
				return val{bits: wrap(r, w), width: w, signed: sg}, true
			case *ast.CallExpr:
				// conversion
				if tv := info.Types[y.Fun]; tv.IsType() && len(y.Args) == 1 {
					b := basicOf(tv.Type)
					if b == nil {
						return val{}, false
					}
					w, sg := widthOf(b)
					if w == 0 {
						return val{}, false
					}
					v, ok := eval(y.Args[0], depth+1)
					if !ok {
						return val{}, false
					}
					return val{bits: wrap(extend(v), w), width: w, signed: sg}, true
				}
				fn := wire.Canon(y.Fun)
				switch fn {
				case "bits.Len64", "bits.Len32", "bits.Len16", "bits.Len8", "bits.Len":
					if len(y.Args) != 1 {
						return val{}, false
					}
					v, ok := eval(y.Args[0], depth+1)
					if !ok {
						return val{}, false
					}
					n := 0
					for q := v.bits; q != 0; q >>= 1 {
						n++
					}
					return val{bits: uint64(n), width: 64, signed: true}, true
				case "unsafe.Sizeof":
					if len(y.Args) != 1 {
						return val{}, false
					}
					b := basicOf(info.TypeOf(y.Args[0]))
					if b == nil {
						return val{}, false
					}
					w, _ := widthOf(b)
					if w == 0 {
						return val{}, false
					}
					return val{bits: uint64(w / 8), width: 64, signed: false}, true
				}
				// a parameterless helper of the package whose body is one return
				if len(y.Args) == 0 {
					var fid *ast.Ident
					switch fx := ast.Unparen(y.Fun).(type) {
					case *ast.Ident:
						fid = fx
					case *ast.IndexExpr:
						fid, _ = ast.Unparen(fx.X).(*ast.Ident)
					}
					if fid == nil {
						return val{}, false
					}
					callee, _ := info.ObjectOf(fid).(*types.Func)
					if callee == nil || callee.Pkg() != pkg.Types {
						return val{}, false
					}
					hd := p.Decl(callee)
					if hd == nil || hd.Body == nil || len(hd.Body.List) != 1 {
						return val{}, false
					}
					ret, ok := hd.Body.List[0].(*ast.ReturnStmt)
					if !ok || len(ret.Results) != 1 {
						return val{}, false
					}
					// bind the helper's type parameters to the caller's arguments
					var bound []*types.TypeParam
					if inst, ok := info.Instances[fid]; ok && inst.TypeArgs != nil {
						if sig, ok := callee.Type().(*types.Signature); ok && sig.TypeParams() != nil {
							for i := 0; i < sig.TypeParams().Len() && i < inst.TypeArgs.Len(); i++ {
								b := basicOf(inst.TypeArgs.At(i))
								if b == nil {
									return val{}, false
								}
								subst[sig.TypeParams().At(i)] = b
								bound = append(bound, sig.TypeParams().At(i))
							}
						}
					}
					v, ok := eval(ret.Results[0], depth+1)
					for _, q := range bound {
						delete(subst, q)
					}
					return v, ok
				}
			}
			return val{}, false
		}
		v, ok := eval(e, 0)
		if !ok {
			return "unknown", "the expression uses an operation the rule does not evaluate"
		}
		w, _ := widthOf(term)
		if int64(extend(v)) != int64(w) {
			if bad != "" {
				bad += ", "
			}
			bad += fmt.Sprintf("for T = %s it evaluates to %d, the type has %d bits", term.Name(), int64(extend(v)), w)
		}
	}
	if bad != "" {
		return "bad", bad
	}
	return "ok", ""
}
