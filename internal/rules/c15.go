package rules

import (
	"fmt"
	"go/ast"
	"go/token"
	"go/types"
	"strings"

	"bebopverif/internal/core"
	"bebopverif/internal/geneval"
	"bebopverif/internal/genfacts"
	"bebopverif/internal/load"
	"bebopverif/internal/wire"
)

func init() { register("C15", checkC15) }

// branchSelectors: in every if/else whose condition is one of conds, the
// then-branch must use only thenSel and the else-branch only elseSel.
func branchSelectors(p *load.Prog, fd *ast.FuncDecl, conds []string, a, b string) (n int, bad []string) {
	count := func(n ast.Node) (na, nb int) {
		ast.Inspect(n, func(m ast.Node) bool {
			if sel, ok := m.(*ast.SelectorExpr); ok {
				switch sel.Sel.Name {
				case a:
					na++
				case b:
					nb++
				}
			}
			return true
		})
		return
	}
	ast.Inspect(fd.Body, func(m ast.Node) bool {
		ifs, ok := m.(*ast.IfStmt)
		if !ok {
			return true
		}
		cs := wire.Canon(ifs.Cond)
		hit := false
		for _, c := range conds {
			if cs == c {
				hit = true
			}
		}
		if !hit || ifs.Else == nil {
			return true
		}
		n++
		ta, tb := count(ifs.Body)
		ea, eb := count(ifs.Else)
		if tb != 0 || ta == 0 {
			bad = append(bad, fmt.Sprintf("%s: the unsigned arm uses .%s %d times and .%s %d times", p.Pos(ifs.Pos()), a, ta, b, tb))
		}
		if ea != 0 || eb == 0 {
			bad = append(bad, fmt.Sprintf("%s: the signed arm uses .%s %d times and .%s %d times", p.Pos(ifs.Pos()), a, ea, b, eb))
		}
		return true
	})
	return
}

func checkC15(c *core.Ctx) {
	c.Explainf("C15 (decided clause: value-path agreement; that Go reads a literal the way Bebop means it is two lexers' semantics and NOT decided). R1: the four places that branch on an enum's signedness (readEnumOptionValue, evaluateBitflagExpr, Validate's duplicate-value sets, Enum.Generate) pick the matching member of (Value, UintValue), and each evaluator's identifier lookup reads its own member. R2: bytesToOpCode packs data[i] << 8*i for i = 0..3, integer opcodes are parsed with ParseUint(_, 0, 32), and the opcode constant is emitted with 0x%%x of that same value. R3: a const's text is the token's text on every arm except the three float specials, which are exactly the strings impossibleGoConst recognises; Const.Generate, Enum.Generate and writeOpCode emit through a constant format string in which the value is an argument (never spliced into the format). R4: the generator's text for enums and consts, folded by the evaluator over probe schemas (every base type, signed/unsigned extremes, hex, negative, flags values, four-character opcodes) and type-checked, defines constants whose go/types constant values equal the schema's. R5: flag dispatch (= C11/R3). R6: a pending opcode reaches its definition (C11/R1b on ReadFile).")
	p := loadRepo(c)
	if p == nil {
		return
	}
	pkg := p.Bebop()
	info := pkg.TypesInfo
	// ---- R1
	sites := 0
	for _, cfgx := range []struct {
		fn    string
		conds []string
	}{
		{"File.Validate", []string{"en.Unsigned"}},
		{"Enum.Generate", []string{"en.Unsigned"}},
	} {
		fd := p.FuncDecl(pkg, cfgx.fn)
		if fd == nil {
			c.Undecide("%s not found", cfgx.fn)
			continue
		}
		n, bad := branchSelectors(p, fd, cfgx.conds, "UintValue", "Value")
		sites += n
		c.Check("R1", cfgx.fn+" picks the enum value member by signedness", p.Pos(fd.Pos()), n > 0 && len(bad) == 0, strings.Join(bad, "; "))
	}
	if fd := p.FuncDecl(pkg, "readEnumOptionValue"); fd != nil {
		// if uinttype { ParseUint; return 0, v, nil } else { ParseInt; return v, 0, nil }
		ok := false
		ast.Inspect(fd.Body, func(m ast.Node) bool {
			ifs, is := m.(*ast.IfStmt)
			if !is || wire.Canon(ifs.Cond) != "uinttype" || ifs.Else == nil {
				return true
			}
			sites++
			ts, es := srcOf(p, ifs.Body), srcOf(p, ifs.Else)
			okT := strings.Contains(ts, "strconv.ParseUint(") && !strings.Contains(ts, "strconv.ParseInt(") && strings.Contains(ts, "return 0, optInteger, nil")
			okE := strings.Contains(es, "strconv.ParseInt(") && !strings.Contains(es, "strconv.ParseUint(") && strings.Contains(es, "return optInteger, 0, nil")
			ok = okT && okE
			return false
		})
		c.Check("R1", "readEnumOptionValue parses and returns the value in the member matching signedness", p.Pos(fd.Pos()), ok, "unsigned enums must go through ParseUint into the second result, signed ones through ParseInt into the first")
	} else {
		c.Undecide("readEnumOptionValue not found")
	}
	if fd := p.FuncDecl(pkg, "evaluateBitflagExpr"); fd != nil {
		okAll := true
		n := 0
		ast.Inspect(fd.Body, func(m ast.Node) bool {
			r, is := m.(*ast.ReturnStmt)
			if !is || len(r.Results) != 3 {
				return true
			}
			a, b := wire.Canon(r.Results[0]), wire.Canon(r.Results[1])
			if a == "0" && b == "0" {
				return true
			}
			n++
			if !((a == "0" && b == "uint64(uval)") || (a == "int64(val)" && b == "0")) {
				okAll = false
			}
			return true
		})
		sites++
		c.Check("R1", "evaluateBitflagExpr returns the result in the member matching signedness", p.Pos(fd.Pos()), okAll && n >= 7, fmt.Sprintf("%d value-carrying returns inspected", n))
	}
	for _, ev := range []struct{ fn, member, other string }{{"evaluateBitflagExpSigned", "Value", "UintValue"}, {"evaluateBitflagExprUnsigned", "UintValue", "Value"}} {
		fd := p.FuncDecl(pkg, ev.fn)
		if fd == nil {
			c.Undecide("%s not found", ev.fn)
			continue
		}
		src := srcOf(p, fd.Body)
		sites++
		c.Check("R1", ev.fn+" looks identifiers up in ."+ev.member, p.Pos(fd.Pos()), strings.Contains(src, "T(o."+ev.member+")") && !strings.Contains(src, "o."+ev.other), "an identifier in a flag expression must evaluate to the member the enum's signedness populates")
		// the four operators map to the four Go operators
		ops := map[string]string{"tokenKindAmpersand": "lhs & rhs", "tokenKindVerticalBar": "lhs | rhs", "tokenKindDoubleCaretLeft": "lhs << rhs", "tokenKindDoubleCaretRight": "lhs >> rhs"}
		okOps := true
		ast.Inspect(fd.Body, func(m ast.Node) bool {
			cc, is := m.(*ast.CaseClause)
			if !is || len(cc.List) != 1 {
				return true
			}
			if want, tracked := ops[wire.Canon(cc.List[0])]; tracked {
				if len(cc.Body) != 1 || !strings.Contains(srcOf(p, cc.Body[0]), "return "+want+", nil") {
					okOps = false
				}
				delete(ops, wire.Canon(cc.List[0]))
			}
			return true
		})
		c.Check("R1", ev.fn+" maps & | << >> to the same Go operators", p.Pos(fd.Pos()), okOps && len(ops) == 0, fmt.Sprintf("operators without a matching arm: %v", ops))
	}
	c.Count("signedness_sites", sites)
	c.Floor("signedness_sites", 6)

	// ---- R2
	if fd := p.FuncDecl(pkg, "bytesToOpCode"); fd != nil {
		shifts := map[int]int{}
		ast.Inspect(fd.Body, func(m ast.Node) bool {
			be, is := m.(*ast.BinaryExpr)
			if is && be.Op == token.SHL {
				sh, ok1 := constInt(info, be.Y)
				idx := -1
				ast.Inspect(be.X, func(k ast.Node) bool {
					if ix, is := k.(*ast.IndexExpr); is {
						idx, _ = constInt(info, ix.Index)
					}
					return true
				})
				if ok1 {
					shifts[idx] = sh
				}
			}
			return true
		})
		src := srcOf(p, fd.Body)
		ok := shifts[1] == 8 && shifts[2] == 16 && shifts[3] == 24 && len(shifts) == 3 && strings.Contains(src, "uint32(data[0])")
		c.Check("R2", "bytesToOpCode packs four bytes little-endian", p.Pos(fd.Pos()), ok, fmt.Sprintf("shift by index: %v (want 1:8 2:16 3:24, byte 0 unshifted)", shifts))
	} else {
		c.Undecide("bytesToOpCode not found")
	}
	if fd := p.FuncDecl(pkg, "readOpCode"); fd != nil {
		src := srcOf(p, fd.Body)
		c.Check("R2", "readOpCode parses integer opcodes as 32-bit, any base", p.Pos(fd.Pos()), strings.Contains(src, "strconv.ParseUint(content, 0, 32)"), "")
		c.Check("R2", "readOpCode requires exactly four bytes for string opcodes", p.Pos(fd.Pos()), strings.Contains(src, "len(tk.concrete) != 4") && strings.Contains(src, "bytesToOpCode(*(*[4]byte)(tk.concrete))"), "")
	}

	// ---- R3 literal pass-through + constant formats
	if fd := p.FuncDecl(pkg, "readConst"); fd != nil {
		var rhs []string
		ast.Inspect(fd.Body, func(m ast.Node) bool {
			as, is := m.(*ast.AssignStmt)
			if is && len(as.Lhs) == 1 && wire.Canon(as.Lhs[0]) == "cons.Value" {
				if tv := info.Types[as.Rhs[0]]; tv.Value != nil {
					rhs = append(rhs, strings.Trim(tv.Value.ExactString(), `"`))
				} else {
					rhs = append(rhs, wire.Canon(as.Rhs[0]))
				}
			}
			return true
		})
		want := map[string]bool{"string(tk.concrete)": true, "math.Inf(1)": true, "math.Inf(-1)": true, "math.NaN()": true}
		ok := len(rhs) == 4
		for _, r := range rhs {
			if !want[r] {
				ok = false
			}
		}
		c.Check("R3", "readConst keeps the literal's text (three float specials aside)", p.Pos(fd.Pos()), ok, fmt.Sprintf("assignments to cons.Value: %v", rhs))
		// the specials equal what impossibleGoConst recognises
		if ig := p.FuncDecl(pkg, "Const.impossibleGoConst"); ig != nil {
			var cases []string
			ast.Inspect(ig.Body, func(m ast.Node) bool {
				if cc, is := m.(*ast.CaseClause); is {
					cases = append(cases, constStrings(info, cc.List)...)
				}
				return true
			})
			okc := len(cases) == 3
			for _, cs := range cases {
				if !want[cs] || cs == "string(tk.concrete)" {
					okc = false
				}
			}
			c.Check("R3", "impossibleGoConst recognises exactly the strings readConst produces", p.Pos(ig.Pos()), okc, fmt.Sprintf("cases %v", cases))
		}
	}
	formatRules(c, p)
	// ---- R4: generated constants carry the schema's values
	constValueProbe(c, p)
	// ---- R5/R6
	flagDispatch(c, p, "R5")
	if fd := p.FuncDecl(pkg, "ReadFile"); fd != nil {
		pendingTypestateOnly(c, p, fd)
	}
}

// pendingTypestateOnly runs C11's typestate on ReadFile and keeps, under
// C15's rule names, the obligations about the opcode.
func pendingTypestateOnly(c *core.Ctx, p *load.Prog, fd *ast.FuncDecl) {
	tmp := core.NewCtx(c.Prop, c.Tier, c.RepoDir, c.VerifDir)
	pendingTypestate(tmp, p, fd, "ReadFile")
	for _, o := range tmp.Obls {
		if strings.Contains(strings.ToLower(o.Key), "opcode") {
			rule := strings.TrimPrefix(o.Rule, c.Prop+"/")
			c.Check("R6", o.Key+" ["+rule+"]", o.Pos, o.OK, o.Msg)
		}
	}
	for _, u := range tmp.Undecided {
		c.Undecide("%s", u)
	}
}

// formatRules: the emitters of constants use constant format strings.
func formatRules(c *core.Ctx, p *load.Prog) {
	pkg := p.Bebop()
	info := pkg.TypesInfo
	n := 0
	for _, name := range []string{"Const.Generate", "Enum.Generate", "writeOpCode"} {
		fd := p.FuncDecl(pkg, name)
		if fd == nil {
			c.Undecide("%s not found", name)
			continue
		}
		ast.Inspect(fd.Body, func(m ast.Node) bool {
			call, is := m.(*ast.CallExpr)
			if !is || wire.Canon(call.Fun) != "writeLine" || len(call.Args) < 2 {
				return true
			}
			n++
			tv := info.Types[call.Args[1]]
			c.Check("R3", fmt.Sprintf("%s emits through a constant format #%d", name, n), p.Pos(call.Pos()), tv.Value != nil,
				"the format string is built at run time: a '%' in schema text (a string const) would be interpreted by fmt instead of being copied")
			return true
		})
	}
	c.Count("constant_emit_sites", n)
	c.Floor("constant_emit_sites", 8)
	if fd := p.FuncDecl(pkg, "Const.Generate"); fd != nil {
		src := strings.Join(strings.Fields(srcOf(p, fd.Body)), " ")
		c.Check("R3", "Const.Generate emits name = value with %v of the unmodified text", p.Pos(fd.Pos()), strings.Contains(src, `writeLine(ew, "\t%s = %v", exposeName(con.Name, settings), con.Value)`), src)
	}
	if fd := p.FuncDecl(pkg, "Enum.Generate"); fd != nil {
		src := strings.Join(strings.Fields(srcOf(p, fd.Body)), " ")
		c.Check("R4", "Enum.Generate declares the type over the enum's base type", p.Pos(fd.Pos()), strings.Contains(src, `writeLine(w, "type %s %s", exposedName, en.SimpleType)`), src)
		c.Check("R4", "Enum.Generate emits typed members with %d of the value", p.Pos(fd.Pos()),
			strings.Contains(src, `writeLine(w, "\t%s_%s %s = %d", exposedName, opt.Name, exposedName, opt.UintValue)`) && strings.Contains(src, `writeLine(w, "\t%s_%s %s = %d", exposedName, opt.Name, exposedName, opt.Value)`), src)
	}
	if fd := p.FuncDecl(pkg, "writeOpCode"); fd != nil {
		src := strings.Join(strings.Fields(srcOf(p, fd.Body)), " ")
		c.Check("R2", "writeOpCode emits the opcode value in hex", p.Pos(fd.Pos()), strings.Contains(src, `writeLine(w, "const %sOpCode = 0x%x", exposeName(name, settings), opCode)`), src)
	}
}

// constValueProbe folds the generator over probe schemas and compares the
// go/types constant values of the emitted declarations with the schema's.
func constValueProbe(c *core.Ctx, p *load.Prog) {
	g, err := genfacts.NewGen(p)
	if err != nil {
		c.Undecide("generator evaluator: %v", err)
		return
	}
	b := g.B
	type want struct{ name, val, typ string }
	var wants []want
	fs := geneval.FileSpec{GoPackage: "example.com/x/gen"}
	type ev struct {
		base     string
		unsigned bool
		min, max string
	}
	for _, e := range []ev{{"byte", true, "0", "255"}, {"uint8", true, "0", "255"}, {"uint16", true, "0", "65535"}, {"uint32", true, "0", "4294967295"}, {"uint64", true, "0", "18446744073709551615"},
		{"int16", false, "-32768", "32767"}, {"int32", false, "-2147483648", "2147483647"}, {"int64", false, "-9223372036854775808", "9223372036854775807"}} {
		name := "P" + genfacts.Title[e.base]
		var opts []geneval.OptSpec
		for i, v := range []string{e.min, e.max, "1"} {
			o := geneval.OptSpec{Name: []string{"Lo", "Hi", "One"}[i]}
			if e.unsigned {
				fmt.Sscanf(v, "%d", &o.UintValue)
			} else {
				fmt.Sscanf(v, "%d", &o.Value)
			}
			opts = append(opts, o)
			wants = append(wants, want{name + "_" + o.Name, v, name})
		}
		fs.Enums = append(fs.Enums, b.Enum(name, e.base, e.unsigned, opts...))
	}
	consts := []struct{ typ, name, val, goval string }{
		{"int32", "Neg", "-5", "-5"}, {"uint64", "Big", "18446744073709551615", "18446744073709551615"}, {"int64", "Hex", "0x7fffffffffffffff", "9223372036854775807"},
		{"byte", "B", "255", "255"}, {"bool", "Yes", "true", "true"}, {"string", "Pct", `"50% off %d"`, `"50% off %d"`}, {"string", "Esc", `"a\"b\\n"`, `"a\"b\\n"`},
		{"float64", "Pi", "3.5", "7/2"}, {"int16", "NegHex", "-0x10", "-16"},
	}
	for _, k := range consts {
		fs.Consts = append(fs.Consts, b.Const(k.typ, k.name, k.val))
		wants = append(wants, want{k.name, k.goval, ""})
	}
	fs.Structs = append(fs.Structs, b.Struct("Op", false, 0x34333231, geneval.FieldSpec{Name: "a", Shape: geneval.Simple("int32")}))
	wants = append(wants, want{"OpOpCode", "875770417", ""})
	fs.Messages = append(fs.Messages, b.Message("OpM", 0xFFFFFFFF, geneval.NumField{Num: 1, FieldSpec: geneval.FieldSpec{Name: "a", Shape: geneval.Simple("int32")}}))
	wants = append(wants, want{"OpMOpCode", "4294967295", ""})
	gf := g.GenerateSpec(fs, geneval.AllOptions()[0])
	pos := "gen.go (Enum.Generate, Const.Generate, writeOpCode)"
	if gf.EvalErr != nil {
		c.Undecide("constant probe: %v", gf.EvalErr)
		return
	}
	if gf.GenErr != "" || gf.ParseErr != nil || len(gf.TypeErrs) > 0 || gf.Pkg == nil {
		msg := gf.GenErr
		if gf.ParseErr != nil {
			msg = gf.ParseErr.Error()
		}
		if len(gf.TypeErrs) > 0 {
			msg = gf.TypeErrs[0].Msg + " — " + gf.Line(gf.TypeErrs[0].Pos)
		}
		c.Check("R4", "constant probe schema generates and type-checks", pos, false, msg)
		return
	}
	for _, w := range wants {
		obj := gf.Pkg.Scope().Lookup(w.name)
		got := "<undefined>"
		typ := ""
		if cobj, ok := obj.(*types.Const); ok {
			got = cobj.Val().ExactString()
			typ = cobj.Type().String()
		}
		okv := got == w.val
		if w.typ != "" {
			okv = okv && typ == "gen."+w.typ
		}
		c.Check("R4", "generated constant "+w.name+" carries the schema's value", pos, okv, fmt.Sprintf("schema value %s (type %s); generated declaration evaluates to %s (type %s)", w.val, w.typ, got, typ))
	}
	c.Count("probed_constants", len(wants))
	c.Floor("probed_constants", 30)
}
