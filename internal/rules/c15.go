package rules

import (
	"fmt"
	"go/ast"
	"go/token"
	"go/types"
	"strings"

	"bebopverif/internal/core"
	"bebopverif/internal/geneval"
	"bebopverif/internal/genfacts"
	"bebopverif/internal/load"
	"bebopverif/internal/wire"
)

func init() { register("C15", checkC15) }

// branchSelectors: in every if/else whose condition is one of conds, the
// then-branch must use only thenSel and the else-branch only elseSel.
func branchSelectors(p *load.Prog, fd *ast.FuncDecl, conds []string, a, b string) (n int, bad []string) {
	return branchSelectorsIn(p, fd, conds, a, b, nil, 0)
}

// branchSelectorsIn also follows the flag into helpers: a call that passes the
// signedness (the field itself, or a parameter that stands for it) hands the
// choice to the callee, whose parameter is then the condition to look for.
func branchSelectorsIn(p *load.Prog, fd *ast.FuncDecl, conds []string, a, b string, flags map[types.Object]bool, depth int) (n int, bad []string) {
	pkg := p.Bebop()
	info := pkg.TypesInfo
	isFlag := func(e ast.Expr) bool {
		e = ast.Unparen(e)
		if sel, ok := e.(*ast.SelectorExpr); ok {
			for _, c := range conds {
				if sel.Sel.Name == c {
					return true
				}
			}
		}
		if id, ok := e.(*ast.Ident); ok && flags[info.ObjectOf(id)] {
			return true
		}
		return false
	}
	if depth < 2 {
		ast.Inspect(fd.Body, func(m ast.Node) bool {
			call, ok := m.(*ast.CallExpr)
			if !ok {
				return true
			}
			cal := load.Callee(info, call)
			if cal == nil || cal.Pkg() != pkg.Types {
				return true
			}
			cd := p.Decl(cal)
			sig, _ := cal.Type().(*types.Signature)
			if cd == nil || cd.Body == nil || cd == fd || sig == nil {
				return true
			}
			// a method of the value that carries the flag as a field
			// (en.optionLiteral(opt) with en.Unsigned inside): the field is found
			// there by its name
			if sel, isSel := ast.Unparen(call.Fun).(*ast.SelectorExpr); isSel && sig.Recv() != nil {
				rt := info.TypeOf(sel.X)
				if pt, isP := rt.(*types.Pointer); isP {
					rt = pt.Elem()
				}
				if st, isSt := rt.Underlying().(*types.Struct); isSt {
					carries := false
					for k := 0; k < st.NumFields(); k++ {
						for _, cnd := range conds {
							if st.Field(k).Name() == cnd {
								carries = true
							}
						}
					}
					if carries {
						cn, cbad := branchSelectorsIn(p, cd, conds, a, b, nil, depth+1)
						n += cn
						bad = append(bad, cbad...)
					}
				}
			}
			for i, arg := range call.Args {
				if isFlag(arg) && i < sig.Params().Len() {
					cn, cbad := branchSelectorsIn(p, cd, conds, a, b, map[types.Object]bool{sig.Params().At(i): true}, depth+1)
					n += cn
					bad = append(bad, cbad...)
				}
			}
			return true
		})
	}
	count := func(n ast.Node) (na, nb int) {
		ast.Inspect(n, func(m ast.Node) bool {
			if sel, ok := m.(*ast.SelectorExpr); ok {
				switch sel.Sel.Name {
				case a:
					na++
				case b:
					nb++
				}
			}
			return true
		})
		return
	}
	ast.Inspect(fd.Body, func(m ast.Node) bool {
		ifs, ok := m.(*ast.IfStmt)
		if !ok {
			return true
		}
		// the condition is the enum's Unsigned field, whatever the variable is called
		if !isFlag(ifs.Cond) {
			return true
		}
		n++
		ta, tb := count(ifs.Body)
		if ifs.Else == nil {
			// default-then-override: the signed member is read before the test and
			// the unsigned arm replaces it
			if tb != 0 || ta == 0 {
				bad = append(bad, fmt.Sprintf("%s: the unsigned arm uses .%s %d times and .%s %d times", p.Pos(ifs.Pos()), a, ta, b, tb))
			}
			return true
		}
		ea, eb := count(ifs.Else)
		if tb != 0 || ta == 0 {
			bad = append(bad, fmt.Sprintf("%s: the unsigned arm uses .%s %d times and .%s %d times", p.Pos(ifs.Pos()), a, ta, b, tb))
		}
		if ea != 0 || eb == 0 {
			bad = append(bad, fmt.Sprintf("%s: the signed arm uses .%s %d times and .%s %d times", p.Pos(ifs.Pos()), a, ea, b, eb))
		}
		return true
	})
	return
}

func checkC15(c *core.Ctx) {
	c.Explainf("C15 (decided clause: value-path agreement; that Go reads a literal the way Bebop means it is two lexers' semantics and NOT decided). R1: the four places that branch on an enum's signedness (readEnumOptionValue, evaluateBitflagExpr, Validate's duplicate-value sets, Enum.Generate) pick the matching member of (Value, UintValue), and each evaluator's identifier lookup reads its own member. R2: bytesToOpCode packs data[i] << 8*i for i = 0..3, integer opcodes are parsed with ParseUint(_, 0, 32), and the opcode constant is emitted with 0x%%x of that same value. R3: a const's text is the token's text on every arm except the three float specials, which are exactly the strings impossibleGoConst recognises; Const.Generate, Enum.Generate and writeOpCode emit through a constant format string in which the value is an argument (never spliced into the format). R4: the generator's text for enums and consts, folded by the evaluator over probe schemas (every base type, signed/unsigned extremes, hex, negative, flags values, four-character opcodes) and type-checked, defines constants whose go/types constant values equal the schema's. R5: flag dispatch (= C11/R3). R7: the flag-expression parser groups un-parenthesised operator chains to the right (a binary node never has the accumulated tree on its left). R8: in each evaluator's arm for a binary node, every successful return is `L OP R` in the clause of the operator kind whose registered spelling is OP, with L and R the evaluated first and second operand; no other successful return leaves the arm. R6: a pending opcode reaches its definition (C11/R1b on ReadFile).")
	p := loadRepo(c)
	if p == nil {
		return
	}
	pkg := p.Bebop()
	info := pkg.TypesInfo
	// ---- R1
	sites := 0
	for _, cfgx := range []struct {
		fn    string
		conds []string
	}{
		{"File.Validate", []string{"Unsigned"}},
		{"Enum.Generate", []string{"Unsigned"}},
	} {
		fd := p.FuncDecl(pkg, cfgx.fn)
		if fd == nil {
			c.Undecide("%s not found", cfgx.fn)
			continue
		}
		n, bad := branchSelectors(p, fd, cfgx.conds, "UintValue", "Value")
		sites += n
		if n == 0 {
			// no branch on the signedness at all: a defect if a value member is
			// read regardless, an unknown arrangement otherwise
			reads := false
			for _, g := range declClosure(p, pkg, fd, 1) {
				ast.Inspect(g.Body, func(m ast.Node) bool {
					if sel, ok := m.(*ast.SelectorExpr); ok && (sel.Sel.Name == "UintValue" || sel.Sel.Name == "Value") {
						if t := info.TypeOf(sel.X); t != nil && strings.HasSuffix(t.String(), ".EnumOption") {
							reads = true
						}
					}
					return true
				})
			}
			if !reads {
				c.Undecide("%s: neither a branch on the enum's signedness nor a read of an option's value found: not recognised", cfgx.fn)
				continue
			}
		}
		c.Check("R1", cfgx.fn+" picks the enum value member by signedness", p.Pos(fd.Pos()), n > 0 && len(bad) == 0, strings.Join(bad, "; ")+" (no branch on the enum's Unsigned field selects between .UintValue and .Value)")
	}
	if root := p.FuncDecl(pkg, "readEnumOptionValue"); root != nil {
		// if <bool parameter> { ParseUint -> second result } else { ParseInt -> first
		// result }, in readEnumOptionValue or in a helper it hands the flag to; the
		// value reaches its slot through the return statement or through a named result
		ok, found := false, false
		for _, fd := range declClosure(p, pkg, root, 2) {
			if found {
				break
			}
			params := map[types.Object]bool{}
			for _, f := range fd.Type.Params.List {
				for _, nm := range f.Names {
					if o := info.ObjectOf(nm); o != nil {
						if b, isB := o.Type().Underlying().(*types.Basic); isB && b.Kind() == types.Bool {
							params[o] = true
						}
					}
				}
			}
			named := map[types.Object]int{}
			if fd.Type.Results != nil {
				ri := 0
				for _, f := range fd.Type.Results.List {
					for _, nm := range f.Names {
						named[info.Defs[nm]] = ri
						ri++
					}
					if len(f.Names) == 0 {
						ri++
					}
				}
			}
			// which strconv parser a branch calls, and which result slot carries the value
			branch := func(n ast.Node) (parsers map[string]bool, slots map[int]bool) {
				parsers, slots = map[string]bool{}, map[int]bool{}
				ast.Inspect(n, func(m ast.Node) bool {
					switch x := m.(type) {
					case *ast.CallExpr:
						if cal := load.Callee(info, x); cal != nil && cal.Pkg() != nil && cal.Pkg().Path() == "strconv" {
							parsers[cal.Name()] = true
						}
					case *ast.ReturnStmt:
						if len(x.Results) == 3 && wire.Canon(x.Results[2]) == "nil" {
							for i := 0; i < 2; i++ {
								if tv := info.Types[x.Results[i]]; tv.Value == nil {
									slots[i] = true
								}
							}
						}
					case *ast.AssignStmt:
						// <named result>, err = strconv.Parse…(…)
						if len(x.Rhs) == 1 {
							if call, isC := x.Rhs[0].(*ast.CallExpr); isC {
								if cal := load.Callee(info, call); cal != nil && cal.Pkg() != nil && cal.Pkg().Path() == "strconv" && len(x.Lhs) >= 1 {
									if id, isId := x.Lhs[0].(*ast.Ident); isId {
										if ri, isNamed := named[info.ObjectOf(id)]; isNamed && ri < 2 {
											slots[ri] = true
										}
									}
								}
							}
						}
					}
					return true
				})
				return
			}
			ast.Inspect(fd.Body, func(m ast.Node) bool {
				ifs, is := m.(*ast.IfStmt)
				if !is || ifs.Else == nil || found {
					return true
				}
				id, is := ast.Unparen(ifs.Cond).(*ast.Ident)
				if !is || !params[info.ObjectOf(id)] {
					return true
				}
				// the flag that selects between ParseUint and ParseInt
				tp, ts := branch(ifs.Body)
				ep, es := branch(ifs.Else)
				if !tp["ParseUint"] && !tp["ParseInt"] {
					return true
				}
				found = true
				sites++
				okT := tp["ParseUint"] && !tp["ParseInt"] && ts[1] && !ts[0]
				okE := ep["ParseInt"] && !ep["ParseUint"] && es[0] && !es[1]
				ok = okT && okE
				return false
			})
		}
		c.Check("R1", "readEnumOptionValue parses and returns the value in the member matching signedness", p.Pos(root.Pos()), found && ok, "unsigned enums must go through ParseUint into the second result, signed ones through ParseInt into the first")
	} else {
		c.Undecide("readEnumOptionValue not found")
	}
	if fd := p.FuncDecl(pkg, "evaluateBitflagExpr"); fd != nil {
		// every value-carrying return puts an unsigned evaluation in the second
		// result and a signed one in the first, the other being the constant 0
		okAll := true
		n := 0
		var why []string
		ast.Inspect(fd.Body, func(m ast.Node) bool {
			r, is := m.(*ast.ReturnStmt)
			if !is || len(r.Results) != 3 {
				return true
			}
			c0, c1 := info.Types[r.Results[0]].Value != nil, info.Types[r.Results[1]].Value != nil
			if c0 && c1 {
				return true
			}
			n++
			if !c0 && !c1 {
				okAll = false
				why = append(why, p.Pos(r.Pos())+": both value results are computed")
				return true
			}
			slot := 0
			if c0 {
				slot = 1
			}
			// the operand under the widening conversion has the evaluator's integer type
			inner := ast.Unparen(r.Results[slot])
			if call, isC := inner.(*ast.CallExpr); isC && len(call.Args) == 1 {
				if tv := info.Types[call.Fun]; tv.IsType() {
					inner = ast.Unparen(call.Args[0])
				}
			}
			b, isB := info.TypeOf(inner).Underlying().(*types.Basic)
			if !isB || b.Info()&types.IsInteger == 0 {
				okAll = false
				why = append(why, p.Pos(r.Pos())+": the value returned is not an integer evaluation")
				return true
			}
			unsigned := b.Info()&types.IsUnsigned != 0
			if unsigned != (slot == 1) {
				okAll = false
				why = append(why, fmt.Sprintf("%s: a %s evaluation is returned in result %d", p.Pos(r.Pos()), b.Name(), slot))
			}
			return true
		})
		sites++
		c.Check("R1", "evaluateBitflagExpr returns the result in the member matching signedness", p.Pos(fd.Pos()), okAll && n >= 7, fmt.Sprintf("%d value-carrying returns inspected; %s", n, strings.Join(why, "; ")))
	}
	for _, ev := range []struct{ fn, member, other string }{{"evaluateBitflagExpSigned", "Value", "UintValue"}, {"evaluateBitflagExprUnsigned", "UintValue", "Value"}} {
		fd := p.FuncDecl(pkg, ev.fn)
		if fd == nil {
			c.Undecide("%s not found", ev.fn)
			continue
		}
		sites++
		members := map[string]int{}
		for _, d := range declClosure(p, pkg, fd, 2) {
			if d != fd && (d.Name.Name == "evaluateBitflagExpSigned" || d.Name.Name == "evaluateBitflagExprUnsigned") {
				continue // the sibling evaluator has obligations of its own
			}
			ast.Inspect(d.Body, func(m ast.Node) bool {
				if sel, is := m.(*ast.SelectorExpr); is && (sel.Sel.Name == "Value" || sel.Sel.Name == "UintValue") {
					if t := info.TypeOf(sel.X); t != nil && strings.HasSuffix(t.String(), ".EnumOption") {
						members[sel.Sel.Name]++
					}
				}
				return true
			})
		}
		c.Check("R1", ev.fn+" looks identifiers up in ."+ev.member, p.Pos(fd.Pos()), members[ev.member] > 0 && members[ev.other] == 0,
			fmt.Sprintf("an identifier in a flag expression must evaluate to the member the enum's signedness populates; members read: %v", members))
		// (that the four operators are computed with the Go operators of the same
		// spelling is R8, operatorTable)
	}
	c.Count("signedness_sites", sites)
	c.Floor("signedness_sites", 4)

	// ---- R2
	if fd := p.FuncDecl(pkg, "bytesToOpCode"); fd != nil {
		shifts := map[int]int{}
		ast.Inspect(fd.Body, func(m ast.Node) bool {
			be, is := m.(*ast.BinaryExpr)
			if is && be.Op == token.SHL {
				sh, ok1 := constInt(info, be.Y)
				idx := -1
				ast.Inspect(be.X, func(k ast.Node) bool {
					if ix, is := k.(*ast.IndexExpr); is {
						idx, _ = constInt(info, ix.Index)
					}
					return true
				})
				if ok1 {
					shifts[idx] = sh
				}
			}
			return true
		})
		// every byte of the parameter is used, byte 0 outside any shift
		used := map[int]bool{}
		ast.Inspect(fd.Body, func(m ast.Node) bool {
			if ix, is := m.(*ast.IndexExpr); is {
				if _, isArr := info.TypeOf(ix.X).Underlying().(*types.Array); isArr {
					if v, okc := constInt(info, ix.Index); okc {
						used[v] = true
					}
				}
			}
			return true
		})
		_, zeroShifted := shifts[0]
		ok := shifts[1] == 8 && shifts[2] == 16 && shifts[3] == 24 && len(shifts) == 3 && used[0] && !zeroShifted && len(used) == 4
		c.Check("R2", "bytesToOpCode packs four bytes little-endian", p.Pos(fd.Pos()), ok, fmt.Sprintf("shift by index: %v, bytes used: %v (want 1:8 2:16 3:24, byte 0 unshifted)", shifts, used))
	} else {
		c.Undecide("bytesToOpCode not found")
	}
	if fd := p.FuncDecl(pkg, "readOpCode"); fd != nil {
		parse32, lenTest, packs := false, false, false
		ast.Inspect(fd.Body, func(m ast.Node) bool {
			switch x := m.(type) {
			case *ast.CallExpr:
				if cal := load.Callee(info, x); cal != nil {
					if cal.Pkg() != nil && cal.Pkg().Path() == "strconv" && cal.Name() == "ParseUint" && len(x.Args) == 3 {
						base, ok1 := constInt(info, x.Args[1])
						bits, ok2 := constInt(info, x.Args[2])
						if ok1 && ok2 && base == 0 && bits == 32 {
							parse32 = true
						}
					}
					if cal.Name() == "bytesToOpCode" {
						packs = true
					}
				}
			case *ast.IfStmt:
				// if len(<text>) != 4 { return error }
				if be, is := ast.Unparen(x.Cond).(*ast.BinaryExpr); is && be.Op == token.NEQ && endsInReturn(x.Body) {
					if call, isC := ast.Unparen(be.X).(*ast.CallExpr); isC && wire.Canon(call.Fun) == "len" {
						if v, okc := constInt(info, be.Y); okc && v == 4 {
							lenTest = true
						}
					}
				}
			}
			return true
		})
		c.Check("R2", "readOpCode parses integer opcodes as 32-bit, any base", p.Pos(fd.Pos()), parse32, "no strconv.ParseUint(_, 0, 32)")
		c.Check("R2", "readOpCode requires exactly four bytes for string opcodes", p.Pos(fd.Pos()), lenTest && packs, fmt.Sprintf("length test against 4 with an error return: %v; packed by bytesToOpCode: %v", lenTest, packs))
	}

	// ---- R3 literal pass-through + constant formats
	if fd := p.FuncDecl(pkg, "readConst"); fd != nil {
		var rhs []string
		// classify one expression that can become the const's Value
		var classify func(owner *ast.FuncDecl, e ast.Expr, depth int)
		classify = func(owner *ast.FuncDecl, e ast.Expr, depth int) {
			e = ast.Unparen(e)
			if tv := info.Types[e]; tv.Value != nil {
				rhs = append(rhs, strings.Trim(tv.Value.ExactString(), `"`))
				return
			}
			if call, isC := e.(*ast.CallExpr); isC && wire.Canon(call.Fun) == "string" && len(call.Args) == 1 {
				if cs, isS := ast.Unparen(call.Args[0]).(*ast.SelectorExpr); isS && cs.Sel.Name == "concrete" {
					rhs = append(rhs, "string(tk.concrete)")
					return
				}
			}
			// a local variable with a single definition stands for that definition
			if id, isId := e.(*ast.Ident); isId && depth < 4 {
				obj := info.ObjectOf(id)
				var defs []ast.Expr
				ast.Inspect(owner.Body, func(n ast.Node) bool {
					if as, ok := n.(*ast.AssignStmt); ok && len(as.Lhs) == len(as.Rhs) {
						for i, l := range as.Lhs {
							if lid, ok := l.(*ast.Ident); ok && info.ObjectOf(lid) == obj {
								defs = append(defs, as.Rhs[i])
							}
						}
					}
					return true
				})
				if len(defs) == 1 {
					classify(owner, defs[0], depth+1)
					return
				}
			}
			rhs = append(rhs, wire.Canon(e))
		}
		ast.Inspect(fd.Body, func(m ast.Node) bool {
			as, is := m.(*ast.AssignStmt)
			if !is {
				return true
			}
			for i, l := range as.Lhs {
				sel, isSel := l.(*ast.SelectorExpr)
				if !isSel || sel.Sel.Name != "Value" {
					continue
				}
				if t := info.TypeOf(sel.X); t == nil || !strings.HasSuffix(t.String(), ".Const") {
					continue
				}
				if len(as.Rhs) == len(as.Lhs) {
					classify(fd, as.Rhs[i], 0)
					continue
				}
				// x.Value, … = helper(…): every i-th result the helper can return
				if call, isC := as.Rhs[0].(*ast.CallExpr); isC && len(as.Rhs) == 1 {
					if cal := load.Callee(info, call); cal != nil && cal.Pkg() == pkg.Types {
						if hd := p.Decl(cal); hd != nil && hd.Body != nil {
							ast.Inspect(hd.Body, func(k ast.Node) bool {
								if _, isLit := k.(*ast.FuncLit); isLit {
									return false
								}
								if r, isR := k.(*ast.ReturnStmt); isR && i < len(r.Results) {
									// failing returns (non-nil error) carry no value that is kept
									if last := r.Results[len(r.Results)-1]; wire.Canon(last) != "nil" && len(r.Results) > 1 {
										return true
									}
									classify(hd, r.Results[i], 0)
								}
								return true
							})
							continue
						}
					}
				}
				rhs = append(rhs, wire.Canon(as.Rhs[0]))
			}
			return true
		})
		want := map[string]bool{"string(tk.concrete)": true, "math.Inf(1)": true, "math.Inf(-1)": true, "math.NaN()": true}
		// exactly these four sources, each at least once
		ok := true
		got := map[string]bool{}
		for _, r := range rhs {
			got[r] = true
			if !want[r] {
				ok = false
			}
		}
		if len(got) != 4 {
			ok = false
		}
		c.Check("R3", "readConst keeps the literal's text (three float specials aside)", p.Pos(fd.Pos()), ok, fmt.Sprintf("assignments to cons.Value: %v", rhs))
		// the specials equal what impossibleGoConst recognises
		if ig := p.FuncDecl(pkg, "Const.impossibleGoConst"); ig != nil {
			var cases []string
			ast.Inspect(ig.Body, func(m ast.Node) bool {
				if cc, is := m.(*ast.CaseClause); is {
					cases = append(cases, constStrings(info, cc.List)...)
				}
				return true
			})
			// other spellings of the same test: con.Value == "math.NaN()", or a
			// lookup of con.Value in a package-level set of strings
			ast.Inspect(ig.Body, func(m ast.Node) bool {
				switch x := m.(type) {
				case *ast.BinaryExpr:
					if x.Op == token.EQL {
						for k, side := range []ast.Expr{x.X, x.Y} {
							other := []ast.Expr{x.Y, x.X}[k]
							if sel, ok := ast.Unparen(side).(*ast.SelectorExpr); ok && sel.Sel.Name == "Value" {
								cases = append(cases, constStrings(info, []ast.Expr{other})...)
							}
						}
					}
				case *ast.IndexExpr:
					id, isId := ast.Unparen(x.X).(*ast.Ident)
					if !isId {
						return true
					}
					if sel, ok := ast.Unparen(x.Index).(*ast.SelectorExpr); !ok || sel.Sel.Name != "Value" {
						return true
					}
					o := info.ObjectOf(id)
					if o == nil || o.Parent() != pkg.Types.Scope() {
						return true
					}
					for _, f := range pkg.Syntax {
						for _, d := range f.Decls {
							gd, ok := d.(*ast.GenDecl)
							if !ok {
								continue
							}
							for _, sp := range gd.Specs {
								vs, ok := sp.(*ast.ValueSpec)
								if !ok {
									continue
								}
								for i, nm := range vs.Names {
									if info.Defs[nm] != o || i >= len(vs.Values) {
										continue
									}
									if cl, ok := ast.Unparen(vs.Values[i]).(*ast.CompositeLit); ok {
										for _, el := range cl.Elts {
											if kv, ok := el.(*ast.KeyValueExpr); ok {
												cases = append(cases, constStrings(info, []ast.Expr{kv.Key})...)
											} else {
												cases = append(cases, constStrings(info, []ast.Expr{el})...)
											}
										}
									}
								}
							}
						}
					}
				}
				return true
			})
			if len(cases) == 0 {
				c.Undecide("Const.impossibleGoConst: the strings it recognises are neither switch cases, == operands nor the keys of a package-level table: not recognised")
			}
			okc := len(cases) == 3 || len(cases) == 0
			for _, cs := range cases {
				if !want[cs] || cs == "string(tk.concrete)" {
					okc = false
				}
			}
			c.Check("R3", "impossibleGoConst recognises exactly the strings readConst produces", p.Pos(ig.Pos()), okc, fmt.Sprintf("cases %v", cases))
		}
	}
	flagGrouping(c, p)
	operatorTable(c, p)
	formatRules(c, p)
	// ---- R4: generated constants carry the schema's values
	constValueProbe(c, p)
	// ---- R5/R6
	flagDispatch(c, p, "R5")
	if fd := p.FuncDecl(pkg, "ReadFile"); fd != nil {
		pendingTypestateOnly(c, p, fd)
	}
}

// pendingTypestateOnly runs C11's typestate on ReadFile and keeps, under
// C15's rule names, the obligations about the opcode.
func pendingTypestateOnly(c *core.Ctx, p *load.Prog, fd *ast.FuncDecl) {
	tmp := core.NewCtx(c.Prop, c.Tier, c.RepoDir, c.VerifDir)
	pendingTypestate(tmp, p, fd, "ReadFile")
	// the pending opcode is the variable that receives readOpCode's result
	opVar := ""
	ast.Inspect(fd.Body, func(n ast.Node) bool {
		if as, ok := n.(*ast.AssignStmt); ok && len(as.Rhs) == 1 && len(as.Lhs) >= 1 {
			if call, ok := as.Rhs[0].(*ast.CallExpr); ok && calleeNamed(call, "readOpCode") {
				if id, ok := as.Lhs[0].(*ast.Ident); ok && id.Name != "_" {
					opVar = id.Name
				}
			}
		}
		return true
	})
	if opVar == "" {
		c.Undecide("ReadFile: no variable receives the result of readOpCode")
		return
	}
	kept := 0
	defer func() {
		c.Count("opcode_typestate_obligations", kept)
		c.Floor("opcode_typestate_obligations", 2)
	}()
	for _, o := range tmp.Obls {
		if strings.Contains(o.Key, "pending "+opVar+" ") {
			kept++
			rule := strings.TrimPrefix(o.Rule, c.Prop+"/")
			c.Check("R6", o.Key+" ["+rule+"]", o.Pos, o.OK, o.Msg)
		}
	}
	for _, u := range tmp.Undecided {
		c.Undecide("%s", u)
	}
}

// formatRules: the emitters of constants use constant format strings.
func formatRules(c *core.Ctx, p *load.Prog) {
	pkg := p.Bebop()
	info := pkg.TypesInfo
	n := 0
	for _, name := range []string{"Const.Generate", "Enum.Generate", "writeOpCode"} {
		fd := p.FuncDecl(pkg, name)
		if fd == nil {
			c.Undecide("%s not found", name)
			continue
		}
		ast.Inspect(fd.Body, func(m ast.Node) bool {
			call, is := m.(*ast.CallExpr)
			if !is || wire.Canon(call.Fun) != "writeLine" || len(call.Args) < 2 {
				return true
			}
			n++
			tv := info.Types[call.Args[1]]
			c.Check("R3", fmt.Sprintf("%s emits through a constant format #%d", name, n), p.Pos(call.Pos()), tv.Value != nil,
				"the format string is built at run time: a '%' in schema text (a string const) would be interpreted by fmt instead of being copied")
			return true
		})
	}
	c.Count("constant_emit_sites", n)
	c.Floor("constant_emit_sites", 4)
	// The exact formats (name = value, typed members, 0x%x) are not matched as
	// text: R4 folds these emitters over probe schemas and compares the go/types
	// values of what they emit with the schema's values.
}

// constValueProbe folds the generator over probe schemas and compares the
// go/types constant values of the emitted declarations with the schema's.
func constValueProbe(c *core.Ctx, p *load.Prog) {
	g, err := genfacts.NewGen(p)
	if err != nil {
		c.Undecide("generator evaluator: %v", err)
		return
	}
	b := g.B
	type want struct{ name, val, typ string }
	var wants []want
	fs := geneval.FileSpec{GoPackage: "example.com/x/gen"}
	type ev struct {
		base     string
		unsigned bool
		min, max string
	}
	for _, e := range []ev{{"byte", true, "0", "255"}, {"uint8", true, "0", "255"}, {"uint16", true, "0", "65535"}, {"uint32", true, "0", "4294967295"}, {"uint64", true, "0", "18446744073709551615"},
		{"int16", false, "-32768", "32767"}, {"int32", false, "-2147483648", "2147483647"}, {"int64", false, "-9223372036854775808", "9223372036854775807"}} {
		name := "P" + genfacts.Title[e.base]
		var opts []geneval.OptSpec
		for i, v := range []string{e.min, e.max, "1"} {
			o := geneval.OptSpec{Name: []string{"Lo", "Hi", "One"}[i]}
			if e.unsigned {
				fmt.Sscanf(v, "%d", &o.UintValue)
			} else {
				fmt.Sscanf(v, "%d", &o.Value)
			}
			opts = append(opts, o)
			wants = append(wants, want{name + "_" + o.Name, v, name})
		}
		fs.Enums = append(fs.Enums, b.Enum(name, e.base, e.unsigned, opts...))
	}
	consts := []struct{ typ, name, val, goval string }{
		{"int32", "Neg", "-5", "-5"}, {"uint64", "Big", "18446744073709551615", "18446744073709551615"}, {"int64", "Hex", "0x7fffffffffffffff", "9223372036854775807"},
		{"byte", "B", "255", "255"}, {"bool", "Yes", "true", "true"}, {"string", "Pct", `"50% off %d"`, `"50% off %d"`}, {"string", "Esc", `"a\"b\\n"`, `"a\"b\\n"`},
		{"float64", "Pi", "3.5", "7/2"}, {"int16", "NegHex", "-0x10", "-16"},
		// a float const written as an integer literal, also with the leading zero
		// that makes it octal for the parser and for Go alike
		{"float64", "Whole", "3", "3"}, {"float32", "LeadZero", "010", "8"}, {"float64", "NegLeadZero", "-017", "-15"}, {"int32", "Oct", "010", "8"},
		{"float64", "Exp", "1e3", "1000"}, {"float64", "HexF", "0x10", "16"},
	}
	for _, k := range consts {
		fs.Consts = append(fs.Consts, b.Const(k.typ, k.name, k.val))
		wants = append(wants, want{k.name, k.goval, ""})
	}
	fs.Structs = append(fs.Structs, b.Struct("Op", false, 0x34333231, geneval.FieldSpec{Name: "a", Shape: geneval.Simple("int32")}))
	wants = append(wants, want{"OpOpCode", "875770417", ""})
	fs.Messages = append(fs.Messages, b.Message("OpM", 0xFFFFFFFF, geneval.NumField{Num: 1, FieldSpec: geneval.FieldSpec{Name: "a", Shape: geneval.Simple("int32")}}))
	wants = append(wants, want{"OpMOpCode", "4294967295", ""})
	gf := g.GenerateSpec(fs, geneval.AllOptions()[0])
	pos := "gen.go (Enum.Generate, Const.Generate, writeOpCode)"
	if gf.EvalErr != nil {
		c.Undecide("constant probe: %v", gf.EvalErr)
		return
	}
	if gf.GenErr != "" || gf.ParseErr != nil || len(gf.TypeErrs) > 0 || gf.Pkg == nil {
		msg := gf.GenErr
		if gf.ParseErr != nil {
			msg = gf.ParseErr.Error()
		}
		if len(gf.TypeErrs) > 0 {
			msg = gf.TypeErrs[0].Msg + " — " + gf.Line(gf.TypeErrs[0].Pos)
		}
		c.Check("R4", "constant probe schema generates and type-checks", pos, false, msg)
		return
	}
	for _, w := range wants {
		obj := gf.Pkg.Scope().Lookup(w.name)
		got := "<undefined>"
		typ := ""
		if cobj, ok := obj.(*types.Const); ok {
			got = cobj.Val().ExactString()
			typ = cobj.Type().String()
		}
		okv := got == w.val
		if w.typ != "" {
			okv = okv && typ == "gen."+w.typ
		}
		c.Check("R4", "generated constant "+w.name+" carries the schema's value", pos, okv, fmt.Sprintf("schema value %s (type %s); generated declaration evaluates to %s (type %s)", w.val, w.typ, got, typ))
	}
	c.Count("probed_constants", len(wants))
	c.Floor("probed_constants", 30)
}

// flagGrouping: R7. The value of `A | B << 4` depends on how a chain of
// operators without parentheses is grouped; this parser has no precedence and
// groups to the right: a op (b op (c …)). Whatever the shape of the code (the
// recursive descent of today, or a loop with a fold), a binary node is built
// with a single operand on its left and the rest of the chain on its right. A
// node whose *left* side is the tree accumulated so far groups to the left and
// silently changes the values of existing schemas.
func flagGrouping(c *core.Ctx, p *load.Prog) {
	pkg := p.Bebop()
	info := pkg.TypesInfo
	n := 0
	for _, fd := range funcsOfFiles(p, pkg, "parse_expr.go") {
		// variables of the function that are assigned a binOpNode (accumulators)
		isBin := func(e ast.Expr) bool {
			cl, ok := ast.Unparen(e).(*ast.CompositeLit)
			return ok && typeBaseName(info.TypeOf(cl)) == "binOpNode"
		}
		acc := map[types.Object]bool{}
		ast.Inspect(fd.Body, func(m ast.Node) bool {
			if as, ok := m.(*ast.AssignStmt); ok && len(as.Lhs) == len(as.Rhs) {
				for i, l := range as.Lhs {
					if id, ok := l.(*ast.Ident); ok && isBin(as.Rhs[i]) {
						acc[info.ObjectOf(id)] = true
					}
				}
			}
			return true
		})
		ast.Inspect(fd.Body, func(m ast.Node) bool {
			cl, ok := m.(*ast.CompositeLit)
			if !ok || typeBaseName(info.TypeOf(cl)) != "binOpNode" {
				return true
			}
			n++
			leftAcc := false
			for _, el := range cl.Elts {
				kv, ok := el.(*ast.KeyValueExpr)
				if !ok || wire.Canon(kv.Key) != "lhs" {
					continue
				}
				if id, ok := ast.Unparen(kv.Value).(*ast.Ident); ok && acc[info.ObjectOf(id)] {
					leftAcc = true
				}
			}
			c.Check("R7", fmt.Sprintf("%s groups an operator chain to the right (#%d)", fd.Name.Name, n), p.Pos(cl.Pos()), !leftAcc,
				"the node's left side is the tree built so far: `a op b op c` becomes (a op b) op c instead of a op (b op c), and [flags] members written without parentheses change value (`Read | Write << 4`: 48 instead of 33)")
			return true
		})
	}
	if n == 0 {
		c.Undecide("parse_expr.go: no binary node of a flag expression is built")
	}
	c.Count("flag_expression_nodes", n)
}

// operatorTable: R8. The flag-expression evaluators compute `a OP b` with the
// Go operator that is spelled like the schema's. The spelling of every
// operator token kind is read off the token tree's registrations
// (tt.add([]byte{'>','>'}, simpleToken(tokenKindDoubleCaretRight))); in each
// evaluator's arm for a binary node, every return that reports success is
// `L OP R, nil` inside the clause for the kind spelled OP, with L and R the
// results of evaluating the node's first and second operand — no other
// successful return (a short cut that answers without applying the operator
// gives `-16 >> 70` the value 0 where the schema's and Go's answer is -1).
func operatorTable(c *core.Ctx, p *load.Prog) {
	pkg := p.Bebop()
	info := pkg.TypesInfo
	// kind -> spelling
	spelled := map[string]string{}
	for _, fd := range funcsOfFiles(p, pkg, "tokenize.go", "token_tree.go") {
		ast.Inspect(fd.Body, func(n ast.Node) bool {
			call, ok := n.(*ast.CallExpr)
			if !ok || len(call.Args) != 2 {
				return true
			}
			cl, ok := ast.Unparen(call.Args[0]).(*ast.CompositeLit)
			if !ok {
				return true
			}
			inner, ok := ast.Unparen(call.Args[1]).(*ast.CallExpr)
			if !ok || len(inner.Args) != 1 {
				return true
			}
			kid, ok := ast.Unparen(inner.Args[0]).(*ast.Ident)
			if !ok {
				return true
			}
			if _, isConst := info.ObjectOf(kid).(*types.Const); !isConst {
				return true
			}
			text := ""
			for _, e := range cl.Elts {
				v, okv := constInt(info, e)
				if !okv {
					return true
				}
				text += string(rune(v))
			}
			spelled[kid.Name] = text
			return true
		})
	}
	goOp := map[string]token.Token{"&": token.AND, "|": token.OR, "<<": token.SHL, ">>": token.SHR, "^": token.XOR, "+": token.ADD, "-": token.SUB, "*": token.MUL, "/": token.QUO, "%": token.REM}
	root := p.FuncDecl(pkg, "evaluateBitflagExpr")
	if root == nil {
		c.Undecide("evaluateBitflagExpr not found")
		return
	}
	closure := declClosure(p, pkg, root, 3)
	// ---- where the operators are implemented: clauses of a switch on the
	// operator kind (in an evaluator's arm or in a helper), or entries of a
	// table from kinds to function literals. Each implementation is
	// `L OP R` over two distinct operands in a known order.
	type impl struct {
		kind  string
		op    token.Token
		l, r  types.Object
		pos   token.Pos
		okBin bool
		why   string
	}
	type dispatch struct {
		impls []impl
		sw    *ast.SwitchStmt // switch form
		owner *ast.FuncDecl   // function holding the switch or the table
	}
	isOpKind := func(e ast.Expr) (string, bool) {
		id, ok := ast.Unparen(e).(*ast.Ident)
		if !ok {
			return "", false
		}
		if _, known := goOp[spelled[id.Name]]; known {
			return id.Name, true
		}
		return "", false
	}
	binOf := func(e ast.Expr) (*ast.BinaryExpr, types.Object, types.Object) {
		be, ok := ast.Unparen(e).(*ast.BinaryExpr)
		if !ok {
			return nil, nil, nil
		}
		l, okl := ast.Unparen(be.X).(*ast.Ident)
		r, okr := ast.Unparen(be.Y).(*ast.Ident)
		if !okl || !okr {
			return be, nil, nil
		}
		return be, info.ObjectOf(l), info.ObjectOf(r)
	}
	var dispatches []*dispatch
	for _, fd := range closure {
		fd := fd
		ast.Inspect(fd.Body, func(n ast.Node) bool {
			switch x := n.(type) {
			case *ast.SwitchStmt:
				if x.Tag == nil {
					return true
				}
				if t := info.TypeOf(x.Tag); t == nil || !strings.HasSuffix(t.String(), ".tokenKind") {
					return true
				}
				d := &dispatch{sw: x, owner: fd}
				for _, cc := range x.Body.List {
					cl := cc.(*ast.CaseClause)
					for _, ke := range cl.List {
						kind, ok := isOpKind(ke)
						if !ok {
							continue
						}
						im := impl{kind: kind, pos: cl.Pos(), why: "no successful return in the clause"}
						for _, st := range cl.Body {
							r, isR := st.(*ast.ReturnStmt)
							if !isR || len(r.Results) == 0 {
								continue
							}
							last := wire.Canon(r.Results[len(r.Results)-1])
							if last != "nil" && last != "true" {
								continue
							}
							be, lo, ro := binOf(r.Results[0])
							if be == nil {
								im.why = "returns " + wire.Canon(r.Results[0]) + ", not an application of the operator"
								continue
							}
							im.op, im.l, im.r = be.Op, lo, ro
							im.okBin = lo != nil && ro != nil && lo != ro
							if !im.okBin {
								im.why = "the operands of " + wire.Canon(be) + " are not two distinct variables"
							}
						}
						d.impls = append(d.impls, im)
					}
				}
				if len(d.impls) > 0 {
					dispatches = append(dispatches, d)
				}
			case *ast.CompositeLit:
				mt, ok := info.TypeOf(x).Underlying().(*types.Map)
				if !ok || !strings.HasSuffix(mt.Key().String(), ".tokenKind") {
					return true
				}
				if _, isFn := mt.Elem().Underlying().(*types.Signature); !isFn {
					return true
				}
				d := &dispatch{owner: fd}
				for _, e := range x.Elts {
					kv, ok := e.(*ast.KeyValueExpr)
					if !ok {
						continue
					}
					kind, ok := isOpKind(kv.Key)
					if !ok {
						continue
					}
					im := impl{kind: kind, pos: kv.Pos(), why: "the entry is not a function literal that returns an application of the operator"}
					if fl, isLit := ast.Unparen(kv.Value).(*ast.FuncLit); isLit && len(fl.Body.List) == 1 {
						if r, isR := fl.Body.List[0].(*ast.ReturnStmt); isR && len(r.Results) == 1 {
							be, lo, ro := binOf(r.Results[0])
							var ps []types.Object
							for _, f := range fl.Type.Params.List {
								for _, nm := range f.Names {
									ps = append(ps, info.Defs[nm])
								}
							}
							if be != nil && len(ps) == 2 {
								im.op, im.l, im.r = be.Op, lo, ro
								// in a literal the order is that of its own parameters
								im.okBin = lo == ps[0] && ro == ps[1]
								if !im.okBin {
									im.why = "the literal computes " + wire.Canon(be) + ", not <first parameter> OP <second parameter>"
								}
							}
						}
					}
					d.impls = append(d.impls, im)
				}
				if len(d.impls) > 0 {
					dispatches = append(dispatches, d)
				}
			}
			return true
		})
	}
	if len(dispatches) == 0 {
		c.Undecide("no dispatch on the operator kind (a switch, or a table of function literals) was found under evaluateBitflagExpr")
		return
	}
	// the clause of each kind applies the Go operator spelled like the schema's
	for _, d := range dispatches {
		name := d.owner.Name.Name
		for _, im := range d.impls {
			text := spelled[im.kind]
			okArm := im.okBin && im.op == goOp[text]
			why := im.why
			if im.okBin && im.op != goOp[text] {
				why = fmt.Sprintf("the schema operator %q is computed with Go's %s", text, im.op)
			}
			c.Check("R8", fmt.Sprintf("%s computes %q with the Go operator of the same spelling", name, text), p.Pos(im.pos), okArm, why)
		}
	}
	// ---- the evaluators' arms for a binary node hand the two evaluated
	// operands, in order, to the operator, and return nothing else as a value
	nArms := 0
	for _, fd := range closure {
		fd := fd
		ast.Inspect(fd.Body, func(n ast.Node) bool {
			ts, ok := n.(*ast.TypeSwitchStmt)
			if !ok {
				return true
			}
			for _, cc := range ts.Body.List {
				cl := cc.(*ast.CaseClause)
				if len(cl.List) != 1 {
					continue
				}
				nt, ok := info.TypeOf(cl.List[0]).(*types.Named)
				if !ok {
					continue
				}
				st, ok := nt.Underlying().(*types.Struct)
				if !ok {
					continue
				}
				var operandFields []string
				for i := 0; i < st.NumFields(); i++ {
					if _, isIface := st.Field(i).Type().Underlying().(*types.Interface); isIface {
						operandFields = append(operandFields, st.Field(i).Name())
					}
				}
				if len(operandFields) != 2 {
					continue
				}
				nArms++
				name := fd.Name.Name
				operand := map[types.Object]int{}
				for _, stmt := range cl.Body {
					as, ok := stmt.(*ast.AssignStmt)
					if !ok || len(as.Rhs) != 1 || len(as.Lhs) < 1 {
						continue
					}
					call, ok := ast.Unparen(as.Rhs[0]).(*ast.CallExpr)
					if !ok {
						continue
					}
					for _, a := range call.Args {
						if sel, ok := ast.Unparen(a).(*ast.SelectorExpr); ok {
							for i, f := range operandFields {
								if sel.Sel.Name == f {
									if id, ok := as.Lhs[0].(*ast.Ident); ok {
										operand[info.ObjectOf(id)] = i
									}
								}
							}
						}
					}
				}
				if len(operand) != 2 {
					c.Undecide("%s: the two operand evaluations of the binary node arm are not recognised", name)
					continue
				}
				operandIdx := func(e ast.Expr) int {
					if id, ok := ast.Unparen(e).(*ast.Ident); ok {
						if k, isOp := operand[info.ObjectOf(id)]; isOp {
							return k
						}
					}
					return -1
				}
				inOrder := func(args []ast.Expr) bool {
					first, second := -1, -1
					for i, a := range args {
						switch operandIdx(a) {
						case 0:
							first = i
						case 1:
							second = i
						}
					}
					return first >= 0 && second > first
				}
				var viaSwitch *dispatch
				okApply, whyApply := false, "the arm neither switches on the operator kind nor hands its operands to a function that does"
				for _, d := range dispatches {
					if d.sw != nil && d.owner == fd && cl.Pos() <= d.sw.Pos() && d.sw.End() <= cl.End() {
						viaSwitch = d
						okApply = true
						for _, im := range d.impls {
							if im.okBin {
								li, lok := operand[im.l]
								ri, rok := operand[im.r]
								if !lok || !rok {
									okApply, whyApply = false, "a clause of the operator switch computes with something other than the two evaluated operands"
								} else if li != 0 || ri != 1 {
									okApply, whyApply = false, "a clause of the operator switch has the operands swapped"
								}
							}
						}
					}
				}
				if viaSwitch == nil {
					ast.Inspect(&ast.BlockStmt{List: cl.Body}, func(m ast.Node) bool {
						call, ok := m.(*ast.CallExpr)
						if !ok {
							return true
						}
						// a helper that holds the switch: the call passes the operands, in
						// order, in the positions of the parameters its clauses apply
						if cal := load.Callee(info, call); cal != nil {
							for _, d := range dispatches {
								if d.sw == nil || info.Defs[d.owner.Name] != types.Object(cal) {
									continue
								}
								sig, _ := cal.Type().(*types.Signature)
								good := sig != nil
								for _, im := range d.impls {
									if !im.okBin || sig == nil {
										continue
									}
									li, ri := -1, -1
									for k := 0; k < sig.Params().Len(); k++ {
										if types.Object(sig.Params().At(k)) == im.l {
											li = k
										}
										if types.Object(sig.Params().At(k)) == im.r {
											ri = k
										}
									}
									if li < 0 || ri < 0 || li >= len(call.Args) || ri >= len(call.Args) {
										good = false
										continue
									}
									if operandIdx(call.Args[li]) != 0 || operandIdx(call.Args[ri]) != 1 {
										good = false
									}
								}
								if good {
									okApply = true
								} else {
									whyApply = "the operands are not handed to " + cal.Name() + " in the order its clauses apply them"
								}
							}
						}
						// a function value (taken from a table of literals): f(L, R)
						if id, ok := ast.Unparen(call.Fun).(*ast.Ident); ok {
							if v, isVar := info.ObjectOf(id).(*types.Var); isVar {
								if _, isFn := v.Type().Underlying().(*types.Signature); isFn {
									for _, d := range dispatches {
										if d.sw == nil {
											if len(call.Args) == 2 && inOrder(call.Args) {
												okApply = true
											} else {
												whyApply = "the operands are not handed to the operator function in order"
											}
										}
									}
								}
							}
						}
						return true
					})
				}
				// variables that receive the result of applying the operator
				applied := map[types.Object]bool{}
				ast.Inspect(&ast.BlockStmt{List: cl.Body}, func(m ast.Node) bool {
					if as, ok := m.(*ast.AssignStmt); ok && len(as.Rhs) == 1 {
						if call, ok := ast.Unparen(as.Rhs[0]).(*ast.CallExpr); ok && inOrder(call.Args) {
							if id, ok := as.Lhs[0].(*ast.Ident); ok {
								applied[info.ObjectOf(id)] = true
							}
						}
					}
					return true
				})
				c.Check("R8", name+": a binary node's operands reach the operator in order", p.Pos(cl.Pos()), okApply, whyApply)
				// every successful return of the arm is the operator's result
				ast.Inspect(&ast.BlockStmt{List: cl.Body}, func(m ast.Node) bool {
					if _, isLit := m.(*ast.FuncLit); isLit {
						return false
					}
					r, ok := m.(*ast.ReturnStmt)
					if !ok || len(r.Results) != 2 || !lastResultIsNil(r) {
						return true
					}
					good := false
					if viaSwitch != nil && viaSwitch.sw.Pos() <= r.Pos() && r.End() <= viaSwitch.sw.End() {
						good = true
					}
					if id, ok := ast.Unparen(r.Results[0]).(*ast.Ident); ok && applied[info.ObjectOf(id)] {
						good = true
					}
					if call, ok := ast.Unparen(r.Results[0]).(*ast.CallExpr); ok && inOrder(call.Args) {
						good = true
					}
					c.Check("R8", fmt.Sprintf("%s: a binary node's value is the operator applied to its operands (return at %s)", name, p.Pos(r.Pos())), p.Pos(r.Pos()), good,
						"the binary node arm returns "+wire.Canon(r.Results[0])+" as a result without applying the operator: the schema's value and the generated constant differ for the operands that take this path")
					return true
				})
			}
			return true
		})
	}
	c.Count("binary_node_arms", nArms)
	if nArms == 0 {
		c.Undecide("no evaluator arm for a binary node was found under evaluateBitflagExpr")
	}
}
