package rules

import (
	"fmt"
	"go/ast"
	"go/token"
	"go/types"
	"strings"

	"bebopverif/internal/core"
	"bebopverif/internal/load"
	"bebopverif/internal/wire"
)

func init() { register("C19", checkC19) }

func checkC19(c *core.Ctx) {
	c.Explainf("C19 (decided clauses: ordering and error discipline of the two main packages; crash points such as power loss between write and rename are NOT decided). R1: no call that truncates a file (os.Create, os.WriteFile, os.OpenFile with O_TRUNC) is applied to the user's target: the only accepted way to replace the -o file or the file being formatted is to write a temporary created with os.CreateTemp and os.Rename it over the target once every fallible step (parse, generate, format, write, close) has succeeded; every function that renames must remove its temporary on its failing paths. R2: the errors of Write/Close on the temporary are returned, none is dropped or deferred away. R3: main exits non-zero exactly on the err != nil arm of run(), and every error produced in run/formatFile is returned, none merely printed. R4 (reported as a fact): whether bebopfmt re-parses its output before replacing the file. R5: the formatter's sibling-agreement rules of C16 (the third sentence of the property rests on them). R6: the buffer collecting the formatted text is fresh storage, not a re-slice of the input.")
	p := loadRepo(c)
	if p == nil {
		return
	}
	nMain := 0
	for _, pk := range p.All {
		if !strings.HasPrefix(pk.PkgPath, load.Mod+"/main/") {
			continue
		}
		nMain++
		short := strings.TrimPrefix(pk.PkgPath, load.Mod+"/main/")
		info := pk.TypesInfo
		renames, temps := 0, 0
		for fn, fd := range p.AllDecls() {
			if p.Owner(fn) != pk || fd.Body == nil {
				continue
			}
			name := short + "." + fd.Name.Name
			// ---- R1 destructive opens
			ast.Inspect(fd.Body, func(n ast.Node) bool {
				call, ok := n.(*ast.CallExpr)
				if !ok {
					return true
				}
				callee := load.Callee(info, call)
				if callee == nil || callee.Pkg() == nil || callee.Pkg().Path() != "os" {
					return true
				}
				switch callee.Name() {
				case "Create", "WriteFile":
					c.Check("R1", name+" truncates a user-named file with os."+callee.Name(), p.Pos(call.Pos()), false,
						"the target is emptied before the work that can still fail (generate, write, close) has finished: a failing run destroys the previous contents; write a temporary and rename it over the target instead")
				case "OpenFile":
					if len(call.Args) >= 2 && strings.Contains(wire.Canon(call.Args[1]), "O_TRUNC") {
						c.Check("R1", name+" truncates a user-named file with os.OpenFile(O_TRUNC)", p.Pos(call.Pos()), false, "see os.Create")
					}
				case "CreateTemp":
					temps++
				case "Rename":
					renames++
				}
				return true
			})
			// ---- R2 dropped errors on file handles that are written
			written := map[types.Object]bool{}
			ast.Inspect(fd.Body, func(n ast.Node) bool {
				call, ok := n.(*ast.CallExpr)
				if !ok {
					return true
				}
				if sel, ok := call.Fun.(*ast.SelectorExpr); ok && (sel.Sel.Name == "Write" || sel.Sel.Name == "WriteString") {
					if id, ok := ast.Unparen(sel.X).(*ast.Ident); ok && isOsFile(info.TypeOf(id)) {
						written[info.ObjectOf(id)] = true
					}
				}
				// handles passed to Generate/Format as the writer
				if callee := load.Callee(info, call); callee != nil && (callee.Name() == "Generate" || callee.Name() == "Format") {
					sig := callee.Type().(*types.Signature)
					for i, a := range call.Args {
						if i >= sig.Params().Len() || !strings.HasSuffix(sig.Params().At(i).Type().String(), "io.Writer") {
							continue
						}
						if id, ok := ast.Unparen(a).(*ast.Ident); ok && isOsFile(info.TypeOf(id)) {
							written[info.ObjectOf(id)] = true
						}
					}
				}
				return true
			})
			checkDropped := func(call *ast.CallExpr, how string, pos token.Pos) {
				sel, ok := call.Fun.(*ast.SelectorExpr)
				if !ok || (sel.Sel.Name != "Close" && sel.Sel.Name != "Write" && sel.Sel.Name != "Sync") {
					return
				}
				id, ok := ast.Unparen(sel.X).(*ast.Ident)
				if !ok || !written[info.ObjectOf(id)] {
					return
				}
				c.Check("R2", fmt.Sprintf("%s %s the error of %s.%s on a file it wrote", name, how, id.Name, sel.Sel.Name), p.Pos(pos), false,
					"a failing write-back (disk full, I/O error surfacing at close) is reported as success")
			}
			ast.Inspect(fd.Body, func(n ast.Node) bool {
				switch x := n.(type) {
				case *ast.ExprStmt:
					if call, ok := x.X.(*ast.CallExpr); ok {
						checkDropped(call, "drops", x.Pos())
					}
				case *ast.DeferStmt:
					checkDropped(x.Call, "defers away", x.Pos())
				}
				return true
			})
			// ---- R3 errors are returned, not printed
			if fd.Name.Name == "main" {
				src := strings.Join(strings.Fields(srcOf(p, fd.Body)), " ")
				ok := strings.Contains(src, "err := run() if err != nil {") && strings.Contains(src, "os.Exit(1) }")
				tail := src[strings.LastIndex(src, "}")-40:]
				_ = tail
				c.Check("R3", name+" exits 1 exactly when run() failed", p.Pos(fd.Pos()), ok && exitOnlyOnError(fd), "main must call os.Exit(1) on the err != nil arm of run() and nowhere else")
			}
			if funcReturnsError(pk, fd) {
				// an `if err != nil` arm that neither returns nor continues swallows the error
				ast.Inspect(fd.Body, func(n ast.Node) bool {
					ifs, ok := n.(*ast.IfStmt)
					if !ok {
						return true
					}
					if x, ok := nilTestExpr(ifs.Cond); !ok || x != "err" {
						return true
					}
					if !endsInReturn(ifs.Body) {
						c.Check("R3", name+" returns the error it detected", p.Pos(ifs.Pos()), false, "an err != nil arm does not end in a return: the failure is swallowed and the tool exits 0")
					} else {
						r := ifs.Body.List[len(ifs.Body.List)-1].(*ast.ReturnStmt)
						if lastResultIsNil(r) {
							c.Check("R3", name+" returns the error it detected", p.Pos(ifs.Pos()), false, "an err != nil arm returns nil")
						}
					}
					return true
				})
			}
		}
		c.Check("R3", short+": every detected error is returned (scan complete)", pk.PkgPath, true, "")
		c.Check("R1", short+" replaces its target by temp file + rename", pk.PkgPath, temps >= 1 && renames >= 1,
			fmt.Sprintf("os.CreateTemp calls: %d, os.Rename calls: %d — the accepted way to replace a user's file atomically is absent", temps, renames))
		c.Check("R2", short+": no dropped error on a written file (scan complete)", pk.PkgPath, true, "")
	}
	c.Count("main_packages", nMain)
	c.Floor("main_packages", 2)
	// R5: "when bebopfmt -w succeeds the file still parses to the same schema"
	// rests on the formatter: its sibling-agreement rules (C16) are obligations here too
	tmp := core.NewCtx("C16", c.Tier, c.RepoDir, c.VerifDir)
	checkC16(tmp)
	for _, o := range tmp.Obls {
		c.Check("R5", "["+strings.TrimPrefix(o.Rule, "C16/")+"] "+o.Key, o.Pos, o.OK, o.Msg)
	}
	for _, u := range tmp.Undecided {
		c.Undecide("%s", u)
	}
	// R6: the buffer the formatted text is collected in is fresh storage
	for _, pk := range p.All {
		if !strings.HasPrefix(pk.PkgPath, load.Mod+"/main/") {
			continue
		}
		info := pk.TypesInfo
		for fn, fd := range p.AllDecls() {
			if p.Owner(fn) != pk || fd.Body == nil {
				continue
			}
			ast.Inspect(fd.Body, func(n ast.Node) bool {
				call, ok := n.(*ast.CallExpr)
				if !ok || wire.Canon(call.Fun) != "bytes.NewBuffer" || len(call.Args) != 1 {
					return true
				}
				arg := ast.Unparen(call.Args[0])
				fresh := false
				switch x := arg.(type) {
				case *ast.CompositeLit:
					fresh = true
				case *ast.Ident:
					fresh = x.Name == "nil"
				case *ast.CallExpr:
					fresh = wire.Canon(x.Fun) == "make"
				}
				_ = info
				c.Check("R6", "output buffer in "+fd.Name.Name+" is fresh storage", p.Pos(call.Pos()), fresh,
					"bytes.NewBuffer("+wire.Canon(arg)+") writes into storage that belongs to something else: if that is the input still being read, the output overwrites unread input and the rewritten file is garbage")
				return true
			})
		}
	}
	// R4 fact
	if pk := p.Pkgs[load.Mod+"/main/bebopfmt"]; pk != nil {
		if fd := p.FuncDecl(pk, "formatFile"); fd != nil {
			n := 0
			ast.Inspect(fd.Body, func(m ast.Node) bool {
				if call, ok := m.(*ast.CallExpr); ok && wire.Canon(call.Fun) == "bebop.ReadFile" {
					n++
				}
				return true
			})
			c.Notes["bebopfmt_reparses_output_before_replacing"] = n >= 2
			c.Check("R4", "bebopfmt parses the input before formatting it", p.Pos(fd.Pos()), n >= 1, "formatting a file that does not parse would write garbage over it")
		}
	}
}

func isOsFile(t types.Type) bool {
	return t != nil && strings.HasSuffix(t.String(), "os.File")
}

// exitOnlyOnError: os.Exit with a non-zero constant appears only inside an
// `if err != nil` arm.
func exitOnlyOnError(fd *ast.FuncDecl) bool {
	ok := true
	var walk func(n ast.Node, inErrArm bool)
	walk = func(n ast.Node, inErrArm bool) {
		ast.Inspect(n, func(m ast.Node) bool {
			switch x := m.(type) {
			case *ast.IfStmt:
				if v, is := nilTestExpr(x.Cond); is && v == "err" {
					walk(x.Body, true)
					if x.Else != nil {
						walk(x.Else, inErrArm)
					}
					return false
				}
			case *ast.CallExpr:
				if wire.Canon(x.Fun) == "os.Exit" && len(x.Args) == 1 {
					zero := wire.Canon(x.Args[0]) == "0"
					if zero == inErrArm {
						ok = false
					}
				}
			}
			return true
		})
	}
	walk(fd.Body, false)
	return ok
}
