package rules

import (
	"fmt"
	"go/ast"
	"go/token"
	"go/types"
	"sort"
	"strings"

	"bebopverif/internal/core"
	"bebopverif/internal/load"
	"bebopverif/internal/wire"

	"golang.org/x/tools/go/packages"
)

func init() { register("C19", checkC19) }

func checkC19(c *core.Ctx) {
	c.Explainf("C19 (decided clauses: ordering and error discipline of the two main packages; crash points such as power loss between write and rename are NOT decided). R1: no call that truncates a file (os.Create, os.WriteFile, os.OpenFile with O_TRUNC) is applied to the user's target: the only accepted way to replace the -o file or the file being formatted is to write a temporary created with os.CreateTemp and os.Rename it over the target once every fallible step (parse, generate, format, write, close) has succeeded; every function that renames must remove its temporary on its failing paths. R2: the errors of Write/Close on the temporary are returned, none is dropped or deferred away. R3 (typed, not by variable name): main calls os.Exit with a non-zero constant exactly on the arm where the error returned by run() is not nil; in every function of the main packages that returns an error, each `if v != nil` arm over an error variable ends in a return of a non-nil error, or records the failure in a variable that is written only inside such arms and is turned into an error return later (the accumulating idiom) — an error that is printed and then overwritten by the next file is reported as swallowed. R4 (reported as a fact): whether bebopfmt re-parses its output before replacing the file. R5: the formatter's sibling-agreement rules of C16 (the third sentence of the property rests on them). R6: the buffer collecting the formatted text is fresh storage, not a re-slice of the input. R6b: what (*bytes.Buffer).Bytes() returns in the main packages is used at once (a call argument); it is not kept in a composite literal, field, element or package-level variable while it is a view of a buffer that lives on or is reset for re-use. R6c: a package-level buffer handed to the library to write into is Reset by a top-level statement of the same function ahead of that call.")
	p := loadRepo(c)
	if p == nil {
		return
	}
	nMain := 0
	for _, pk := range p.All {
		if !strings.HasPrefix(pk.PkgPath, load.Mod+"/main/") {
			continue
		}
		nMain++
		short := strings.TrimPrefix(pk.PkgPath, load.Mod+"/main/")
		renames, temps := 0, 0
		// the program: the functions of the main package and the functions of
		// the module's internal packages they reach (a shared file-replacing
		// helper is part of each CLI that calls it)
		type unit struct {
			fd    *ast.FuncDecl
			owner *packages.Package
		}
		var units []unit
		seenFn := map[*types.Func]bool{}
		var reach func(fn *types.Func, depth int)
		reach = func(fn *types.Func, depth int) {
			if seenFn[fn] || depth > 4 {
				return
			}
			owner := p.Owner(fn)
			fd := p.Decl(fn)
			if owner == nil || fd == nil || fd.Body == nil {
				return
			}
			if owner != pk && !strings.HasPrefix(owner.PkgPath, load.Mod+"/internal/") {
				return
			}
			seenFn[fn] = true
			units = append(units, unit{fd, owner})
			ast.Inspect(fd.Body, func(n ast.Node) bool {
				if call, ok := n.(*ast.CallExpr); ok {
					if cal := load.Callee(owner.TypesInfo, call); cal != nil {
						reach(cal, depth+1)
					}
				}
				return true
			})
		}
		var roots []*types.Func
		for fn, fd := range p.AllDecls() {
			if p.Owner(fn) == pk && fd.Body != nil {
				roots = append(roots, fn)
			}
		}
		sort.Slice(roots, func(i, j int) bool { return roots[i].Pos() < roots[j].Pos() })
		for _, fn := range roots {
			reach(fn, 0)
		}
		for _, u := range units {
			fd := u.fd
			info := u.owner.TypesInfo
			name := short + "." + fd.Name.Name
			if u.owner != pk {
				name = short + "→" + u.owner.Name + "." + fd.Name.Name
			}
			// ---- R1 destructive opens
			ast.Inspect(fd.Body, func(n ast.Node) bool {
				call, ok := n.(*ast.CallExpr)
				if !ok {
					return true
				}
				callee := load.Callee(info, call)
				if callee == nil || callee.Pkg() == nil || callee.Pkg().Path() != "os" {
					return true
				}
				switch callee.Name() {
				case "Create", "WriteFile":
					c.Check("R1", name+" truncates a user-named file with os."+callee.Name(), p.Pos(call.Pos()), false,
						"the target is emptied before the work that can still fail (generate, write, close) has finished: a failing run destroys the previous contents; write a temporary and rename it over the target instead")
				case "OpenFile":
					if len(call.Args) >= 2 && strings.Contains(wire.Canon(call.Args[1]), "O_TRUNC") {
						c.Check("R1", name+" truncates a user-named file with os.OpenFile(O_TRUNC)", p.Pos(call.Pos()), false, "see os.Create")
					} else if len(call.Args) >= 2 {
						flags := wire.Canon(call.Args[1])
						for _, fl := range []string{"O_CREATE", "O_WRONLY", "O_RDWR", "O_APPEND"} {
							if strings.Contains(flags, fl) {
								c.Check("R1", name+" opens a user-named file for writing with os.OpenFile("+fl+")", p.Pos(call.Pos()), false,
									"the tools replace their target by writing a temporary and renaming it; opening the target itself for writing (or creating it) before the work that can still fail has finished leaves an empty or altered file behind when that work fails")
								break
							}
						}
					}
				case "CreateTemp":
					temps++
				case "Rename":
					renames++
				}
				return true
			})
			// ---- R2 dropped errors on file handles that are written
			written := map[types.Object]bool{}
			ast.Inspect(fd.Body, func(n ast.Node) bool {
				call, ok := n.(*ast.CallExpr)
				if !ok {
					return true
				}
				if sel, ok := call.Fun.(*ast.SelectorExpr); ok && (sel.Sel.Name == "Write" || sel.Sel.Name == "WriteString") {
					if id, ok := ast.Unparen(sel.X).(*ast.Ident); ok && isOsFile(info.TypeOf(id)) {
						written[info.ObjectOf(id)] = true
					}
				}
				// handles passed to Generate/Format as the writer
				if callee := load.Callee(info, call); callee != nil && (callee.Name() == "Generate" || callee.Name() == "Format") {
					sig := callee.Type().(*types.Signature)
					for i, a := range call.Args {
						if i >= sig.Params().Len() || !strings.HasSuffix(sig.Params().At(i).Type().String(), "io.Writer") {
							continue
						}
						if id, ok := ast.Unparen(a).(*ast.Ident); ok && isOsFile(info.TypeOf(id)) {
							written[info.ObjectOf(id)] = true
						}
					}
				}
				return true
			})
			checkDropped := func(call *ast.CallExpr, how string, pos token.Pos) {
				sel, ok := call.Fun.(*ast.SelectorExpr)
				if !ok || (sel.Sel.Name != "Close" && sel.Sel.Name != "Write" && sel.Sel.Name != "Sync") {
					return
				}
				// closing on the way out with an earlier error: the statement list
				// this call is in goes on to return a non-nil error
				if sel.Sel.Name == "Close" && how == "drops" && failingTail(fd, call) {
					return
				}
				id, ok := ast.Unparen(sel.X).(*ast.Ident)
				if !ok || !written[info.ObjectOf(id)] {
					return
				}
				c.Check("R2", fmt.Sprintf("%s %s the error of %s.%s on a file it wrote", name, how, id.Name, sel.Sel.Name), p.Pos(pos), false,
					"a failing write-back (disk full, I/O error surfacing at close) is reported as success")
			}
			ast.Inspect(fd.Body, func(n ast.Node) bool {
				switch x := n.(type) {
				case *ast.ExprStmt:
					if call, ok := x.X.(*ast.CallExpr); ok {
						checkDropped(call, "drops", x.Pos())
					}
				case *ast.DeferStmt:
					checkDropped(x.Call, "defers away", x.Pos())
				}
				return true
			})
			// ---- R3 errors are returned, not printed
			if fd.Name.Name == "main" {
				if sfn := exitStatusFunc(info, fd); sfn != nil {
					// os.Exit(run(...)): run computes the status itself
					sd := p.Decl(sfn)
					if sd == nil || sd.Body == nil {
						c.Undecide("%s: os.Exit is handed the result of %s, whose body is not available", name, sfn.Name())
					} else {
						okS, why := statusOnErrorArms(info, sd)
						if why == "computed" {
							c.Undecide("%s: %s returns a status that is not a constant: which arms exit non-zero is not read off", name, sfn.Name())
						} else {
							c.Check("R3", name+" exits 1 exactly when run() failed", p.Pos(sd.Pos()), okS,
								sfn.Name()+", whose result main hands to os.Exit, "+why)
						}
					}
				} else {
					c.Check("R3", name+" exits 1 exactly when run() failed", p.Pos(fd.Pos()), mainExitsOnRunError(info, fd) && exitOnlyOnError(info, fd),
						"main must call os.Exit with a non-zero status on the arm where the error of run() is not nil, and nowhere else")
				}
			}
			if funcReturnsError(u.owner, fd) {
				errorArmsReturn(c, p, info, fd, name)
			}
		}
		c.Check("R3", short+": every detected error is returned (scan complete)", pk.PkgPath, true, "")
		c.Check("R1", short+" replaces its target by temp file + rename", pk.PkgPath, temps >= 1 && renames >= 1,
			fmt.Sprintf("os.CreateTemp calls: %d, os.Rename calls: %d — the accepted way to replace a user's file atomically is absent", temps, renames))
		c.Check("R2", short+": no dropped error on a written file (scan complete)", pk.PkgPath, true, "")
	}
	c.Count("main_packages", nMain)
	c.Floor("main_packages", 2)
	// R5: "when bebopfmt -w succeeds the file still parses to the same schema"
	// rests on the formatter: its sibling-agreement rules (C16) are obligations here too
	tmp := core.NewCtx("C16", c.Tier, c.RepoDir, c.VerifDir)
	checkC16(tmp)
	for _, o := range tmp.Obls {
		c.Check("R5", "["+strings.TrimPrefix(o.Rule, "C16/")+"] "+o.Key, o.Pos, o.OK, o.Msg)
	}
	for _, u := range tmp.Undecided {
		c.Undecide("%s", u)
	}
	// R6: the buffer the formatted text is collected in is fresh storage
	for _, pk := range p.All {
		if !strings.HasPrefix(pk.PkgPath, load.Mod+"/main/") {
			continue
		}
		info := pk.TypesInfo
		for fn, fd := range p.AllDecls() {
			if p.Owner(fn) != pk || fd.Body == nil {
				continue
			}
			ast.Inspect(fd.Body, func(n ast.Node) bool {
				call, ok := n.(*ast.CallExpr)
				if !ok || wire.Canon(call.Fun) != "bytes.NewBuffer" || len(call.Args) != 1 {
					return true
				}
				arg := ast.Unparen(call.Args[0])
				fresh := false
				switch x := arg.(type) {
				case *ast.CompositeLit:
					fresh = true
				case *ast.Ident:
					fresh = x.Name == "nil"
				case *ast.CallExpr:
					fresh = wire.Canon(x.Fun) == "make"
				}
				_ = info
				c.Check("R6", "output buffer in "+fd.Name.Name+" is fresh storage", p.Pos(call.Pos()), fresh,
					"bytes.NewBuffer("+wire.Canon(arg)+") writes into storage that belongs to something else: if that is the input still being read, the output overwrites unread input and the rewritten file is garbage")
				return true
			})
		}
	}
	// R6b: what (*bytes.Buffer).Bytes() returns is a view of the buffer. Handing
	// it to a call is using it now; keeping it (in a composite literal, a field,
	// an element, a package-level variable) while the same buffer is reset or
	// written again — a shared or re-used buffer — makes the kept text change
	// under the keeper: the file written later is not the file formatted.
	nBytes := 0
	for _, pk := range p.All {
		if !strings.HasPrefix(pk.PkgPath, load.Mod+"/main/") {
			continue
		}
		info := pk.TypesInfo
		var fds []*ast.FuncDecl
		for fn, fd := range p.AllDecls() {
			if p.Owner(fn) == pk && fd.Body != nil {
				fds = append(fds, fd)
			}
		}
		sort.Slice(fds, func(i, j int) bool { return fds[i].Pos() < fds[j].Pos() })
		for _, fd := range fds {
			var stack []ast.Node
			ast.Inspect(fd.Body, func(n ast.Node) bool {
				if n == nil {
					stack = stack[:len(stack)-1]
					return true
				}
				stack = append(stack, n)
				call, ok := n.(*ast.CallExpr)
				if !ok || len(call.Args) != 0 {
					return true
				}
				callee := load.Callee(info, call)
				if callee == nil || callee.Name() != "Bytes" || callee.Pkg() == nil || callee.Pkg().Path() != "bytes" {
					return true
				}
				sel, ok := ast.Unparen(call.Fun).(*ast.SelectorExpr)
				if !ok {
					return true
				}
				nBytes++
				// is the buffer one that lives on, or is used again, after this?
				shared := ""
				root := ast.Unparen(sel.X)
				if id, ok := root.(*ast.Ident); ok {
					o := info.ObjectOf(id)
					if v, isVar := o.(*types.Var); isVar {
						switch {
						case v.Parent() == pk.Types.Scope():
							shared = "the package-level buffer " + v.Name()
						case isParamOf(info, fd, v):
							shared = "the caller's buffer " + v.Name()
						default:
							ast.Inspect(fd.Body, func(k ast.Node) bool {
								switch y := k.(type) {
								case *ast.AssignStmt:
									for i, l := range y.Lhs {
										if lid, ok := ast.Unparen(l).(*ast.Ident); ok && info.ObjectOf(lid) == o && i < len(y.Rhs) {
											r := ast.Unparen(y.Rhs[i])
											if u, isU := r.(*ast.UnaryExpr); isU && u.Op == token.AND {
												r = ast.Unparen(u.X)
											}
											if rid, ok := r.(*ast.Ident); ok {
												if rv, ok := info.ObjectOf(rid).(*types.Var); ok && rv.Parent() == pk.Types.Scope() {
													shared = "the package-level buffer " + rv.Name()
												}
											}
										}
									}
								case *ast.CallExpr:
									if s2, ok := ast.Unparen(y.Fun).(*ast.SelectorExpr); ok && (s2.Sel.Name == "Reset" || s2.Sel.Name == "Truncate") {
										if rid, ok := ast.Unparen(s2.X).(*ast.Ident); ok && info.ObjectOf(rid) == o && shared == "" {
											shared = "the buffer " + v.Name() + ", which this function resets for re-use"
										}
									}
								}
								return true
							})
						}
					}
				} else {
					shared = "the buffer " + wire.Canon(root)
				}
				// how the view is used
				kept := ""
				i := len(stack) - 2
				var child ast.Node = call
				for i >= 0 {
					if pe, ok := stack[i].(*ast.ParenExpr); ok {
						child = pe
						i--
						continue
					}
					break
				}
				if i >= 0 {
					switch par := stack[i].(type) {
					case *ast.KeyValueExpr, *ast.CompositeLit:
						kept = "put into a composite literal"
					case *ast.AssignStmt:
						for k, r := range par.Rhs {
							if r == child && k < len(par.Lhs) {
								switch l := ast.Unparen(par.Lhs[k]).(type) {
								case *ast.SelectorExpr, *ast.IndexExpr, *ast.StarExpr:
									kept = "stored in " + wire.Canon(l)
								case *ast.Ident:
									if v, ok := info.ObjectOf(l).(*types.Var); ok && v.Parent() == pk.Types.Scope() {
										kept = "stored in the package-level " + l.Name
									}
								}
							}
						}
					case *ast.CallExpr:
						if wire.Canon(par.Fun) == "append" && !(par.Ellipsis.IsValid() && par.Args[len(par.Args)-1] == child) && par.Args[0] != child {
							kept = "appended as an element"
						}
					}
				}
				key := "the text taken from the output buffer in " + fd.Name.Name + " is used before the buffer changes"
				if kept != "" && shared != "" {
					c.Check("R6b", key, p.Pos(call.Pos()), false, wire.Canon(call)+" is "+kept+" while it is a view of "+shared+": the next file formatted into that buffer overwrites the text kept for this one, and the file written later is not the file that was formatted")
				} else {
					c.Check("R6b", key, p.Pos(call.Pos()), true, "")
				}
				return true
			})
		}
	}
	c.Count("buffer_views_taken", nBytes)
	// R6c: a buffer that outlives the call (package-level) and is handed to the
	// library to write into is emptied before that, on every way there: a Reset
	// after use is skipped by every early return in between, and the next file
	// is then appended to what the last one left
	for _, pk := range p.All {
		if !strings.HasPrefix(pk.PkgPath, load.Mod+"/main/") {
			continue
		}
		info := pk.TypesInfo
		var fds []*ast.FuncDecl
		for fn, fd := range p.AllDecls() {
			if p.Owner(fn) == pk && fd.Body != nil {
				fds = append(fds, fd)
			}
		}
		sort.Slice(fds, func(i, j int) bool { return fds[i].Pos() < fds[j].Pos() })
		for _, fd := range fds {
			sharedBuf := func(e ast.Expr) *types.Var {
				e = ast.Unparen(e)
				if u, ok := e.(*ast.UnaryExpr); ok && u.Op == token.AND {
					e = ast.Unparen(u.X)
				}
				id, ok := e.(*ast.Ident)
				if !ok {
					return nil
				}
				v, ok := info.ObjectOf(id).(*types.Var)
				if !ok || !strings.HasSuffix(strings.TrimPrefix(v.Type().String(), "*"), "bytes.Buffer") {
					return nil
				}
				if v.Parent() == pk.Types.Scope() {
					return v
				}
				// a local alias of a package-level buffer
				var root *types.Var
				ast.Inspect(fd.Body, func(k ast.Node) bool {
					if as, ok := k.(*ast.AssignStmt); ok && len(as.Lhs) == len(as.Rhs) {
						for i, l := range as.Lhs {
							if lid, ok := ast.Unparen(l).(*ast.Ident); ok && info.ObjectOf(lid) == types.Object(v) {
								r := ast.Unparen(as.Rhs[i])
								if u, ok := r.(*ast.UnaryExpr); ok && u.Op == token.AND {
									r = ast.Unparen(u.X)
								}
								if rid, ok := r.(*ast.Ident); ok {
									if rv, ok := info.ObjectOf(rid).(*types.Var); ok && rv.Parent() == pk.Types.Scope() {
										root = rv
									}
								}
							}
						}
					}
					return true
				})
				return root
			}
			ast.Inspect(fd.Body, func(n ast.Node) bool {
				call, ok := n.(*ast.CallExpr)
				if !ok {
					return true
				}
				callee := load.Callee(info, call)
				if callee == nil || callee.Pkg() == nil || callee.Pkg().Path() != load.Mod {
					return true
				}
				for _, a := range call.Args {
					buf := sharedBuf(a)
					if buf == nil {
						continue
					}
					// a Reset of that buffer among the top-level statements of the
					// function ahead of the call
					reset := false
					for _, st := range fd.Body.List {
						if st.Pos() >= call.Pos() {
							break
						}
						if es, ok := st.(*ast.ExprStmt); ok {
							if rc, ok := es.X.(*ast.CallExpr); ok {
								if sel, ok := ast.Unparen(rc.Fun).(*ast.SelectorExpr); ok && sel.Sel.Name == "Reset" && sharedBuf(sel.X) == buf {
									reset = true
								}
							}
						}
					}
					c.Check("R6c", "a buffer shared between files is emptied before "+fd.Name.Name+" fills it", p.Pos(call.Pos()), reset,
						load.FuncName(callee)+" writes into the package-level buffer "+buf.Name()+", which no statement on the way from the start of "+fd.Name.Name+" empties: whatever an earlier file left there (a Reset after use is skipped by every early return) is written out again in front of this file's text")
				}
				return true
			})
		}
	}
	// R4 fact
	if pk := p.Pkgs[load.Mod+"/main/bebopfmt"]; pk != nil {
		if fd := p.FuncDecl(pk, "formatFile"); fd != nil {
			n := 0
			for _, d := range declClosure(p, pk, fd, 2) {
				ast.Inspect(d.Body, func(m ast.Node) bool {
					if call, ok := m.(*ast.CallExpr); ok && wire.Canon(call.Fun) == "bebop.ReadFile" {
						n++
					}
					return true
				})
			}
			c.Notes["bebopfmt_reparses_output_before_replacing"] = n >= 2
			// the parse that guards the file is a parse of the *input*: where
			// ReadFile and Format are called from one function, a ReadFile
			// precedes the Format call. Format stops at what the tokenizer
			// refuses and writes what it had: its output can parse where the
			// input does not, so a parse of the output alone lets a truncated
			// schema replace the file.
			inputFirst, sameFn := false, false
			for _, d := range declClosure(p, pk, fd, 2) {
				var reads []token.Pos
				var format token.Pos
				ast.Inspect(d.Body, func(m ast.Node) bool {
					if call, ok := m.(*ast.CallExpr); ok {
						switch wire.Canon(call.Fun) {
						case "bebop.ReadFile":
							reads = append(reads, call.Pos())
						case "bebop.Format":
							if format == 0 {
								format = call.Pos()
							}
						}
					}
					return true
				})
				if format != 0 && len(reads) > 0 {
					sameFn = true
					for _, r := range reads {
						if r < format {
							inputFirst = true
						}
					}
				}
			}
			c.Check("R4", "bebopfmt parses the input before formatting it", p.Pos(fd.Pos()), n >= 1 && (!sameFn || inputFirst),
				"no bebop.ReadFile precedes bebop.Format: formatting a file that does not parse would write garbage over it, and a parse of the formatted output alone does not help — Format stops at the first byte the tokenizer refuses and what it wrote until then can parse")
		}
	}
}

func isOsFile(t types.Type) bool {
	return t != nil && strings.HasSuffix(t.String(), "os.File")
}

// errNilTest matches `v != nil` where v is a variable of type error.
func errNilTest(info *types.Info, e ast.Expr) (types.Object, bool) {
	b, ok := ast.Unparen(e).(*ast.BinaryExpr)
	if !ok || b.Op != token.NEQ || wire.Canon(b.Y) != "nil" {
		return nil, false
	}
	id, ok := ast.Unparen(b.X).(*ast.Ident)
	if !ok {
		return nil, false
	}
	obj := info.ObjectOf(id)
	if obj == nil || !isErrorType(obj.Type()) {
		return nil, false
	}
	return obj, true
}

// errorArmsReturn: every `if v != nil` arm on an error variable ends in a
// return of a non-nil error. The one other accepted idiom is the accumulating
// one (gofmt style): the arm stores a non-nil value into a flag/first-error
// variable that is written nowhere outside such arms (it can never be cleared
// or overwritten by a later success) and the function later returns an error
// under a test of that variable.
func errorArmsReturn(c *core.Ctx, p *load.Prog, info *types.Info, fd *ast.FuncDecl, name string) {
	// variables assigned only inside error arms
	type span struct{ from, to token.Pos }
	var arms []span
	ast.Inspect(fd.Body, func(n ast.Node) bool {
		if ifs, ok := n.(*ast.IfStmt); ok {
			if _, is := errNilTest(info, ifs.Cond); is {
				arms = append(arms, span{ifs.Body.Pos(), ifs.Body.End()})
			}
		}
		return true
	})
	inArm := func(pos token.Pos) bool {
		for _, a := range arms {
			if a.from <= pos && pos < a.to {
				return true
			}
		}
		return false
	}
	sticky := func(obj types.Object) bool {
		ok := true
		ast.Inspect(fd.Body, func(n ast.Node) bool {
			switch x := n.(type) {
			case *ast.AssignStmt:
				for _, l := range x.Lhs {
					if id, is := l.(*ast.Ident); is && info.ObjectOf(id) == obj && x.Tok != token.DEFINE && !inArm(x.Pos()) {
						ok = false
					}
				}
			case *ast.IncDecStmt:
				if id, is := x.X.(*ast.Ident); is && info.ObjectOf(id) == obj && !inArm(x.Pos()) {
					ok = false
				}
			}
			return true
		})
		return ok
	}
	// does the function return a non-nil error under a test of obj after pos?
	reportedLater := func(obj types.Object, after token.Pos) bool {
		found := false
		for _, st := range fd.Body.List {
			ifs, ok := st.(*ast.IfStmt)
			if !ok || ifs.Pos() < after {
				continue
			}
			mentions := false
			ast.Inspect(ifs.Cond, func(n ast.Node) bool {
				if id, is := n.(*ast.Ident); is && info.ObjectOf(id) == obj {
					mentions = true
				}
				return true
			})
			if mentions && endsInReturn(ifs.Body) && !lastResultIsNil(ifs.Body.List[len(ifs.Body.List)-1].(*ast.ReturnStmt)) {
				found = true
			}
		}
		return found
	}
	ast.Inspect(fd.Body, func(n ast.Node) bool {
		// a deferred closure that cleans up when the named result is set is not an
		// arm that handles the error: the function is already returning it
		if _, isLit := n.(*ast.FuncLit); isLit {
			return false
		}
		ifs, ok := n.(*ast.IfStmt)
		if !ok {
			return true
		}
		v, ok := errNilTest(info, ifs.Cond)
		if !ok {
			return true
		}
		if endsInReturn(ifs.Body) {
			r := ifs.Body.List[len(ifs.Body.List)-1].(*ast.ReturnStmt)
			if lastResultIsNil(r) {
				c.Check("R3", name+" returns the error it detected", p.Pos(ifs.Pos()), false, "the arm for "+v.Name()+" != nil returns nil")
			}
			// no way out of the arm before that return: a nested `continue` or
			// `break` (print the error and carry on) leaves with the error unreported
			escape := token.NoPos
			var walk func(n ast.Node)
			walk = func(n ast.Node) {
				ast.Inspect(n, func(m ast.Node) bool {
					switch x := m.(type) {
					case *ast.FuncLit, *ast.ForStmt, *ast.RangeStmt:
						return false
					case *ast.SwitchStmt, *ast.SelectStmt, *ast.TypeSwitchStmt:
						// a break inside belongs to the switch; a continue does not
						ast.Inspect(x, func(k ast.Node) bool {
							switch y := k.(type) {
							case *ast.FuncLit, *ast.ForStmt, *ast.RangeStmt:
								return false
							case *ast.BranchStmt:
								if y.Tok == token.CONTINUE || y.Tok == token.GOTO {
									escape = y.Pos()
								}
							}
							return true
						})
						return false
					case *ast.BranchStmt:
						if x.Tok == token.CONTINUE || x.Tok == token.BREAK || x.Tok == token.GOTO {
							escape = x.Pos()
						}
					case *ast.ReturnStmt:
						if x != r && lastResultIsNil(x) {
							escape = x.Pos()
						}
					}
					return true
				})
			}
			walk(ifs.Body)
			if escape.IsValid() {
				c.Check("R3", name+" returns the error it detected (no way out of the error arm)", p.Pos(escape), false,
					"inside the arm for "+v.Name()+" != nil a nested statement leaves the arm without returning the error (continue/break/return nil): on that path the failure is printed at most and the tool exits 0")
			}
			return true
		}
		// accumulating idiom
		accepted := false
		for _, st := range ifs.Body.List {
			as, is := st.(*ast.AssignStmt)
			if !is || len(as.Lhs) != 1 || len(as.Rhs) != 1 || as.Tok == token.DEFINE {
				continue
			}
			id, is := as.Lhs[0].(*ast.Ident)
			if !is {
				continue
			}
			flag := info.ObjectOf(id)
			if flag == nil {
				continue
			}
			rhs := ast.Unparen(as.Rhs[0])
			nonZero := false
			if tv := info.Types[rhs]; tv.Value != nil {
				nonZero = tv.Value.String() != "false" && tv.Value.String() != "0"
			} else if rid, is := rhs.(*ast.Ident); is && info.ObjectOf(rid) == v {
				nonZero = true // the non-nil error itself
			}
			if nonZero && flag != v && sticky(flag) && reportedLater(flag, ifs.End()) {
				accepted = true
			}
		}
		c.Check("R3", name+" returns the error it detected", p.Pos(ifs.Pos()), accepted,
			"the arm for "+v.Name()+" != nil neither returns the failure nor records it in a variable that is only ever set on failure and is turned into an error return later: the failure is printed at most, can be overwritten by the next file, and the tool exits 0")
		return true
	})
}

// mainExitsOnRunError: `v := run()` followed by an `if v != nil` arm that
// calls os.Exit with a non-zero constant.
func mainExitsOnRunError(info *types.Info, fd *ast.FuncDecl) bool {
	var runErr types.Object
	ok := false
	for _, st := range fd.Body.List {
		switch x := st.(type) {
		case *ast.AssignStmt:
			if len(x.Lhs) == 1 && len(x.Rhs) == 1 {
				if call, is := x.Rhs[0].(*ast.CallExpr); is && wire.Canon(call.Fun) == "run" {
					if id, is := x.Lhs[0].(*ast.Ident); is {
						runErr = info.ObjectOf(id)
					}
				}
			}
		case *ast.IfStmt:
			// also `if v := run(); v != nil`
			if as, is := x.Init.(*ast.AssignStmt); is && len(as.Lhs) == 1 && len(as.Rhs) == 1 {
				if call, is := as.Rhs[0].(*ast.CallExpr); is && wire.Canon(call.Fun) == "run" {
					if id, is := as.Lhs[0].(*ast.Ident); is {
						runErr = info.ObjectOf(id)
					}
				}
			}
			if v, is := errNilTest(info, x.Cond); is && v == runErr && runErr != nil {
				if containsCall(x.Body, func(call *ast.CallExpr) bool {
					if wire.Canon(call.Fun) != "os.Exit" || len(call.Args) != 1 {
						return false
					}
					tv := info.Types[call.Args[0]]
					return tv.Value != nil && tv.Value.String() != "0"
				}) {
					ok = true
				}
			}
		}
	}
	return ok
}

// exitStatusFunc: main is `os.Exit(f(...))` with f a function of the same
// package that returns an int.
func exitStatusFunc(info *types.Info, fd *ast.FuncDecl) *types.Func {
	var out *types.Func
	ast.Inspect(fd.Body, func(n ast.Node) bool {
		call, ok := n.(*ast.CallExpr)
		if !ok || wire.Canon(call.Fun) != "os.Exit" || len(call.Args) != 1 {
			return true
		}
		inner, ok := ast.Unparen(call.Args[0]).(*ast.CallExpr)
		if !ok {
			return true
		}
		if cal := load.Callee(info, inner); cal != nil {
			if sig, ok := cal.Type().(*types.Signature); ok && sig.Results().Len() == 1 {
				if b, ok := sig.Results().At(0).Type().Underlying().(*types.Basic); ok && b.Info()&types.IsInteger != 0 {
					out = cal
				}
			}
		}
		return true
	})
	return out
}

// statusOnErrorArms: in a function that returns the exit status, no arm that
// tests an error for != nil returns 0 (a failure reported as success), and at
// least one returns a non-zero status.
func statusOnErrorArms(info *types.Info, fd *ast.FuncDecl) (bool, string) {
	ok, why := true, ""
	nonZeroOnError := 0
	var walk func(n ast.Node, inErrArm bool)
	walk = func(n ast.Node, inErrArm bool) {
		ast.Inspect(n, func(m ast.Node) bool {
			switch x := m.(type) {
			case *ast.FuncLit:
				return false
			case *ast.IfStmt:
				if _, is := errNilTest(info, x.Cond); is {
					if x.Init != nil {
						walk(x.Init, inErrArm)
					}
					walk(x.Body, true)
					if x.Else != nil {
						walk(x.Else, inErrArm)
					}
					return false
				}
			case *ast.ReturnStmt:
				if len(x.Results) != 1 {
					return true
				}
				tv := info.Types[x.Results[0]]
				if tv.Value == nil {
					if why == "" {
						why = "computed"
					}
					return true
				}
				zero := tv.Value.String() == "0"
				if inErrArm && zero {
					ok = false
					why = "returns 0 on an arm where an error was detected: the failure is reported as success"
				}
				if inErrArm && !zero {
					nonZeroOnError++
				}
			}
			return true
		})
	}
	walk(fd.Body, false)
	if why == "computed" {
		return false, why
	}
	if ok && nonZeroOnError == 0 {
		return false, "returns a non-zero status on no arm that detected an error"
	}
	return ok, why
}

// exitOnlyOnError: os.Exit with a non-zero constant appears only inside an
// arm that tests an error variable for != nil, and os.Exit(0) never there.
func exitOnlyOnError(info *types.Info, fd *ast.FuncDecl) bool {
	ok := true
	var walk func(n ast.Node, inErrArm bool)
	walk = func(n ast.Node, inErrArm bool) {
		ast.Inspect(n, func(m ast.Node) bool {
			switch x := m.(type) {
			case *ast.IfStmt:
				if _, is := errNilTest(info, x.Cond); is {
					if x.Init != nil {
						walk(x.Init, inErrArm)
					}
					walk(x.Body, true)
					if x.Else != nil {
						walk(x.Else, inErrArm)
					}
					return false
				}
			case *ast.CallExpr:
				if wire.Canon(x.Fun) == "os.Exit" && len(x.Args) == 1 {
					tv := info.Types[x.Args[0]]
					zero := tv.Value != nil && tv.Value.String() == "0"
					if zero == inErrArm {
						ok = false
					}
				}
			}
			return true
		})
	}
	walk(fd.Body, false)
	return ok
}

// failingTail: the call is an expression statement of a block whose next
// return statement (in the same block) yields a non-nil error.
func failingTail(fd *ast.FuncDecl, call *ast.CallExpr) bool {
	res := false
	ast.Inspect(fd.Body, func(n ast.Node) bool {
		var list []ast.Stmt
		switch x := n.(type) {
		case *ast.BlockStmt:
			list = x.List
		case *ast.CaseClause:
			list = x.Body
		default:
			return true
		}
		for i, st := range list {
			es, ok := st.(*ast.ExprStmt)
			if !ok || es.X != ast.Expr(call) {
				continue
			}
			for _, later := range list[i+1:] {
				if r, ok := later.(*ast.ReturnStmt); ok {
					res = len(r.Results) > 0 && !lastResultIsNil(r)
					break
				}
			}
		}
		return true
	})
	return res
}
