package rules

import (
	"encoding/json"
	"fmt"
	"os"
	"path/filepath"
	"sort"
	"strings"

	"bebopverif/internal/geneval"
	"bebopverif/internal/load"
)

// Calib compares the static evaluator's rendering of File.Generate with dumps
// of the real generator (made by calib/dump, development only).
func Calib(repo, dir string) int {
	p, err := load.Load(repo, "")
	if err != nil {
		fmt.Println("load:", err)
		return 2
	}
	in := geneval.New(p)
	b, err := geneval.NewBuilder(in)
	if err != nil {
		fmt.Println(err)
		return 2
	}
	js, _ := filepath.Glob(filepath.Join(dir, "*.json"))
	sort.Strings(js)
	bad, good := 0, 0
	opts := geneval.AllOptions()
	for _, jf := range js {
		raw, _ := os.ReadFile(jf)
		var j interface{}
		json.Unmarshal(raw, &j)
		name := strings.TrimSuffix(filepath.Base(jf), ".json")
		for i, o := range opts {
			in.Fuel = 50_000_000
			f := b.FileFromJSON(j)
			text, gerr, err := b.GenerateFile(f, o)
			want, _ := os.ReadFile(filepath.Join(dir, fmt.Sprintf("%s.%d.go.txt", name, i)))
			wantErr, _ := os.ReadFile(filepath.Join(dir, fmt.Sprintf("%s.%d.err.txt", name, i)))
			if err != nil {
				fmt.Printf("EVALERR %s opts=%s: %v\n", name, o, err)
				bad++
				continue
			}
			if text != string(want) || gerr != string(wantErr) {
				bad++
				fmt.Printf("DIFF %s opts=%s (err %q vs %q)\n", name, o, gerr, string(wantErr))
				a := strings.Split(text, "\n")
				w := strings.Split(string(want), "\n")
				for k := 0; k < len(a) && k < len(w); k++ {
					if a[k] != w[k] {
						fmt.Printf("  line %d:\n   got  %q\n   want %q\n", k+1, a[k], w[k])
						break
					}
				}
				continue
			}
			good++
		}
	}
	fmt.Printf("calib: %d identical, %d different\n", good, bad)
	if bad > 0 {
		return 1
	}
	return 0
}
