// Package rules holds the per-property static rules (DESIGN.md §3).
package rules

import (
	"bebopverif/internal/core"
)

type checkFn func(*core.Ctx)

var registry = map[string]checkFn{}

func register(id string, fn checkFn) { registry[id] = fn }

func Lookup(id string) checkFn { return registry[id] }

func IDs() []string {
	var out []string
	for k := range registry {
		out = append(out, k)
	}
	return out
}
