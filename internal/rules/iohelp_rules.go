package rules

import (
	"fmt"
	"go/ast"
	"go/token"
	"go/types"
	"os"
	"path/filepath"
	"sort"
	"strings"

	"bebopverif/internal/core"
	"bebopverif/internal/genfacts"
	"bebopverif/internal/load"
	"bebopverif/internal/wire"

	gocfg "golang.org/x/tools/go/cfg"
)

// goTypeOfStem is the Go type each iohelp stem must move, per the wire spec.
var goTypeOfStem = map[string]string{
	"Bool": "bool", "Byte": "byte", "Uint8": "uint8", "Uint16": "uint16", "Int16": "int16", "Uint32": "uint32", "Int32": "int32",
	"Uint64": "uint64", "Int64": "int64", "Float32": "float32", "Float64": "float64", "GUID": "[16]byte", "Date": "time.Time",
}

var stemWidth = map[string]int{
	"Bool": 1, "Byte": 1, "Uint8": 1, "Uint16": 2, "Int16": 2, "Uint32": 4, "Int32": 4,
	"Uint64": 8, "Int64": 8, "Float32": 4, "Float64": 8, "GUID": 16, "Date": 8,
}

var castStems = []string{"Uint16", "Int16", "Uint32", "Int32", "Uint64", "Int64"}

// specGUIDOrder is the .NET mixed-endian field order of the wire format.
var specGUIDOrder = [16]int{3, 2, 1, 0, 5, 4, 7, 6, 8, 9, 10, 11, 12, 13, 14, 15}

type ioFn struct {
	p      *load.Prog
	info   *types.Info
	fd     *ast.FuncDecl
	name   string
	ren    map[string]string
	clos   []*ioFn
	arrLen int
}

func ioFunc(c *core.Ctx, p *load.Prog, name string) *ioFn {
	pk := p.Iohelp()
	fd := p.FuncDecl(pk, name)
	if fd == nil || fd.Body == nil {
		c.Undecide("iohelp.%s not found (frozen anchor moved)", name)
		return nil
	}
	return &ioFn{p: p, info: pk.TypesInfo, fd: fd, name: name}
}

func (f *ioFn) pos() string { return f.p.Pos(f.fd.Pos()) + " (iohelp." + f.name + ")" }

// renames maps the receiver and parameter names of the function to the names
// the rules below are written against, by role (type), so that a renamed
// parameter changes nothing: receiver of ErrorReader/ErrorWriter methods =
// er/ew; a *ErrorReader / *ErrorWriter parameter = r / w; a []byte parameter =
// buf in the ...Bytes helpers and b elsewhere.
func (f *ioFn) renames() map[string]string {
	if f.ren != nil {
		return f.ren
	}
	f.ren = map[string]string{}
	role := func(id *ast.Ident, recv bool) {
		o := f.info.ObjectOf(id)
		if o == nil || id.Name == "_" {
			return
		}
		t := o.Type().String()
		want := ""
		switch {
		case strings.HasSuffix(t, "iohelp.ErrorReader"):
			want = "r"
			if recv {
				want = "er"
			}
		case strings.HasSuffix(t, "iohelp.ErrorWriter"):
			want = "w"
			if recv {
				want = "ew"
			}
		case t == "[]byte" && !recv:
			// the methods of the wrappers call it b, every plain helper buf
			want = "buf"
			if f.fd.Recv != nil {
				want = "b"
			}
		}
		if want != "" && want != id.Name {
			if _, dup := f.ren[id.Name]; !dup {
				f.ren[id.Name] = want
			}
		}
	}
	if f.fd.Recv != nil {
		for _, fl := range f.fd.Recv.List {
			for _, n := range fl.Names {
				role(n, true)
			}
		}
	}
	seenBytes := false
	for _, fl := range f.fd.Type.Params.List {
		for _, n := range fl.Names {
			if o := f.info.ObjectOf(n); o != nil && o.Type().String() == "[]byte" {
				if seenBytes {
					continue
				}
				seenBytes = true
			}
			role(n, false)
		}
	}
	return f.ren
}

// canon renders an expression like wire.Canon, with the function's receiver
// and parameters spelled by role.
func (f *ioFn) canon(e ast.Expr) string { return f.renameWords(wire.Canon(e)) }

// text is the whitespace-normalised source of the body under the same renaming.
func (f *ioFn) text() string {
	return f.renameWords(strings.Join(strings.Fields(srcOf(f.p, f.fd.Body)), " "))
}

func (f *ioFn) renameWords(s string) string {
	ren := f.renames()
	if len(ren) == 0 {
		return s
	}
	var b strings.Builder
	i := 0
	for i < len(s) {
		c := s[i]
		if c == '_' || (c >= 'a' && c <= 'z') || (c >= 'A' && c <= 'Z') {
			j := i
			for j < len(s) && (s[j] == '_' || (s[j] >= 'a' && s[j] <= 'z') || (s[j] >= 'A' && s[j] <= 'Z') || (s[j] >= '0' && s[j] <= '9')) {
				j++
			}
			w := s[i:j]
			// a selector's field name (preceded by '.') is never a parameter
			if to, ok := ren[w]; ok && (i == 0 || s[i-1] != '.') {
				w = to
			}
			b.WriteString(w)
			i = j
			continue
		}
		b.WriteByte(c)
		i++
	}
	return b.String()
}

// probes returns N for every `_ = x[N]` in the function.
func (f *ioFn) probes() []int {
	var out []int
	ast.Inspect(f.fd.Body, func(n ast.Node) bool {
		as, ok := n.(*ast.AssignStmt)
		if !ok || len(as.Lhs) != 1 || len(as.Rhs) != 1 {
			return true
		}
		if id, ok := as.Lhs[0].(*ast.Ident); !ok || id.Name != "_" {
			return true
		}
		if ix, ok := as.Rhs[0].(*ast.IndexExpr); ok {
			if tv := f.info.Types[ix.Index]; tv.Value != nil {
				var n int
				fmt.Sscanf(tv.Value.ExactString(), "%d", &n)
				out = append(out, n)
			}
		}
		return true
	})
	return out
}

// unsafeCasts returns the pointee types of *(*T)(unsafe.Pointer(&x[0])) and
// the index used.
func (f *ioFn) unsafeCasts() (pointees []types.Type, indexZero bool) {
	indexZero = true
	ast.Inspect(f.fd.Body, func(n ast.Node) bool {
		st, ok := n.(*ast.StarExpr)
		if !ok {
			return true
		}
		call, ok := ast.Unparen(st.X).(*ast.CallExpr)
		if !ok || len(call.Args) != 1 {
			return true
		}
		tv, ok := f.info.Types[call.Fun]
		if !ok || !tv.IsType() {
			return true
		}
		pt, ok := tv.Type.(*types.Pointer)
		if !ok {
			return true
		}
		inner, ok := ast.Unparen(call.Args[0]).(*ast.CallExpr)
		if !ok || f.canon(inner.Fun) != "unsafe.Pointer" || len(inner.Args) != 1 {
			return true
		}
		pointees = append(pointees, pt.Elem())
		if u, ok := ast.Unparen(inner.Args[0]).(*ast.UnaryExpr); ok && u.Op == token.AND {
			if ix, ok := ast.Unparen(u.X).(*ast.IndexExpr); ok {
				if tv := f.info.Types[ix.Index]; tv.Value == nil || tv.Value.ExactString() != "0" {
					indexZero = false
				}
			}
		}
		return true
	})
	return
}

// byteOrderCalls finds the calls of encoding/binary's fixed-width accessors
// (UintW / PutUintW on littleEndian or bigEndian, also through a package-level
// variable holding one) in f and the helpers it calls: the byte order's type
// name, the width in bytes, whether the slice handed over is f's own first
// parameter from index 0, and how many such calls there are. An accessor
// called through the ByteOrder interface is reported as order "dynamic".
func (f *ioFn) byteOrderCalls() (order string, width int, ownBuf bool, n int) {
	ownBuf = true
	f.inspectAll(func(g *ioFn, nd ast.Node) bool {
		call, ok := nd.(*ast.CallExpr)
		if !ok {
			return true
		}
		sel, ok := ast.Unparen(call.Fun).(*ast.SelectorExpr)
		if !ok {
			return true
		}
		fn, ok := g.info.Uses[sel.Sel].(*types.Func)
		if !ok || fn.Pkg() == nil || fn.Pkg().Path() != "encoding/binary" {
			return true
		}
		w := map[string]int{"Uint16": 2, "Uint32": 4, "Uint64": 8, "PutUint16": 2, "PutUint32": 4, "PutUint64": 8}[fn.Name()]
		if w == 0 {
			return true
		}
		n++
		width = w
		order = "dynamic"
		if t := g.info.TypeOf(sel.X); t != nil {
			if nt, ok := t.(*types.Named); ok && (nt.Obj().Name() == "littleEndian" || nt.Obj().Name() == "bigEndian") {
				order = nt.Obj().Name()
			}
		}
		// the slice: f's first []byte parameter, whole or from index 0
		if g != f || len(call.Args) == 0 {
			ownBuf = false
			return true
		}
		arg := ast.Unparen(call.Args[0])
		if se, ok := arg.(*ast.SliceExpr); ok {
			if se.Low != nil {
				if k, isC := constInt(g.info, se.Low); !isC || k != 0 {
					ownBuf = false
				}
			}
			arg = ast.Unparen(se.X)
		}
		id, isId := arg.(*ast.Ident)
		var first types.Object
		if ps := g.fd.Type.Params; ps != nil && len(ps.List) > 0 && len(ps.List[0].Names) > 0 {
			first = g.info.Defs[ps.List[0].Names[0]]
		}
		if !isId || first == nil || g.info.ObjectOf(id) != first {
			ownBuf = false
		}
		return true
	})
	return
}

// isAliasOf: e is a local variable of f whose only definition is `x := <what>`
// (what in canonical spelling, e.g. "er.Reader").
func (f *ioFn) isAliasOf(e ast.Expr, what string) bool {
	id, ok := ast.Unparen(e).(*ast.Ident)
	if !ok {
		return false
	}
	o := f.info.ObjectOf(id)
	if o == nil {
		return false
	}
	defs, good := 0, 0
	ast.Inspect(f.fd.Body, func(n ast.Node) bool {
		switch x := n.(type) {
		case *ast.AssignStmt:
			for i, l := range x.Lhs {
				if lid, isId := ast.Unparen(l).(*ast.Ident); isId && f.info.ObjectOf(lid) == o {
					defs++
					if len(x.Lhs) == len(x.Rhs) && f.canon(x.Rhs[i]) == what {
						good++
					}
				}
			}
		case *ast.UnaryExpr:
			if x.Op == token.AND {
				if lid, isId := ast.Unparen(x.X).(*ast.Ident); isId && f.info.ObjectOf(lid) == o {
					defs += 2
				}
			}
		}
		return true
	})
	return defs == 1 && good == 1
}

// fillsByLoop: f fills its []byte parameter b from the stream with a loop in
// one of three shapes
//
//	A  for n < len(b)   { got, err := S.Read(b[n:]);        n += got;       … }
//	B  for m > 0        { got, err := S.Read(b[len(b)-m:]); m -= got;       … }   (m := len(b))
//	C  for len(r) > 0   { got, err := S.Read(r);            r = r[got:];    … }   (r := b)
//
// whose only exits besides the condition are returns and breaks under the
// "full" test of its shape (n >= len(b), m <= 0, len(r) == 0). unsure: a loop
// of that kind is there but has another way out, the counter is written
// elsewhere, or the read does not start where the last one ended.
func (f *ioFn) fillsByLoop(stream, dst string) (ok, unsure bool) {
	lenDst := "len(" + dst + ")"
	ast.Inspect(f.fd.Body, func(nd ast.Node) bool {
		loop, isFor := nd.(*ast.ForStmt)
		if !isFor || loop.Cond == nil || ok {
			return true
		}
		be, isB := ast.Unparen(loop.Cond).(*ast.BinaryExpr)
		if !isB {
			return true
		}
		// the loop variable and the shape
		shape := ""
		var nv *ast.Ident
		switch {
		case be.Op == token.LSS && f.canon(be.Y) == lenDst:
			if id, isId := ast.Unparen(be.X).(*ast.Ident); isId {
				shape, nv = "A", id
			}
		case be.Op == token.GTR && f.canon(be.Y) == "0":
			if id, isId := ast.Unparen(be.X).(*ast.Ident); isId {
				shape, nv = "B", id
			} else if call, isC := ast.Unparen(be.X).(*ast.CallExpr); isC && len(call.Args) == 1 && f.canon(call.Fun) == "len" {
				if id, isId := ast.Unparen(call.Args[0]).(*ast.Ident); isId && f.canon(id) != dst {
					shape, nv = "C", id
				}
			}
		}
		if shape == "" {
			return true
		}
		nobj := f.info.ObjectOf(nv)
		isN := func(e ast.Expr) bool {
			id, ok := ast.Unparen(e).(*ast.Ident)
			return ok && f.info.ObjectOf(id) == nobj
		}
		// B and C start from the whole of b
		if shape != "A" {
			startOK := false
			ast.Inspect(f.fd.Body, func(k ast.Node) bool {
				if as, isAs := k.(*ast.AssignStmt); isAs && as.Pos() < loop.Pos() && len(as.Lhs) == len(as.Rhs) {
					for i, l := range as.Lhs {
						if isN(l) {
							want := lenDst
							if shape == "C" {
								want = dst
							}
							startOK = f.canon(as.Rhs[i]) == want
						}
					}
				}
				return true
			})
			if !startOK {
				return true
			}
		}
		readArgOK := func(arg ast.Expr) bool {
			arg = ast.Unparen(arg)
			switch shape {
			case "A":
				se, isSl := arg.(*ast.SliceExpr)
				return isSl && f.canon(se.X) == dst && se.Low != nil && isN(se.Low) && se.High == nil
			case "B":
				se, isSl := arg.(*ast.SliceExpr)
				if !isSl || f.canon(se.X) != dst || se.Low == nil || se.High != nil {
					return false
				}
				lo, isB := ast.Unparen(se.Low).(*ast.BinaryExpr)
				return isB && lo.Op == token.SUB && f.canon(lo.X) == lenDst && isN(lo.Y)
			case "C":
				return isN(arg)
			}
			return false
		}
		isFull := func(cnd ast.Expr) bool {
			c, isB := ast.Unparen(cnd).(*ast.BinaryExpr)
			if !isB {
				return false
			}
			switch shape {
			case "A":
				return (c.Op == token.GEQ || c.Op == token.EQL) && isN(c.X) && f.canon(c.Y) == lenDst
			case "B":
				return (c.Op == token.LEQ || c.Op == token.EQL) && isN(c.X) && f.canon(c.Y) == "0"
			case "C":
				if call, isC := ast.Unparen(c.X).(*ast.CallExpr); isC && len(call.Args) == 1 && f.canon(call.Fun) == "len" && isN(call.Args[0]) {
					return (c.Op == token.LEQ || c.Op == token.EQL) && f.canon(c.Y) == "0"
				}
			}
			return false
		}
		// a condition under which the loop is full: the full test itself or a
		// disjunction containing it is not enough (err == nil || full does not
		// imply full) — only the test alone, or a conjunction with it
		var impliesFull func(cnd ast.Expr) bool
		impliesFull = func(cnd ast.Expr) bool {
			if isFull(cnd) {
				return true
			}
			if c, isB := ast.Unparen(cnd).(*ast.BinaryExpr); isB && c.Op == token.LAND {
				return impliesFull(c.X) || impliesFull(c.Y)
			}
			return false
		}
		var got types.Object
		reads, adds, otherWrites := 0, 0, 0
		badExit := false
		var walk func(n ast.Node, underFull bool)
		walk = func(n ast.Node, underFull bool) {
			ast.Inspect(n, func(k ast.Node) bool {
				switch x := k.(type) {
				case *ast.FuncLit, *ast.ForStmt, *ast.RangeStmt, *ast.SwitchStmt, *ast.SelectStmt:
					if k != n {
						ast.Inspect(x, func(q ast.Node) bool {
							if as, isAs := q.(*ast.AssignStmt); isAs {
								for _, l := range as.Lhs {
									if isN(l) {
										otherWrites++
									}
								}
							}
							return true
						})
						return false
					}
				case *ast.IfStmt:
					if x.Init != nil {
						walk(x.Init, underFull)
					}
					walk(x.Body, underFull || impliesFull(x.Cond))
					if x.Else != nil {
						walk(x.Else, underFull)
					}
					return false
				case *ast.BranchStmt:
					if x.Tok == token.BREAK && !underFull || x.Tok == token.GOTO || x.Label != nil {
						badExit = true
					}
				case *ast.AssignStmt:
					if len(x.Rhs) == 1 && len(x.Lhs) == 2 {
						if call, isC := ast.Unparen(x.Rhs[0]).(*ast.CallExpr); isC && len(call.Args) == 1 {
							if sel, isSel := ast.Unparen(call.Fun).(*ast.SelectorExpr); isSel && sel.Sel.Name == "Read" && (f.canon(sel.X) == stream || f.isAliasOf(sel.X, stream)) {
								if readArgOK(call.Args[0]) {
									if gid, isId := x.Lhs[0].(*ast.Ident); isId {
										got = f.info.ObjectOf(gid)
										reads++
									}
								} else {
									badExit = true
								}
							}
						}
					}
					if len(x.Lhs) == 1 && len(x.Rhs) == 1 && isN(x.Lhs[0]) {
						isGot := func(e ast.Expr) bool {
							rid, isId := ast.Unparen(e).(*ast.Ident)
							return isId && got != nil && f.info.ObjectOf(rid) == got
						}
						okStep := false
						switch shape {
						case "A":
							okStep = x.Tok == token.ADD_ASSIGN && isGot(x.Rhs[0])
						case "B":
							okStep = x.Tok == token.SUB_ASSIGN && isGot(x.Rhs[0])
						case "C":
							if se, isSl := ast.Unparen(x.Rhs[0]).(*ast.SliceExpr); isSl && x.Tok == token.ASSIGN && isN(se.X) && se.Low != nil && isGot(se.Low) && se.High == nil {
								okStep = true
							}
						}
						if okStep {
							adds++
						} else {
							otherWrites++
						}
					}
				case *ast.IncDecStmt:
					if isN(x.X) {
						otherWrites++
					}
				}
				return true
			})
		}
		walk(loop.Body, false)
		if reads == 0 {
			return true
		}
		if reads == 1 && adds == 1 && otherWrites == 0 && !badExit {
			ok = true
		} else {
			unsure = true
		}
		return true
	})
	return ok, unsure && !ok
}

func (f *ioFn) calls() []*ast.CallExpr {
	var out []*ast.CallExpr
	ast.Inspect(f.fd.Body, func(n ast.Node) bool {
		if c, ok := n.(*ast.CallExpr); ok {
			out = append(out, c)
		}
		return true
	})
	return out
}

func (f *ioFn) paramType(i int) types.Type {
	sig := f.info.Defs[f.fd.Name].Type().(*types.Signature)
	if i < sig.Params().Len() {
		return sig.Params().At(i).Type()
	}
	return nil
}

func (f *ioFn) resultType() types.Type {
	sig := f.info.Defs[f.fd.Name].Type().(*types.Signature)
	if sig.Results().Len() > 0 {
		return sig.Results().At(0).Type()
	}
	return nil
}

func sizeofType(p *load.Prog, t types.Type) int64 {
	return p.Iohelp().TypesSizes.Sizeof(t)
}

// iohelpLayoutRules: scalar layout (width triple agreement, same type both
// ways), GUID permutation tables, date constant, no per-platform variants.
func iohelpLayoutRules(c *core.Ctx, p *load.Prog, rWidth, rGUID, rBuild string) {
	n := 0
	for _, stem := range castStems {
		w := stemWidth[stem]
		gt := goTypeOfStem[stem]
		rd := ioFunc(c, p, "Read"+stem+"Bytes")
		wr := ioFunc(c, p, "Write"+stem+"Bytes")
		if rd == nil || wr == nil {
			continue
		}
		for _, f := range []*ioFn{rd, wr} {
			n++
			// the same layout through encoding/binary: LittleEndian.UintW(buf) /
			// PutUintW(buf, v) check the slice themselves and move W/8 bytes,
			// least significant first, on every platform
			if ord, width, buf0, nCalls := f.byteOrderCalls(); nCalls > 0 {
				if pts, _, _ := f.instCasts(); len(pts) > 0 || nCalls != 1 || !buf0 {
					c.Undecide("iohelp.%s mixes encoding/binary calls with other accesses, or does not hand them its own slice from index 0", f.name)
					continue
				}
				c.Check(rWidth, f.name+" bounds probe covers the width", f.pos(), width == w, fmt.Sprintf("encoding/binary moves %d bytes, the wire type %s is %d", width, stem, w))
				c.Check(rWidth, f.name+" moves exactly "+gt, f.pos(), ord == "littleEndian" && width == w, fmt.Sprintf("encoding/binary.%s moving %d bytes; the wire type %s is %d bytes, least significant byte first", ord, width, stem, w))
				continue
			}
			pr, unkP := f.instProbes()
			pts, zero, unkC := f.instCasts()
			if unkP || unkC {
				c.Undecide("iohelp.%s: a bounds probe or an unsafe cast in a helper it calls could not be evaluated under the instantiation at the call", f.name)
				continue
			}
			okProbe := len(pr) >= 1
			for _, x := range pr {
				if x+1 < w {
					okProbe = false
				}
			}
			c.Check(rWidth, f.name+" bounds probe covers the width", f.pos(), okProbe, fmt.Sprintf("bounds probes %v, need index >= %d before a %d-byte unsafe access", pr, w-1, w))
			okCast := len(pts) == 1 && zero
			if okCast {
				okCast = sizeofType(p, pts[0]) == int64(w) && pts[0].String() == gt
			}
			desc := "none"
			if len(pts) > 0 {
				desc = pts[0].String()
			}
			c.Check(rWidth, f.name+" moves exactly "+gt, f.pos(), okCast, fmt.Sprintf("unsafe access through *%s at index-zero=%v; the wire type %s is %d bytes of %s", desc, zero, stem, w, gt))
		}
		okSig := rd.resultType() != nil && rd.resultType().String() == gt && wr.paramType(1) != nil && wr.paramType(1).String() == gt
		c.Check(rWidth, "Read/Write"+stem+"Bytes use the same Go type", rd.pos(), okSig, fmt.Sprintf("reader returns %v, writer takes %v, spec says %s", rd.resultType(), wr.paramType(1), gt))
	}
	// one-byte types
	for _, stem := range []string{"Bool", "Byte", "Uint8"} {
		for _, dir := range []string{"Read", "Write"} {
			f := ioFunc(c, p, dir+stem+"Bytes")
			if f == nil {
				continue
			}
			n++
			ok := true
			idx := 0
			f.inspectAll(func(g *ioFn, nd ast.Node) bool {
				if ix, is := nd.(*ast.IndexExpr); is {
					if t := g.info.TypeOf(ix.X); t == nil || t.String() != "[]byte" {
						return true
					}
					idx++
					if tv := g.info.Types[ix.Index]; tv.Value == nil || tv.Value.ExactString() != "0" {
						ok = false
					}
				}
				return true
			})
			c.Check(rWidth, f.name+" touches only byte 0", f.pos(), ok && idx >= 1, "a one-byte wire type must read/write index 0 only")
			if stem == "Bool" && dir == "Read" {
				okb := false
				f.inspectAll(func(g *ioFn, nd ast.Node) bool {
					if be, is := nd.(*ast.BinaryExpr); is {
						if ix, isIx := ast.Unparen(be.X).(*ast.IndexExpr); isIx {
							i0, ok0 := constInt(g.info, ix.Index)
							v, okv := constInt(g.info, be.Y)
							if ok0 && okv && i0 == 0 && ((be.Op == token.EQL && v == 1) || (be.Op == token.NEQ && v == 0)) {
								okb = true
							}
						}
					}
					return true
				})
				c.Check(rWidth, f.name+" decodes 1 as true", f.pos(), okb, "bool decode must test byte 0 against 1 (or non-zero)")
			}
			if stem == "Bool" && dir == "Write" {
				okw := boolToByteOK(f)
				c.Check(rWidth, f.name+" encodes true as 1 and false as 0", f.pos(), okw, "WriteBoolBytes (or the helper it calls) must produce 1 on the true arm and 0 on the false arm")
			}
		}
	}
	// floats go through the integer of the same width and math.FloatNbits
	for _, fl := range []struct{ stem, via, to, from string }{{"Float32", "Uint32", "math.Float32bits", "math.Float32frombits"}, {"Float64", "Uint64", "math.Float64bits", "math.Float64frombits"}} {
		for _, variant := range []string{"Bytes", ""} {
			rd := ioFunc(c, p, "Read"+fl.stem+variant)
			wr := ioFunc(c, p, "Write"+fl.stem+variant)
			if rd == nil || wr == nil {
				continue
			}
			n += 2
			okr, okw := false, false
			for _, call := range rd.calls() {
				if wire.Canon(call.Fun) == fl.from && len(call.Args) == 1 {
					if in, ok := ast.Unparen(call.Args[0]).(*ast.CallExpr); ok && wire.Canon(in.Fun) == "Read"+fl.via+variant {
						okr = true
					}
				}
			}
			for _, call := range wr.calls() {
				if wire.Canon(call.Fun) == "Write"+fl.via+variant {
					for _, a := range call.Args {
						if in, ok := ast.Unparen(a).(*ast.CallExpr); ok && wire.Canon(in.Fun) == fl.to {
							okw = true
						}
					}
				}
			}
			c.Check(rWidth, rd.name+" = "+fl.from+"(Read"+fl.via+variant+")", rd.pos(), okr, "the float must be rebuilt from the bits of the same-width integer read")
			c.Check(rWidth, wr.name+" = Write"+fl.via+variant+"("+fl.to+")", wr.pos(), okw, "the float must be written as the bits of the same-width integer")
		}
	}
	// date: ticks * 100, tick 0 <-> zero time
	if f := ioFunc(c, p, "ReadDateBytes"); f != nil {
		n++
		mul := 0
		for _, g := range f.closure() {
			if m := dateMultiplier(g); m != 0 && mul == 0 {
				mul = m
			}
		}
		reads64, unix0, utc, zeroTest, zeroTime := false, false, false, false, false
		f.inspectAll(func(_ *ioFn, nd ast.Node) bool {
			switch x := nd.(type) {
			case *ast.CallExpr:
				fn := wire.Canon(x.Fun)
				if fn == "ReadInt64Bytes" {
					reads64 = true
				}
				if fn == "time.Unix" && len(x.Args) == 2 {
					if v, ok := constInt(f.info, x.Args[0]); ok && v == 0 {
						unix0 = true
					}
				}
				if sel, ok := x.Fun.(*ast.SelectorExpr); ok && sel.Sel.Name == "UTC" && len(x.Args) == 0 {
					utc = true
				}
			case *ast.BinaryExpr:
				if v, ok := constInt(f.info, x.Y); ok && v == 0 && (x.Op == token.EQL || x.Op == token.NEQ) {
					zeroTest = true
				}
			case *ast.CompositeLit:
				if wire.Canon(x.Type) == "time.Time" && len(x.Elts) == 0 {
					zeroTime = true
				}
			}
			return true
		})
		c.Check(rWidth, "ReadDateBytes scales ticks by 100", f.pos(), mul == 100 && reads64, fmt.Sprintf("multiplier found: %d, ticks read as int64: %v; the wire format counts 100ns ticks", mul, reads64))
		c.Check(rWidth, "ReadDateBytes maps tick 0 to the zero time", f.pos(), zeroTest && zeroTime, "no `== 0` test returning time.Time{}")
		c.Check(rWidth, "ReadDateBytes yields UTC", f.pos(), unix0 && utc, "the time must be built with time.Unix(0, nanos).UTC()")
	}
	if f := ioFunc(c, p, "ReadDate"); f != nil {
		okd := false
		for _, call := range f.calls() {
			if f.canon(call) == "ReadDateBytes(r.buffer)" {
				okd = true
			}
		}
		// or: both readers apply one conversion to the int64 they read
		if !okd {
			if fb := ioFunc(c, p, "ReadDateBytes"); fb != nil {
				conv := func(g *ioFn, inner string) string {
					for _, call := range g.calls() {
						if len(call.Args) == 1 {
							if in, ok := ast.Unparen(call.Args[0]).(*ast.CallExpr); ok && wire.Canon(in.Fun) == inner {
								return wire.Canon(call.Fun)
							}
						}
					}
					return ""
				}
				a, b := conv(f, "ReadInt64"), conv(fb, "ReadInt64Bytes")
				okd = a != "" && a == b
			}
		}
		if !okd && f.callsThroughParam("ReadDateBytes", "buffer", 0) {
			okd = true
		}
		c.Check(rWidth, "ReadDate = ReadDateBytes(scratch)", f.pos(), okd, "ReadDate neither decodes the scratch with ReadDateBytes nor applies the conversion ReadDateBytes applies to the int64 it reads")
	}
	// a date writer in iohelp (the generator's templates inline the conversion
	// today; if a helper is introduced it is held to the same formula the
	// signature reader demands of the inline form): ticks = UnixNano()/100, the
	// zero time is 0 — the inverse of ReadDateBytes' time.Unix(0, ticks*100)
	for _, name := range []string{"WriteDate", "WriteDateBytes"} {
		fd := p.FuncDecl(p.Iohelp(), name)
		if fd == nil || fd.Body == nil {
			continue
		}
		f := &ioFn{p: p, info: p.Iohelp().TypesInfo, fd: fd, name: name}
		n++
		unixNano, div100, zero := false, false, false
		var other []string
		f.inspectAll(func(g *ioFn, nd ast.Node) bool {
			switch x := nd.(type) {
			case *ast.CallExpr:
				if sel, ok := x.Fun.(*ast.SelectorExpr); ok {
					if t := g.info.TypeOf(sel.X); t != nil && t.String() == "time.Time" {
						switch sel.Sel.Name {
						case "UnixNano":
							unixNano = true
						case "IsZero":
							zero = true
						default:
							other = append(other, sel.Sel.Name)
						}
					}
				}
			case *ast.BinaryExpr:
				if x.Op == token.QUO {
					if v, ok := constInt(g.info, x.Y); ok && v == 100 {
						if call, isC := ast.Unparen(x.X).(*ast.CallExpr); isC {
							if sel, isS := call.Fun.(*ast.SelectorExpr); isS && sel.Sel.Name == "UnixNano" {
								div100 = true
							}
						}
					}
				}
			}
			return true
		})
		c.Check(rWidth, name+" converts a time to ticks as UnixNano()/100, zero time to 0", f.pos(), unixNano && div100 && zero && len(other) == 0,
			fmt.Sprintf("UnixNano: %v, /100: %v, IsZero test: %v, other time methods used: %v — the byte encoder's inline conversion and ReadDateBytes use UnixNano()/100; a different derivation disagrees with them for dates before 1970 and outside 1678-2262", unixNano, div100, zero, other))
	}
	// GUID tables
	guidTables(c, p, rGUID)
	c.Count("iohelp_layout_functions", n)
	c.Floor("iohelp_layout_functions", 25)
	// no per-platform variants
	dir := filepath.Join(p.Dir, "iohelp")
	ents, err := os.ReadDir(dir)
	if err != nil {
		c.Undecide("cannot list %s: %v", dir, err)
		return
	}
	compiled := map[string]bool{}
	for _, f := range p.Iohelp().CompiledGoFiles {
		compiled[filepath.Base(f)] = true
	}
	for _, e := range ents {
		nm := e.Name()
		if !strings.HasSuffix(nm, ".go") || strings.HasSuffix(nm, "_test.go") {
			continue
		}
		c.Check(rBuild, "iohelp file "+nm+" is unconditional", "iohelp/"+nm, compiled[nm], "file is excluded from this build by a constraint: the byte layout could differ per platform")
	}
	for _, f := range p.Iohelp().Syntax {
		for _, cg := range f.Comments {
			for _, cm := range cg.List {
				if strings.HasPrefix(cm.Text, "//go:build") || strings.HasPrefix(cm.Text, "// +build") {
					c.Check(rBuild, "iohelp build constraint "+cm.Text, p.Pos(cm.Pos()), false, "iohelp carries a build constraint: the byte layout could differ per platform")
				}
			}
		}
	}
}

func srcOf(p *load.Prog, n ast.Node) string {
	s := p.Fset.Position(n.Pos())
	e := p.Fset.Position(n.End())
	b, err := os.ReadFile(s.Filename)
	if err != nil || e.Offset > len(b) {
		return ""
	}
	return string(b[s.Offset:e.Offset])
}

func boolWriteOK(f *ioFn) bool {
	ok := false
	ast.Inspect(f.fd.Body, func(n ast.Node) bool {
		ifs, is := n.(*ast.IfStmt)
		if !is || ifs.Else == nil {
			return true
		}
		thenV, ok1 := singleStoreValue(f, ifs.Body)
		eb, isB := ifs.Else.(*ast.BlockStmt)
		if !isB {
			return true
		}
		elseV, ok2 := singleStoreValue(f, eb)
		if _, isId := ast.Unparen(ifs.Cond).(*ast.Ident); isId && ok1 && ok2 && thenV == "1" && elseV == "0" {
			ok = true
		}
		return true
	})
	return ok
}

func singleStoreValue(f *ioFn, b *ast.BlockStmt) (string, bool) {
	if len(b.List) != 1 {
		return "", false
	}
	as, ok := b.List[0].(*ast.AssignStmt)
	if !ok || len(as.Rhs) != 1 {
		return "", false
	}
	tv := f.info.Types[as.Rhs[0]]
	if tv.Value == nil {
		return "", false
	}
	return tv.Value.ExactString(), true
}

func dateMultiplier(f *ioFn) int {
	m := 0
	ast.Inspect(f.fd.Body, func(n ast.Node) bool {
		switch x := n.(type) {
		case *ast.AssignStmt:
			if x.Tok == token.MUL_ASSIGN && len(x.Rhs) == 1 {
				if tv := f.info.Types[x.Rhs[0]]; tv.Value != nil {
					fmt.Sscanf(tv.Value.ExactString(), "%d", &m)
				}
			}
		case *ast.BinaryExpr:
			if x.Op == token.MUL {
				if tv := f.info.Types[x.Y]; tv.Value != nil && m == 0 {
					fmt.Sscanf(tv.Value.ExactString(), "%d", &m)
				}
			}
		}
		return true
	})
	return m
}

// guidTables extracts the three permutation tables and compares them with
// the spec order and with each other.
func guidTables(c *core.Ctx, p *load.Prog, rule string) {
	// ReadGUIDBytes: composite literal [16]byte{buf[i]...}: wire index of each value byte
	var lit func(f *ioFn) ([]int, bool)
	lit = func(f *ioFn) ([]int, bool) {
		var out []int
		ok := false
		f.inspectAll(func(_ *ioFn, n ast.Node) bool {
			cl, is := n.(*ast.CompositeLit)
			if !is || len(cl.Elts) != 16 {
				return true
			}
			ok = true
			out = nil
			for _, e := range cl.Elts {
				ix, is := e.(*ast.IndexExpr)
				if !is {
					ok = false
					return false
				}
				tv := f.info.Types[ix.Index]
				if tv.Value == nil {
					ok = false
					return false
				}
				var k int
				fmt.Sscanf(tv.Value.ExactString(), "%d", &k)
				out = append(out, k)
			}
			return false
		})
		return out, ok && len(out) == 16
	}
	spec := specGUIDOrder[:]
	// table-driven form: a loop over a package-level table of 16 constants that
	// nothing writes, `for i, j := range T { dst[i] = src[j] }` (or the inverse)
	tableLoop := func(f *ioFn) ([]int, bool) {
		var out []int
		f.inspectAll(func(g *ioFn, n ast.Node) bool {
			rs, is := n.(*ast.RangeStmt)
			if !is || out != nil {
				return true
			}
			tid, isId := ast.Unparen(rs.X).(*ast.Ident)
			kid, isK := rs.Key.(*ast.Ident)
			vid, isV := rs.Value.(*ast.Ident)
			if !isId || !isK || !isV || len(rs.Body.List) != 1 {
				return true
			}
			tv, isVar := g.info.ObjectOf(tid).(*types.Var)
			if !isVar || tv.Parent() != tv.Pkg().Scope() {
				return true
			}
			tab, okT := packageTable(f.p, tv)
			if !okT || len(tab) != 16 {
				return true
			}
			as, isA := rs.Body.List[0].(*ast.AssignStmt)
			if !isA || len(as.Lhs) != 1 || len(as.Rhs) != 1 || as.Tok != token.ASSIGN {
				return true
			}
			li, ok1 := ast.Unparen(as.Lhs[0]).(*ast.IndexExpr)
			ri, ok2 := ast.Unparen(as.Rhs[0]).(*ast.IndexExpr)
			if !ok1 || !ok2 {
				return true
			}
			lk, isLk := ast.Unparen(li.Index).(*ast.Ident)
			rk, isRk := ast.Unparen(ri.Index).(*ast.Ident)
			if !isLk || !isRk {
				return true
			}
			ko, vo := g.info.ObjectOf(kid), g.info.ObjectOf(vid)
			switch {
			case g.info.ObjectOf(lk) == ko && g.info.ObjectOf(rk) == vo:
				// dst[i] = src[T[i]]
				out = append([]int{}, tab...)
			case g.info.ObjectOf(lk) == vo && g.info.ObjectOf(rk) == ko:
				// dst[T[i]] = src[i]: the inverse table
				inv := make([]int, 16)
				for i := range inv {
					inv[i] = -1
				}
				for i, j := range tab {
					if j >= 0 && j < 16 {
						inv[j] = i
					}
				}
				out = inv
			}
			return true
		})
		return out, len(out) == 16
	}
	plainLit := lit
	lit = func(f *ioFn) ([]int, bool) {
		if t, ok := plainLit(f); ok {
			return t, true
		}
		return tableLoop(f)
	}
	// recognised: one of the forms the rule reads was found at all
	recognised := func(f *ioFn) bool {
		found := false
		f.inspectAll(func(_ *ioFn, n ast.Node) bool {
			if cl, is := n.(*ast.CompositeLit); is && len(cl.Elts) == 16 {
				found = true
			}
			if as, is := n.(*ast.AssignStmt); is && len(as.Lhs) == 1 && len(as.Rhs) == 1 {
				_, a := ast.Unparen(as.Lhs[0]).(*ast.IndexExpr)
				_, b := ast.Unparen(as.Rhs[0]).(*ast.IndexExpr)
				if a && b {
					found = true
				}
			}
			return true
		})
		return found
	}
	if f := ioFunc(c, p, "ReadGUIDBytes"); f != nil {
		// value[i] = buf[t[i]]  => wire position t[i] holds value byte i
		t, ok := lit(f)
		if !ok && !recognised(f) {
			c.Undecide("iohelp.ReadGUIDBytes: the byte order is neither a 16-element literal, 16 constant stores, nor a loop over a constant table: not recognised")
		} else {
			c.Check(rule, "ReadGUIDBytes permutation == spec", f.pos(), ok && equalInts(t, spec), fmt.Sprintf("table %v, wire format %v", t, spec))
		}
	}
	if f := ioFunc(c, p, "WriteGUID"); f != nil {
		// flipped[j] = guid[t[j]] => wire position j holds value byte t[j]
		t, ok := lit(f)
		if !ok && !recognised(f) {
			c.Undecide("iohelp.WriteGUID: the byte order is neither a 16-element literal, 16 constant stores, nor a loop over a constant table: not recognised")
		} else {
			c.Check(rule, "WriteGUID permutation == spec", f.pos(), ok && equalInts(t, spec), fmt.Sprintf("table %v, wire format %v", t, spec))
		}
		// the whole permuted array is written: w.Write(X[:]) with X a [16]byte
		whole := false
		for _, call := range f.calls() {
			if f.canon(call.Fun) == "w.Write" && len(call.Args) == 1 {
				if se, ok := ast.Unparen(call.Args[0]).(*ast.SliceExpr); ok && se.Low == nil && se.High == nil {
					if arr, ok := f.info.TypeOf(se.X).Underlying().(*types.Array); ok && arr.Len() == 16 {
						whole = true
					}
				}
			}
		}
		c.Check(rule, "WriteGUID writes all 16 bytes", f.pos(), whole, "no Write of the whole 16-byte array")
	}
	if f := ioFunc(c, p, "WriteGUIDBytes"); f != nil {
		t := make([]int, 16)
		for i := range t {
			t[i] = -1
		}
		cnt := 0
		ast.Inspect(f.fd.Body, func(n ast.Node) bool {
			as, is := n.(*ast.AssignStmt)
			if !is || len(as.Lhs) != 1 || len(as.Rhs) != 1 || as.Tok != token.ASSIGN {
				return true
			}
			li, ok1 := as.Lhs[0].(*ast.IndexExpr)
			ri, ok2 := as.Rhs[0].(*ast.IndexExpr)
			if !ok1 || !ok2 {
				return true
			}
			lv, rv := f.info.Types[li.Index], f.info.Types[ri.Index]
			if lv.Value == nil || rv.Value == nil {
				return true
			}
			var a, b int
			fmt.Sscanf(lv.Value.ExactString(), "%d", &a)
			fmt.Sscanf(rv.Value.ExactString(), "%d", &b)
			if a >= 0 && a < 16 {
				t[a] = b
				cnt++
			}
			return true
		})
		if cnt == 0 {
			// the permuted array is built (by a helper) and copied over the first 16 bytes
			if lt, okl := lit(f); okl {
				for _, call := range f.calls() {
					if wire.Canon(call.Fun) == "copy" && len(call.Args) == 2 {
						if _, isSl := ast.Unparen(call.Args[1]).(*ast.SliceExpr); isSl && strings.HasPrefix(f.canon(call.Args[0]), "buf") {
							if arr, isArr := f.info.TypeOf(ast.Unparen(call.Args[1]).(*ast.SliceExpr).X).Underlying().(*types.Array); isArr && arr.Len() == 16 {
								t, cnt = lt, 16
							}
						}
					}
				}
			}
		}
		if cnt == 0 {
			if lt, okl := tableLoop(f); okl {
				t, cnt = lt, 16
			}
		}
		if cnt == 0 && !recognised(f) {
			c.Undecide("iohelp.WriteGUIDBytes: the byte order is neither 16 constant stores, a copied literal, nor a loop over a constant table: not recognised")
		} else {
			c.Check(rule, "WriteGUIDBytes permutation == spec", f.pos(), cnt == 16 && equalInts(t, spec), fmt.Sprintf("table %v (%d stores), wire format %v", t, cnt, spec))
		}
		pr := f.probes()
		c.Check(rule, "WriteGUIDBytes bounds probe covers 16 bytes", f.pos(), len(pr) == 1 && pr[0] >= 15, fmt.Sprintf("probes %v", pr))
	}
	if f := ioFunc(c, p, "ReadGUID"); f != nil {
		buf, size, read := f.freshRead()
		sz, _ := constInt(f.info, size)
		if f.arrLen > 0 {
			sz = f.arrLen
		}
		decoded := false
		for _, call := range f.calls() {
			if wire.Canon(call.Fun) == "ReadGUIDBytes" && len(call.Args) == 1 {
				arg := ast.Unparen(call.Args[0])
				if se, ok := arg.(*ast.SliceExpr); ok && se.Low == nil && se.High == nil {
					arg = ast.Unparen(se.X)
				}
				if id, ok := arg.(*ast.Ident); ok && buf != nil && f.info.ObjectOf(id) == buf {
					decoded = true
				}
			}
		}
		c.Check(rule, "ReadGUID reads 16 fresh bytes", f.pos(), buf != nil && sz == 16 && read && decoded,
			fmt.Sprintf("fresh buffer of %d bytes, filled through the ErrorReader: %v, decoded by ReadGUIDBytes: %v", sz, read, decoded))
	}
}

func equalInts(a, b []int) bool {
	if len(a) != len(b) {
		return false
	}
	for i := range a {
		if a[i] != b[i] {
			return false
		}
	}
	return true
}

// iohelpStreamWidths (C05/R1, C20/R1): each stream Read<S>/Write<S> moves
// exactly width(S) bytes through the shared 8-byte scratch.
func iohelpStreamWidths(c *core.Ctx, p *load.Prog, rule string) {
	scratch := 0
	for _, ctor := range []string{"NewErrorReader", "NewErrorWriter"} {
		if f := ioFunc(c, p, ctor); f != nil {
			sz := -1
			ast.Inspect(f.fd.Body, func(n ast.Node) bool {
				kv, ok := n.(*ast.KeyValueExpr)
				if !ok || f.canon(kv.Key) != "buffer" {
					return true
				}
				if call, ok := kv.Value.(*ast.CallExpr); ok && f.canon(call.Fun) == "make" && len(call.Args) == 2 {
					if tv := f.info.Types[call.Args[1]]; tv.Value != nil {
						fmt.Sscanf(tv.Value.ExactString(), "%d", &sz)
					}
				}
				return true
			})
			c.Check(rule, ctor+" allocates an 8-byte scratch", f.pos(), sz == 8, fmt.Sprintf("scratch size %d; the widest scalar is 8 bytes and whole-buffer reads rely on exactly 8", sz))
			scratch = sz
		}
	}
	n := 0
	for _, stem := range append(append([]string{}, castStems...), "Bool", "Byte", "Uint8", "Date") {
		w := stemWidth[stem]
		if f := ioFunc(c, p, "Read"+stem); f != nil {
			n++
			got := -1
			target := ""
			acc := f.streamAccess(false, scratch, 0)
			if acc.found {
				target, got = acc.target, acc.width
				if target == "er" {
					target = "r"
				}
			}
			// forwarding: the function does no read of its own and calls exactly one
			// sibling stream reader of the same width with its own reader (possibly
			// under a conversion or a pure helper): that read is this read
			if got == -1 {
				sib := f.siblingStreamCalls("Read", "r")
				if len(sib) == 1 && sib[0] != stem && stemWidth[sib[0]] == w {
					if _, known := stemWidth[sib[0]]; known {
						continue // the callee carries its own obligations
					}
				}
			}
			if acc.found && got == -1 && target == "r" {
				c.Undecide("iohelp.Read%s: the number of bytes read from the stream is not a constant the rule can compute (%s)", stem, acc.owner.pos())
				continue
			}
			c.Check(rule, "Read"+stem+" reads exactly its width", f.pos(), got == w && target == "r", fmt.Sprintf("io.ReadFull(%s, …) of %d bytes; the wire type is %d bytes and must be read through the ErrorReader", target, got, w))
			if stem != "Bool" && stem != "Byte" && stem != "Uint8" {
				okd := false
				for _, call := range f.calls() {
					if f.canon(call) == "Read"+stem+"Bytes(r.buffer)" {
						okd = true
					}
				}
				if !okd {
					// or through the same cast the byte reader uses (a shared helper)
					if pts, zero, unk := f.instCasts(); !unk && len(pts) == 1 && zero && pts[0].String() == goTypeOfStem[stem] {
						okd = true
					}
				}
				if !okd && f.callsThroughParam("Read"+stem+"Bytes", "buffer", 0) {
					okd = true
				}
				c.Check(rule, "Read"+stem+" decodes the scratch with Read"+stem+"Bytes", f.pos(), okd, "no call Read"+stem+"Bytes(<reader>.buffer)")
			}
		}
		if stem == "Date" {
			continue
		}
		if f := ioFunc(c, p, "Write"+stem); f != nil {
			n++
			got := -1
			lit := false
			wacc := f.streamAccess(true, scratch, 0)
			if wacc.found {
				got, lit = wacc.width, wacc.lit
			}
			if got == -1 {
				sib := f.siblingStreamCalls("Write", "w")
				if len(sib) == 1 && sib[0] != stem {
					if sw, known := stemWidth[sib[0]]; known && sw == w {
						continue // forwards to the writer of a type of the same width
					}
				}
			}
			if wacc.found && got == -1 {
				c.Undecide("iohelp.Write%s: the number of bytes written to the stream is not a constant the rule can compute (%s)", stem, wacc.owner.pos())
				continue
			}
			c.Check(rule, "Write"+stem+" writes exactly its width", f.pos(), got == w, fmt.Sprintf("writes %d bytes (literal=%v); the wire type is %d bytes", got, lit, w))
			if !lit {
				oke := false
				for _, call := range f.calls() {
					if wire.Canon(call.Fun) == "Write"+stem+"Bytes" && len(call.Args) == 2 && f.canon(call.Args[0]) == "w.buffer" {
						oke = true
					}
				}
				if !oke {
					if pts, zero, unk := f.instCasts(); !unk && len(pts) == 1 && zero && pts[0].String() == goTypeOfStem[stem] {
						oke = true
					}
				}
				if !oke && f.callsThroughParam("Write"+stem+"Bytes", "buffer", 0) {
					oke = true
				}
				c.Check(rule, "Write"+stem+" encodes into the scratch with Write"+stem+"Bytes", f.pos(), oke, "no call Write"+stem+"Bytes(<writer>.buffer, …)")
			}
		}
	}
	if f := ioFunc(c, p, "ReadString"); f != nil {
		n++
		buf, size, read := f.freshRead()
		counted := buf != nil && f.resolvesToCall(size, "ReadUint32")
		returned := false
		ast.Inspect(f.fd.Body, func(nd ast.Node) bool {
			if r, ok := nd.(*ast.ReturnStmt); ok && len(r.Results) == 1 {
				if call, ok := ast.Unparen(r.Results[0]).(*ast.CallExpr); ok && wire.Canon(call.Fun) == "string" && len(call.Args) == 1 {
					if id, ok := ast.Unparen(call.Args[0]).(*ast.Ident); ok && f.info.ObjectOf(id) == buf {
						returned = true
					}
				}
			}
			return true
		})
		// no way out between the count and the read: the bytes the count announces are always taken
		var readPos token.Pos
		for _, call := range f.calls() {
			if f.canon(call.Fun) == "r.Read" {
				readPos = call.Pos()
			}
		}
		early := false
		// a return before the read is a way out with the announced bytes still
		// on the stream — unless it is the shortcut for a count of zero, which
		// announces none
		zeroShortcut := map[*ast.ReturnStmt]bool{}
		ast.Inspect(f.fd.Body, func(nd ast.Node) bool {
			ifs, ok := nd.(*ast.IfStmt)
			if !ok || ifs.Init != nil || ifs.Else != nil || len(ifs.Body.List) != 1 {
				return true
			}
			be, ok := ast.Unparen(ifs.Cond).(*ast.BinaryExpr)
			if !ok || be.Op != token.EQL {
				return true
			}
			if k, isC := constInt(f.info, be.Y); !isC || k != 0 {
				return true
			}
			// the operand is the count: a variable whose value is ReadUint32(r), possibly converted
			if !f.resolvesToCall(be.X, "ReadUint32") {
				if id, isId := ast.Unparen(be.X).(*ast.Ident); !isId || !f.resolvesToCall(id, "ReadUint32") {
					return true
				}
			}
			if r, isR := ifs.Body.List[0].(*ast.ReturnStmt); isR {
				zeroShortcut[r] = true
			}
			return true
		})
		ast.Inspect(f.fd.Body, func(nd ast.Node) bool {
			if r, ok := nd.(*ast.ReturnStmt); ok && r.Pos() < readPos && !zeroShortcut[r] {
				early = true
			}
			return true
		})
		c.Check(rule, "ReadString reads a u32 count then exactly that many bytes", f.pos(), counted && read && returned && !early,
			fmt.Sprintf("buffer sized by ReadUint32: %v, filled through the ErrorReader: %v, returned as the string: %v, return before the read: %v", counted, read, returned, early))
	}
	if f := ioFunc(c, p, "ErrorReader.Read"); f != nil {
		n++
		ok := false
		for _, call := range f.calls() {
			if f.canon(call.Fun) == "io.ReadFull" && len(call.Args) == 2 && f.canon(call.Args[0]) == "er.Reader" && f.canon(call.Args[1]) == "b" {
				ok = true
			}
		}
		loopOK, loopUnsure := f.fillsByLoop("er.Reader", "b")
		// any further Read called on the underlying reader itself is a single raw
		// read beside the filling one: it may return fewer bytes than asked for,
		// none with a nil error, or the last ones together with io.EOF
		raw := 0
		var rawPos token.Pos
		for _, call := range f.calls() {
			if sel, isSel := ast.Unparen(call.Fun).(*ast.SelectorExpr); isSel && sel.Sel.Name == "Read" && (f.canon(sel.X) == "er.Reader" || f.isAliasOf(sel.X, "er.Reader")) {
				raw++
				rawPos = call.Pos()
			}
		}
		if loopOK {
			raw--
		}
		if (ok || loopOK) && raw > 0 {
			c.Check(rule, "ErrorReader.Read fills the whole destination (io.ReadFull)", f.pos(), false, "besides the filling read, ErrorReader.Read calls Read on the underlying reader directly at "+f.p.Pos(rawPos)+": that path takes whatever a single Read returns (fewer bytes than asked for, none with a nil error, or the last byte together with io.EOF) as the outcome of the whole read")
		} else if !ok && loopUnsure {
			c.Undecide("iohelp.ErrorReader.Read fills its destination with a loop the rule cannot follow (another way out of the loop, the counter written elsewhere, or a read that does not start where the last one ended)")
		} else {
			c.Check(rule, "ErrorReader.Read fills the whole destination (io.ReadFull)", f.pos(), ok || loopOK, "ErrorReader.Read must be io.ReadFull(er.Reader, b), or a loop that reads into b[n:] until n reaches len(b): ReadString/ReadGUID/byte arrays call it directly and rely on it absorbing short reads")
		}
	}
	c.Count("iohelp_stream_functions", n)
	c.Floor("iohelp_stream_functions", 18)
}

// sliceWidth: width of base or base[:k].
func sliceWidth(f *ioFn, e ast.Expr, base string, scratch int) int {
	e = ast.Unparen(e)
	if f.canon(e) == base {
		return scratch
	}
	if se, ok := e.(*ast.SliceExpr); ok && f.canon(se.X) == base && se.Low == nil && se.High != nil {
		if tv := f.info.Types[se.High]; tv.Value != nil {
			var k int
			fmt.Sscanf(tv.Value.ExactString(), "%d", &k)
			return k
		}
	}
	return -1
}

// iohelpCheckedStrings (C06/R2, C20/R5): buf[4:4+sz] is guarded.
func iohelpCheckedStrings(c *core.Ctx, p *load.Prog, rule string) {
	for _, name := range []string{"ReadStringBytes", "ReadStringBytesSharedMemory"} {
		f := ioFunc(c, p, name)
		if f == nil {
			continue
		}
		checkedString(c, p, rule, f)
	}
	c.Count("checked_string_readers", 2)
}

// strFact is a linear fact  L*len(buf) + S*int(sz) + C >= 0  about the byte
// slice parameter and the u32 length read from its first four bytes.
type strFact struct {
	L, S, C int
	wide    bool // every sum/difference in it was computed in a 64-bit integer
}

// checkedString decides, for one checked string reader, by facts instead of
// by the spelling of the guards: on the way to the read of the u32 length
// `len(buf) >= 4` is known, and on the way to every slice of buf whose bounds
// involve that length `len(buf) >= int(sz)+4` is known, computed in
// arithmetic that cannot wrap. Facts come from guards that return
// (`if len(buf) < 4 { return … }`, also with ||) and from helpers that
// report the outcome of their own tests in a boolean result
// (`sz, ok := stringExtent(buf); if !ok { return … }`).
func checkedString(c *core.Ctx, p *load.Prog, rule string, top *ioFn) {
	name := top.name
	// linear form of an integer expression over len(<[]byte>) and <uint32 value>
	linBusy := map[types.Object]bool{}
	var lin func(g *ioFn, e ast.Expr) (strFact, bool)
	lin = func(g *ioFn, e ast.Expr) (strFact, bool) {
		e = ast.Unparen(e)
		if k, ok := constInt(g.info, e); ok {
			return strFact{C: k, wide: true}, true
		}
		switch x := e.(type) {
		case *ast.CallExpr:
			if wire.Canon(x.Fun) == "len" && len(x.Args) == 1 {
				if t := g.info.TypeOf(x.Args[0]); t != nil && t.String() == "[]byte" {
					return strFact{L: 1, wide: true}, true
				}
			}
			// the length read where it is used
			if wire.Canon(x.Fun) == "ReadUint32Bytes" && len(x.Args) == 1 {
				if t := g.info.TypeOf(x.Args[0]); t != nil && t.String() == "[]byte" {
					return strFact{S: 1, wide: true}, true
				}
			}
			if tv, ok := g.info.Types[x.Fun]; ok && tv.IsType() && len(x.Args) == 1 {
				inner, ok := lin(g, x.Args[0])
				if !ok {
					return strFact{}, false
				}
				// a conversion to a narrower type makes what is inside it wrap
				if sizeofType(p, tv.Type) < 8 && (inner.L != 0 || inner.C != 0) {
					inner.wide = false
				}
				return inner, true
			}
		case *ast.Ident:
			// a local of another integer type defined once from an expression
			// (end := int(sz) + 4) stands for that expression
			if o := g.info.ObjectOf(x); o != nil {
				var def ast.Expr
				defs := 0
				ast.Inspect(g.fd.Body, func(k ast.Node) bool {
					if as, ok := k.(*ast.AssignStmt); ok && len(as.Lhs) == len(as.Rhs) {
						for i, l := range as.Lhs {
							if lid, ok := ast.Unparen(l).(*ast.Ident); ok && g.info.ObjectOf(lid) == o {
								defs++
								def = as.Rhs[i]
							}
						}
					}
					return true
				})
				if defs == 1 && !linBusy[o] {
					if _, isCall := ast.Unparen(def).(*ast.CallExpr); !isCall || wire.Canon(ast.Unparen(def).(*ast.CallExpr).Fun) != "ReadUint32Bytes" {
						linBusy[o] = true
						r, ok := lin(g, def)
						delete(linBusy, o)
						if ok {
							return r, true
						}
					}
				}
			}
			if t := g.info.TypeOf(x); t != nil {
				if b, ok := t.Underlying().(*types.Basic); ok && b.Kind() == types.Uint32 {
					return strFact{S: 1, wide: true}, true
				}
			}
		case *ast.BinaryExpr:
			if x.Op == token.ADD || x.Op == token.SUB {
				a, ok1 := lin(g, x.X)
				b, ok2 := lin(g, x.Y)
				if !ok1 || !ok2 {
					return strFact{}, false
				}
				sign := 1
				if x.Op == token.SUB {
					sign = -1
				}
				out := strFact{L: a.L + sign*b.L, S: a.S + sign*b.S, C: a.C + sign*b.C, wide: a.wide && b.wide}
				if t := g.info.TypeOf(x); t != nil && sizeofType(p, t) < 8 {
					out.wide = false
				}
				if t := g.info.TypeOf(x); t != nil {
					if b, ok := t.Underlying().(*types.Basic); ok && b.Info()&types.IsUnsigned != 0 && (out.S != 0) {
						// an unsigned sum with the length in it wraps at its width
						if sizeofType(p, t) < 8 {
							out.wide = false
						}
					}
				}
				return out, true
			}
		}
		return strFact{}, false
	}
	// facts known when cond has the given truth value
	var factsOf func(g *ioFn, cond ast.Expr, truth bool) []strFact
	factsOf = func(g *ioFn, cond ast.Expr, truth bool) []strFact {
		cond = ast.Unparen(cond)
		switch x := cond.(type) {
		case *ast.UnaryExpr:
			if x.Op == token.NOT {
				return factsOf(g, x.X, !truth)
			}
		case *ast.BinaryExpr:
			switch x.Op {
			case token.LOR:
				if !truth {
					return append(factsOf(g, x.X, false), factsOf(g, x.Y, false)...)
				}
				return nil
			case token.LAND:
				if truth {
					return append(factsOf(g, x.X, true), factsOf(g, x.Y, true)...)
				}
				return nil
			case token.LSS, token.LEQ, token.GTR, token.GEQ:
				a, ok1 := lin(g, x.X)
				b, ok2 := lin(g, x.Y)
				if !ok1 || !ok2 {
					return nil
				}
				op := x.Op
				if !truth {
					op = map[token.Token]token.Token{token.LSS: token.GEQ, token.LEQ: token.GTR, token.GTR: token.LEQ, token.GEQ: token.LSS}[op]
				}
				// bring to  lhs - rhs (>= 0 | > 0)  with lhs the larger side
				hi, lo := a, b
				strict := false
				switch op {
				case token.LSS:
					hi, lo, strict = b, a, true
				case token.LEQ:
					hi, lo = b, a
				case token.GTR:
					strict = true
				}
				f := strFact{L: hi.L - lo.L, S: hi.S - lo.S, C: hi.C - lo.C, wide: a.wide && b.wide}
				if strict {
					f.C-- // integers: x > 0  <=>  x - 1 >= 0
				}
				// the comparison itself must be made in 64 bits
				if t := g.info.TypeOf(x.X); t != nil && sizeofType(p, t) < 8 {
					f.wide = false
				}
				return []strFact{f}
			}
		}
		return nil
	}
	// facts a helper establishes when its boolean result is true
	helperFacts := func(g *ioFn, call *ast.CallExpr) []strFact {
		cal := load.Callee(g.info, call)
		if cal == nil || cal.Pkg() != p.Iohelp().Types {
			return nil
		}
		fd := p.Decl(cal)
		if fd == nil || fd.Body == nil {
			return nil
		}
		h := &ioFn{p: p, info: g.info, fd: fd, name: load.FuncName(cal)}
		var facts []strFact
		for _, st := range fd.Body.List {
			switch x := st.(type) {
			case *ast.IfStmt:
				// if cond { return …, false }
				if x.Else == nil && endsInReturn(x.Body) {
					r := x.Body.List[len(x.Body.List)-1].(*ast.ReturnStmt)
					if len(r.Results) > 0 && wire.Canon(r.Results[len(r.Results)-1]) == "false" {
						facts = append(facts, factsOf(h, x.Cond, false)...)
					}
				}
			case *ast.ReturnStmt:
				if len(x.Results) > 0 {
					last := x.Results[len(x.Results)-1]
					if wire.Canon(last) != "true" && wire.Canon(last) != "false" {
						facts = append(facts, factsOf(h, last, true)...)
					}
				}
			}
		}
		return facts
	}
	implied := func(facts []strFact, L, S, C int) (bool, bool) {
		for _, f := range facts {
			// f: L*len + S*sz + C' >= 0 with the same coefficients and C' <= C
			// means len - … >= -C' >= -C
			if f.L == L && f.S == S && f.C <= C {
				return true, f.wide
			}
		}
		return false, false
	}
	// walk a function's top-level statements, accumulating facts; visit every
	// u32 length read and every slice of the buffer
	nReads, nSlices := 0, 0
	okRead, okSlice, wideSlice := true, true, true
	badIdx := ""
	var walk func(g *ioFn, facts []strFact, depth int)
	walk = func(g *ioFn, facts []strFact, depth int) {
		okVars := map[types.Object][]strFact{}
		for _, st := range g.fd.Body.List {
			// the sites in this statement are judged with the facts so far
			ast.Inspect(st, func(n ast.Node) bool {
				switch x := n.(type) {
				case *ast.CallExpr:
					if wire.Canon(x.Fun) == "ReadUint32Bytes" && len(x.Args) == 1 {
						if t := g.info.TypeOf(x.Args[0]); t != nil && t.String() == "[]byte" {
							nReads++
							if ok, _ := implied(facts, 1, 0, -4); !ok {
								okRead = false
							}
						}
					}
					// a helper handed the buffer: its own sites, with what is known here
					if cal := load.Callee(g.info, x); cal != nil && cal.Pkg() == p.Iohelp().Types && !cal.Exported() && depth < 2 {
						if fd := p.Decl(cal); fd != nil && fd.Body != nil {
							for _, a := range x.Args {
								if t := g.info.TypeOf(a); t != nil && t.String() == "[]byte" {
									walk(&ioFn{p: p, info: g.info, fd: fd, name: load.FuncName(cal)}, facts, depth+1)
									break
								}
							}
						}
					}
				case *ast.SliceExpr:
					if t := g.info.TypeOf(x.X); t == nil || t.String() != "[]byte" {
						return true
					}
					// a slice whose bounds involve the length read
					hi, okh := strFact{}, false
					if x.High != nil {
						hi, okh = lin(g, x.High)
					}
					if okh && hi.S != 0 {
						nSlices++
						ok, wide := implied(facts, 1, -1, -4)
						if !ok {
							okSlice = false
						}
						if !wide {
							wideSlice = false
						}
					}
				case *ast.IndexExpr:
					if t := g.info.TypeOf(x.X); t != nil && t.String() == "[]byte" {
						if k, isC := constInt(g.info, x.Index); !isC || k >= 4 {
							badIdx = wire.Canon(x)
						}
					}
				}
				return true
			})
			// then the statement's own contribution to what is known after it
			switch x := st.(type) {
			case *ast.IfStmt:
				if x.Else == nil && x.Init == nil && endsInReturn(x.Body) {
					facts = append(facts, factsOf(g, x.Cond, false)...)
					// if !ok { return } with ok a helper's verdict
					cond := ast.Unparen(x.Cond)
					if u, isU := cond.(*ast.UnaryExpr); isU && u.Op == token.NOT {
						if id, isId := ast.Unparen(u.X).(*ast.Ident); isId {
							facts = append(facts, okVars[g.info.ObjectOf(id)]...)
						}
					}
				}
			case *ast.AssignStmt:
				if len(x.Rhs) == 1 && len(x.Lhs) >= 2 {
					if call, isC := x.Rhs[0].(*ast.CallExpr); isC {
						if id, isId := x.Lhs[len(x.Lhs)-1].(*ast.Ident); isId {
							if b, isB := g.info.TypeOf(id).Underlying().(*types.Basic); isB && b.Kind() == types.Bool {
								okVars[g.info.ObjectOf(id)] = helperFacts(g, call)
							}
						}
					}
				}
			}
		}
	}
	walk(top, nil, 0)
	c.Check(rule, name+" indexes buf only inside the guarded prefix", top.pos(), badIdx == "", "the expression "+badIdx+" indexes buf at a position the length guards do not cover when the string is empty and ends the buffer")
	if nReads == 0 || nSlices == 0 {
		if badIdx == "" {
			c.Undecide("iohelp.%s: the read of the u32 length (%d found) or the slice bounded by it (%d found) was not recognised", name, nReads, nSlices)
		}
		return
	}
	c.Check(rule, name+" slices buf only after len(buf) >= 4", top.pos(), okRead, "the u32 length is read from buf on a path where len(buf) >= 4 is not established (by a guard that returns, or by a helper's verdict that is tested)")
	c.Check(rule, name+" slices buf only after len(buf) >= int(sz)+4 in 64-bit arithmetic", top.pos(), okSlice && wideSlice,
		fmt.Sprintf("the slice of buf bounded by the length read is reached without len(buf) >= int(sz)+4 being established (established: %v) in an integer type that cannot wrap (64-bit throughout: %v; a uint32 sum wraps for sz >= 2^32-4)", okSlice, wideSlice))
}

func endsInReturn(b *ast.BlockStmt) bool {
	if len(b.List) == 0 {
		return false
	}
	_, ok := b.List[len(b.List)-1].(*ast.ReturnStmt)
	return ok
}

// readClearsOnFailure: ErrorReader.Read zeroes its destination on every
// path that returns a failure (path analysis, see analyseLatch).
func readClearsOnFailure(c *core.Ctx, p *load.Prog) bool {
	f := ioFunc(c, p, "ErrorReader.Read")
	if f == nil {
		return false
	}
	r := analyseLatch(f, "er.Reader", "er.Err")
	return r.found && r.clearedOnFailure
}

func nilTestExpr(e ast.Expr) (string, bool) {
	b, ok := ast.Unparen(e).(*ast.BinaryExpr)
	if !ok || b.Op != token.NEQ || wire.Canon(b.Y) != "nil" {
		return "", false
	}
	return wire.Canon(b.X), true
}

// iohelpStaleReads (C06/R3, C20/R6): no stream reader decodes the scratch
// after a failed read.
func iohelpStaleReads(c *core.Ctx, p *load.Prog, rule string) {
	central := readClearsOnFailure(c, p)
	n := 0
	for _, stem := range []string{"Date", "Bool", "Byte", "Uint8", "Uint16", "Int16", "Uint32", "Int32", "Uint64", "Int64"} {
		f := ioFunc(c, p, "Read"+stem)
		if f == nil {
			continue
		}
		n++
		// discharge (i): the helper tests the read's error and returns before touching the scratch
		local := false
		usesScratch := false
		viaReader := false
		for _, s := range f.fd.Body.List {
			if ifs, ok := s.(*ast.IfStmt); ok {
				if x, ok := nilTestExpr(ifs.Cond); ok && x == "err" && endsInReturn(ifs.Body) && !usesScratch {
					local = true
				}
			}
			ast.Inspect(s, func(nd ast.Node) bool {
				if call, ok := nd.(*ast.CallExpr); ok && f.canon(call.Fun) == "io.ReadFull" && len(call.Args) == 2 && f.canon(call.Args[0]) == "r" {
					viaReader = true
					return false
				}
				if call, ok := nd.(*ast.CallExpr); ok && f.canon(call.Fun) == "r.Read" && len(call.Args) == 1 {
					// ErrorReader.Read itself: the clearing read
					viaReader = true
					return false
				}
				if _, isRet := nd.(*ast.ReturnStmt); isRet {
					ast.Inspect(nd, func(k ast.Node) bool {
						if sel, ok := k.(*ast.SelectorExpr); ok && f.canon(sel) == "r.buffer" {
							usesScratch = true
						}
						return true
					})
				}
				return true
			})
		}
		// helpers the function hands its reader to are part of what it does
		for _, g := range f.closure() {
			if g == f || g.fd.Name.IsExported() {
				continue
			}
			alias := map[types.Object]bool{}
			mentionsScratch := func(n ast.Node) bool {
				hit := false
				ast.Inspect(n, func(k ast.Node) bool {
					if sel, ok := k.(*ast.SelectorExpr); ok && (g.canon(sel) == "r.buffer" || g.canon(sel) == "er.buffer") {
						hit = true
					}
					if id, ok := k.(*ast.Ident); ok && alias[g.info.ObjectOf(id)] {
						hit = true
					}
					return true
				})
				return hit
			}
			ast.Inspect(g.fd.Body, func(nd ast.Node) bool {
				switch x := nd.(type) {
				case *ast.AssignStmt:
					if len(x.Lhs) == len(x.Rhs) {
						for i, l := range x.Lhs {
							if id, ok := l.(*ast.Ident); ok && mentionsScratch(x.Rhs[i]) {
								alias[g.info.ObjectOf(id)] = true
							}
						}
					}
				case *ast.CallExpr:
					fn := g.canon(x.Fun)
					if (fn == "io.ReadFull" && len(x.Args) == 2 && (g.canon(x.Args[0]) == "r" || g.canon(x.Args[0]) == "er")) || fn == "r.Read" || fn == "er.Read" {
						viaReader = true
					}
				case *ast.ReturnStmt:
					if mentionsScratch(x) {
						usesScratch = true
					}
				}
				return true
			})
		}
		ok := local || (central && viaReader) || !usesScratch
		c.Check(rule, "Read"+stem+" never decodes stale scratch bytes", f.pos(), ok,
			"on the path where io.ReadFull failed the function still decodes r.buffer, which holds the bytes of an earlier read; neither does it test the error and return the zero value, nor does ErrorReader.Read clear its destination on failure")
	}
	c.Count("iohelp_stream_readers", n)
	c.Floor("iohelp_stream_readers", 10)
}

// iohelpDrain (C06/R5, C08/R5)
// latch: also the clauses about reporting (a failing read of the tail, a
// region that ends early); without it only termination of a hand-written loop.
func iohelpDrain(c *core.Ctx, p *load.Prog, rule string, latch bool) {
	f := ioFunc(c, p, "ErrorReader.Drain")
	if f == nil {
		return
	}
	discards := false
	storesErr := false
	shortRegion := false
	// helpers of the wrapper that store the error they are handed in .Err
	// (er.keepFirstErr(err)): a call of one is a store into er.Err
	latchHelpers := map[types.Object]bool{}
	for fn, fd := range p.AllDecls() {
		if p.Owner(fn) != p.Iohelp() || fd.Body == nil || fd.Recv == nil || len(fd.Recv.List) != 1 || len(fd.Recv.List[0].Names) != 1 {
			continue
		}
		recv := fd.Recv.List[0].Names[0].Name
		params := map[types.Object]bool{}
		if fd.Type.Params != nil {
			for _, fl := range fd.Type.Params.List {
				for _, nm := range fl.Names {
					if o := f.info.Defs[nm]; o != nil && isErrorType(o.Type()) {
						params[o] = true
					}
				}
			}
		}
		if len(params) == 0 || fd == f.fd {
			continue
		}
		ast.Inspect(fd.Body, func(n ast.Node) bool {
			if as, ok := n.(*ast.AssignStmt); ok && len(as.Lhs) == 1 && len(as.Rhs) == 1 && wire.Canon(as.Lhs[0]) == recv+".Err" {
				if id, ok := ast.Unparen(as.Rhs[0]).(*ast.Ident); ok && params[f.info.ObjectOf(id)] {
					latchHelpers[fn] = true
				}
			}
			return true
		})
	}
	isLatchCall := func(n ast.Node) (*ast.CallExpr, bool) {
		call, ok := n.(*ast.CallExpr)
		if !ok {
			return nil, false
		}
		cal := load.Callee(f.info, call)
		return call, cal != nil && latchHelpers[cal]
	}
	// local error variables whose value ends up in er.Err
	flows := map[types.Object]bool{}
	ast.Inspect(f.fd.Body, func(n ast.Node) bool {
		if call, ok := isLatchCall(n); ok {
			storesErr = true
			for _, a := range call.Args {
				if id, ok := ast.Unparen(a).(*ast.Ident); ok {
					flows[f.info.ObjectOf(id)] = true
				}
			}
		}
		if as, ok := n.(*ast.AssignStmt); ok && len(as.Lhs) == 1 && len(as.Rhs) == 1 && f.canon(as.Lhs[0]) == "er.Err" {
			if id, ok := ast.Unparen(as.Rhs[0]).(*ast.Ident); ok {
				flows[f.info.ObjectOf(id)] = true
			}
		}
		return true
	})
	// a statement that puts something into er.Err, at once or through a local
	// that is latched later
	storesInto := func(st ast.Stmt) bool {
		switch x := st.(type) {
		case *ast.AssignStmt:
			for _, l := range x.Lhs {
				if f.canon(l) == "er.Err" {
					return true
				}
				if id, ok := ast.Unparen(l).(*ast.Ident); ok && flows[f.info.ObjectOf(id)] && x.Tok == token.ASSIGN {
					return true
				}
			}
		case *ast.ExprStmt:
			if _, ok := isLatchCall(x.X); ok {
				return true
			}
		}
		return false
	}
	ast.Inspect(f.fd.Body, func(n ast.Node) bool {
		switch x := n.(type) {
		case *ast.AssignStmt:
			for i, l := range x.Lhs {
				if f.canon(l) == "er.Err" {
					storesErr = true
				}
				if id, ok := l.(*ast.Ident); ok && id.Name == "_" && len(x.Rhs) == 1 {
					if call, ok := x.Rhs[0].(*ast.CallExpr); ok {
						if t, ok := f.info.TypeOf(call).(*types.Tuple); ok && i == t.Len()-1 && isErrorType(t.At(i).Type()) {
							discards = true
						}
					}
				}
			}
		case *ast.SelectorExpr:
			if x.Sel.Name == "N" {
				if t := f.info.TypeOf(x.X); t != nil && strings.Contains(t.String(), "io.LimitedReader") {
					shortRegion = true
				}
			}
		}
		return true
	})
	if latch {
		c.Check(rule, "Drain latches the error of reading the tail", f.pos(), !discards && storesErr,
			fmt.Sprintf("Drain discards the error of its read (discarded=%v, stores er.Err=%v): a reader that fails inside the skipped tail goes unreported", discards, storesErr))
	}
	// a hand-written drain loop must end on any error and on nothing else
	loopOK := true
	ast.Inspect(f.fd.Body, func(n ast.Node) bool {
		loop, ok := n.(*ast.ForStmt)
		if !ok {
			return true
		}
		exits := 0
		ast.Inspect(loop.Body, func(m ast.Node) bool {
			ifs, ok := m.(*ast.IfStmt)
			if !ok {
				return true
			}
			leaves := false
			ast.Inspect(ifs.Body, func(k ast.Node) bool {
				switch x := k.(type) {
				case *ast.BranchStmt:
					if x.Tok == token.BREAK {
						leaves = true
					}
				case *ast.ReturnStmt:
					leaves = true
				}
				return true
			})
			if leaves {
				exits++
				if f.canon(ifs.Cond) != "err != nil" {
					loopOK = false
				}
			}
			return true
		})
		if exits == 0 && loop.Cond == nil {
			loopOK = false
		}
		return true
	})
	// Drain reads through the wrapper's current reader and nothing else: taking
	// bytes from (or seeking) what a LimitedReader wraps leaves the limits of
	// that reader and of the enclosing records stale
	bypass := ""
	f.inspectAll(func(g *ioFn, n ast.Node) bool {
		if sel, ok := n.(*ast.SelectorExpr); ok && sel.Sel.Name == "R" {
			if t := g.info.TypeOf(sel.X); t != nil && strings.Contains(t.String(), "io.LimitedReader") {
				bypass = g.name + " uses " + wire.Canon(sel)
			}
		}
		return true
	})
	c.Check(rule, "Drain never reaches below the length limiter", f.pos(), bypass == "",
		bypass+": bytes taken (or skipped) below an io.LimitedReader are not counted against it, nor against the limiters of the enclosing records, which then drain into the data that follows")
	// the tail is taken with something that absorbs short reads (io.Copy,
	// io.CopyN, io.ReadFull, io.ReadAll, the wrapper's own Read) or in a loop: a
	// single Read on a stream may deliver fewer bytes than asked without that
	// being an error, and what it leaves behind is then read as the next record
	single := ""
	for _, g := range f.closure() {
		if g != f && g.fd.Name.IsExported() && g.name != "ErrorReader.Read" {
			continue
		}
		var stack []ast.Node
		ast.Inspect(g.fd.Body, func(n ast.Node) bool {
			if n == nil {
				stack = stack[:len(stack)-1]
				return true
			}
			stack = append(stack, n)
			call, ok := n.(*ast.CallExpr)
			if !ok {
				return true
			}
			sel, ok := ast.Unparen(call.Fun).(*ast.SelectorExpr)
			if !ok || sel.Sel.Name != "Read" || len(call.Args) != 1 {
				return true
			}
			t := g.info.TypeOf(sel.X)
			if t == nil || strings.HasSuffix(t.String(), "iohelp.ErrorReader") {
				return true
			}
			if _, isSig := g.info.TypeOf(sel).(*types.Signature); !isSig {
				return true
			}
			inLoop := false
			for _, a := range stack {
				if _, isFor := a.(*ast.ForStmt); isFor {
					inLoop = true
				}
			}
			if !inLoop {
				single = g.name + " calls " + wire.Canon(sel) + " once at " + f.p.Pos(call.Pos())
			}
			return true
		})
	}
	c.Check(rule, "Drain takes the tail with a read that absorbs short reads", f.pos(), single == "",
		single+": a single Read may return fewer bytes than the region still holds (a socket, a pipe, any fragmenting reader) without an error; the rest of the unknown fields is left on the stream and decoded as whatever follows")
	c.Check(rule, "a loop in Drain ends exactly when a read fails", f.pos(), loopOK,
		"Drain loops by hand and leaves the loop on something other than `err != nil` (a short read is not the end of the data; a non-EOF error that never turns into EOF must still end the loop)")
	if !latch {
		return
	}
	// the store that reports a short region is guarded by the limiter's remaining
	// count (or by the number of bytes the copy delivered)
	copied := map[types.Object]bool{}
	ast.Inspect(f.fd.Body, func(n ast.Node) bool {
		if as, ok := n.(*ast.AssignStmt); ok && len(as.Rhs) == 1 && len(as.Lhs) == 2 {
			if call, ok := as.Rhs[0].(*ast.CallExpr); ok && strings.HasPrefix(f.canon(call.Fun), "io.Copy") {
				if id, ok := as.Lhs[0].(*ast.Ident); ok && id.Name != "_" {
					copied[f.info.ObjectOf(id)] = true
				}
			}
		}
		return true
	})
	// the limiter's count saved before the copy (declared := lr.N) is the count
	ast.Inspect(f.fd.Body, func(n ast.Node) bool {
		if as, ok := n.(*ast.AssignStmt); ok && len(as.Lhs) == 1 && len(as.Rhs) == 1 {
			if sel, ok := ast.Unparen(as.Rhs[0]).(*ast.SelectorExpr); ok && sel.Sel.Name == "N" {
				if t := f.info.TypeOf(sel.X); t != nil && strings.Contains(t.String(), "io.LimitedReader") {
					if id, ok := as.Lhs[0].(*ast.Ident); ok {
						copied[f.info.ObjectOf(id)] = true
					}
				}
			}
		}
		return true
	})
	guarded, filtersEOF := false, false
	ast.Inspect(f.fd.Body, func(n ast.Node) bool {
		// a guarded store: `if COND { er.Err = … }` or `case COND: er.Err = …`
		// of a tagless switch
		var condExpr ast.Expr
		var bodyStmts []ast.Stmt
		switch x := n.(type) {
		case *ast.IfStmt:
			condExpr, bodyStmts = x.Cond, x.Body.List
		case *ast.CaseClause:
			if len(x.List) == 1 {
				condExpr, bodyStmts = x.List[0], x.Body
			}
		}
		if condExpr == nil {
			return true
		}
		ifs := &ast.IfStmt{Cond: condExpr, Body: &ast.BlockStmt{List: bodyStmts}}
		stores := false
		for _, st := range ifs.Body.List {
			if storesInto(st) {
				stores = true
			}
		}
		if !stores {
			return true
		}
		ast.Inspect(ifs.Cond, func(k ast.Node) bool {
			switch x := k.(type) {
			case *ast.SelectorExpr:
				if x.Sel.Name == "N" {
					if t := f.info.TypeOf(x.X); t != nil && strings.Contains(t.String(), "io.LimitedReader") {
						guarded = true
					}
				}
			case *ast.Ident:
				if copied[f.info.ObjectOf(x)] {
					guarded = true
				}
			case *ast.BinaryExpr:
				if x.Op == token.NEQ && (f.canon(x.X) == "io.EOF" || f.canon(x.Y) == "io.EOF") {
					filtersEOF = true
				}
			case *ast.UnaryExpr:
				if call, ok := ast.Unparen(x.X).(*ast.CallExpr); ok && x.Op == token.NOT && f.canon(call.Fun) == "errors.Is" && len(call.Args) == 2 && f.canon(call.Args[1]) == "io.EOF" {
					filtersEOF = true
				}
			}
			return true
		})
		return true
	})
	c.Check(rule, "Drain latches a premature end of the bounded region", f.pos(), shortRegion && storesErr && guarded,
		"no store into er.Err is conditioned on the limiter's remaining count (or on the number of bytes skipped): a stream that ends inside the declared body length is reported as success")
	// ending the read loop on io.EOF is how a bounded region ends; that is only
	// an exemption when nothing else reports a region that ended early
	c.Check(rule, "Drain does not exempt io.EOF from the error it latches", f.pos(), !filtersEOF || (shortRegion && guarded),
		"the store into er.Err is skipped when the error is io.EOF: inside a length-limited region an EOF from the source means the record is truncated")
}

func isErrorType(t types.Type) bool {
	n, ok := t.(*types.Named)
	return ok && n.Obj().Pkg() == nil && n.Obj().Name() == "error"
}

// iohelpNoPanic (C07/R4)
func iohelpNoPanic(c *core.Ctx, p *load.Prog, rule string) {
	pk := p.Iohelp()
	n := 0
	for fn, fd := range p.AllDecls() {
		if p.Owner(fn) != pk || fd.Body == nil {
			continue
		}
		n++
		name := load.FuncName(fn)
		ast.Inspect(fd.Body, func(nd ast.Node) bool {
			call, ok := nd.(*ast.CallExpr)
			if !ok {
				return true
			}
			if id, ok := call.Fun.(*ast.Ident); ok && id.Name == "panic" {
				if _, isB := pk.TypesInfo.Uses[id].(*types.Builtin); isB && !strings.HasPrefix(name, "Must") {
					c.Check(rule, "explicit panic in iohelp."+name, p.Pos(call.Pos()), false, "an iohelp function reachable from the checked decoders calls panic()")
				}
			}
			return true
		})
	}
	c.Check(rule, "iohelp has no explicit panic outside Must* helpers", "iohelp/iohelp.go", true, "")
	c.Count("iohelp_functions_scanned", n)
	c.Floor("iohelp_functions_scanned", 30)
}

// iohelpLatchRules (C08 R1, R2, R5, R6; C05/R2)
func iohelpLatchRules(c *core.Ctx, p *load.Prog, r1, r2, r5, r6 string) {
	pk := p.Iohelp()
	for _, cfg := range []struct{ fn, recv, field, call string }{
		{"ErrorReader.Read", "er", "Reader", "io.ReadFull"},
		{"ErrorWriter.Write", "ew", "Writer", "ew.Writer.Write"},
	} {
		f := ioFunc(c, p, cfg.fn)
		if f == nil {
			continue
		}
		recvName := "er"
		if cfg.fn == "ErrorWriter.Write" {
			recvName = "ew"
		}
		lr := analyseLatch(f, recvName+"."+cfg.field, recvName+".Err")
		c.Check(r1, cfg.fn+" latches the underlying error", f.pos(), lr.found && lr.latchedOnFailure,
			"on some path where the call on the underlying "+cfg.field+" failed the error is not stored into .Err before the function returns ("+lr.why+"); the generated methods report only that latch")
		c.Check(r1, cfg.fn+" returns the underlying error", f.pos(), lr.found && lr.returnsError, lr.why)
	}
	// R2: sole access to the underlying stream
	allowed := map[string]map[string]bool{
		"Reader": {"NewErrorReader": true, "ErrorReader.Read": true, "ErrorReader.Drain": true},
		"Writer": {"NewErrorWriter": true, "ErrorWriter.Write": true},
	}
	nSel := 0
	for fn, fd := range p.AllDecls() {
		if p.Owner(fn) != pk || fd.Body == nil {
			continue
		}
		name := load.FuncName(fn)
		ast.Inspect(fd.Body, func(n ast.Node) bool {
			sel, ok := n.(*ast.SelectorExpr)
			if !ok {
				return true
			}
			s := pk.TypesInfo.Selections[sel]
			if s == nil || s.Kind() != types.FieldVal {
				return true
			}
			fld := s.Obj().Name()
			if a, tracked := allowed[fld]; tracked {
				if rt := s.Recv().String(); strings.Contains(rt, "iohelp.Error") {
					nSel++
					c.Check(r2, "access to ."+fld+" in iohelp."+name, p.Pos(sel.Pos()), a[name],
						"only the latching Read/Write (and Drain, the constructor) may touch the underlying stream; any other access can lose an error or read ahead")
				}
			}
			return true
		})
		// R5: discarded error of a call on the underlying stream
		ast.Inspect(fd.Body, func(n ast.Node) bool {
			as, ok := n.(*ast.AssignStmt)
			if !ok || len(as.Rhs) != 1 {
				return true
			}
			call, ok := as.Rhs[0].(*ast.CallExpr)
			if !ok {
				return true
			}
			touches := false
			for _, a := range call.Args {
				if s := wire.Canon(a); strings.HasSuffix(s, ".Reader") || strings.HasSuffix(s, ".Writer") {
					touches = true
				}
			}
			if s := wire.Canon(call.Fun); strings.Contains(s, ".Reader.") || strings.Contains(s, ".Writer.") {
				touches = true
			}
			if !touches {
				return true
			}
			if t, ok := pk.TypesInfo.TypeOf(call).(*types.Tuple); ok {
				last := t.Len() - 1
				if last >= 0 && isErrorType(t.At(last).Type()) && last < len(as.Lhs) {
					if id, ok := as.Lhs[last].(*ast.Ident); ok && id.Name == "_" {
						c.Check(r5, "discarded stream error in iohelp."+name, p.Pos(as.Pos()), false, "the error of a call on the underlying stream is assigned to _: "+strings.Join(strings.Fields(srcOf(p, as)), " "))
					}
				}
			}
			return true
		})
	}
	c.Check(r5, "no discarded error on the underlying stream (scan complete)", "iohelp/iohelp.go", true, "")
	c.Count("underlying_stream_accesses", nSel)
	c.Floor("underlying_stream_accesses", 2)
	// R6: constructors share an existing wrapper
	for _, ctor := range []struct{ fn, typ string }{{"NewErrorReader", "ErrorReader"}, {"NewErrorWriter", "ErrorWriter"}} {
		f := ioFunc(c, p, ctor.fn)
		if f == nil {
			continue
		}
		ok := false
		for _, s := range f.fd.Body.List {
			ifs, is := s.(*ast.IfStmt)
			if !is || ifs.Init == nil {
				continue
			}
			as, is := ifs.Init.(*ast.AssignStmt)
			if !is || len(as.Lhs) != 2 || len(as.Rhs) != 1 {
				continue
			}
			ta, is := as.Rhs[0].(*ast.TypeAssertExpr)
			if !is || f.canon(ta.Type) != "*"+ctor.typ {
				continue
			}
			if f.canon(ifs.Cond) == f.canon(as.Lhs[1]) && len(ifs.Body.List) == 1 {
				if r, is := ifs.Body.List[0].(*ast.ReturnStmt); is && len(r.Results) == 1 && f.canon(r.Results[0]) == f.canon(as.Lhs[0]) {
					ok = true
				}
			}
		}
		c.Check(r6, ctor.fn+" returns an existing wrapper unchanged", f.pos(), ok, "nested records must latch into the caller's wrapper: the constructor has to return its argument when it already is a *"+ctor.typ)
	}
}

// iohelpCtorDirect: the constructors hand the caller's own stream to the
// wrapper. Anything placed in between (a bufio.Reader reads ahead of the record
// and the surplus is lost with the wrapper; a bufio.Writer defers the write and
// its error past the return of EncodeBebop) breaks the byte-exactness and the
// error reporting that every emitted method relies on.
func iohelpCtorDirect(c *core.Ctx, p *load.Prog, rule string) {
	for _, ctor := range []struct{ fn, typ, field string }{{"NewErrorReader", "ErrorReader", "Reader"}, {"NewErrorWriter", "ErrorWriter", "Writer"}} {
		f := ioFunc(c, p, ctor.fn)
		if f == nil {
			continue
		}
		var param types.Object
		if ps := f.fd.Type.Params; ps != nil && len(ps.List) == 1 && len(ps.List[0].Names) == 1 {
			param = f.info.ObjectOf(ps.List[0].Names[0])
		}
		ok, lits, why := param != nil, 0, ""
		ast.Inspect(f.fd.Body, func(n ast.Node) bool {
			switch x := n.(type) {
			case *ast.AssignStmt:
				for _, l := range x.Lhs {
					if id, is := l.(*ast.Ident); is && param != nil && f.info.ObjectOf(id) == param && x.Tok == token.ASSIGN {
						ok, why = false, "the stream parameter is reassigned: "+strings.Join(strings.Fields(srcOf(p, x)), " ")
					}
				}
			case *ast.CompositeLit:
				if f.canon(x.Type) != ctor.typ {
					return true
				}
				lits++
				found := false
				for _, el := range x.Elts {
					kv, is := el.(*ast.KeyValueExpr)
					if !is || f.canon(kv.Key) != ctor.field {
						continue
					}
					if id, is := ast.Unparen(kv.Value).(*ast.Ident); is && f.info.ObjectOf(id) == param {
						found = true
					} else {
						why = "." + ctor.field + " is initialised with " + f.canon(kv.Value)
					}
				}
				if !found {
					ok = false
				}
			}
			return true
		})
		c.Check(rule, ctor.fn+" wraps the caller's stream itself", f.pos(), ok && lits > 0,
			"the wrapper must hold the caller's stream directly (no buffering or other reader/writer in between): "+why)
	}
}

func sortedFuncNames(m map[string]bool) []string {
	var out []string
	for k := range m {
		out = append(out, k)
	}
	sort.Strings(out)
	return out
}

var _ = genfacts.SpecWidth

// iohelpMustStrings: the unchecked string readers index buf only through the
// slice buf[4:4+sz] and the 4-byte length read; no other constant index.
func iohelpMustStrings(c *core.Ctx, p *load.Prog, rule string) {
	for _, name := range []string{"MustReadStringBytes", "MustReadStringBytesSharedMemory"} {
		f := ioFunc(c, p, name)
		if f == nil {
			continue
		}
		bad := ""
		slices := 0
		ast.Inspect(f.fd.Body, func(n ast.Node) bool {
			switch x := n.(type) {
			case *ast.IndexExpr:
				if f.canon(x.X) == "buf" {
					bad = f.canon(x)
				}
			case *ast.SliceExpr:
				if f.canon(x.X) == "buf" {
					slices++
					if f.canon(x.Low) != "4" || f.canon(x.High) != "4 + sz" {
						bad = f.canon(x)
					}
				}
			}
			return true
		})
		c.Check(rule, name+" touches buf only as buf[4:4+sz]", f.pos(), bad == "" && slices == 1, "the expression "+bad+" reads buf outside the string's own bytes: an empty string at the end of a valid buffer panics under this option only")
	}
}

func containsReturn(n ast.Node) bool {
	found := false
	ast.Inspect(n, func(m ast.Node) bool {
		if _, ok := m.(*ast.ReturnStmt); ok {
			found = true
		}
		if _, ok := m.(*ast.FuncLit); ok {
			return false
		}
		return !found
	})
	return found
}

// freshRead describes `D := make([]byte, N); r.Read(D)` in a stream helper:
// the buffer variable, the size expression, and whether the ErrorReader's Read
// is called with exactly that buffer.
func (f *ioFn) freshRead() (buf types.Object, size ast.Expr, read bool) {
	ast.Inspect(f.fd.Body, func(n ast.Node) bool {
		as, ok := n.(*ast.AssignStmt)
		if !ok || len(as.Lhs) != 1 || len(as.Rhs) != 1 {
			return true
		}
		call, ok := as.Rhs[0].(*ast.CallExpr)
		if !ok || wire.Canon(call.Fun) != "make" || len(call.Args) != 2 || wire.Canon(call.Args[0]) != "[]byte" {
			return true
		}
		if id, ok := as.Lhs[0].(*ast.Ident); ok && buf == nil {
			buf, size = f.info.ObjectOf(id), call.Args[1]
		}
		return true
	})
	if buf == nil {
		// var X [N]byte … r.Read(X[:]): a fresh array
		ast.Inspect(f.fd.Body, func(n ast.Node) bool {
			if vs, ok := n.(*ast.ValueSpec); ok && len(vs.Names) == 1 && len(vs.Values) == 0 {
				if o := f.info.ObjectOf(vs.Names[0]); o != nil {
					if arr, isArr := o.Type().Underlying().(*types.Array); isArr && buf == nil {
						buf = o
						size = &ast.BasicLit{Kind: token.INT, Value: fmt.Sprint(arr.Len())}
						f.arrLen = int(arr.Len())
					}
				}
			}
			return true
		})
	}
	if buf == nil {
		return
	}
	for _, call := range f.calls() {
		if f.canon(call.Fun) == "r.Read" && len(call.Args) == 1 {
			arg := ast.Unparen(call.Args[0])
			if se, ok := arg.(*ast.SliceExpr); ok && se.Low == nil && se.High == nil {
				arg = ast.Unparen(se.X)
			}
			if id, ok := arg.(*ast.Ident); ok && f.info.ObjectOf(id) == buf {
				read = true
			}
		}
	}
	return
}

// resolvesToCall: e is a call of the named function (under conversions), or a
// variable whose only definition is one.
func (f *ioFn) resolvesToCall(e ast.Expr, name string) bool {
	e = ast.Unparen(e)
	if call, ok := e.(*ast.CallExpr); ok {
		if tv := f.info.Types[call.Fun]; tv.IsType() && len(call.Args) == 1 {
			return f.resolvesToCall(call.Args[0], name)
		}
		return strings.HasPrefix(f.canon(call), name+"(")
	}
	if id, ok := e.(*ast.Ident); ok {
		obj := f.info.ObjectOf(id)
		var def ast.Expr
		defs := 0
		ast.Inspect(f.fd.Body, func(n ast.Node) bool {
			if as, ok := n.(*ast.AssignStmt); ok && len(as.Lhs) == len(as.Rhs) {
				for i, l := range as.Lhs {
					if lid, ok := l.(*ast.Ident); ok && f.info.ObjectOf(lid) == obj {
						defs++
						def = as.Rhs[i]
					}
				}
			}
			return true
		})
		return defs == 1 && f.resolvesToCall(def, name)
	}
	return false
}

// analyseLatch walks the control-flow graph of ErrorReader.Read /
// ErrorWriter.Write. E is the error variable bound by the call on the
// underlying stream. Along every path the state of E (unknown / nil / non-nil)
// is refined by the conditions passed; a return is a failure return unless its
// error result is nil, or is E on a path where E is known to be nil.
//
//	latchedOnFailure: every failure return after the call is preceded by `<recv>.Err = E`;
//	clearedOnFailure: every failure return (also one taken before the call) is
//	                  preceded by clear(dst) or a loop zeroing dst;
//	returnsError:     every failure return after the call yields E.
//
// Any shape of the code is accepted (if err != nil {…}, if err == nil {return},
// guard clauses, switch); only what happens on the paths counts.
type latchFacts struct {
	found            bool
	latchedOnFailure bool
	clearedOnFailure bool
	returnsError     bool
	why              string
}

func analyseLatch(f *ioFn, stream, latch string) latchFacts {
	res := latchFacts{}
	info := f.info
	// the call on the underlying stream and its error variable
	var callStmt *ast.AssignStmt
	var errObj types.Object
	ast.Inspect(f.fd.Body, func(n ast.Node) bool {
		as, ok := n.(*ast.AssignStmt)
		if !ok || len(as.Rhs) != 1 || callStmt != nil {
			return true
		}
		call, ok := as.Rhs[0].(*ast.CallExpr)
		if !ok {
			return true
		}
		touches := strings.HasPrefix(f.canon(call.Fun), stream+".")
		for _, a := range call.Args {
			if f.canon(a) == stream || f.isAliasOf(a, stream) {
				touches = true
			}
		}
		if sel, isSel := ast.Unparen(call.Fun).(*ast.SelectorExpr); isSel && f.isAliasOf(sel.X, stream) {
			touches = true
		}
		if !touches || len(as.Lhs) < 1 {
			return true
		}
		if id, ok := as.Lhs[len(as.Lhs)-1].(*ast.Ident); ok && id.Name != "_" {
			if o := info.ObjectOf(id); o != nil && isErrorType(o.Type()) {
				callStmt, errObj = as, o
			}
		}
		return true
	})
	if callStmt == nil {
		res.why = "no call on " + stream + " whose error is bound to a variable"
		return res
	}
	res.found = true
	// destination buffer = the []byte parameter
	dst := ""
	for _, fl := range f.fd.Type.Params.List {
		for _, nm := range fl.Names {
			if o := info.ObjectOf(nm); o != nil && o.Type().String() == "[]byte" && dst == "" {
				dst = nm.Name
			}
		}
	}
	// statements that zero the destination
	type span struct{ from, to token.Pos }
	var clears []span
	ast.Inspect(f.fd.Body, func(n ast.Node) bool {
		switch x := n.(type) {
		case *ast.CallExpr:
			if wire.Canon(x.Fun) == "clear" && len(x.Args) == 1 && wire.Canon(x.Args[0]) == dst {
				clears = append(clears, span{x.Pos(), x.End()})
			}
		case *ast.RangeStmt:
			if wire.Canon(x.X) == dst {
				zero := false
				ast.Inspect(x.Body, func(k ast.Node) bool {
					if as, ok := k.(*ast.AssignStmt); ok && len(as.Lhs) == 1 && len(as.Rhs) == 1 {
						if ix, ok := as.Lhs[0].(*ast.IndexExpr); ok && wire.Canon(ix.X) == dst {
							if tv := info.Types[as.Rhs[0]]; tv.Value != nil && tv.Value.ExactString() == "0" {
								zero = true
							}
						}
					}
					return true
				})
				if zero {
					clears = append(clears, span{x.Pos(), x.End()})
				}
			}
		}
		return true
	})
	inClear := func(n ast.Node) bool {
		for _, c := range clears {
			if c.from <= n.Pos() && n.Pos() < c.to {
				return true
			}
		}
		return false
	}
	// named error result (for naked returns)
	var namedErr types.Object
	if rs := f.fd.Type.Results; rs != nil && len(rs.List) > 0 {
		last := rs.List[len(rs.List)-1]
		if len(last.Names) > 0 {
			namedErr = info.ObjectOf(last.Names[len(last.Names)-1])
		}
	}
	g := buildCFG(f.p, f.p.Iohelp(), f.fd)
	if g == nil {
		res.found = false
		res.why = "no control-flow graph"
		return res
	}
	const (
		sU = iota
		sNil
		sNon
	)
	type key struct {
		b                         *gocfg.Block
		from, st                  int
		latched, cleared, afterCl bool
	}
	seen := map[key]bool{}
	tagged := caseConds(f.fd)
	res.latchedOnFailure, res.clearedOnFailure, res.returnsError = true, true, true
	isE := func(e ast.Expr) bool {
		id, ok := ast.Unparen(e).(*ast.Ident)
		return ok && info.ObjectOf(id) == errObj
	}
	// what a condition tells about E on its true / false edge
	var refine func(cond ast.Expr, truth bool, st int) int
	refine = func(cond ast.Expr, truth bool, st int) int {
		cond = ast.Unparen(cond)
		switch x := cond.(type) {
		case *ast.UnaryExpr:
			if x.Op == token.NOT {
				return refine(x.X, !truth, st)
			}
		case *ast.BinaryExpr:
			switch x.Op {
			case token.LAND:
				if truth {
					return refine(x.Y, true, refine(x.X, true, st))
				}
			case token.LOR:
				if !truth {
					return refine(x.Y, false, refine(x.X, false, st))
				}
			case token.NEQ, token.EQL:
				if isE(x.X) && wire.Canon(x.Y) == "nil" {
					if (x.Op == token.NEQ) == truth {
						return sNon
					}
					return sNil
				}
			}
		}
		return st
	}
	var walk func(b *gocfg.Block, from, st int, latched, cleared, after bool)
	walk = func(b *gocfg.Block, from, st int, latched, cleared, after bool) {
		k := key{b, from, st, latched, cleared, after}
		if seen[k] {
			return
		}
		seen[k] = true
		for i := from; i < len(b.Nodes); i++ {
			n := b.Nodes[i]
			if inClear(n) {
				cleared = true
			}
			ast.Inspect(n, func(m ast.Node) bool {
				if call, ok := m.(*ast.CallExpr); ok && inClear(call) {
					cleared = true
				}
				return true
			})
			if as, ok := n.(*ast.AssignStmt); ok {
				if as == callStmt {
					after, st, latched = true, sU, false
					continue
				}
				for j, l := range as.Lhs {
					if f.canon(l) == latch && j < len(as.Rhs) && isE(as.Rhs[j]) {
						latched = true
					}
					if id, ok := l.(*ast.Ident); ok && info.ObjectOf(id) == errObj && as != callStmt {
						st = sU // E reassigned
					}
				}
			}
			if r, ok := n.(*ast.ReturnStmt); ok {
				failure := true
				yieldsE := false
				if len(r.Results) == 0 {
					// naked return: the named error result
					if namedErr != nil && namedErr == errObj {
						yieldsE = true
						failure = st != sNil
					}
				} else {
					last := r.Results[len(r.Results)-1]
					switch {
					case wire.Canon(last) == "nil":
						failure = false
					case isE(last):
						yieldsE = true
						failure = st != sNil
					case f.canon(last) == latch:
						yieldsE = latched
					}
				}
				if failure {
					if after && !latched {
						res.latchedOnFailure = false
						res.why = "return at " + f.p.Pos(r.Pos()) + " is reached with the error not stored"
					}
					if !cleared {
						res.clearedOnFailure = false
					}
					if after && !yieldsE {
						res.returnsError = false
						res.why = "return at " + f.p.Pos(r.Pos()) + " does not yield the error of the underlying call"
					}
				}
				return
			}
		}
		if len(b.Succs) == 2 {
			if cond := blockCond(b); cond != nil {
				if full, isCase := tagged[cond]; isCase {
					cond = full
				}
				walk(b.Succs[0], 0, refine(cond, true, st), latched, cleared, after)
				walk(b.Succs[1], 0, refine(cond, false, st), latched, cleared, after)
				return
			}
		}
		if len(b.Succs) == 0 && after && st != sNil && !latched {
			res.latchedOnFailure = false
		}
		for _, s := range b.Succs {
			walk(s, 0, st, latched, cleared, after)
		}
	}
	if len(g.g.Blocks) > 0 {
		walk(g.g.Blocks[0], 0, sNil, false, false, false)
	}
	return res
}

// closure: f and the package-local functions it calls, transitively (helpers
// extracted from it are part of what it does). Depth-limited, no recursion.
func (f *ioFn) closure() []*ioFn {
	if f.clos != nil {
		return f.clos
	}
	pk := f.p.Iohelp()
	seen := map[*ast.FuncDecl]bool{f.fd: true}
	out := []*ioFn{f}
	var add func(g *ioFn, depth int)
	add = func(g *ioFn, depth int) {
		if depth > 3 {
			return
		}
		for _, call := range g.calls() {
			cal := load.Callee(g.info, call)
			if cal == nil || cal.Pkg() != pk.Types {
				continue
			}
			fd := f.p.Decl(cal)
			if fd == nil || fd.Body == nil || seen[fd] {
				continue
			}
			seen[fd] = true
			h := &ioFn{p: f.p, info: f.info, fd: fd, name: load.FuncName(cal)}
			out = append(out, h)
			add(h, depth+1)
		}
	}
	add(f, 0)
	f.clos = out
	return out
}

// inspectAll runs ast.Inspect over f's body and over the helpers it calls.
func (f *ioFn) inspectAll(fn func(owner *ioFn, n ast.Node) bool) {
	for _, g := range f.closure() {
		g := g
		ast.Inspect(g.fd.Body, func(n ast.Node) bool { return fn(g, n) })
	}
}

// siblingCalls: calls in f to exported package functions named prefix+stem
// whose first argument is f's own stream parameter.
func (f *ioFn) siblingStreamCalls(prefix, stream string) []string {
	var out []string
	for _, call := range f.calls() {
		fn := wire.Canon(call.Fun)
		if strings.HasPrefix(fn, prefix) && len(call.Args) >= 1 && f.canon(call.Args[0]) == stream {
			out = append(out, strings.TrimPrefix(fn, prefix))
		}
	}
	return out
}

// boolToByteOK: somewhere in the closure a bool is mapped to the constants 1
// (true) and 0 (false), by stores in an if/else or by returns.
func boolToByteOK(f *ioFn) bool {
	ok := false
	for _, g := range f.closure() {
		if boolWriteOK(g) {
			ok = true
		}
		list := g.fd.Body.List
		for i, st := range list {
			ifs, is := st.(*ast.IfStmt)
			if !is {
				continue
			}
			id, isId := ast.Unparen(ifs.Cond).(*ast.Ident)
			if !isId {
				continue
			}
			if o := g.info.ObjectOf(id); o == nil || o.Type().String() != "bool" {
				continue
			}
			retConst := func(b []ast.Stmt) (string, bool) {
				if len(b) != 1 {
					return "", false
				}
				r, isR := b[0].(*ast.ReturnStmt)
				if !isR || len(r.Results) != 1 {
					return "", false
				}
				tv := g.info.Types[r.Results[0]]
				if tv.Value == nil {
					return "", false
				}
				return tv.Value.ExactString(), true
			}
			tv, ok1 := retConst(ifs.Body.List)
			var ev string
			ok2 := false
			if eb, isB := ifs.Else.(*ast.BlockStmt); isB {
				ev, ok2 = retConst(eb.List)
			} else if ifs.Else == nil && i+1 < len(list) {
				ev, ok2 = retConst(list[i+1 : i+2])
			}
			if ok1 && ok2 && tv == "1" && ev == "0" {
				ok = true
			}
		}
	}
	return ok
}

// canonBuf spells the function's first []byte parameter "buf" whatever the
// function is called (helpers extracted from a ...Bytes function keep the role).
func (f *ioFn) canonBuf(e ast.Expr) string {
	s := wire.Canon(e)
	for _, fl := range f.fd.Type.Params.List {
		for _, n := range fl.Names {
			if o := f.info.ObjectOf(n); o != nil && o.Type().String() == "[]byte" {
				return renameWords(s, map[string]string{n.Name: "buf"})
			}
		}
	}
	return s
}

// streamAcc is the access a stream helper makes to its own stream.
type streamAcc struct {
	found   bool   // an access was found
	target  string // canonical stream operand of the access ("r", "er", "w", "ew", or something else)
	width   int    // bytes moved, -1 when not a constant the rule can compute
	lit     bool   // the bytes are a composite literal
	generic bool   // a helper on the way has type parameters: not instantiated by this rule
	owner   *ioFn  // the function that holds the access
}

// isGeneric: the declaration has type parameters.
func (f *ioFn) isGeneric() bool {
	return f.fd.Type.TypeParams != nil && len(f.fd.Type.TypeParams.List) > 0
}

// streamAccess finds the read (write=false) or write (write=true) f makes on
// its own stream: io.ReadFull(S, X) / S.Read(X) / S.Write(X) in f itself, or
// in an unexported helper f hands its stream to, read under the bindings of
// the call (value parameters and type parameters).
func (f *ioFn) streamAccess(write bool, scratch int, _ int) streamAcc {
	var acc streamAcc
	isBuffer := func(g *ioFn, e ast.Expr) bool {
		switch g.canon(e) {
		case "r.buffer", "er.buffer", "w.buffer", "ew.buffer":
			return true
		}
		return false
	}
	var widthOf func(env *instEnv, e ast.Expr, hops int) (int, bool)
	widthOf = func(env *instEnv, e ast.Expr, hops int) (int, bool) {
		env, e = env.resolve(e)
		g := env.owner
		if cl, ok := e.(*ast.CompositeLit); ok {
			return len(cl.Elts), true
		}
		if id, ok := e.(*ast.Ident); ok && hops < 3 {
			// a local with one definition stands for that definition
			o := g.info.ObjectOf(id)
			var def ast.Expr
			defs := 0
			ast.Inspect(g.fd.Body, func(n ast.Node) bool {
				if as, ok := n.(*ast.AssignStmt); ok && len(as.Lhs) == len(as.Rhs) {
					for i, l := range as.Lhs {
						if lid, ok := l.(*ast.Ident); ok && g.info.ObjectOf(lid) == o {
							defs++
							def = as.Rhs[i]
						}
					}
				}
				return true
			})
			if defs == 1 {
				return widthOf(env, def, hops+1)
			}
			return -1, false
		}
		if isBuffer(g, e) {
			return scratch, false
		}
		if se, ok := e.(*ast.SliceExpr); ok {
			if se.Low == nil && se.High != nil && isBuffer(g, se.X) {
				if k, okk := env.evalInt(se.High); okk {
					return k, false
				}
				return -1, false
			}
			if se.Low == nil && se.High == nil {
				if t := g.info.TypeOf(se.X); t != nil {
					if arr, ok := t.Underlying().(*types.Array); ok {
						return int(arr.Len()), false
					}
				}
			}
		}
		return -1, false
	}
	f.instWalk(func(env *instEnv, n ast.Node) bool {
		if acc.found {
			return false
		}
		call, ok := n.(*ast.CallExpr)
		if !ok {
			return true
		}
		g := env.owner
		var tgt, data ast.Expr
		if !write && wire.Canon(call.Fun) == "io.ReadFull" && len(call.Args) == 2 {
			tgt, data = call.Args[0], call.Args[1]
		} else if sel, isSel := ast.Unparen(call.Fun).(*ast.SelectorExpr); isSel && len(call.Args) == 1 {
			if (!write && sel.Sel.Name == "Read") || (write && sel.Sel.Name == "Write") {
				if t := g.info.TypeOf(sel.X); t != nil {
					ts := t.String()
					if (!write && strings.HasSuffix(ts, "iohelp.ErrorReader")) || (write && strings.HasSuffix(ts, "iohelp.ErrorWriter")) {
						tgt, data = sel.X, call.Args[0]
					}
				}
			}
		}
		if tgt == nil {
			return true
		}
		tenv, texpr := env.resolve(tgt)
		target := tenv.owner.canon(texpr)
		switch target {
		case "er":
			target = "r"
		case "ew":
			target = "w"
		}
		w, lit := widthOf(env, data, 0)
		acc = streamAcc{found: true, target: target, width: w, lit: lit, owner: g}
		return false
	})
	return acc
}

// usesGenericHelper: some function of f's closure has type parameters.
func (f *ioFn) usesGenericHelper() string {
	for _, g := range f.closure() {
		if g != f && g.isGeneric() {
			return g.name
		}
	}
	return ""
}

// packageTable: the package-level variable v is declared with a composite
// literal of integer constants and no function of the package assigns to it
// or to one of its elements, or takes its address.
func packageTable(p *load.Prog, v *types.Var) ([]int, bool) {
	pk := p.Iohelp()
	info := pk.TypesInfo
	var tab []int
	okDecl := false
	for _, file := range pk.Syntax {
		for _, d := range file.Decls {
			gd, isG := d.(*ast.GenDecl)
			if !isG {
				continue
			}
			for _, sp := range gd.Specs {
				vs, isV := sp.(*ast.ValueSpec)
				if !isV {
					continue
				}
				for i, nm := range vs.Names {
					if info.Defs[nm] != types.Object(v) || i >= len(vs.Values) {
						continue
					}
					cl, isC := ast.Unparen(vs.Values[i]).(*ast.CompositeLit)
					if !isC {
						return nil, false
					}
					okDecl = true
					for _, e := range cl.Elts {
						if _, isKV := e.(*ast.KeyValueExpr); isKV {
							return nil, false
						}
						k, isK := constInt(info, e)
						if !isK {
							return nil, false
						}
						tab = append(tab, k)
					}
				}
			}
		}
	}
	if !okDecl {
		return nil, false
	}
	written := false
	for _, file := range pk.Syntax {
		ast.Inspect(file, func(n ast.Node) bool {
			switch x := n.(type) {
			case *ast.AssignStmt:
				for _, l := range x.Lhs {
					root := ast.Unparen(l)
					for {
						if ix, is := root.(*ast.IndexExpr); is {
							root = ast.Unparen(ix.X)
							continue
						}
						break
					}
					if id, is := root.(*ast.Ident); is && info.ObjectOf(id) == types.Object(v) {
						written = true
					}
				}
			case *ast.IncDecStmt:
				if ix, is := ast.Unparen(x.X).(*ast.IndexExpr); is {
					if id, is := ast.Unparen(ix.X).(*ast.Ident); is && info.ObjectOf(id) == types.Object(v) {
						written = true
					}
				}
			case *ast.UnaryExpr:
				if x.Op == token.AND {
					root := ast.Unparen(x.X)
					if ix, is := root.(*ast.IndexExpr); is {
						root = ast.Unparen(ix.X)
					}
					if id, is := root.(*ast.Ident); is && info.ObjectOf(id) == types.Object(v) {
						written = true
					}
				}
			case *ast.SliceExpr:
				// v[:] hands out a mutable view
				if id, is := ast.Unparen(x.X).(*ast.Ident); is && info.ObjectOf(id) == types.Object(v) {
					written = true
				}
			}
			return true
		})
	}
	return tab, !written
}

// ---- instantiating walk -------------------------------------------------
//
// The scalar helpers may be written once, generically, and instantiated per
// type (loadFixed[uint16](buf)). The layout rules then have to read the
// helper's body under the instantiation: the pointee of the unsafe cast is the
// type argument, the bounds probe is unsafe.Sizeof of it, the slice handed to
// the stream is a parameter bound at the call. instWalk visits f's body and,
// at every call of an unexported function of the package, the callee's body
// with its type parameters and value parameters bound.

type instEnv struct {
	owner  *ioFn
	subst  map[*types.TypeParam]types.Type
	args   map[types.Object]ast.Expr // parameter -> argument expression, to be read in parent
	parent *instEnv
}

func (e *instEnv) substType(t types.Type) types.Type {
	switch x := t.(type) {
	case *types.TypeParam:
		for env := e; env != nil; env = env.parent {
			if r, ok := env.subst[x]; ok {
				if env.parent != nil {
					return env.parent.substType(r)
				}
				return r
			}
		}
	case *types.Pointer:
		return types.NewPointer(e.substType(x.Elem()))
	}
	return t
}

// evalInt evaluates an integer expression of the helper under the bindings:
// constants, + - *, conversions, unsafe.Sizeof(x), bound parameters.
func (e *instEnv) evalInt(x ast.Expr) (int, bool) {
	x = ast.Unparen(x)
	info := e.owner.info
	if tv := info.Types[x]; tv.Value != nil {
		var k int
		if _, err := fmt.Sscanf(tv.Value.ExactString(), "%d", &k); err == nil {
			return k, true
		}
	}
	switch y := x.(type) {
	case *ast.BinaryExpr:
		a, ok1 := e.evalInt(y.X)
		b, ok2 := e.evalInt(y.Y)
		if !ok1 || !ok2 {
			return 0, false
		}
		switch y.Op {
		case token.ADD:
			return a + b, true
		case token.SUB:
			return a - b, true
		case token.MUL:
			return a * b, true
		}
	case *ast.CallExpr:
		if len(y.Args) != 1 {
			return 0, false
		}
		if tv, ok := info.Types[y.Fun]; ok && tv.IsType() {
			return e.evalInt(y.Args[0])
		}
		if wire.Canon(y.Fun) == "unsafe.Sizeof" {
			t := info.TypeOf(y.Args[0])
			if t == nil {
				return 0, false
			}
			t = e.substType(t)
			if _, still := t.(*types.TypeParam); still {
				return 0, false
			}
			return int(sizeofType(e.owner.p, t)), true
		}
	case *ast.Ident:
		if a, ok := e.args[info.ObjectOf(y)]; ok && e.parent != nil {
			return e.parent.evalInt(a)
		}
	}
	return 0, false
}

// resolve follows parameter bindings: an identifier that is a bound parameter
// stands for the caller's argument (read in the caller's environment).
func (e *instEnv) resolve(x ast.Expr) (*instEnv, ast.Expr) {
	env := e
	for hop := 0; hop < 4; hop++ {
		id, ok := ast.Unparen(x).(*ast.Ident)
		if !ok {
			break
		}
		a, bound := env.args[env.owner.info.ObjectOf(id)]
		if !bound || env.parent == nil {
			break
		}
		env, x = env.parent, a
	}
	return env, ast.Unparen(x)
}

// callsThroughParam: somewhere in the helpers f calls, a function-valued
// parameter bound at the call to the package function fn is called with, as
// argument number argIdx, the wrapper's scratch field (x.<field>, directly or
// through a parameter bound to it or to a prefix of it):
// readScratch(r, r.buffer[:2], ReadUint16Bytes) … decode(r.buffer).
func (f *ioFn) callsThroughParam(fn, field string, argIdx int) bool {
	found := false
	f.instWalk(func(env *instEnv, n ast.Node) bool {
		call, ok := n.(*ast.CallExpr)
		if !ok || found || len(call.Args) <= argIdx {
			return true
		}
		id, ok := ast.Unparen(call.Fun).(*ast.Ident)
		if !ok {
			return true
		}
		if _, isVar := env.owner.info.ObjectOf(id).(*types.Var); !isVar {
			return true
		}
		_, bound := env.resolve(id)
		if wire.Canon(bound) != fn {
			return true
		}
		_, arg := env.resolve(call.Args[argIdx])
		if se, isSl := arg.(*ast.SliceExpr); isSl {
			arg = ast.Unparen(se.X)
		}
		if sel, isSel := arg.(*ast.SelectorExpr); isSel && sel.Sel.Name == field {
			found = true
		}
		return true
	})
	return found
}

func (f *ioFn) instWalk(visit func(env *instEnv, n ast.Node) bool) {
	pk := f.p.Iohelp()
	var walk func(env *instEnv, depth int)
	walk = func(env *instEnv, depth int) {
		g := env.owner
		ast.Inspect(g.fd.Body, func(n ast.Node) bool {
			if !visit(env, n) {
				return false
			}
			call, ok := n.(*ast.CallExpr)
			if !ok || depth >= 3 {
				return true
			}
			cal := load.Callee(g.info, call)
			if cal == nil || cal.Pkg() != pk.Types || cal.Exported() {
				return true
			}
			fd := f.p.Decl(cal)
			sig, _ := cal.Type().(*types.Signature)
			if fd == nil || fd.Body == nil || sig == nil || fd == g.fd {
				return true
			}
			h := &ioFn{p: f.p, info: f.info, fd: fd, name: load.FuncName(cal)}
			child := &instEnv{owner: h, subst: map[*types.TypeParam]types.Type{}, args: map[types.Object]ast.Expr{}, parent: env}
			// type arguments: explicit (F[T](…)) or inferred
			var fid *ast.Ident
			switch fx := ast.Unparen(call.Fun).(type) {
			case *ast.Ident:
				fid = fx
			case *ast.IndexExpr:
				fid, _ = ast.Unparen(fx.X).(*ast.Ident)
			case *ast.IndexListExpr:
				fid, _ = ast.Unparen(fx.X).(*ast.Ident)
			case *ast.SelectorExpr:
				fid = fx.Sel
			}
			if fid != nil {
				if inst, ok := g.info.Instances[fid]; ok && sig.TypeParams() != nil {
					for i := 0; i < sig.TypeParams().Len() && i < inst.TypeArgs.Len(); i++ {
						child.subst[sig.TypeParams().At(i)] = inst.TypeArgs.At(i)
					}
				}
			}
			for i, a := range call.Args {
				if i < sig.Params().Len() {
					child.args[sig.Params().At(i)] = a
				}
			}
			if sel, ok := ast.Unparen(call.Fun).(*ast.SelectorExpr); ok && sig.Recv() != nil && fd.Recv != nil && len(fd.Recv.List) == 1 && len(fd.Recv.List[0].Names) == 1 {
				child.args[f.info.Defs[fd.Recv.List[0].Names[0]]] = sel.X
			}
			walk(child, depth+1)
			return true
		})
	}
	walk(&instEnv{owner: f, subst: map[*types.TypeParam]types.Type{}, args: map[types.Object]ast.Expr{}}, 0)
}

// instProbes: the N of every `_ = x[N]` reached by the instantiating walk;
// unknown is set when some probe index cannot be evaluated.
func (f *ioFn) instProbes() (out []int, unknown bool) {
	f.instWalk(func(env *instEnv, n ast.Node) bool {
		as, ok := n.(*ast.AssignStmt)
		if !ok || len(as.Lhs) != 1 || len(as.Rhs) != 1 {
			return true
		}
		if id, ok := as.Lhs[0].(*ast.Ident); !ok || id.Name != "_" {
			return true
		}
		if ix, ok := as.Rhs[0].(*ast.IndexExpr); ok {
			if k, okk := env.evalInt(ix.Index); okk {
				out = append(out, k)
			} else {
				unknown = true
			}
		}
		return true
	})
	return
}

// instCasts: pointee types (instantiated) of every *(*T)(unsafe.Pointer(&x[i]))
// reached by the instantiating walk, and whether every i is 0.
func (f *ioFn) instCasts() (pointees []types.Type, indexZero bool, unknown bool) {
	indexZero = true
	f.instWalk(func(env *instEnv, n ast.Node) bool {
		st, ok := n.(*ast.StarExpr)
		if !ok {
			return true
		}
		g := env.owner
		call, ok := ast.Unparen(st.X).(*ast.CallExpr)
		if !ok || len(call.Args) != 1 {
			return true
		}
		tv, ok := g.info.Types[call.Fun]
		if !ok || !tv.IsType() {
			return true
		}
		pt, ok := tv.Type.(*types.Pointer)
		if !ok {
			return true
		}
		inner, ok := ast.Unparen(call.Args[0]).(*ast.CallExpr)
		if !ok || wire.Canon(inner.Fun) != "unsafe.Pointer" || len(inner.Args) != 1 {
			return true
		}
		el := env.substType(pt.Elem())
		if _, still := el.(*types.TypeParam); still {
			unknown = true
			return true
		}
		pointees = append(pointees, el)
		if u, ok := ast.Unparen(inner.Args[0]).(*ast.UnaryExpr); ok && u.Op == token.AND {
			if ix, ok := ast.Unparen(u.X).(*ast.IndexExpr); ok {
				if k, okk := env.evalInt(ix.Index); !okk || k != 0 {
					indexZero = false
				}
			}
		}
		return true
	})
	return
}

// iohelpLatchNeverCleared: the error latch of the wrappers only ever receives
// a value that is not nil. A store of a call's error result as it comes
// (`_, er.Err = io.Copy(…)`), of nil, or of a variable outside a test that it
// is not nil, overwrites a failure recorded earlier with "no error": the
// emitted methods return the latch, so the failure is never reported.
func iohelpLatchNeverCleared(c *core.Ctx, p *load.Prog, rule string) {
	pk := p.Iohelp()
	info := pk.TypesInfo
	isWrapper := func(t types.Type) bool {
		if pt, ok := t.(*types.Pointer); ok {
			t = pt.Elem()
		}
		nt, ok := t.(*types.Named)
		return ok && nt.Obj().Pkg() == pk.Types && (nt.Obj().Name() == "ErrorReader" || nt.Obj().Name() == "ErrorWriter")
	}
	n := 0
	var fns []*types.Func
	for fn, fd := range p.AllDecls() {
		if p.Owner(fn) == pk && fd.Body != nil {
			fns = append(fns, fn)
		}
	}
	sort.Slice(fns, func(i, j int) bool { return fns[i].Pos() < fns[j].Pos() })
	for _, fn := range fns {
		fd := p.Decl(fn)
		name := load.FuncName(fn)
		var stack []ast.Node
		k := 0
		ast.Inspect(fd.Body, func(nd ast.Node) bool {
			if nd == nil {
				stack = stack[:len(stack)-1]
				return true
			}
			stack = append(stack, nd)
			as, ok := nd.(*ast.AssignStmt)
			if !ok {
				return true
			}
			for i, l := range as.Lhs {
				sel, ok := ast.Unparen(l).(*ast.SelectorExpr)
				if !ok || sel.Sel.Name != "Err" {
					continue
				}
				if t := info.TypeOf(sel.X); t == nil || !isWrapper(t) {
					continue
				}
				n++
				k++
				key := fmt.Sprintf("%s stores only a failure into the latch (#%d)", name, k)
				pos := p.Pos(as.Pos())
				if len(as.Rhs) == 1 && len(as.Lhs) > 1 {
					c.Check(rule, key, pos, false, "the error result of "+wire.Canon(as.Rhs[0])+" is assigned to "+wire.Canon(l)+" as it comes: when the call succeeds the latch is set to nil, and a failure recorded by an earlier read or write of the same record is forgotten")
					continue
				}
				if i >= len(as.Rhs) {
					continue
				}
				rhs := ast.Unparen(as.Rhs[i])
				switch x := rhs.(type) {
				case *ast.Ident:
					if x.Name == "nil" {
						c.Check(rule, key, pos, false, wire.Canon(l)+" is set to nil: a failure recorded earlier is forgotten")
						continue
					}
					// a variable: under a test that it is not nil
					guarded := false
					for j := len(stack) - 2; j >= 0 && !guarded; j-- {
						var cond ast.Expr
						switch y := stack[j].(type) {
						case *ast.IfStmt:
							if j+1 < len(stack) && stack[j+1] == ast.Node(y.Body) {
								cond = y.Cond
							}
						case *ast.CaseClause:
							if len(y.List) == 1 {
								cond = y.List[0]
							}
						}
						if cond == nil {
							continue
						}
						var conj func(e ast.Expr)
						conj = func(e ast.Expr) {
							e = ast.Unparen(e)
							if be, ok := e.(*ast.BinaryExpr); ok {
								if be.Op == token.LAND {
									conj(be.X)
									conj(be.Y)
									return
								}
								if be.Op == token.NEQ && wire.Canon(be.X) == x.Name && wire.Canon(be.Y) == "nil" {
									guarded = true
								}
							}
						}
						conj(cond)
					}
					if !guarded {
						// if v == nil { return | continue | break } earlier in an
						// enclosing statement list
						var earlier []ast.Stmt
						for j := len(stack) - 1; j >= 0; j-- {
							var list []ast.Stmt
							switch y := stack[j].(type) {
							case *ast.BlockStmt:
								list = y.List
							case *ast.CaseClause:
								list = y.Body
							}
							for _, st := range list {
								if st.End() <= as.Pos() {
									earlier = append(earlier, st)
								}
							}
						}
						leaves := func(b *ast.BlockStmt) bool {
							if len(b.List) == 0 {
								return false
							}
							switch z := b.List[len(b.List)-1].(type) {
							case *ast.ReturnStmt:
								return true
							case *ast.BranchStmt:
								return z.Tok == token.CONTINUE || z.Tok == token.BREAK
							}
							return false
						}
						for _, st := range earlier {
							if ifs, ok := st.(*ast.IfStmt); ok && ifs.Else == nil && leaves(ifs.Body) {
								if be, ok := ast.Unparen(ifs.Cond).(*ast.BinaryExpr); ok && be.Op == token.EQL && wire.Canon(be.X) == x.Name && wire.Canon(be.Y) == "nil" {
									guarded = true
								}
								// if err == nil || … { return }
								if be, ok := ast.Unparen(ifs.Cond).(*ast.BinaryExpr); ok && be.Op == token.LOR {
									for _, side := range []ast.Expr{be.X, be.Y} {
										if sb, ok := ast.Unparen(side).(*ast.BinaryExpr); ok && sb.Op == token.EQL && wire.Canon(sb.X) == x.Name && wire.Canon(sb.Y) == "nil" {
											guarded = true
										}
									}
								}
							}
						}
					}
					if guarded {
						c.Check(rule, key, pos, true, "")
					} else {
						c.Undecide("%s: %s = %s at %s is not under a test that %s is not nil: whether the latch can be cleared there is not decided", name, wire.Canon(l), x.Name, pos, x.Name)
					}
				case *ast.SelectorExpr:
					// a package-level error value (io.ErrUnexpectedEOF)
					if v, ok := info.Uses[x.Sel].(*types.Var); ok && v.Pkg() != nil && v.Parent() == v.Pkg().Scope() {
						c.Check(rule, key, pos, true, "")
					} else {
						c.Undecide("%s: %s = %s at %s: the stored value is not recognised", name, wire.Canon(l), wire.Canon(x), pos)
					}
				case *ast.CallExpr:
					fnn := wire.Canon(x.Fun)
					if fnn == "errors.New" || fnn == "fmt.Errorf" {
						c.Check(rule, key, pos, true, "")
					} else {
						c.Check(rule, key, pos, false, "the result of "+wire.Canon(x)+" is assigned to "+wire.Canon(l)+" as it comes: if it can be nil, a failure recorded earlier is forgotten")
					}
				default:
					c.Undecide("%s: %s = %s at %s: the stored value is not recognised", name, wire.Canon(l), wire.Canon(rhs), pos)
				}
			}
			return true
		})
	}
	c.Count("latch_stores", n)
	c.Floor("latch_stores", 3)
}
