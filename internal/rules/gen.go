package rules

import (
	"fmt"
	"go/ast"
	"go/token"
	"go/types"
	"runtime"
	"sort"
	"strings"
	"sync"
	"sync/atomic"

	"bebopverif/internal/core"
	"bebopverif/internal/geneval"
	"bebopverif/internal/genfacts"
	"bebopverif/internal/load"
	"bebopverif/internal/wire"
)

// shapeAdapter lets wire.Expected walk a geneval.Shape.
type shapeAdapter struct{ s geneval.Shape }

func (a shapeAdapter) IsArray() (wire.ShapeLike, bool) {
	if a.s.Array != nil {
		return shapeAdapter{*a.s.Array}, true
	}
	return nil, false
}
func (a shapeAdapter) IsMap() (string, wire.ShapeLike, bool) {
	if a.s.Map != nil {
		return a.s.Key, shapeAdapter{*a.s.Map}, true
	}
	return "", nil, false
}
func (a shapeAdapter) Name() string { return a.s.Simple }

func classifier(u *genfacts.Universe) func(string) (wire.TypeClass, bool) {
	return func(name string) (wire.TypeClass, bool) {
		ti, ok := u.Info(name)
		if !ok {
			return wire.TypeClass{}, false
		}
		switch ti.Class {
		case genfacts.ClsFixed:
			return wire.TypeClass{Fixed: genfacts.Title[name]}, true
		case genfacts.ClsString:
			return wire.TypeClass{String: true}, true
		case genfacts.ClsEnum:
			return wire.TypeClass{Enum: genfacts.Title[ti.Base]}, true
		default:
			k, fixed := goRecFixed(name)
			return wire.TypeClass{Record: true, RecFixedOK: fixed, RecFixed: k}, true
		}
	}
}

// Method kinds
const (
	mBW  = "MarshalBebopTo"
	mSW  = "EncodeBebop"
	mSZ  = "Size"
	mBR  = "UnmarshalBebop"
	mBRu = "MustUnmarshalBebop"
	mSR  = "DecodeBebop"
)

var allMethods = []string{mBW, mSW, mSZ, mBR, mBRu, mSR}

// MethodFacts is everything read from one emitted method.
type MethodFacts struct {
	// Present: the method is emitted AND every statement of it was understood by
	// the signature reader. A method with a statement the reader does not know
	// is Emitted but not Present: nothing is derived from it (its signature,
	// fails, allocations, limiter) — the UNDECIDED that startGen raises for the
	// statement is the verdict.
	Present bool
	Emitted bool
	Items   []wire.Item
	Size    []wire.SzNode
	Fails   []wire.Fail
	Allocs  []wire.Alloc
	Lim     wire.Limiter
	Returns []string
	// InvalidAt: the method mentions an expression the type checker gave no
	// type (the emitted file has type errors)
	InvalidAt token.Pos
	Decl      *ast.FuncDecl
	PtrRecv   bool
}

// RecFacts is one record under one option set.
type RecFacts struct {
	Spec   genfacts.RecordSpec
	GoName string
	GF     *genfacts.GenFile
	M      map[string]*MethodFacts
}

type GenAnalysis struct {
	P       *load.Prog
	G       *genfacts.Gen
	Files   []*genfacts.GenFile
	Recs    []*RecFacts
	Imports []*genfacts.ImportResult
	// counts
	NShapes, NRecords, NMethods, NOptionSets int
}

type genConfig struct {
	Depth     int
	Level     int
	Options   []geneval.Options
	PerBatch  int
	DeepOpts  []geneval.Options // option sets for the batches beyond the first
	FirstFull int               // number of batches generated under every option set
}

func quickConfig() genConfig {
	all := geneval.AllOptions()
	return genConfig{Depth: 2, Level: 0, Options: all, PerBatch: 260, DeepOpts: []geneval.Options{all[0], all[31], all[9], all[22]}, FirstFull: 1}
}

func thoroughConfig() genConfig {
	all := geneval.AllOptions()
	// depth-3 containers, every leaf class up to depth 2, the first two batches
	// under all 32 option sets and the rest under 8 (each option on and off,
	// alone and combined)
	deep := []geneval.Options{all[0], all[31], all[1], all[2], all[4], all[8], all[16], all[21]}
	return genConfig{Depth: 3, Level: 2, Options: all, PerBatch: 300, DeepOpts: deep, FirstFull: 2}
}

func configFor(c *core.Ctx) genConfig {
	if c.Tier == "thorough" {
		return thoroughConfig()
	}
	return quickConfig()
}

// runGen folds the generator over the shape universe and reads every emitted
// codec method. Evaluator refusals become UNDECIDED.
func runGen(c *core.Ctx, p *load.Prog, cfg genConfig) *GenAnalysis {
	g, err := genfacts.NewGen(p)
	if err != nil {
		c.Undecide("generator evaluator: %v", err)
		return nil
	}
	ga := &GenAnalysis{P: p, G: g}
	shapes := g.U.Shapes(cfg.Depth, cfg.Level)
	ga.NShapes = len(shapes)
	plan := g.MakePlan(shapes, cfg.PerBatch)
	ga.NOptionSets = len(cfg.Options)
	type job struct {
		bi   int
		o    geneval.Options
		recs []genfacts.RecordSpec
	}
	var jobs []job
	for bi, recs := range plan.Batches {
		opts := cfg.Options
		if bi >= cfg.FirstFull {
			opts = cfg.DeepOpts
		}
		for _, o := range opts {
			jobs = append(jobs, job{bi, o, recs})
		}
	}
	type result struct {
		gf   *genfacts.GenFile
		recs []*RecFacts
	}
	results := make([]result, len(jobs))
	workers := runtime.NumCPU()
	if workers > 12 {
		workers = 12
	}
	if workers > len(jobs) {
		workers = len(jobs)
	}
	var wg sync.WaitGroup
	next := int32(-1)
	panics := make([]interface{}, workers)
	for w := 0; w < workers; w++ {
		wg.Add(1)
		go func(w int) {
			defer wg.Done()
			defer func() {
				if r := recover(); r != nil {
					panics[w] = r
				}
			}()
			wgGen := g
			if w > 0 {
				var err error
				wgGen, err = genfacts.NewGen(p)
				if err != nil {
					panics[w] = err
					return
				}
			}
			local := &GenAnalysis{P: p, G: wgGen}
			for {
				i := int(atomic.AddInt32(&next, 1))
				if i >= len(jobs) {
					return
				}
				j := jobs[i]
				gf := wgGen.Generate(j.bi, j.recs, j.o)
				res := result{gf: gf}
				if gf.EvalErr == nil && gf.GenErr == "" && gf.ParseErr == nil && gf.AST != nil {
					for _, r := range j.recs {
						res.recs = append(res.recs, local.readRecord(gf, r))
					}
				}
				// the signature reader is done with the type information: release
				// it (the syntax tree and text stay for the structural rules)
				gf.Info = nil
				gf.Pkg = nil
				results[i] = res
			}
		}(w)
	}
	wg.Wait()
	for _, pn := range panics {
		if pn != nil {
			c.Undecide("generator analysis worker failed: %v", pn)
			return nil
		}
	}
	evalErrs := map[string]bool{}
	for i, res := range results {
		gf := res.gf
		if gf == nil {
			continue
		}
		ga.Files = append(ga.Files, gf)
		if gf.EvalErr != nil {
			if !evalErrs[gf.EvalErr.Error()] {
				evalErrs[gf.EvalErr.Error()] = true
				c.Undecide("the generator leaves the evaluator's subset (batch %d, options %s): %v", jobs[i].bi, jobs[i].o, gf.EvalErr)
			}
			continue
		}
		ga.Recs = append(ga.Recs, res.recs...)
	}
	// the import scenario (namespaced and inlined imported types)
	g.U.AddImportTypes()
	all := geneval.AllOptions()
	for _, combined := range []bool{false, true} {
		for _, o := range []geneval.Options{all[0], all[31], all[8], all[1]} {
			ir := g.GenerateImports(o, combined)
			ga.Imports = append(ga.Imports, ir)
			if ir.Root.EvalErr != nil {
				if !evalErrs[ir.Root.EvalErr.Error()] {
					evalErrs[ir.Root.EvalErr.Error()] = true
					c.Undecide("the generator leaves the evaluator's subset in the import scenario (combined=%v, options %s): %v", combined, o, ir.Root.EvalErr)
				}
				continue
			}
			if ir.DepErr != nil {
				// the root was checked against an incomplete set of imported
				// packages: nothing is derived from this scenario
				if !evalErrs[ir.DepErr.Error()] {
					evalErrs[ir.DepErr.Error()] = true
					c.Undecide("import scenario dependency: %v", ir.DepErr)
				}
				continue
			}
			ga.Files = append(ga.Files, ir.Root)
			ga.Files = append(ga.Files, ir.Deps...)
			if ir.Root.GenErr == "" && ir.Root.ParseErr == nil && ir.Root.AST != nil {
				for _, r := range ir.Recs {
					ga.Recs = append(ga.Recs, ga.readRecord(ir.Root, r))
				}
			}
		}
	}
	c.Count("import_scenarios", len(ga.Imports))
	ga.NRecords = len(ga.Recs)
	for _, r := range ga.Recs {
		for _, m := range r.M {
			if m.Present {
				ga.NMethods++
			}
		}
	}
	c.Count("shapes", ga.NShapes)
	c.Count("generated_files", len(ga.Files))
	c.Count("records", ga.NRecords)
	c.Count("methods_read", ga.NMethods)
	return ga
}

func (ga *GenAnalysis) readRecord(gf *genfacts.GenFile, spec genfacts.RecordSpec) *RecFacts {
	rf := &RecFacts{Spec: spec, GF: gf, GoName: genfacts.GoTypeName(spec.Name, gf.Opts), M: map[string]*MethodFacts{}}
	iohelp := ga.P.Iohelp()
	for _, m := range allMethods {
		mf := &MethodFacts{}
		rf.M[m] = mf
		fd := gf.Methods[rf.GoName+"."+m]
		if fd == nil || fd.Body == nil {
			continue
		}
		mf.Present = true
		mf.Emitted = true
		mf.Decl = fd
		if len(fd.Recv.List) == 1 {
			_, mf.PtrRecv = fd.Recv.List[0].Type.(*ast.StarExpr)
		}
		l := &wire.Lifter{Info: gf.Info, Fset: gf.Fset, Src: gf.Snippet, RecClass: goRecClass, RecFixed: goRecFixed}
		if iohelp != nil {
			l.Iohelp = iohelp.Types
		}
		switch m {
		case mBW:
			mf.Items = l.LiftBW(fd)
		case mSW:
			mf.Items = l.LiftSW(fd)
		case mSZ:
			mf.Size = l.LiftSZ(fd)
		case mBR:
			l.Safe = true
			mf.Items = l.LiftBR(fd)
		case mBRu:
			mf.Items = l.LiftBR(fd)
		case mSR:
			mf.Items = l.LiftSR(fd)
		}
		mf.Items = wire.Normalize(mf.Items)
		mf.Fails, mf.Allocs, mf.Lim, mf.Returns = l.Fails, l.Allocs, l.Lim, l.Returns
		// where the emitted file does not type-check, a method that mentions a
		// value the checker could give no type is read without the types the
		// reader relies on (enum conversions, fixed sizes): not understood
		if len(gf.TypeErrs) > 0 && gf.Info != nil {
			ast.Inspect(fd, func(n ast.Node) bool {
				if e, ok := n.(ast.Expr); ok && mf.InvalidAt == token.NoPos {
					if tv, has := gf.Info.Types[e]; has && tv.Type != nil {
						if b, isB := tv.Type.Underlying().(*types.Basic); isB && b.Kind() == types.Invalid {
							mf.InvalidAt = e.Pos()
						}
					}
				}
				return mf.InvalidAt == token.NoPos
			})
			// or the record's own type has a field the checker gave no type
			// (a field of an imported type whose qualifier is undefined): what
			// the reader knows about the record's fields is then incomplete
			// even where the method's text mentions none of them
			if mf.InvalidAt == token.NoPos && gf.Pkg != nil {
				if tn, ok := gf.Pkg.Scope().Lookup(rf.GoName).(*types.TypeName); ok {
					if st, ok := tn.Type().Underlying().(*types.Struct); ok {
						for i := 0; i < st.NumFields(); i++ {
							if hasInvalid(st.Field(i).Type(), 0) {
								mf.InvalidAt = fd.Pos()
							}
						}
					}
				}
			}
		}
	}
	return rf
}

// ---- the spec signature of a whole record ----------------------------------

func kindName(k genfacts.Class) string {
	switch k {
	case genfacts.ClsStruct:
		return "struct"
	case genfacts.ClsMessage:
		return "message"
	case genfacts.ClsUnion:
		return "union"
	}
	return "?"
}

// expectedRecord is the signature the wire format prescribes for the record,
// for writers (dir "w") and readers (dir "r").
func (ga *GenAnalysis) expectedRecord(rf *RecFacts, dir string) ([]wire.Item, error) {
	cl := classifier(ga.G.U)
	o := rf.GF.Opts
	spec := rf.Spec
	switch spec.Kind {
	case genfacts.ClsStruct:
		var out []wire.Item
		for _, f := range spec.Fields {
			op := "bbp." + genfacts.GoFieldName(f.Name, spec.RO, o)
			it, err := wire.Expected(shapeAdapter{f.Shape}, op, 0, cl)
			if err != nil {
				return nil, err
			}
			out = append(out, it...)
		}
		return out, nil
	case genfacts.ClsMessage, genfacts.ClsUnion:
		fields := append([]genfacts.RecField{}, spec.Fields...)
		sort.SliceStable(fields, func(i, j int) bool { return fields[i].Num < fields[j].Num })
		isUnion := spec.Kind == genfacts.ClsUnion
		k := 4
		if isUnion {
			k = 5
		}
		out := []wire.Item{{Kind: wire.KPrefix, Tag: k}}
		if dir == "r" {
			out[0].Tag = -1
		}
		sw := wire.Item{Kind: wire.KSwitch}
		for _, f := range fields {
			var body []wire.Item
			var ptr string
			if isUnion {
				ptr = "bbp." + genfacts.GoTypeName(f.Name, o)
				body = []wire.Item{{Kind: wire.KRec, Operand: "*" + ptr}}
			} else {
				ptr = "bbp." + genfacts.GoFieldName(f.Name, false, o)
				var err error
				body, err = wire.Expected(shapeAdapter{f.Shape}, "*"+ptr, 0, cl)
				if err != nil {
					return nil, err
				}
			}
			if dir == "w" {
				if f.Deprecated && !isUnion {
					continue // deprecated message fields are not transmitted
				}
				out = append(out, wire.Item{Kind: wire.KOpt, Operand: ptr, Tag: f.Num, Body: body, Returns: isUnion})
			} else {
				sw.Cases = append(sw.Cases, wire.Case{Tag: f.Num, Body: body, Returns: isUnion})
			}
		}
		if dir == "w" {
			if !isUnion {
				out = append(out, wire.Item{Kind: wire.KConstByte, Tag: 0})
			}
		} else {
			sw.Cases = append(sw.Cases, wire.Case{Default: true, Returns: true})
			out = append(out, sw)
		}
		return out, nil
	}
	return nil, fmt.Errorf("unknown record kind")
}

// ---- keys ------------------------------------------------------------------

// shapeAt walks the shape to loop depth d along the value side and returns the
// type found there together with how it is contained.
func shapeCtx(s geneval.Shape, operand string) (typ string, ctx string) {
	// operand is bbp.F / *bbp.F (depth 0), $vN or $kN
	d := 0
	isKey := false
	if strings.HasPrefix(operand, "$v") || strings.HasPrefix(operand, "$k") {
		fmt.Sscanf(operand[2:], "%d", &d)
		isKey = operand[1] == 'k'
	}
	cur := s
	ctx = "field"
	for i := 0; i < d; i++ {
		switch {
		case cur.Array != nil:
			ctx = "array-elem"
			cur = *cur.Array
		case cur.Map != nil:
			if isKey && i == d-1 {
				return cur.Key, "map-key"
			}
			ctx = "map-val"
			cur = *cur.Map
		default:
			return cur.Simple, ctx
		}
	}
	switch {
	case cur.Array != nil:
		return "array", ctx
	case cur.Map != nil:
		return "map", ctx
	}
	return cur.Simple, ctx
}

func (rf *RecFacts) fieldShapeFor(operand string) (geneval.Shape, bool) {
	// single-field exploration records: the one field; multi-field: by name
	if len(rf.Spec.Fields) == 1 {
		return rf.Spec.Fields[0].Shape, true
	}
	for _, f := range rf.Spec.Fields {
		n := genfacts.GoFieldName(f.Name, rf.Spec.RO, rf.GF.Opts)
		if strings.Contains(operand, "bbp."+n) {
			return f.Shape, true
		}
	}
	return geneval.Shape{}, false
}

func (rf *RecFacts) shapeKey() string {
	if len(rf.Spec.Fields) == 1 && rf.Spec.Kind != genfacts.ClsUnion {
		return rf.Spec.Fields[0].Shape.String()
	}
	return "record:" + rf.Spec.Name
}

// whereLazy defers the (costly) rendering of a generated-code position: the
// text is only needed for failing obligations, which core.Ctx keeps.
func (rf *RecFacts) whereLazy(pos token.Pos) lazyWhere { return lazyWhere{rf, pos} }

type lazyWhere struct {
	rf  *RecFacts
	pos token.Pos
}

func (l lazyWhere) String() string { return l.rf.where(l.pos) }

func (rf *RecFacts) where(pos token.Pos) string {
	return fmt.Sprintf("generated %s %s under options %s: %s", kindName(rf.Spec.Kind), rf.shapeKey(), rf.GF.Opts, rf.GF.Line(pos))
}

// goRecClass gives the record class of a Go type name of the exploration
// universe (names are matched case-insensitively: the private-definitions
// option only changes the first letter).
func goRecClass(goName string) string {
	switch strings.ToLower(goName) {
	case "sta", "ste", "str", "stm", "stw", "stx", "stv", "stf", "stbig", "stn", "lowst", "ist", "ibs", "ubs", "ube", "ubt":
		return "struct"
	case "msa", "mse", "ims", "ubm":
		return "message"
	case "una", "iun":
		return "union"
	}
	return ""
}

// goRecFixed: wire size of the universe's structs that are made of fixed-size
// fields only (spec widths: int32 4, float64 8, uint64 8, guid 16, date 8).
func goRecFixed(goName string) (int, bool) {
	switch strings.ToLower(goName) {
	case "stn":
		return 9, true
	case "stf":
		return 12, true
	case "stbig":
		return 256, true
	case "ubs":
		return 8, true
	case "ubt":
		return 16, true
	case "ste", "ube":
		return 0, true
	case "ibs":
		return 8, true
	}
	return 0, false
}

// hasInvalid: t is, or is built from, the invalid type.
func hasInvalid(t types.Type, depth int) bool {
	if t == nil || depth > 6 {
		return false
	}
	switch u := t.(type) {
	case *types.Basic:
		return u.Kind() == types.Invalid
	case *types.Pointer:
		return hasInvalid(u.Elem(), depth+1)
	case *types.Slice:
		return hasInvalid(u.Elem(), depth+1)
	case *types.Array:
		return hasInvalid(u.Elem(), depth+1)
	case *types.Map:
		return hasInvalid(u.Key(), depth+1) || hasInvalid(u.Elem(), depth+1)
	}
	return false
}
