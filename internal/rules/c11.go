package rules

import (
	"fmt"
	"go/ast"
	"go/constant"
	"go/importer"
	"go/parser"
	"go/token"
	"go/types"
	"path/filepath"
	"sort"
	"strings"

	"bebopverif/internal/core"
	"bebopverif/internal/load"
	"bebopverif/internal/wire"

	"golang.org/x/tools/go/cfg"
)

func init() { register("C11", checkC11) }

func checkC11(c *core.Ctx) {
	c.Explainf("C11 (decided clause: the discipline of the pending 'next record' attributes; faithfulness of a parser as a whole is behaviour and is NOT decided). R1: for the definition loop of ReadFile and the member loops of readEnum/readStruct/readMessage/readUnion, the loop-carried locals that hold a pending attribute (comment lines, opcode, readonly, flags; per-member comment, tags, deprecation) form a typestate {clear, maybe-set}; on every CFG path (go/cfg, with refinement on `if v`/`if v != 0` guards, iterated to a fixpoint over the loop) an iteration that completed a definition reaches the loop head with every pending attribute clear — an attribute annotates one definition and no other. R1b: an iteration that matched a token but completed no definition does not clear a pending opcode/readonly/flags/deprecation (the attribute would be lost before its definition). R2: every definition kind either consumes or rejects each of opcode and flags (kind x attribute matrix). R3: evaluateBitflagExpr instantiates the evaluator with the integer type of exactly the signedness and width it dispatches on, and covers the image of decodeIntegerType. R4: skipFollowingWhitespace skips every byte the token tree treats as insignificant. R5: whether a member is deprecated is recorded by a pure flag set in the clause that called readDeprecated, never derived from the message text (`[deprecated(\"\")]` is well formed). R6: the tokenizer uses no bufio primitive bounded by the buffer size (ReadSlice outside a loop on ErrBufferFull, ReadLine, Peek of more than a 16-byte constant, Scanner), decides nothing on (*bufio.Reader).Buffered, and what ReadSlice/Peek hand out is only looked at or copied, never appended onto or stored: comments and literals have no length limit (positive control: fixtures/limitedread). R7: in numberToken's chain of byte classes, for every letter a-f/A-F and every assignment of the boolean locals with the hex flag(s) set, the first condition that holds is the hex-digit arm's (finite decision table over the conditions, the package's one-line predicates inlined). R8: every loop of parse_expr.go that looks for the `)` closing a group also looks at `(` and keeps a depth count. R9: every table from spellings to token kinds holds only the format's reserved words (a spec-side list). R10: a table the tokenizer indexes with an input byte is indexed with the byte itself (not masked or reduced modulo a constant) and, if an array, has 256 entries (positive control: fixtures/bytetable). R11: a strings/bytes trimming call in the parser or tokenizer that names '\\n' names '\\r' too, or the function trims '\\r' elsewhere (positive control: fixtures/lineend). R12: a local slice emptied for re-use with v = v[:0] is never stored by reference (in a composite literal, a field, an element) — only copied (positive control: fixtures/reusedslice). R13: the text of a token that expectNext required to be a string literal reaches the File through strconv.Unquote, never through a Trim of the quote characters. R7b: no local of numberToken initialised from the bytes already read ('7' or '-7') starts differently with a sign than without (evaluated for both entry shapes). R14: skipEndOfLineComments is called only where a member or const has just been completed (a `;` taken or the member stored earlier in the same statement list). NOT decided: token-to-field mapping, source order, layout independence beyond R4.")
	p := loadRepo(c)
	if p == nil {
		return
	}
	pkg := p.Bebop()
	loops := 0
	for _, name := range []string{"ReadFile", "readEnum", "readStruct", "readMessage", "readUnion"} {
		fd := p.FuncDecl(pkg, name)
		if fd == nil {
			c.Undecide("%s not found", name)
			continue
		}
		if pendingTypestate(c, p, fd, name) {
			loops++
		}
	}
	c.Count("attribute_loops", loops)
	c.Floor("attribute_loops", 5)
	attributeMatrix(c, p)
	flagDispatch(c, p, "R3")
	whitespaceAgreement(c, p)
	deprecationIndependent(c, p, "R5")
	limitedBufio(c, p, "R6")
	hexLettersAreDigits(c, p)
	groupScansCountNesting(c, p)
	reservedWordsAreTheFormats(c, p)
	byteTablesAreInjective(c, p)
	lineEndsAreTrimmedTogether(c, p)
	scratchSlicesAreNotKept(c, p)
	stringLiteralsAreUnquoted(c, p)
	trailingCommentsAreSkippedOnlyAfterAMember(c, p)
	numberStateIgnoresTheSign(c, p)
}

// numberStateIgnoresTheSign: R7b. numberToken is entered with the bytes that
// selected it in the token tree: a digit, or '-' and a digit. What it then
// accepts — in particular the hex marker after a leading 0 — must not depend
// on the sign: every local of numberToken that is initialised from the entry
// bytes has the same initial value for "0" as for "-0" (and for "7" as for
// "-7"). A flag computed as len(concrete) == 1 && concrete[0] == '0' makes
// `-0x10` an error where `0x10` is a number. The initialisers are evaluated
// for the entry shapes (a small evaluator over len, indexing, comparisons and
// boolean operators); anything else in an initialiser that mentions the entry
// bytes is UNDECIDED.
func numberStateIgnoresTheSign(c *core.Ctx, p *load.Prog) {
	pkg := p.Bebop()
	info := pkg.TypesInfo
	fd := p.FuncDecl(pkg, "numberToken")
	if fd == nil || fd.Type.Params == nil {
		return // reported by R7
	}
	// the []byte parameter
	var entry types.Object
	for _, fl := range fd.Type.Params.List {
		for _, nm := range fl.Names {
			if o := info.Defs[nm]; o != nil && o.Type().String() == "[]byte" {
				entry = o
			}
		}
	}
	if entry == nil {
		c.Undecide("numberToken: the parameter holding the bytes already read was not found")
		return
	}
	// the token under construction holds the same bytes: tk := token{concrete: concrete}
	textFields := map[types.Object]string{}
	ast.Inspect(fd.Body, func(n ast.Node) bool {
		as, ok := n.(*ast.AssignStmt)
		if !ok || len(as.Lhs) != len(as.Rhs) {
			return true
		}
		for i, r := range as.Rhs {
			cl, ok := ast.Unparen(r).(*ast.CompositeLit)
			if !ok {
				continue
			}
			lid, ok := as.Lhs[i].(*ast.Ident)
			if !ok {
				continue
			}
			for _, el := range cl.Elts {
				if kv, ok := el.(*ast.KeyValueExpr); ok {
					if vid, ok := ast.Unparen(kv.Value).(*ast.Ident); ok && info.ObjectOf(vid) == entry {
						if kid, ok := kv.Key.(*ast.Ident); ok {
							textFields[info.ObjectOf(lid)] = kid.Name
						}
					}
				}
			}
		}
		return true
	})
	isText := func(e ast.Expr) bool {
		switch x := ast.Unparen(e).(type) {
		case *ast.Ident:
			return info.ObjectOf(x) == entry
		case *ast.SelectorExpr:
			if id, ok := ast.Unparen(x.X).(*ast.Ident); ok {
				if f, ok := textFields[info.ObjectOf(id)]; ok && f == x.Sel.Name {
					return true
				}
			}
		}
		return false
	}
	mentionsText := func(e ast.Node) bool {
		found := false
		ast.Inspect(e, func(n ast.Node) bool {
			if ex, ok := n.(ast.Expr); ok && isText(ex) {
				found = true
			}
			return !found
		})
		return found
	}
	mentionsEntry := func(e ast.Expr) bool {
		found := false
		ast.Inspect(e, func(n ast.Node) bool {
			if id, ok := n.(*ast.Ident); ok && info.ObjectOf(id) == entry {
				found = true
			}
			return !found
		})
		return found
	}
	type val struct {
		b      bool
		n      int64
		ok     bool
		isBool bool
	}
	var eval func(e ast.Expr, in []byte) val
	eval = func(e ast.Expr, in []byte) val {
		e = ast.Unparen(e)
		if tv := info.Types[e]; tv.Value != nil {
			if k, ok := constInt(info, e); ok {
				return val{n: int64(k), ok: true}
			}
			if s := tv.Value.ExactString(); s == "true" || s == "false" {
				return val{b: s == "true", ok: true, isBool: true}
			}
		}
		switch x := e.(type) {
		case *ast.CallExpr:
			if wire.Canon(x.Fun) == "len" && len(x.Args) == 1 {
				if isText(x.Args[0]) {
					return val{n: int64(len(in)), ok: true}
				}
			}
		case *ast.IndexExpr:
			if isText(x.X) {
				// an index from the front addresses the sign or the digit
				// depending on the shape: that is the dependence looked for;
				// an index from the end (len-1) addresses the digit in both
				iv := eval(x.Index, in)
				if !iv.ok || iv.n < 0 || int(iv.n) >= len(in) {
					return val{}
				}
				return val{n: int64(in[iv.n]), ok: true}
			}
		case *ast.UnaryExpr:
			if x.Op == token.NOT {
				v := eval(x.X, in)
				if v.ok && v.isBool {
					return val{b: !v.b, ok: true, isBool: true}
				}
			}
		case *ast.BinaryExpr:
			// string(text) == "0"
			if x.Op == token.EQL || x.Op == token.NEQ {
				for k, side := range []ast.Expr{x.X, x.Y} {
					other := []ast.Expr{x.Y, x.X}[k]
					conv, ok := ast.Unparen(side).(*ast.CallExpr)
					if !ok || len(conv.Args) != 1 || !info.Types[conv.Fun].IsType() || !isText(conv.Args[0]) {
						continue
					}
					if tv := info.Types[other]; tv.Value != nil && tv.Value.Kind() == constant.String {
						eq := constant.StringVal(tv.Value) == string(in)
						return val{b: eq == (x.Op == token.EQL), ok: true, isBool: true}
					}
				}
			}
			a, b := eval(x.X, in), eval(x.Y, in)
			switch x.Op {
			case token.LAND:
				if a.ok && a.isBool && !a.b {
					return val{b: false, ok: true, isBool: true}
				}
				if a.ok && b.ok && a.isBool && b.isBool {
					return val{b: a.b && b.b, ok: true, isBool: true}
				}
			case token.LOR:
				if a.ok && a.isBool && a.b {
					return val{b: true, ok: true, isBool: true}
				}
				if a.ok && b.ok && a.isBool && b.isBool {
					return val{b: a.b || b.b, ok: true, isBool: true}
				}
			case token.EQL, token.NEQ, token.LSS, token.LEQ, token.GTR, token.GEQ:
				if a.ok && b.ok && !a.isBool && !b.isBool {
					r := map[token.Token]bool{token.EQL: a.n == b.n, token.NEQ: a.n != b.n, token.LSS: a.n < b.n, token.LEQ: a.n <= b.n, token.GTR: a.n > b.n, token.GEQ: a.n >= b.n}[x.Op]
					return val{b: r, ok: true, isBool: true}
				}
			case token.SUB, token.ADD:
				if a.ok && b.ok && !a.isBool && !b.isBool {
					if x.Op == token.SUB {
						return val{n: a.n - b.n, ok: true}
					}
					return val{n: a.n + b.n, ok: true}
				}
			}
		}
		return val{}
	}
	n := 0
	for _, st := range fd.Body.List {
		as, ok := st.(*ast.AssignStmt)
		if !ok || as.Tok != token.DEFINE || len(as.Lhs) != len(as.Rhs) {
			continue
		}
		for i, rhs := range as.Rhs {
			if !mentionsEntry(rhs) {
				continue
			}
			// the token built from the entry bytes is not state of the scan
			if _, isLit := ast.Unparen(rhs).(*ast.CompositeLit); isLit {
				continue
			}
			n++
			name := wire.Canon(as.Lhs[i])
			bad, unsure := "", false
			for _, d := range []byte{'0', '7'} {
				plain, signed := eval(rhs, []byte{d}), eval(rhs, []byte{'-', d})
				if !plain.ok || !signed.ok {
					unsure = true
					continue
				}
				if plain != signed {
					bad = fmt.Sprintf("after %q it starts as %v, after %q as %v", string([]byte{d}), showVal(plain.isBool, plain.b, plain.n), string([]byte{'-', d}), showVal(signed.isBool, signed.b, signed.n))
				}
			}
			switch {
			case bad != "":
				c.Check("R7b", "numberToken's "+name+" does not depend on the sign of the literal", p.Pos(as.Pos()), false,
					name+" := "+wire.Canon(rhs)+" — "+bad+": what follows a negative literal's first digit (a hex marker, a decimal point) is accepted or refused differently from the same literal without the sign")
			case unsure:
				c.Undecide("C11/R7b: numberToken's %s is initialised from the bytes already read by %s, which the rule cannot evaluate", name, wire.Canon(rhs))
			default:
				c.Check("R7b", "numberToken's "+name+" does not depend on the sign of the literal", p.Pos(as.Pos()), true, "")
			}
		}
	}
	// the same for what the scan loop asks of the text read so far: on its
	// first cycle that text is the entry bytes, and a test of its length, of a
	// byte counted from the front, or of the text as a whole comes out
	// differently for "-0" than for "0" (`len(tk.concrete) == 1 && b == 'x'`,
	// `string(tk.concrete) == "0"`)
	var atoms func(e ast.Expr, out *[]ast.Expr)
	atoms = func(e ast.Expr, out *[]ast.Expr) {
		e = ast.Unparen(e)
		if be, ok := e.(*ast.BinaryExpr); ok && (be.Op == token.LAND || be.Op == token.LOR) {
			atoms(be.X, out)
			atoms(be.Y, out)
			return
		}
		if ue, ok := e.(*ast.UnaryExpr); ok && ue.Op == token.NOT {
			atoms(ue.X, out)
			return
		}
		*out = append(*out, e)
	}
	nc := 0
	ast.Inspect(fd.Body, func(m ast.Node) bool {
		ifs, ok := m.(*ast.IfStmt)
		if !ok {
			return true
		}
		var as []ast.Expr
		atoms(ifs.Cond, &as)
		for _, a := range as {
			if !mentionsText(a) {
				continue
			}
			nc++
			bad, unsure := "", false
			for _, d := range []byte{'0', '7'} {
				plain, signed := eval(a, []byte{d}), eval(a, []byte{'-', d})
				if !plain.ok || !signed.ok {
					unsure = true
					continue
				}
				if plain != signed {
					bad = fmt.Sprintf("with %q read it is %v, with %q it is %v", string([]byte{d}), showVal(plain.isBool, plain.b, plain.n), string([]byte{'-', d}), showVal(signed.isBool, signed.b, signed.n))
				}
			}
			key := fmt.Sprintf("numberToken's test %s does not depend on the sign of the literal", wire.Canon(a))
			switch {
			case bad != "":
				c.Check("R7b", key, p.Pos(a.Pos()), false,
					bad+": what follows a negative literal's first digit (a hex marker, a decimal point) is accepted or refused differently from the same literal without the sign — `-0x10` is not read as a number")
			case unsure:
				c.Undecide("C11/R7b: numberToken tests the text read so far with %s, which the rule cannot evaluate for the two entry shapes", wire.Canon(a))
			default:
				c.Check("R7b", key, p.Pos(a.Pos()), true, "")
			}
		}
		return true
	})
	c.Count("number_tests_of_text_so_far", nc)
	c.Check("R7b", "numberToken's state does not depend on the sign of the literal (scan complete)", p.Pos(fd.Pos()), true, "")
	c.Count("number_state_from_entry_bytes", n)
}

func showVal(isBool, b bool, n int64) string {
	if isBool {
		return fmt.Sprint(b)
	}
	return fmt.Sprint(n)
}

// trailingCommentsAreSkippedOnlyAfterAMember: R14. skipEndOfLineComments
// throws away the comment that follows on the same line — right after a member
// or a const was completed ("comments at the end of lines after fields are not
// comments for the next field"), wrong anywhere else: after an attribute the
// comment on the same line (and a //[tag(...)] in it) belongs to the member
// that follows. Every call of it is therefore preceded, in its own statement
// list, by the end of a member: an expectNext/expectAnyOfNext that names
// tokenKindSemicolon, or a store of the member into the definition being built.
func trailingCommentsAreSkippedOnlyAfterAMember(c *core.Ctx, p *load.Prog) {
	pkg := p.Bebop()
	info := pkg.TypesInfo
	target := p.FuncDecl(pkg, "skipEndOfLineComments")
	if target == nil {
		c.Undecide("skipEndOfLineComments not found: how trailing comments are told from doc comments is not recognised")
		return
	}
	tobj := info.Defs[target.Name]
	takesReader := func(call *ast.CallExpr) bool {
		for _, a := range call.Args {
			if t := info.TypeOf(a); t != nil && strings.HasSuffix(t.String(), ".tokenReader") {
				return true
			}
		}
		return false
	}
	// e names tokenKindSemicolon, itself or through the initialiser of a
	// package-level variable it mentions
	var namesSemicolon func(e ast.Node, depth int) bool
	namesSemicolon = func(e ast.Node, depth int) bool {
		found := false
		ast.Inspect(e, func(n ast.Node) bool {
			id, ok := n.(*ast.Ident)
			if !ok || found {
				return !found
			}
			if id.Name == "tokenKindSemicolon" {
				found = true
				return false
			}
			if v, ok := info.Uses[id].(*types.Var); ok && v.Pkg() == pkg.Types && v.Parent() == pkg.Types.Scope() && depth < 2 {
				for _, f := range pkg.Syntax {
					for _, d := range f.Decls {
						gd, ok := d.(*ast.GenDecl)
						if !ok {
							continue
						}
						for _, sp := range gd.Specs {
							if vs, ok := sp.(*ast.ValueSpec); ok {
								for i, nm := range vs.Names {
									if info.Defs[nm] == types.Object(v) && i < len(vs.Values) && namesSemicolon(vs.Values[i], depth+1) {
										found = true
									}
								}
							}
						}
					}
				}
			}
			return !found
		})
		return found
	}
	endsMember := func(st ast.Stmt) bool {
		found := false
		ast.Inspect(st, func(n ast.Node) bool {
			switch x := n.(type) {
			case *ast.CallExpr:
				fn := wire.Canon(x.Fun)
				if fn == "expectNext" || fn == "expectAnyOfNext" {
					for _, a := range x.Args {
						if wire.Canon(a) == "tokenKindSemicolon" {
							found = true
						}
					}
				}
				// an expectation built elsewhere and applied here:
				// fieldNameEnd.read(tr), seq(…, tokenKindSemicolon).check(tr)
				if takesReader(x) && namesSemicolon(x.Fun, 0) {
					found = true
				}
			case *ast.AssignStmt:
				for _, l := range x.Lhs {
					// st.Fields = append(st.Fields, Field{…}) / msg.Fields[i] = Field{…}
					root := ast.Unparen(l)
					if ix, ok := root.(*ast.IndexExpr); ok {
						root = ast.Unparen(ix.X)
					}
					if sel, ok := root.(*ast.SelectorExpr); ok && (sel.Sel.Name == "Fields" || sel.Sel.Name == "Options") {
						found = true
					}
				}
			}
			return !found
		})
		return found
	}
	// functions that may take a newline token: they read tokens and name
	// tokenKindNewline (optNewline and whatever replaces it)
	mentionsNewline := func(n ast.Node) bool {
		found := false
		ast.Inspect(n, func(k ast.Node) bool {
			if id, ok := k.(*ast.Ident); ok && id.Name == "tokenKindNewline" {
				found = true
			}
			return !found
		})
		return found
	}
	readsTokens := func(n ast.Node) bool {
		found := false
		ast.Inspect(n, func(k ast.Node) bool {
			if call, ok := k.(*ast.CallExpr); ok && (isMethodCall(call, "", "Next") || isMethodCall(call, "", "next")) {
				found = true
			}
			return !found
		})
		return found
	}
	newlineTakers := map[types.Object]bool{}
	for _, f := range pkg.Syntax {
		for _, d := range f.Decls {
			if fd, ok := d.(*ast.FuncDecl); ok && fd.Body != nil && fd != target && mentionsNewline(fd.Body) && readsTokens(fd.Body) {
				newlineTakers[info.Defs[fd.Name]] = true
			}
		}
	}
	takesNewline := func(st ast.Stmt) ast.Node {
		var hit ast.Node
		ast.Inspect(st, func(k ast.Node) bool {
			if hit != nil {
				return false
			}
			switch x := k.(type) {
			case *ast.CallExpr:
				if cal := load.Callee(info, x); cal != nil && newlineTakers[types.Object(cal)] {
					hit = x
				}
			case *ast.Ident:
				if x.Name == "tokenKindNewline" {
					hit = x
				}
			}
			return hit == nil
		})
		return hit
	}
	n := 0
	for _, fd := range funcsOfFiles(p, pkg, "parse.go", "parse_expr.go") {
		if fd == target {
			continue
		}
		var visit func(list []ast.Stmt)
		visit = func(list []ast.Stmt) {
			for i, st := range list {
				// nested lists first
				ast.Inspect(st, func(k ast.Node) bool {
					switch y := k.(type) {
					case *ast.BlockStmt:
						if ast.Node(y) != ast.Node(st) {
							visit(y.List)
							return false
						}
					case *ast.CaseClause:
						visit(y.Body)
						return false
					}
					return true
				})
				es, ok := st.(*ast.ExprStmt)
				if !ok {
					continue
				}
				call, ok := es.X.(*ast.CallExpr)
				if !ok {
					continue
				}
				if cal := load.Callee(info, call); cal == nil || types.Object(cal) != tobj {
					continue
				}
				n++
				ok2 := false
				for j := i - 1; j >= 0; j-- {
					if endsMember(list[j]) {
						ok2 = true
						break
					}
				}
				// R14b: the line the member ended on is still the current line:
				// nothing between the member's end and this call takes the
				// newline. With the newline gone, the comment skipped is the one
				// on the following line — the doc comment of what comes next.
				if ok2 {
					var eaten ast.Node
					for j := i - 1; j >= 0 && eaten == nil; j-- {
						if n := takesNewline(list[j]); n != nil {
							eaten = n
						}
						if endsMember(list[j]) {
							break
						}
					}
					where := p.Pos(call.Pos())
					if eaten != nil {
						where = p.Pos(eaten.Pos())
					}
					c.Check("R14b", fmt.Sprintf("%s skips the trailing comment before the line's newline is taken (#%d)", fd.Name.Name, n), where, eaten == nil,
						"a newline is consumed between the end of the member and skipEndOfLineComments: the comment then skipped is the one on the next line, which is the doc comment of the definition or member that follows, and whether it is lost depends on a blank line")
				}
				c.Check("R14", fmt.Sprintf("%s skips a trailing comment only after a member is complete (#%d)", fd.Name.Name, n), p.Pos(call.Pos()), ok2,
					"skipEndOfLineComments is called where no member or const has just been completed (no `;` taken and nothing stored before it in this statement list): the comment on the rest of the line — and a //[tag(...)] in it — belongs to what follows and is thrown away")
			}
		}
		visit(fd.Body.List)
	}
	c.Count("trailing_comment_skips", n)
	c.Floor("trailing_comment_skips", 2)
}

// scanReusedSlices: R12. A local slice that is emptied for re-use with
// `v = v[:0]` keeps its backing array: whatever was stored *by reference*
// before — the slice itself put into a composite literal, assigned to a field
// or an element, or appended as one element — is overwritten by what is
// appended next. Copies are fine (strings.Join, append(dst, v...), copy, a
// conversion, ranging, indexing). In the parser that is how the tags of one
// member turn into the tags of the next.
func scanReusedSlices(info *types.Info, files []*ast.File, report func(fn, what string, pos token.Pos)) (reused int) {
	for _, f := range files {
		for _, d := range f.Decls {
			fd, ok := d.(*ast.FuncDecl)
			if !ok || fd.Body == nil {
				continue
			}
			// slices truncated in place
			trunc := map[types.Object]bool{}
			ast.Inspect(fd.Body, func(n ast.Node) bool {
				as, ok := n.(*ast.AssignStmt)
				if !ok || len(as.Lhs) != len(as.Rhs) {
					return true
				}
				for i, l := range as.Lhs {
					lid, ok := ast.Unparen(l).(*ast.Ident)
					if !ok {
						continue
					}
					se, ok := ast.Unparen(as.Rhs[i]).(*ast.SliceExpr)
					if !ok || se.Low != nil || se.High == nil {
						continue
					}
					if k, isC := constInt(info, se.High); !isC || k != 0 {
						continue
					}
					if xid, ok := ast.Unparen(se.X).(*ast.Ident); ok && info.ObjectOf(xid) == info.ObjectOf(lid) {
						if _, isSlice := info.TypeOf(lid).Underlying().(*types.Slice); isSlice {
							trunc[info.ObjectOf(lid)] = true
						}
					}
				}
				return true
			})
			if len(trunc) == 0 {
				continue
			}
			reused += len(trunc)
			isT := func(e ast.Expr) (types.Object, bool) {
				id, ok := ast.Unparen(e).(*ast.Ident)
				if !ok {
					return nil, false
				}
				o := info.ObjectOf(id)
				return o, trunc[o]
			}
			ast.Inspect(fd.Body, func(n ast.Node) bool {
				switch x := n.(type) {
				case *ast.CompositeLit:
					for _, el := range x.Elts {
						v := el
						if kv, ok := el.(*ast.KeyValueExpr); ok {
							v = kv.Value
						}
						if o, ok := isT(v); ok {
							report(fd.Name.Name, o.Name()+" is put into "+wire.Canon(x.Type)+"{…} as it is and emptied with "+o.Name()+"[:0] for the next round: both share one backing array", v.Pos())
						}
					}
				case *ast.AssignStmt:
					if len(x.Lhs) != len(x.Rhs) {
						return true
					}
					for i, r := range x.Rhs {
						if o, ok := isT(r); ok {
							switch ast.Unparen(x.Lhs[i]).(type) {
							case *ast.SelectorExpr, *ast.IndexExpr, *ast.StarExpr:
								report(fd.Name.Name, o.Name()+" is stored in "+wire.Canon(x.Lhs[i])+" as it is and emptied with "+o.Name()+"[:0] for the next round: both share one backing array", r.Pos())
							}
						}
					}
				case *ast.CallExpr:
					if wire.Canon(x.Fun) == "append" && !x.Ellipsis.IsValid() {
						for _, a := range x.Args[1:] {
							if o, ok := isT(a); ok {
								report(fd.Name.Name, o.Name()+" is appended as an element and emptied with "+o.Name()+"[:0] for the next round: both share one backing array", a.Pos())
							}
						}
					}
				}
				return true
			})
		}
	}
	return reused
}

func scratchSlicesAreNotKept(c *core.Ctx, p *load.Prog) {
	pkg := p.Bebop()
	var files []*ast.File
	files = filesOf(p, pkg, "parse.go", "parse_expr.go", "tokenize.go", "token_tree.go", "eval_expr.go")
	n := scanReusedSlices(pkg.TypesInfo, files, func(fn, what string, pos token.Pos) {
		c.Check("R12", fn+" does not keep a slice it re-uses", p.Pos(pos), false, what+": what the File holds for one definition is overwritten by the next")
	})
	c.Count("slices_emptied_for_reuse", n)
	c.Check("R12", "no re-used scratch slice is kept by reference (scan complete)", "parse.go", true, "")
	f, info, err := typeCheckFixture(c, "reusedslice")
	if err != nil {
		c.Undecide("positive control fixture reusedslice: %v", err)
		return
	}
	hits := map[string]bool{}
	scanReusedSlices(info, []*ast.File{f}, func(fn, what string, pos token.Pos) { hits[fn] = true })
	for _, want := range []string{"keptInLiteral", "keptInField", "keptAsElement"} {
		c.Check("R12", "positive control: "+want+" is recognised", "fixtures/reusedslice/fx.go", hits[want], "the rule no longer matches the shape it is meant to find")
	}
	for _, not := range []string{"joined", "spread", "fresh"} {
		c.Check("R12", "positive control: "+not+" is not reported", "fixtures/reusedslice/fx.go", !hits[not], "")
	}
}

// stringLiteralsAreUnquoted: R13. The tokenizer's string literals follow Go's
// syntax (escapes included). Where the parser takes the text of a token that
// expectNext required to be a string literal, that text reaches the File
// through strconv.Unquote — cutting the quote characters off with a Trim
// leaves the escapes undecoded and eats an escaped quote at the end.
func stringLiteralsAreUnquoted(c *core.Ctx, p *load.Prog) {
	pkg := p.Bebop()
	info := pkg.TypesInfo
	n := 0
	for _, fd := range funcsOfFiles(p, pkg, "parse.go", "parse_expr.go") {
		// toks, err := expectNext(tr, k0, k1, …): positions required to be string literals
		lit := map[types.Object]map[int]bool{}
		ast.Inspect(fd.Body, func(nd ast.Node) bool {
			as, ok := nd.(*ast.AssignStmt)
			if !ok || len(as.Rhs) != 1 || len(as.Lhs) < 1 {
				return true
			}
			call, ok := ast.Unparen(as.Rhs[0]).(*ast.CallExpr)
			if !ok || wire.Canon(call.Fun) != "expectNext" || call.Ellipsis.IsValid() {
				return true
			}
			id, ok := ast.Unparen(as.Lhs[0]).(*ast.Ident)
			if !ok || id.Name == "_" {
				return true
			}
			for i, a := range call.Args[1:] {
				if wire.Canon(a) == "tokenKindStringLiteral" {
					o := info.ObjectOf(id)
					if lit[o] == nil {
						lit[o] = map[int]bool{}
					}
					lit[o][i] = true
				}
			}
			return true
		})
		if len(lit) == 0 {
			continue
		}
		// every use toks[i].concrete with i a literal position
		var stack []ast.Node
		ast.Inspect(fd.Body, func(nd ast.Node) bool {
			if nd == nil {
				stack = stack[:len(stack)-1]
				return true
			}
			stack = append(stack, nd)
			sel, ok := nd.(*ast.SelectorExpr)
			if !ok || sel.Sel.Name != "concrete" {
				return true
			}
			ix, ok := ast.Unparen(sel.X).(*ast.IndexExpr)
			if !ok {
				return true
			}
			id, ok := ast.Unparen(ix.X).(*ast.Ident)
			if !ok {
				return true
			}
			k, isC := constInt(info, ix.Index)
			if !isC || !lit[info.ObjectOf(id)][k] {
				return true
			}
			n++
			// outwards: conversions, then the call that takes the text
			verdict := "other"
			for i := len(stack) - 2; i >= 0; i-- {
				call, isCall := stack[i].(*ast.CallExpr)
				if !isCall {
					if _, isParen := stack[i].(*ast.ParenExpr); isParen {
						continue
					}
					break
				}
				if tv := info.Types[call.Fun]; tv.IsType() {
					continue
				}
				fn := wire.Canon(call.Fun)
				switch {
				case fn == "strconv.Unquote":
					verdict = "unquote"
				case strings.HasPrefix(fn, "strings.Trim") || strings.HasPrefix(fn, "bytes.Trim"):
					verdict = "trim"
				}
				break
			}
			key := fmt.Sprintf("%s decodes the string literal %s with strconv.Unquote", fd.Name.Name, wire.Canon(ix))
			switch verdict {
			case "unquote":
				c.Check("R13", key, p.Pos(sel.Pos()), true, "")
			case "trim":
				c.Check("R13", key, p.Pos(sel.Pos()), false, "the quotes are cut off with a Trim: escape sequences in the literal stay undecoded, and a literal ending in an escaped quote loses it and keeps the backslash")
			default:
				// stored raw, compared, measured: nothing to decode here
			}
			return true
		})
	}
	c.Count("string_literal_text_sites", n)
	c.Floor("string_literal_text_sites", 2)
}

// scanByteTables: R10. A table the tokenizer indexes with an input byte tells
// all 256 byte values apart: the index is the byte itself (not the byte masked
// or reduced modulo a constant, which files two different input bytes under one
// entry — a UTF-8 lead byte is then read as '[' or ']'), and an array so
// indexed has 256 entries (a shorter one panics on the bytes beyond it). A
// masked or short index under a comparison of the same byte with a constant
// is a range-compacted table and is left undecided.
func scanByteTables(info *types.Info, files []*ast.File, report func(fn, what string, pos token.Pos, unsure bool)) (sites int) {
	isByte := func(t types.Type) bool {
		b, ok := t.Underlying().(*types.Basic)
		return ok && b.Kind() == types.Uint8
	}
	for _, f := range files {
		for _, d := range f.Decls {
			fd, ok := d.(*ast.FuncDecl)
			if !ok || fd.Body == nil {
				continue
			}
			// byte-typed operands compared with a constant somewhere in the function
			guarded := map[string]bool{}
			ast.Inspect(fd.Body, func(n ast.Node) bool {
				if be, ok := n.(*ast.BinaryExpr); ok {
					switch be.Op {
					case token.LSS, token.LEQ, token.GTR, token.GEQ:
						for _, pair := range [][2]ast.Expr{{be.X, be.Y}, {be.Y, be.X}} {
							if t := info.TypeOf(pair[0]); t != nil && isByte(t) && info.Types[pair[1]].Value != nil {
								guarded[wire.Canon(pair[0])] = true
							}
						}
					}
				}
				return true
			})
			isGuarded := func(e ast.Expr) bool {
				found := false
				ast.Inspect(e, func(k ast.Node) bool {
					if ke, ok := k.(ast.Expr); ok && guarded[wire.Canon(ke)] {
						found = true
					}
					return !found
				})
				return found
			}
			ast.Inspect(fd.Body, func(n ast.Node) bool {
				ix, ok := n.(*ast.IndexExpr)
				if !ok {
					return true
				}
				xt := info.TypeOf(ix.X)
				if xt == nil {
					return true
				}
				if pt, ok := xt.Underlying().(*types.Pointer); ok {
					xt = pt.Elem()
				}
				arr, isArr := xt.Underlying().(*types.Array)
				_, isMap := xt.Underlying().(*types.Map)
				if !isArr && !isMap {
					return true
				}
				idx := ast.Unparen(ix.Index)
				// strip conversions: int(b), uint8(x)
				for {
					call, ok := idx.(*ast.CallExpr)
					if !ok || len(call.Args) != 1 || !info.Types[call.Fun].IsType() {
						break
					}
					idx = ast.Unparen(call.Args[0])
				}
				// the byte masked or reduced
				if be, ok := idx.(*ast.BinaryExpr); ok && (be.Op == token.AND || be.Op == token.REM) {
					operand, cst := be.X, be.Y
					if info.Types[operand].Value != nil {
						operand, cst = be.Y, be.X
					}
					ot := info.TypeOf(operand)
					k, isC := constInt(info, cst)
					// a table of bytes or runes read at a nibble or a masked value is
					// a translation (hex digits), not a classification of the input
					var elem types.Type
					if isArr {
						elem = arr.Elem()
					} else {
						elem = xt.Underlying().(*types.Map).Elem()
					}
					if eb, ok := elem.Underlying().(*types.Basic); ok && (eb.Kind() == types.Uint8 || eb.Kind() == types.Int32) {
						return true
					}
					if ot != nil && isByte(ot) && info.Types[operand].Value == nil && isC {
						injective := be.Op == token.AND && k&0xff == 0xff || be.Op == token.REM && k >= 256
						if !injective {
							sites++
							report(fd.Name.Name, wire.Canon(ix)+": the input byte is folded by "+wire.Canon(be)+", so bytes that differ share an entry", ix.Pos(), isGuarded(operand))
						}
					}
					return true
				}
				if t := info.TypeOf(idx); t != nil && isByte(t) && info.Types[idx].Value == nil && isArr {
					sites++
					if arr.Len() < 256 {
						// a byte the function itself read is an input byte; one it was
						// handed may be a program constant (the table being built)
						fromRead := false
						if id, ok := idx.(*ast.Ident); ok {
							o := info.ObjectOf(id)
							ast.Inspect(fd.Body, func(k ast.Node) bool {
								if as, ok := k.(*ast.AssignStmt); ok && len(as.Rhs) == 1 {
									if _, isCall := ast.Unparen(as.Rhs[0]).(*ast.CallExpr); isCall {
										for _, l := range as.Lhs {
											if lid, ok := ast.Unparen(l).(*ast.Ident); ok && info.ObjectOf(lid) == o {
												fromRead = true
											}
										}
									}
								}
								return true
							})
						}
						report(fd.Name.Name, fmt.Sprintf("%s: an array of %d entries indexed by a byte panics on the bytes from %d up", wire.Canon(ix), arr.Len(), arr.Len()), ix.Pos(), isGuarded(idx) || !fromRead)
					}
				}
				return true
			})
		}
	}
	return sites
}

func byteTablesAreInjective(c *core.Ctx, p *load.Prog) {
	pkg := p.Bebop()
	var files []*ast.File
	files = filesOf(p, pkg, "tokenize.go", "token_tree.go", "token.go")
	if len(files) == 0 {
		c.Undecide("the tokenizer's files were not found")
		return
	}
	scanByteTables(pkg.TypesInfo, files, func(fn, what string, pos token.Pos, unsure bool) {
		if unsure {
			c.Undecide("C11/R10: %s in %s at %s, under a range test of the same byte: a range-compacted table the rule does not follow", what, fn, p.Pos(pos))
			return
		}
		c.Check("R10", fn+" looks the input byte up as it is", p.Pos(pos), false, what+": a schema with a non-ASCII letter there is tokenized as if it held the ASCII byte of the same entry")
	})
	c.Check("R10", "the tokenizer's byte-indexed tables tell all byte values apart (scan complete)", "tokenize.go, token_tree.go", true, "")
	f, info, err := typeCheckFixture(c, "bytetable")
	if err != nil {
		c.Undecide("positive control fixture bytetable: %v", err)
		return
	}
	hits := map[string]bool{}
	scanByteTables(info, []*ast.File{f}, func(fn, what string, pos token.Pos, unsure bool) {
		if !unsure {
			hits[fn] = true
		}
	})
	for _, want := range []string{"masked", "reduced", "shortRead", "maskedMap"} {
		c.Check("R10", "positive control: "+want+" is recognised", "fixtures/bytetable/fx.go", hits[want], "the rule no longer matches the shape it is meant to find")
	}
	for _, not := range []string{"full", "fullPtr", "byMap", "guardedShort", "lowNibble", "short"} {
		c.Check("R10", "positive control: "+not+" is not reported", "fixtures/bytetable/fx.go", !hits[not], "")
	}
}

// scanLineEndTrims: R11. The text of a line comment ends with the line break
// the tokenizer read with it, "\n" or "\r\n". Wherever the parser cuts a line
// break off token text with a strings/bytes trimming function, the characters
// it names include '\r' whenever they include '\n' (or the same value is also
// trimmed of '\r' in that function): otherwise every doc comment of a CRLF
// file keeps a carriage return and a //[tag(...)] line no longer ends in ")]".
func scanLineEndTrims(info *types.Info, files []*ast.File, report func(fn, what string, pos token.Pos)) (sites int) {
	trimmers := map[string]bool{"Trim": true, "TrimRight": true, "TrimSuffix": true, "TrimLeft": true, "TrimPrefix": true, "TrimFunc": false, "TrimRightFunc": false}
	for _, f := range files {
		for _, d := range f.Decls {
			fd, ok := d.(*ast.FuncDecl)
			if !ok || fd.Body == nil {
				continue
			}
			type site struct {
				call *ast.CallExpr
				set  string
			}
			var withLF []site
			hasCR := false
			ast.Inspect(fd.Body, func(n ast.Node) bool {
				call, ok := n.(*ast.CallExpr)
				if !ok || len(call.Args) != 2 {
					return true
				}
				callee := load.Callee(info, call)
				if callee == nil || callee.Pkg() == nil || (callee.Pkg().Path() != "strings" && callee.Pkg().Path() != "bytes") || !trimmers[callee.Name()] {
					return true
				}
				tv := info.Types[call.Args[1]]
				set := ""
				if tv.Value != nil && tv.Value.Kind() == constant.String {
					set = constant.StringVal(tv.Value)
				} else if cl, ok := ast.Unparen(call.Args[1]).(*ast.CallExpr); ok && len(cl.Args) == 1 {
					// []byte("\r\n")
					if v := info.Types[cl.Args[0]].Value; v != nil && v.Kind() == constant.String {
						set = constant.StringVal(v)
					}
				}
				if set == "" {
					return true
				}
				if strings.Contains(set, "\r") {
					hasCR = true
				}
				if strings.Contains(set, "\n") && !strings.Contains(set, "\r") {
					withLF = append(withLF, site{call, set})
				}
				if strings.Contains(set, "\n") {
					sites++
				}
				return true
			})
			if !hasCR {
				for _, s := range withLF {
					report(fd.Name.Name, fmt.Sprintf("%s cuts %q off but not a carriage return", wire.Canon(s.call.Fun), s.set), s.call.Pos())
				}
			}
		}
	}
	return sites
}

func lineEndsAreTrimmedTogether(c *core.Ctx, p *load.Prog) {
	pkg := p.Bebop()
	var files []*ast.File
	files = filesOf(p, pkg, "parse.go", "parse_expr.go", "tokenize.go", "token_tree.go")
	n := scanLineEndTrims(pkg.TypesInfo, files, func(fn, what string, pos token.Pos) {
		c.Check("R11", fn+" trims both characters of a line end", p.Pos(pos), false, what+": the File read from a CRLF schema differs from the one read from the same schema with LF line ends")
	})
	c.Check("R11", "line ends are trimmed as \\r and \\n together (scan complete)", "parse.go", true, "")
	c.Count("line_end_trim_sites", n)
	c.Floor("line_end_trim_sites", 1)
	f, info, err := typeCheckFixture(c, "lineend")
	if err != nil {
		c.Undecide("positive control fixture lineend: %v", err)
		return
	}
	hits := map[string]bool{}
	scanLineEndTrims(info, []*ast.File{f}, func(fn, what string, pos token.Pos) { hits[fn] = true })
	for _, want := range []string{"lfOnly", "lfSuffix"} {
		c.Check("R11", "positive control: "+want+" is recognised", "fixtures/lineend/fx.go", hits[want], "the rule no longer matches the shape it is meant to find")
	}
	for _, not := range []string{"both", "twoSteps", "spaces"} {
		c.Check("R11", "positive control: "+not+" is not reported", "fixtures/lineend/fx.go", !hits[not], "")
	}
}

// whitespaceAgreement: R4. Two places decide what is insignificant
// whitespace: the token tree's skip set and skipFollowingWhitespace (which
// also swallows the newline that ends a block comment's line). The second
// must skip everything the first does, or a doc comment is kept or dropped
// depending on whether a tab or a carriage return precedes the line break.
func whitespaceAgreement(c *core.Ctx, p *load.Prog) {
	pkg := p.Bebop()
	info := pkg.TypesInfo
	tree := p.FuncDecl(pkg, "newTokenTree")
	skip := p.FuncDecl(pkg, "tokenReader.skipFollowingWhitespace")
	if tree == nil || skip == nil {
		c.Undecide("newTokenTree / skipFollowingWhitespace not found")
		return
	}
	treeSet := map[int]bool{}
	var computedSkips []*ast.CallExpr
	ast.Inspect(tree.Body, func(n ast.Node) bool {
		if call, ok := n.(*ast.CallExpr); ok && isMethodCall(call, "tt", "skip") && len(call.Args) == 1 {
			if v, ok := constInt(info, call.Args[0]); ok {
				treeSet[v] = true
			} else {
				computedSkips = append(computedSkips, call)
			}
		}
		return true
	})
	// tt.skip(b) with b ranging over a constant string or byte-slice literal
	for _, call := range computedSkips {
		resolved := false
		if id, ok := ast.Unparen(call.Args[0]).(*ast.Ident); ok {
			obj := info.ObjectOf(id)
			ast.Inspect(tree.Body, func(n ast.Node) bool {
				rs, ok := n.(*ast.RangeStmt)
				if !ok || rs.Value == nil {
					return true
				}
				vid, ok := rs.Value.(*ast.Ident)
				if !ok || info.ObjectOf(vid) != obj {
					return true
				}
				x := ast.Unparen(rs.X)
				if conv, ok := x.(*ast.CallExpr); ok && len(conv.Args) == 1 && info.Types[conv.Fun].IsType() {
					x = ast.Unparen(conv.Args[0])
				}
				if tv := info.Types[x]; tv.Value != nil && tv.Value.Kind() == constant.String {
					for _, b := range []byte(constant.StringVal(tv.Value)) {
						treeSet[int(b)] = true
					}
					resolved = true
				} else if cl, ok := x.(*ast.CompositeLit); ok {
					all := true
					for _, el := range cl.Elts {
						if v, ok := constInt(info, el); ok {
							treeSet[v] = true
						} else {
							all = false
						}
					}
					resolved = all
				}
				return true
			})
		}
		if !resolved {
			c.Undecide("newTokenTree: the byte handed to skip at %s is computed: which bytes the tokenizer treats as insignificant is not read off", p.Pos(call.Pos()))
		}
	}
	// R4b: a skipped byte is a whole character. The tokenizer is driven by
	// bytes, identifiers by runes: a byte >= 0x80 in the skip set is the lead
	// or a continuation byte of a letter, which then loses it
	{
		var high []string
		for b := range treeSet {
			if b >= 0x80 {
				high = append(high, fmt.Sprintf("0x%02X", b))
			}
		}
		sort.Strings(high)
		c.Check("R4b", "every byte the tokenizer skips is an ASCII character", p.Pos(tree.Pos()), len(high) == 0,
			fmt.Sprintf("the skip set holds %v: bytes of multi-byte UTF-8 sequences. An identifier whose first letter is encoded with such a byte loses it (the letter is dropped or the definition refused), so the parse of a well-formed schema depends on which letters its names use", high))
	}
	// the bytes a clause skips: constants of a tagged switch's case list, or the
	// constants a tagless switch's / an if's condition compares the byte with
	// (b == ' ' || b == '\t'), in a clause that neither returns nor un-reads
	skipSet := map[int]bool{}
	leaves := func(stmts []ast.Stmt) bool {
		out := false
		for _, st := range stmts {
			ast.Inspect(st, func(k ast.Node) bool {
				switch y := k.(type) {
				case *ast.ReturnStmt:
					out = true
				case *ast.BranchStmt:
					if y.Tok == token.BREAK {
						out = true
					}
				case *ast.CallExpr:
					if isMethodCall(y, "tr", "unreadByte") {
						out = true
					}
				}
				return true
			})
		}
		return out
	}
	eqConsts := func(e ast.Expr) []int {
		var vals []int
		ast.Inspect(e, func(k ast.Node) bool {
			if be, ok := k.(*ast.BinaryExpr); ok && be.Op == token.EQL {
				if t := info.TypeOf(be.X); t != nil {
					if b, isB := t.Underlying().(*types.Basic); isB && b.Kind() == types.Uint8 {
						if v, isC := constInt(info, be.Y); isC {
							vals = append(vals, v)
						}
					}
				}
			}
			return true
		})
		return vals
	}
	ast.Inspect(skip.Body, func(n ast.Node) bool {
		switch x := n.(type) {
		case *ast.CaseClause:
			// a clause that falls through to a skipping clause skips as well; a
			// clause is judged by its own statements unless it ends in fallthrough
			body := x.Body
			if len(body) > 0 {
				if br, isBr := body[len(body)-1].(*ast.BranchStmt); isBr && br.Tok == token.FALLTHROUGH {
					body = nil
				}
			}
			if leaves(body) {
				return true
			}
			for _, e := range x.List {
				if v, ok := constInt(info, e); ok {
					skipSet[v] = true
				}
				for _, v := range eqConsts(e) {
					skipSet[v] = true
				}
			}
		case *ast.IfStmt:
			if !leaves(x.Body.List) {
				for _, v := range eqConsts(x.Cond) {
					skipSet[v] = true
				}
			}
		}
		return true
	})
	c.Count("whitespace_bytes", len(treeSet))
	c.Floor("whitespace_bytes", 3)
	var missing []string
	for b := range treeSet {
		if !skipSet[b] {
			missing = append(missing, fmt.Sprintf("%q", rune(b)))
		}
	}
	sort.Strings(missing)
	c.Check("R4", "whitespace after a block comment is skipped like whitespace elsewhere", p.Pos(skip.Pos()), len(missing) == 0 && skipSet['\n'],
		fmt.Sprintf("skipFollowingWhitespace does not skip %v although the token tree treats it as whitespace (and must skip the line break): `/* doc */<that byte><newline>` yields a Newline token that detaches the comment from its definition, so the parse depends on horizontal whitespace / CRLF", missing))
}

type pstate struct {
	set      uint32 // bit i: var i maybe set
	startSet uint32 // value of set at the start of this iteration
	cleared  uint32 // vars zero-assigned in this iteration while maybe set
	appended bool
	matched  bool
}

// pendingTypestate runs the typestate over the main loop of fd.
func pendingTypestate(c *core.Ctx, p *load.Prog, fd *ast.FuncDecl, fname string) bool {
	pkg := p.Bebop()
	info := pkg.TypesInfo
	// the main loop: the last top-level for statement of the function
	var loop *ast.ForStmt
	var before []ast.Stmt
	for i, s := range fd.Body.List {
		if f, ok := s.(*ast.ForStmt); ok {
			loop = f
			before = fd.Body.List[:i]
		}
	}
	if loop == nil {
		c.Undecide("%s has no top-level loop any more", fname)
		return false
	}
	// candidates: locals declared before the loop ...
	declared := map[types.Object]string{}
	for _, s := range before {
		if as, ok := s.(*ast.AssignStmt); ok && as.Tok == token.DEFINE {
			for _, l := range as.Lhs {
				if id, ok := l.(*ast.Ident); ok {
					if obj := info.Defs[id]; obj != nil {
						declared[obj] = id.Name
					}
				}
			}
		}
	}
	// ... assigned inside the loop and read there outside returns and self-appends
	assigned := map[types.Object]bool{}
	read := map[types.Object]bool{}
	var inspect func(n ast.Node)
	inspect = func(n ast.Node) {
		ast.Inspect(n, func(m ast.Node) bool {
			switch x := m.(type) {
			case *ast.ReturnStmt:
				return false
			case *ast.AssignStmt:
				selfAppend := map[types.Object]bool{}
				for i, l := range x.Lhs {
					if id, ok := l.(*ast.Ident); ok {
						if obj := info.ObjectOf(id); declared[obj] != "" {
							assigned[obj] = true
							if i < len(x.Rhs) {
								if call, ok := x.Rhs[i].(*ast.CallExpr); ok && wire.Canon(call.Fun) == "append" && len(call.Args) > 0 {
									if a, ok := call.Args[0].(*ast.Ident); ok && info.ObjectOf(a) == obj {
										selfAppend[obj] = true
									}
								}
							}
						}
					}
				}
				for _, r := range x.Rhs {
					ast.Inspect(r, func(k ast.Node) bool {
						if id, ok := k.(*ast.Ident); ok {
							if obj := info.ObjectOf(id); declared[obj] != "" && !selfAppend[obj] {
								read[obj] = true
							}
						}
						return true
					})
				}
				return false
			case *ast.Ident:
				if obj := info.ObjectOf(x); declared[obj] != "" {
					read[obj] = true
				}
			}
			return true
		})
	}
	inspect(loop.Body)
	var vars []types.Object
	for obj := range declared {
		if assigned[obj] && read[obj] {
			vars = append(vars, obj)
		}
	}
	sort.Slice(vars, func(i, j int) bool { return vars[i].Pos() < vars[j].Pos() })
	if len(vars) == 0 {
		c.Undecide("%s: no pending-attribute variables recognised", fname)
		return false
	}
	idx := map[types.Object]int{}
	var names []string
	for i, v := range vars {
		idx[v] = i
		names = append(names, v.Name())
	}
	c.Count("pending_vars", len(vars))

	f := buildCFG(p, pkg, fd)
	var head, bodyEntry *cfg.Block
	for _, b := range f.g.Blocks {
		if b.Stmt == ast.Stmt(loop) {
			switch b.Kind {
			case cfg.KindForLoop:
				head = b
			case cfg.KindForBody:
				bodyEntry = b
			}
		}
	}
	if head == nil || bodyEntry == nil {
		c.Undecide("%s: loop blocks not found in the CFG", fname)
		return false
	}
	// which top-level switch gives "matched"
	topCases := map[ast.Stmt]bool{}
	for _, s := range loop.Body.List {
		if sw, ok := s.(*ast.SwitchStmt); ok {
			for _, cc := range sw.Body.List {
				topCases[cc] = true
			}
		}
	}
	isZero := func(e ast.Expr) bool {
		e = ast.Unparen(e)
		if tv := info.Types[e]; tv.Value != nil {
			s := tv.Value.ExactString()
			return s == "0" || s == "false" || s == `""`
		}
		if cl, ok := e.(*ast.CompositeLit); ok && len(cl.Elts) == 0 {
			return true
		}
		if id, ok := e.(*ast.Ident); ok && id.Name == "nil" {
			return true
		}
		// x[:0] holds nothing either (what it shares with the old x is R12's business)
		if se, ok := e.(*ast.SliceExpr); ok && se.Low == nil && se.High != nil && !se.Slice3 {
			if k, isC := constInt(info, se.High); isC && k == 0 {
				return true
			}
		}
		return false
	}
	isDefAppend := func(as *ast.AssignStmt) bool {
		for i, l := range as.Lhs {
			switch lx := ast.Unparen(l).(type) {
			case *ast.SelectorExpr:
				// x.F = append(x.F, <definition>)
				if i < len(as.Rhs) {
					if call, ok := as.Rhs[i].(*ast.CallExpr); ok && wire.Canon(call.Fun) == "append" {
						if t := info.TypeOf(lx); t != nil {
							if sl, ok := t.Underlying().(*types.Slice); ok {
								if _, isStruct := sl.Elem().Underlying().(*types.Struct); isStruct {
									return true
								}
							}
						}
					}
				}
			case *ast.IndexExpr:
				// x.Fields[k] = <member>
				if t := info.TypeOf(lx.X); t != nil {
					if m, ok := t.Underlying().(*types.Map); ok {
						if _, isStruct := m.Elem().Underlying().(*types.Struct); isStruct {
							return true
						}
					}
				}
			}
		}
		return false
	}
	// local closures (resetNext := func() { … }) run where they are called
	closures := map[types.Object]*ast.FuncLit{}
	ast.Inspect(fd.Body, func(m ast.Node) bool {
		if as, ok := m.(*ast.AssignStmt); ok && len(as.Lhs) == len(as.Rhs) {
			for i, l := range as.Lhs {
				if id, ok := l.(*ast.Ident); ok {
					if fl, ok := ast.Unparen(as.Rhs[i]).(*ast.FuncLit); ok {
						if o := info.ObjectOf(id); o != nil {
							if _, dup := closures[o]; dup {
								closures[o] = nil // reassigned: not followed
							} else {
								closures[o] = fl
							}
						}
					}
				}
			}
		}
		return true
	})
	var step func(n ast.Node, s pstate) pstate
	stepDepth := 0
	step = func(n ast.Node, s pstate) pstate {
		ast.Inspect(n, func(m ast.Node) bool {
			if _, isLit := m.(*ast.FuncLit); isLit {
				return false // runs where it is called, not where it is written
			}
			if call, isCall := m.(*ast.CallExpr); isCall {
				if id, isId := ast.Unparen(call.Fun).(*ast.Ident); isId {
					if fl := closures[info.ObjectOf(id)]; fl != nil && stepDepth < 3 {
						stepDepth++
						s = step(fl.Body, s)
						stepDepth--
					}
				}
				return true
			}
			as, ok := m.(*ast.AssignStmt)
			if !ok {
				return true
			}
			if isDefAppend(as) {
				s.appended = true
			}
			for i, l := range as.Lhs {
				id, ok := l.(*ast.Ident)
				if !ok {
					continue
				}
				vi, tracked := idx[info.ObjectOf(id)]
				if !tracked {
					continue
				}
				bit := uint32(1) << uint(vi)
				if len(as.Rhs) == len(as.Lhs) && isZero(as.Rhs[i]) {
					if s.set&bit != 0 {
						s.cleared |= bit
					}
					s.set &^= bit
				} else {
					s.set |= bit
				}
			}
			return true
		})
		return s
	}
	// refine: returns the state on the (true,false) edges of cond
	refine := func(cond ast.Expr, s pstate) (pstate, pstate) {
		t, fl := s, s
		cx := ast.Unparen(cond)
		neg := false
		if u, ok := cx.(*ast.UnaryExpr); ok && u.Op == token.NOT {
			neg = true
			cx = ast.Unparen(u.X)
		}
		var obj types.Object
		switch x := cx.(type) {
		case *ast.Ident:
			obj = info.ObjectOf(x)
		case *ast.BinaryExpr:
			if id, ok := ast.Unparen(x.X).(*ast.Ident); ok && isZero(x.Y) {
				obj = info.ObjectOf(id)
				if x.Op == token.EQL {
					neg = !neg
				} else if x.Op != token.NEQ {
					obj = nil
				}
			}
		}
		if vi, tracked := idx[obj]; tracked && obj != nil {
			bit := uint32(1) << uint(vi)
			// cond (after neg handling) true means "v is set"
			if neg {
				t.set &^= bit
			} else {
				fl.set &^= bit
			}
		}
		return t, fl
	}

	type key struct {
		b *cfg.Block
		s pstate
	}
	headStates := map[pstate]bool{}
	leak := map[int]string{}
	lost := map[int]string{}
	work := []pstate{{}}
	seenHead := map[uint32]bool{0: true}
	iter := 0
	for len(work) > 0 && iter < 64 {
		iter++
		start := work[0]
		work = work[1:]
		seen := map[key]bool{}
		var walk func(b *cfg.Block, s pstate)
		walk = func(b *cfg.Block, s pstate) {
			if b == head {
				headStates[s] = true
				for vi := range vars {
					bit := uint32(1) << uint(vi)
					if s.appended && s.set&bit != 0 {
						if _, ok := leak[vi]; !ok {
							leak[vi] = "an iteration that completed a definition reaches the loop head with the attribute still pending"
						}
					}
					if s.matched && !s.appended && s.cleared&bit != 0 && s.startSet&bit != 0 {
						lost[vi] = "an iteration that completed no definition clears the pending attribute"
					}
				}
				if !seenHead[s.set] {
					seenHead[s.set] = true
					work = append(work, pstate{set: s.set, startSet: s.set})
				}
				return
			}
			if seen[key{b, s}] {
				return
			}
			seen[key{b, s}] = true
			if b.Kind == cfg.KindSwitchCaseBody && topCases[b.Stmt] {
				s.matched = true
			}
			cond := blockCond(b)
			for i, n := range b.Nodes {
				if cond != nil && i == len(b.Nodes)-1 {
					break
				}
				if _, isRet := n.(*ast.ReturnStmt); isRet {
					return
				}
				s = step(n, s)
			}
			if cond != nil {
				s = step(cond, s)
				t, fl := refine(cond, s)
				walk(b.Succs[0], t)
				walk(b.Succs[1], fl)
				return
			}
			for _, succ := range b.Succs {
				walk(succ, s)
			}
		}
		start.startSet = start.set
		walk(bodyEntry, start)
	}
	for vi, v := range vars {
		msg, bad := leak[vi]
		c.Check("R1", fmt.Sprintf("%s: pending %s is cleared once a definition consumed it", fname, v.Name()), p.Pos(v.Pos()), !bad,
			msg+": it would annotate every later definition too (variables tracked: "+strings.Join(names, ", ")+")")
		if isCommentVar(v) {
			continue
		}
		msg, bad = lost[vi]
		c.Check("R1b", fmt.Sprintf("%s: pending %s survives until its definition", fname, v.Name()), p.Pos(v.Pos()), !bad, msg+": the attribute is dropped before the definition it was written for")
	}
	return true
}

// isCommentVar: pending doc-comment lines and comment tags are the slice-typed
// pending variables ([]string, []Tag); every other pending attribute is a
// scalar (opcode, flags, readonly, deprecation).
func isCommentVar(v types.Object) bool {
	_, isSlice := v.Type().Underlying().(*types.Slice)
	return isSlice
}

// attributeMatrix: R2
func attributeMatrix(c *core.Ctx, p *load.Prog) {
	pkg := p.Bebop()
	fd := p.FuncDecl(pkg, "ReadFile")
	if fd == nil {
		return
	}
	info := pkg.TypesInfo
	// the pending attributes by role: the variable that receives readOpCode's
	// result, and the boolean handed to readEnum (the [flags] marker)
	attrs := map[string]bool{}
	ast.Inspect(fd.Body, func(n ast.Node) bool {
		switch x := n.(type) {
		case *ast.AssignStmt:
			if len(x.Rhs) == 1 {
				if call, ok := x.Rhs[0].(*ast.CallExpr); ok && calleeNamed(call, "readOpCode") && len(x.Lhs) >= 1 {
					if id, ok := x.Lhs[0].(*ast.Ident); ok && id.Name != "_" {
						attrs[id.Name] = true
					}
				}
			}
		case *ast.CallExpr:
			if calleeNamed(x, "readEnum") {
				for _, a := range x.Args {
					if id, ok := ast.Unparen(a).(*ast.Ident); ok {
						if o := info.ObjectOf(id); o != nil {
							if b, isB := o.Type().Underlying().(*types.Basic); isB && b.Kind() == types.Bool {
								attrs[id.Name] = true
							}
						}
					}
				}
			}
		}
		return true
	})
	if len(attrs) < 2 {
		c.Undecide("ReadFile: opcode/flags pending variables not recognised")
		return
	}
	cells := 0
	ast.Inspect(fd.Body, func(n ast.Node) bool {
		cc, ok := n.(*ast.CaseClause)
		if !ok || len(cc.List) != 1 {
			return true
		}
		appends := false
		for _, s := range cc.Body {
			if as, ok := s.(*ast.AssignStmt); ok && len(as.Rhs) == 1 {
				if call, ok := as.Rhs[0].(*ast.CallExpr); ok && wire.Canon(call.Fun) == "append" && fileField(info, as.Lhs[0]) != "" {
					if sl, ok := info.TypeOf(as.Lhs[0]).Underlying().(*types.Slice); ok {
						if _, isStruct := sl.Elem().Underlying().(*types.Struct); isStruct {
							appends = true
						}
					}
				}
			}
		}
		if !appends {
			return true
		}
		kind := wire.Canon(cc.List[0])
		for a := range attrs {
			consumed, rejected := false, false
			for _, s := range cc.Body {
				if ifs, ok := s.(*ast.IfStmt); ok && mentionsIdent(ifs.Cond, a) && endsInReturn(ifs.Body) {
					rejected = true
					continue
				}
				ast.Inspect(s, func(m ast.Node) bool {
					if id, ok := m.(*ast.Ident); ok && id.Name == a {
						if _, isIf := s.(*ast.IfStmt); !isIf {
							consumed = true
						}
					}
					return true
				})
			}
			cells++
			c.Check("R2", fmt.Sprintf("%s either consumes or rejects %s", kind, a), p.Pos(cc.Pos()), consumed || rejected,
				"the definition kind ignores a pending attribute: it silently stays pending for a later definition")
		}
		return true
	})
	c.Count("attribute_matrix_cells", cells)
	c.Floor("attribute_matrix_cells", 10)
}

// flagDispatch: C11/R3 = C15/R5
func flagDispatch(c *core.Ctx, p *load.Prog, rule string) {
	pkg := p.Bebop()
	fd := p.FuncDecl(pkg, "evaluateBitflagExpr")
	if fd == nil {
		c.Undecide("evaluateBitflagExpr not found")
		return
	}
	covered := map[string]bool{}
	n := 0
	boolParam, intParam := "", ""
	for _, f := range fd.Type.Params.List {
		for _, nm := range f.Names {
			if o := pkg.TypesInfo.ObjectOf(nm); o != nil {
				if b, isB := o.Type().Underlying().(*types.Basic); isB {
					if b.Kind() == types.Bool && boolParam == "" {
						boolParam = nm.Name
					}
					if b.Kind() == types.Int && intParam == "" {
						intParam = nm.Name
					}
				}
			}
		}
	}
	var visit func(stmts []ast.Stmt, unsigned bool, known bool)
	visit = func(stmts []ast.Stmt, unsigned bool, known bool) {
		for _, s := range stmts {
			switch x := s.(type) {
			case *ast.IfStmt:
				cx := wire.Canon(x.Cond)
				// the signedness flag is the function's bool parameter, whatever its name
				if boolParam != "" {
					cx = strings.ReplaceAll(cx, boolParam, "uinttype")
				}
				if cx == "uinttype" {
					visit(x.Body.List, true, true)
					if eb, ok := x.Else.(*ast.BlockStmt); ok {
						visit(eb.List, false, true)
					}
				} else if cx == "!uinttype" {
					visit(x.Body.List, false, true)
					if eb, ok := x.Else.(*ast.BlockStmt); ok {
						visit(eb.List, true, true)
					}
				}
			case *ast.SwitchStmt:
				if wire.Canon(x.Tag) != intParam || !known {
					continue
				}
				for _, cc := range x.Body.List {
					cl := cc.(*ast.CaseClause)
					for _, e := range cl.List {
						bits, ok := constInt(pkg.TypesInfo, e)
						if !ok {
							continue
						}
						want := fmt.Sprintf("int%d", bits)
						fn := "evaluateBitflagExpSigned"
						if unsigned {
							want = "u" + want
							fn = "evaluateBitflagExprUnsigned"
						}
						got := ""
						ast.Inspect(cl, func(m ast.Node) bool {
							if ix, ok := m.(*ast.IndexExpr); ok {
								if id, ok := ix.X.(*ast.Ident); ok && strings.HasPrefix(id.Name, "evaluateBitflagExp") {
									got = id.Name + "[" + wire.Canon(ix.Index) + "]"
								}
							}
							return true
						})
						n++
						covered[fmt.Sprintf("%d/%v", bits, unsigned)] = true
						c.Check(rule, fmt.Sprintf("flag expressions of a %s enum are evaluated in %s", want, want), p.Pos(cl.Pos()), got == fn+"["+want+"]",
							fmt.Sprintf("case %d (unsigned=%v) instantiates %s; arithmetic (shifts, truncation) must happen in exactly the enum's integer type", bits, unsigned, got))
					}
				}
			}
		}
	}
	visit(fd.Body.List, false, false)
	c.Count("flag_dispatch_cases", n)
	c.Floor("flag_dispatch_cases", 7)
	// image of decodeIntegerType
	di := p.FuncDecl(pkg, "decodeIntegerType")
	if di == nil {
		return
	}
	ast.Inspect(di.Body, func(m ast.Node) bool {
		r, ok := m.(*ast.ReturnStmt)
		if !ok || len(r.Results) != 2 {
			return true
		}
		bits, ok1 := constInt(pkg.TypesInfo, r.Results[0])
		u := wire.Canon(r.Results[1])
		if ok1 {
			k := fmt.Sprintf("%d/%v", bits, u == "true")
			c.Check(rule, "flag dispatch covers decodeIntegerType result "+k, p.Pos(r.Pos()), covered[k], "an enum base type decodeIntegerType can return has no evaluator instance: [flags] enums of that type are rejected")
		}
		return true
	})
}

var _ = load.Mod

// deprecationIndependent: R5. `[deprecated("")]` is well formed (readDeprecated
// accepts any string literal), so whether a member is deprecated must be
// recorded apart from the message text: the Deprecated value of every member
// built in the four member loops is a boolean variable that only ever holds a
// constant and is set to true in the clause that called readDeprecated.
func deprecationIndependent(c *core.Ctx, p *load.Prog, rule string) {
	pkg := p.Bebop()
	info := pkg.TypesInfo
	n := 0
	for _, name := range []string{"readEnum", "readStruct", "readMessage", "readUnion"} {
		fd := p.FuncDecl(pkg, name)
		if fd == nil {
			continue
		}
		var vals []ast.Expr
		ast.Inspect(fd.Body, func(nd ast.Node) bool {
			switch y := nd.(type) {
			case *ast.KeyValueExpr:
				if wire.Canon(y.Key) == "Deprecated" {
					vals = append(vals, y.Value)
				}
			case *ast.AssignStmt:
				for i, l := range y.Lhs {
					if sel, ok := l.(*ast.SelectorExpr); ok && sel.Sel.Name == "Deprecated" && i < len(y.Rhs) {
						vals = append(vals, y.Rhs[i])
					}
				}
			}
			return true
		})
		for i, v := range vals {
			n++
			key := fmt.Sprintf("%s: Deprecated of a member does not depend on the message text (#%d)", name, i+1)
			id, isIdent := ast.Unparen(v).(*ast.Ident)
			if !isIdent {
				// a value computed from a string is the defect this rule is about;
				// any other computed form is not understood
				fromString := false
				ast.Inspect(v, func(k ast.Node) bool {
					if e, ok := k.(ast.Expr); ok {
						if t := info.TypeOf(e); t != nil {
							if b, ok := t.Underlying().(*types.Basic); ok && b.Info()&types.IsString != 0 {
								fromString = true
							}
						}
					}
					return true
				})
				if fromString {
					c.Check(rule, key, p.Pos(v.Pos()), false, "Deprecated is computed as `"+wire.Canon(v)+"`: `[deprecated(\"\")]` is accepted by readDeprecated and would be recorded as not deprecated")
				} else {
					c.Undecide("%s: Deprecated is set from `%s`, a form this rule does not understand", name, wire.Canon(v))
				}
				continue
			}
			obj := info.ObjectOf(id)
			allConst, setAfterRead := true, false
			ast.Inspect(fd.Body, func(k ast.Node) bool {
				cc, ok := k.(*ast.CaseClause)
				if !ok {
					if as, ok := k.(*ast.AssignStmt); ok {
						for i, l := range as.Lhs {
							if lid, ok := l.(*ast.Ident); ok && info.ObjectOf(lid) == obj && i < len(as.Rhs) {
								if tv := info.Types[as.Rhs[i]]; tv.Value == nil {
									allConst = false
								}
							}
						}
					}
					return true
				}
				read := false
				for _, st := range cc.Body {
					if containsCall(st, func(call *ast.CallExpr) bool { return calleeNamed(call, "readDeprecated") }) {
						read = true
					}
					if as, ok := st.(*ast.AssignStmt); ok && read && len(as.Lhs) == 1 && len(as.Rhs) == 1 {
						if lid, ok := as.Lhs[0].(*ast.Ident); ok && info.ObjectOf(lid) == obj {
							if tv := info.Types[as.Rhs[0]]; tv.Value != nil && tv.Value.String() == "true" {
								setAfterRead = true
							}
						}
					}
				}
				return true
			})
			c.Check(rule, key, p.Pos(v.Pos()), allConst && setAfterRead,
				fmt.Sprintf("the variable %s is not a pure flag (only constants assigned: %v; set to true after readDeprecated: %v)", id.Name, allConst, setAfterRead))
		}
	}
	c.Count("deprecated_member_sites", n)
	c.Floor("deprecated_member_sites", 1)
}

// limitedBufio: R6. Comments, string literals and identifiers have no length
// limit in a schema. bufio's ReadSlice, ReadLine and Peek, and bufio.Scanner,
// fail or truncate when the data does not fit the buffer; a tokenizer built on
// them rejects (or splits) a well-formed schema with one long line.
func scanLimitedBufio(info *types.Info, files []*ast.File, report func(fn, what string, pos token.Pos)) {
	for _, f := range files {
		for _, d := range f.Decls {
			fd, ok := d.(*ast.FuncDecl)
			if !ok || fd.Body == nil {
				continue
			}
			ast.Inspect(fd.Body, func(n ast.Node) bool {
				switch y := n.(type) {
				case *ast.CallExpr:
					callee := load.Callee(info, y)
					if callee == nil || callee.Pkg() == nil || callee.Pkg().Path() != "bufio" {
						return true
					}
					if sig, ok := callee.Type().(*types.Signature); ok && sig.Recv() != nil {
						if strings.HasSuffix(sig.Recv().Type().String(), "bufio.Reader") {
							switch callee.Name() {
							case "ReadSlice", "ReadLine", "Peek":
								// ReadSlice in a loop that goes on while the error is
								// bufio.ErrBufferFull takes a line of any length, a
								// buffer's worth at a time (what ReadBytes does inside)
								if callee.Name() == "ReadSlice" && loopsOnBufferFull(info, fd, y) {
									break
								}
								// Peek of a small constant is a lookahead: every bufio.Reader
								// holds at least 16 bytes
								if callee.Name() == "Peek" && len(y.Args) == 1 {
									if k, isC := constInt(info, y.Args[0]); isC && k >= 0 && k <= 16 {
										break
									}
									// Peek(r.Buffered()) asks for what is there: it cannot fail
									// for size (what it does depend on is reported below)
									if bc, ok := ast.Unparen(y.Args[0]).(*ast.CallExpr); ok {
										if bcal := load.Callee(info, bc); bcal != nil && bcal.Name() == "Buffered" {
											break
										}
									}
								}
								report(fd.Name.Name, "(*bufio.Reader)."+callee.Name(), y.Pos())
							case "Buffered":
								// how much happens to be buffered depends on how the underlying
								// reader delivered its data: any decision taken on it makes the
								// result depend on read fragmentation
								report(fd.Name.Name, "(*bufio.Reader).Buffered", y.Pos())
							}
						}
					} else if callee.Name() == "NewScanner" {
						report(fd.Name.Name, "bufio.NewScanner", y.Pos())
					}
				}
				return true
			})
		}
	}
}

func limitedBufio(c *core.Ctx, p *load.Prog, rule string) {
	pkg := p.Bebop()
	scanLimitedBufio(pkg.TypesInfo, pkg.Syntax, func(fn, what string, pos token.Pos) {
		if strings.HasSuffix(what, ".Buffered") {
			c.Check(rule, fn+" decides nothing on how much is buffered", p.Pos(pos), false,
				what+" reports what the underlying reader happened to deliver so far — zero is not the end of the input: the File then depends on how reads are fragmented (a one-byte-at-a-time reader, a comment ending on a buffer boundary)")
			return
		}
		c.Check(rule, fn+" reads input through "+what, p.Pos(pos), false,
			what+" is bounded by the buffer size (4096 bytes by default): a comment, literal or line longer than that makes ReadFile fail or split a token on a well-formed schema")
	})
	scanBufioViews(pkg.TypesInfo, pkg.Syntax, func(fn, what string, pos token.Pos, unsure bool) {
		if unsure {
			c.Undecide("C11/R6v: in %s at %s %s", fn, p.Pos(pos), what)
			return
		}
		c.Check(rule, fn+" copies what ReadSlice/Peek hand out before reading on", p.Pos(pos), false, what)
	})
	c.Check(rule, "the tokenizer uses no buffer-limited bufio primitive (scan complete)", "tokenize.go", true, "")
	// positive control
	path := filepath.Join(c.VerifDir, "fixtures", "limitedread", "fx.go")
	fset := token.NewFileSet()
	f, err := parser.ParseFile(fset, path, nil, 0)
	if err != nil {
		c.Undecide("positive control fixture: %v", err)
		return
	}
	info := &types.Info{Types: map[ast.Expr]types.TypeAndValue{}, Defs: map[*ast.Ident]types.Object{}, Uses: map[*ast.Ident]types.Object{}, Selections: map[*ast.SelectorExpr]*types.Selection{}}
	if _, err := (&types.Config{Importer: importer.ForCompiler(fset, "source", nil)}).Check("fx", fset, []*ast.File{f}, info); err != nil {
		c.Undecide("positive control fixture does not type-check: %v", err)
		return
	}
	hits := map[string]bool{}
	scanLimitedBufio(info, []*ast.File{f}, func(fn, what string, pos token.Pos) { hits[fn] = true })
	for _, want := range []string{"slice", "line", "peek", "scanner", "buffered"} {
		c.Check(rule, "positive control: "+want+" is recognised", "fixtures/limitedread/fx.go", hits[want], "the rule no longer matches the shape it is meant to find")
	}
	c.Check(rule, "positive control: ReadBytes is not reported", "fixtures/limitedread/fx.go", !hits["unlimited"], "")
	c.Check(rule, "positive control: a chunked ReadSlice read is not reported as bounded", "fixtures/limitedread/fx.go", !hits["chunkedKept"] && !hits["chunkedCopied"], "")
	views := map[string]bool{}
	scanBufioViews(info, []*ast.File{f}, func(fn, what string, pos token.Pos, unsure bool) {
		if !unsure {
			views[fn] = true
		}
	})
	c.Check(rule, "positive control: a ReadSlice result appended onto is recognised", "fixtures/limitedread/fx.go", views["chunkedKept"], "the rule no longer matches the shape it is meant to find")
	c.Check(rule, "positive control: a ReadSlice result stored is recognised", "fixtures/limitedread/fx.go", views["stored"], "the rule no longer matches the shape it is meant to find")
	c.Check(rule, "positive control: copied ReadSlice/Peek results are not reported", "fixtures/limitedread/fx.go", !views["chunkedCopied"] && !views["peekFirst"], "")
}

// scanBufioViews: what (*bufio.Reader).ReadSlice and Peek return is a view of
// the reader's own buffer, valid until the next read. A function may look at it
// (index, len, range, compare, convert to string) and copy it (append(dst,
// v...), copy(dst, v)); appending *onto* it writes into bufio's buffer and
// keeps a slice the next read overwrites, and so does storing it in a field,
// a composite literal or another element. Returning it or handing it to a
// function outside bytes/strings is left undecided.
func scanBufioViews(info *types.Info, files []*ast.File, report func(fn, what string, pos token.Pos, unsure bool)) {
	for _, f := range files {
		for _, d := range f.Decls {
			fd, ok := d.(*ast.FuncDecl)
			if !ok || fd.Body == nil {
				continue
			}
			views := map[types.Object]string{}
			ast.Inspect(fd.Body, func(n ast.Node) bool {
				as, ok := n.(*ast.AssignStmt)
				if !ok || len(as.Rhs) != 1 || len(as.Lhs) < 1 {
					return true
				}
				call, ok := ast.Unparen(as.Rhs[0]).(*ast.CallExpr)
				if !ok {
					return true
				}
				callee := load.Callee(info, call)
				if callee == nil || callee.Pkg() == nil || callee.Pkg().Path() != "bufio" || (callee.Name() != "ReadSlice" && callee.Name() != "Peek") {
					return true
				}
				if sig, ok := callee.Type().(*types.Signature); !ok || sig.Recv() == nil || !strings.HasSuffix(sig.Recv().Type().String(), "bufio.Reader") {
					return true
				}
				if id, ok := ast.Unparen(as.Lhs[0]).(*ast.Ident); ok && id.Name != "_" {
					views[info.ObjectOf(id)] = callee.Name()
				}
				return true
			})
			if len(views) == 0 {
				continue
			}
			var stack []ast.Node
			ast.Inspect(fd.Body, func(n ast.Node) bool {
				if n == nil {
					stack = stack[:len(stack)-1]
					return true
				}
				stack = append(stack, n)
				id, ok := n.(*ast.Ident)
				if !ok {
					return true
				}
				prim, isView := views[info.ObjectOf(id)]
				if !isView || info.Defs[id] != nil {
					return true
				}
				// climb through parentheses and reslicing (a sub-slice is the same view)
				i := len(stack) - 2
				var child ast.Node = id
				for i >= 0 {
					switch p := stack[i].(type) {
					case *ast.ParenExpr:
						child = p
						i--
						continue
					case *ast.SliceExpr:
						if p.X == child {
							child = p
							i--
							continue
						}
					}
					break
				}
				if i < 0 {
					return true
				}
				what := "the slice " + id.Name + " that " + prim + " returned"
				switch p := stack[i].(type) {
				case *ast.IndexExpr, *ast.RangeStmt, *ast.BinaryExpr, *ast.SliceExpr:
					// looked at (a SliceExpr here means id is a bound, not the operand)
				case *ast.AssignStmt:
					for k, l := range p.Lhs {
						if l == child {
							return true // redefined
						}
						if k < len(p.Rhs) && p.Rhs[k] == child {
							switch ast.Unparen(l).(type) {
							case *ast.SelectorExpr, *ast.IndexExpr, *ast.StarExpr:
								report(fd.Name.Name, what+" is stored in "+wire.Canon(l)+": it is a view of the reader's buffer, which the next read overwrites", id.Pos(), false)
							default:
								report(fd.Name.Name, what+" is assigned to "+wire.Canon(l)+" (how that is used is not followed)", id.Pos(), true)
							}
						}
					}
				case *ast.KeyValueExpr, *ast.CompositeLit:
					report(fd.Name.Name, what+" is put into a composite literal: it is a view of the reader's buffer, which the next read overwrites", id.Pos(), false)
				case *ast.ReturnStmt:
					report(fd.Name.Name, what+" is returned (what the caller does with it is not followed)", id.Pos(), true)
				case *ast.CallExpr:
					fn := wire.Canon(p.Fun)
					switch {
					case info.Types[p.Fun].IsType(), fn == "len", fn == "cap":
					case fn == "copy":
						if len(p.Args) == 2 && p.Args[0] == child {
							report(fd.Name.Name, what+" is copied into: that writes into the reader's buffer", id.Pos(), false)
						}
					case fn == "append":
						if len(p.Args) >= 1 && p.Args[0] == child {
							report(fd.Name.Name, what+" is appended onto: the result still starts in the reader's own buffer, which the next read overwrites (and the append may write into it)", id.Pos(), false)
						} else if !(p.Ellipsis.IsValid() && p.Args[len(p.Args)-1] == child) {
							report(fd.Name.Name, what+" is appended as an element: it is a view of the reader's buffer", id.Pos(), false)
						}
					case strings.HasPrefix(fn, "bytes.") && fn != "bytes.NewReader" && fn != "bytes.NewBuffer", strings.HasPrefix(fn, "utf8."), strings.HasPrefix(fn, "unicode."):
					default:
						report(fd.Name.Name, what+" is handed to "+fn+" (whether that keeps it is not followed)", id.Pos(), true)
					}
				default:
					_ = p
				}
				return true
			})
		}
	}
}

// hexLettersAreDigits: R7. In a hexadecimal literal the letters a-f and A-F
// are digits — also `e`, which elsewhere in a number announces an exponent.
// numberToken classifies each byte by a chain of conditions (if/else-if or a
// tagless switch); the arm that takes hex letters is the one whose condition
// calls the hex-letter predicate, and the flags joined to that call by && are
// what "inside a hex literal" means to this code. The rule enumerates every
// hex letter and every assignment of the boolean locals the conditions read in
// which those flags are true, evaluates the conditions in order (a finite
// decision table: bytes compared with constants, booleans, and the package's
// one-line predicates inlined) and requires the first arm that holds to be the
// hex-letter arm. An exponent arm placed before it makes `0x1e` an unfinished
// number and `[opcode(0x4142434E)]` a tokenizer error.
func hexLettersAreDigits(c *core.Ctx, p *load.Prog) {
	pkg := p.Bebop()
	info := pkg.TypesInfo
	fd := p.FuncDecl(pkg, "numberToken")
	if fd == nil {
		c.Undecide("numberToken not found")
		return
	}
	// the byte of this iteration
	var bvar types.Object
	ast.Inspect(fd.Body, func(n ast.Node) bool {
		if as, ok := n.(*ast.AssignStmt); ok && len(as.Lhs) == 2 && len(as.Rhs) == 1 && bvar == nil {
			if call, ok := as.Rhs[0].(*ast.CallExpr); ok {
				if t, ok := info.TypeOf(call).(*types.Tuple); ok && t.Len() == 2 {
					if b, ok := t.At(0).Type().Underlying().(*types.Basic); ok && b.Kind() == types.Uint8 {
						if id, ok := as.Lhs[0].(*ast.Ident); ok {
							bvar = info.ObjectOf(id)
						}
					}
				}
			}
		}
		return true
	})
	if bvar == nil {
		c.Undecide("numberToken: the byte read in the loop was not found")
		return
	}
	mentionsB := func(e ast.Expr) bool {
		found := false
		ast.Inspect(e, func(n ast.Node) bool {
			if id, ok := n.(*ast.Ident); ok && info.ObjectOf(id) == bvar {
				found = true
			}
			return !found
		})
		return found
	}
	// the classification chain: ordered conditions
	type arm struct {
		cond ast.Expr // nil = else / default
		pos  token.Pos
	}
	var arms []arm
	ast.Inspect(fd.Body, func(n ast.Node) bool {
		if len(arms) > 0 {
			return false
		}
		switch x := n.(type) {
		case *ast.IfStmt:
			if x.Init != nil || !mentionsB(x.Cond) || x.Else == nil {
				return true
			}
			cur := x
			for {
				arms = append(arms, arm{cur.Cond, cur.Pos()})
				switch e := cur.Else.(type) {
				case *ast.IfStmt:
					cur = e
					continue
				case *ast.BlockStmt:
					arms = append(arms, arm{nil, e.Pos()})
				}
				break
			}
			if len(arms) < 3 {
				arms = nil
				return true
			}
			return false
		case *ast.SwitchStmt:
			if x.Tag != nil || x.Init != nil {
				return true
			}
			var tmp []arm
			uses := false
			for _, cc := range x.Body.List {
				cl := cc.(*ast.CaseClause)
				if cl.List == nil {
					tmp = append(tmp, arm{nil, cl.Pos()})
					continue
				}
				var cond ast.Expr
				for _, e := range cl.List {
					if mentionsB(e) {
						uses = true
					}
					if cond == nil {
						cond = e
					} else {
						cond = &ast.BinaryExpr{X: cond, Op: token.LOR, Y: e}
					}
				}
				tmp = append(tmp, arm{cond, cl.Pos()})
			}
			if uses && len(tmp) >= 3 {
				// a default clause is taken last wherever it is written
				var def *arm
				for i := range tmp {
					if tmp[i].cond == nil {
						d := tmp[i]
						def = &d
					} else {
						arms = append(arms, tmp[i])
					}
				}
				if def != nil {
					arms = append(arms, *def)
				}
				return false
			}
		}
		return true
	})
	if len(arms) == 0 {
		c.Undecide("numberToken: no chain of conditions on the byte read was found")
		return
	}
	// three-valued evaluation: 0 false, 1 true, -1 unknown
	type env struct {
		b     int
		bools map[types.Object]bool
		subst map[types.Object]int // parameter of an inlined predicate -> byte value
	}
	var evalInt func(e ast.Expr, en env) (int, bool)
	var evalBool func(e ast.Expr, en env, depth int) int
	evalInt = func(e ast.Expr, en env) (int, bool) {
		e = ast.Unparen(e)
		if v, ok := constInt(info, e); ok {
			return v, true
		}
		if id, ok := e.(*ast.Ident); ok {
			o := info.ObjectOf(id)
			if o == bvar {
				return en.b, true
			}
			if v, ok := en.subst[o]; ok {
				return v, true
			}
		}
		if call, ok := e.(*ast.CallExpr); ok && len(call.Args) == 1 {
			if tv, ok := info.Types[call.Fun]; ok && tv.IsType() {
				return evalInt(call.Args[0], en)
			}
		}
		return 0, false
	}
	evalBool = func(e ast.Expr, en env, depth int) int {
		e = ast.Unparen(e)
		switch x := e.(type) {
		case *ast.Ident:
			if v, ok := en.bools[info.ObjectOf(x)]; ok {
				if v {
					return 1
				}
				return 0
			}
			if tv := info.Types[x]; tv.Value != nil {
				if tv.Value.String() == "true" {
					return 1
				}
				return 0
			}
		case *ast.UnaryExpr:
			if x.Op == token.NOT {
				switch evalBool(x.X, en, depth) {
				case 1:
					return 0
				case 0:
					return 1
				}
			}
		case *ast.BinaryExpr:
			switch x.Op {
			case token.LAND:
				a, b := evalBool(x.X, en, depth), evalBool(x.Y, en, depth)
				if a == 0 || b == 0 {
					return 0
				}
				if a == 1 && b == 1 {
					return 1
				}
				return -1
			case token.LOR:
				a, b := evalBool(x.X, en, depth), evalBool(x.Y, en, depth)
				if a == 1 || b == 1 {
					return 1
				}
				if a == 0 && b == 0 {
					return 0
				}
				return -1
			case token.EQL, token.NEQ, token.LSS, token.LEQ, token.GTR, token.GEQ:
				a, ok1 := evalInt(x.X, en)
				b, ok2 := evalInt(x.Y, en)
				if !ok1 || !ok2 {
					return -1
				}
				r := false
				switch x.Op {
				case token.EQL:
					r = a == b
				case token.NEQ:
					r = a != b
				case token.LSS:
					r = a < b
				case token.LEQ:
					r = a <= b
				case token.GTR:
					r = a > b
				case token.GEQ:
					r = a >= b
				}
				if r {
					return 1
				}
				return 0
			}
		case *ast.CallExpr:
			// a one-line predicate of this package on a byte
			cal := load.Callee(info, x)
			if cal == nil || cal.Pkg() != pkg.Types || len(x.Args) != 1 || depth > 2 {
				return -1
			}
			d := p.Decl(cal)
			if d == nil || d.Body == nil || len(d.Body.List) != 1 || len(d.Type.Params.List) != 1 || len(d.Type.Params.List[0].Names) != 1 {
				return -1
			}
			ret, ok := d.Body.List[0].(*ast.ReturnStmt)
			if !ok || len(ret.Results) != 1 {
				return -1
			}
			v, okv := evalInt(x.Args[0], en)
			if !okv {
				return -1
			}
			inner := env{b: en.b, bools: en.bools, subst: map[types.Object]int{info.Defs[d.Type.Params.List[0].Names[0]]: v}}
			return evalBool(ret.Results[0], inner, depth+1)
		}
		return -1
	}
	// the hex-letter arm: its condition accepts 'c' and 'C' with every boolean
	// true and rejects 'g'; the flags it needs are the booleans whose being
	// false alone switches it off
	var flags []types.Object
	seenFlag := map[types.Object]bool{}
	for _, a := range arms {
		if a.cond == nil {
			continue
		}
		ast.Inspect(a.cond, func(n ast.Node) bool {
			if id, ok := n.(*ast.Ident); ok {
				if v, ok := info.ObjectOf(id).(*types.Var); ok && v != bvar {
					if b, isB := v.Type().Underlying().(*types.Basic); isB && b.Kind() == types.Bool && !seenFlag[v] {
						seenFlag[v] = true
						flags = append(flags, v)
					}
				}
			}
			return true
		})
	}
	if len(flags) > 10 {
		c.Undecide("numberToken: too many boolean locals in the classification chain")
		return
	}
	allTrue := map[types.Object]bool{}
	for _, f := range flags {
		allTrue[f] = true
	}
	// the hex-letter arm calls a predicate (it is the only arm that takes a
	// whole range of letters): find the arm whose condition, through a call,
	// holds for 'c' and 'C' and not for 'g'
	hexArm := -1
	for i, a := range arms {
		if a.cond == nil {
			continue
		}
		hasCall := false
		ast.Inspect(a.cond, func(n ast.Node) bool {
			if call, ok := n.(*ast.CallExpr); ok {
				if cal := load.Callee(info, call); cal != nil && cal.Pkg() == pkg.Types {
					hasCall = true
				}
			}
			return true
		})
		if hasCall && evalBool(a.cond, env{b: 'c', bools: allTrue}, 0) == 1 && evalBool(a.cond, env{b: 'C', bools: allTrue}, 0) == 1 && evalBool(a.cond, env{b: 'g', bools: allTrue}, 0) == 0 {
			hexArm = i
			break
		}
	}
	if hexArm < 0 {
		c.Undecide("numberToken: no arm of the classification chain takes the letters a-f through a predicate: how hex digits are recognised is not understood")
		return
	}
	var need []types.Object
	for _, f := range flags {
		st := map[types.Object]bool{}
		for k, v := range allTrue {
			st[k] = v
		}
		st[f] = false
		if evalBool(arms[hexArm].cond, env{b: 'c', bools: st}, 0) == 0 {
			need = append(need, f)
		}
	}
	// enumerate
	bad, unknown := "", ""
	nStates := 0
	for mask := 0; mask < 1<<len(flags); mask++ {
		st := map[types.Object]bool{}
		for i, f := range flags {
			st[f] = mask&(1<<i) != 0
		}
		inHex := true
		for _, f := range need {
			if !st[f] {
				inHex = false
			}
		}
		if !inHex {
			continue
		}
		for _, b := range []byte("abcdefABCDEF") {
			nStates++
			first := -1
			for i, a := range arms {
				v := 1
				if a.cond != nil {
					v = evalBool(a.cond, env{b: int(b), bools: st}, 0)
				}
				if v == -1 {
					unknown = fmt.Sprintf("the condition at %s could not be evaluated", p.Pos(a.pos))
					break
				}
				if v == 1 {
					first = i
					break
				}
			}
			if first != hexArm && first >= 0 && bad == "" {
				var on []string
				for _, f := range flags {
					if st[f] {
						on = append(on, f.Name())
					}
				}
				bad = fmt.Sprintf("the byte %q with %v set is taken by the arm at %s, ahead of the hex-digit arm at %s", string(rune(b)), on, p.Pos(arms[first].pos), p.Pos(arms[hexArm].pos))
			}
		}
	}
	if unknown != "" && bad == "" {
		c.Undecide("numberToken: %s", unknown)
		return
	}
	c.Count("number_classification_states", nStates)
	c.Check("R7", "inside a hex literal every letter a-f/A-F is taken as a digit", p.Pos(fd.Pos()), bad == "",
		bad+": a hex literal that contains that letter (`0x1e`, `0xBEEFCAFE`, an opcode) is mis-read — as an unfinished exponent, for instance — and a well-formed schema is rejected or read with another value")
}

// groupScansCountNesting: R8. A flag expression may nest parentheses; the
// scan that looks for the `)` closing a group therefore has to count the `(`
// it passes. Every loop of parse_expr.go that compares a token's kind with
// tokenKindCloseParen must also compare with tokenKindOpenParen and both
// raise and lower a counter: a scan that stops at the first `)` cuts
// `((A | B) & 3) | C` after `B` and rejects a well-formed schema.
func groupScansCountNesting(c *core.Ctx, p *load.Prog) {
	pkg := p.Bebop()
	n := 0
	for _, fd := range funcsOfFiles(p, pkg, "parse_expr.go") {
		k := 0
		ast.Inspect(fd.Body, func(nd ast.Node) bool {
			loop, ok := nd.(*ast.ForStmt)
			if !ok {
				return true
			}
			closes, opens, inc, dec := false, false, false, false
			ast.Inspect(loop, func(m ast.Node) bool {
				switch x := m.(type) {
				case *ast.Ident:
					if x.Name == "tokenKindCloseParen" {
						closes = true
					}
					if x.Name == "tokenKindOpenParen" {
						opens = true
					}
				case *ast.IncDecStmt:
					// the index of the scan itself is also incremented: a depth
					// counter is one that is decremented as well
					if x.Tok == token.DEC {
						dec = true
					} else {
						inc = true
					}
				case *ast.AssignStmt:
					if x.Tok == token.SUB_ASSIGN {
						dec = true
					}
					if x.Tok == token.ADD_ASSIGN {
						inc = true
					}
				}
				return true
			})
			if !closes {
				return true
			}
			n++
			k++
			c.Check("R8", fmt.Sprintf("%s: the scan #%d for a closing parenthesis counts nesting", fd.Name.Name, k), p.Pos(loop.Pos()), opens && inc && dec,
				fmt.Sprintf("the loop looks for tokenKindCloseParen (compares with tokenKindOpenParen: %v, raises a counter: %v, lowers one: %v): without a depth count the scan stops at the first `)` and a nested group such as `((A | B) & 3) | C` is cut in the middle — a well-formed [flags] expression is rejected or mis-read", opens, inc, dec))
			return true
		})
	}
	c.Count("paren_group_scans", n)
	if n == 0 {
		c.Undecide("parse_expr.go: no loop scans for a closing parenthesis: how groups are delimited is not recognised")
	}
}

// reservedWordsAreTheFormats: R9. An identifier is a reserved word exactly
// when it is spelled like one of the format's: every package-level table
// from spellings to token kinds (map[string]tokenKind) holds no key outside
// the format's reserved words (transcribed here from the Bebop language
// description, independently of the repository). A table that also answers to
// `True`, `Inf` or `Struct` turns legal field, option and type names into
// keywords: `enum Answer { False = 0; True = 1; }` loses its members without
// an error.
func reservedWordsAreTheFormats(c *core.Ctx, p *load.Prog) {
	pkg := p.Bebop()
	info := pkg.TypesInfo
	spec := map[string]bool{
		"readonly": true, "mut": true, "message": true, "struct": true, "enum": true, "union": true,
		"const": true, "import": true, "array": true, "map": true,
		"true": true, "false": true, "inf": true, "nan": true,
		"deprecated": true, "opcode": true, "flags": true,
	}
	n, tables := 0, 0
	for _, file := range pkg.Syntax {
		if strings.HasSuffix(p.Fset.Position(file.Pos()).Filename, "_test.go") {
			continue
		}
		ast.Inspect(file, func(nd ast.Node) bool {
			cl, ok := nd.(*ast.CompositeLit)
			if !ok {
				return true
			}
			mt, ok := info.TypeOf(cl).Underlying().(*types.Map)
			if !ok {
				return true
			}
			kb, okK := mt.Key().Underlying().(*types.Basic)
			if !okK || kb.Info()&types.IsString == 0 || !strings.HasSuffix(mt.Elem().String(), ".tokenKind") {
				return true
			}
			tables++
			for _, e := range cl.Elts {
				kv, ok := e.(*ast.KeyValueExpr)
				if !ok {
					continue
				}
				tv := info.Types[kv.Key]
				if tv.Value == nil {
					c.Undecide("a key of the reserved-word table at %s is not a constant", p.Pos(kv.Pos()))
					continue
				}
				word := strings.Trim(tv.Value.ExactString(), `"`)
				n++
				c.Check("R9", fmt.Sprintf("the reserved word %q is one of the format's", word), p.Pos(kv.Pos()), spec[word],
					fmt.Sprintf("%q is not a reserved word of the Bebop language: an identifier spelled that way (a field, an enum member, a type) is tokenized as %s and the definition that uses it is rejected or silently loses members", word, wire.Canon(kv.Value)))
			}
			return true
		})
	}
	c.Count("reserved_words", n)
	c.Floor("reserved_words", 8)
	if tables == 0 {
		c.Undecide("no table from spellings to token kinds found: how reserved words are recognised is not understood")
	}
}

// loopsOnBufferFull: the call sits in a for loop of fd whose body compares an
// error with bufio.ErrBufferFull.
func loopsOnBufferFull(info *types.Info, fd *ast.FuncDecl, call *ast.CallExpr) bool {
	found := false
	mentionsFull := func(n ast.Node) bool {
		hit := false
		ast.Inspect(n, func(m ast.Node) bool {
			if sel, ok := m.(*ast.SelectorExpr); ok && sel.Sel.Name == "ErrBufferFull" {
				if id, ok := sel.X.(*ast.Ident); ok {
					if pn, ok := info.ObjectOf(id).(*types.PkgName); ok && pn.Imported().Path() == "bufio" {
						hit = true
					}
				}
			}
			return !hit
		})
		return hit
	}
	// the first piece read just ahead of the loop that fetches the others:
	// x, err := r.ReadSlice(d); for err == bufio.ErrBufferFull { …ReadSlice… }
	ast.Inspect(fd.Body, func(n ast.Node) bool {
		blk, ok := n.(*ast.BlockStmt)
		if !ok {
			return true
		}
		for i, st := range blk.List {
			if !(st.Pos() <= call.Pos() && call.End() <= st.End()) || i+1 >= len(blk.List) {
				continue
			}
			if _, isFor := st.(*ast.ForStmt); isFor {
				continue
			}
			// the loop may be separated from the first read by statements that
			// do not read (the copy of the first piece)
			j := i + 1
			for j < len(blk.List) {
				if _, isFor := blk.List[j].(*ast.ForStmt); isFor {
					break
				}
				reads := false
				ast.Inspect(blk.List[j], func(m ast.Node) bool {
					if c2, ok := m.(*ast.CallExpr); ok {
						if cal := load.Callee(info, c2); cal != nil && cal.Pkg() != nil && cal.Pkg().Path() == "bufio" {
							reads = true
						}
					}
					return true
				})
				if reads {
					j = len(blk.List)
					break
				}
				j++
			}
			if j >= len(blk.List) {
				continue
			}
			if loop, ok := blk.List[j].(*ast.ForStmt); ok && loop.Cond != nil && mentionsFull(loop.Cond) {
				again := false
				ast.Inspect(loop.Body, func(m ast.Node) bool {
					if c2, ok := m.(*ast.CallExpr); ok {
						if cal := load.Callee(info, c2); cal != nil && cal.Name() == "ReadSlice" {
							again = true
						}
					}
					return true
				})
				if again {
					found = true
				}
			}
		}
		return true
	})
	if found {
		return true
	}
	ast.Inspect(fd.Body, func(n ast.Node) bool {
		loop, ok := n.(*ast.ForStmt)
		if !ok || !(loop.Pos() <= call.Pos() && call.End() <= loop.End()) {
			return true
		}
		ast.Inspect(loop, func(m ast.Node) bool {
			if sel, ok := m.(*ast.SelectorExpr); ok && sel.Sel.Name == "ErrBufferFull" {
				if id, ok := sel.X.(*ast.Ident); ok {
					if pn, ok := info.ObjectOf(id).(*types.PkgName); ok && pn.Imported().Path() == "bufio" {
						found = true
					}
				}
			}
			return true
		})
		return true
	})
	return found
}
