package rules

import (
	"go/ast"
	"go/token"
	"go/types"
	"sort"
	"strings"

	"bebopverif/internal/wire"

	"bebopverif/internal/load"

	"golang.org/x/tools/go/cfg"
	"golang.org/x/tools/go/packages"
)

// fnCFG is a function body with its control-flow graph (engine E5).
type fnCFG struct {
	p    *load.Prog
	pkg  *packages.Package
	fd   *ast.FuncDecl
	g    *cfg.CFG
	name string
}

func buildCFG(p *load.Prog, pkg *packages.Package, fd *ast.FuncDecl) *fnCFG {
	if fd == nil || fd.Body == nil {
		return nil
	}
	mayReturn := func(call *ast.CallExpr) bool {
		if id, ok := call.Fun.(*ast.Ident); ok && id.Name == "panic" {
			if _, isB := pkg.TypesInfo.Uses[id].(*types.Builtin); isB {
				return false
			}
		}
		if sel, ok := call.Fun.(*ast.SelectorExpr); ok && sel.Sel.Name == "Exit" {
			if id, ok := sel.X.(*ast.Ident); ok && id.Name == "os" {
				return false
			}
		}
		return true
	}
	name := fd.Name.Name
	if obj, ok := pkg.TypesInfo.Defs[fd.Name].(*types.Func); ok {
		name = load.FuncName(obj)
	}
	return &fnCFG{p: p, pkg: pkg, fd: fd, g: cfg.New(fd.Body, mayReturn), name: name}
}

// blockCond returns the branch condition that ends block b, if b has two
// successors (Succs[0] = true edge, Succs[1] = false edge).
func blockCond(b *cfg.Block) ast.Expr {
	if len(b.Succs) != 2 || len(b.Nodes) == 0 {
		return nil
	}
	e, _ := b.Nodes[len(b.Nodes)-1].(ast.Expr)
	return e
}

// methodCallOn matches recv.name(...) where recv is an identifier of the
// given name (e.g. tr.Next()).
func isMethodCall(n ast.Node, recv, name string) bool {
	call, ok := n.(*ast.CallExpr)
	if !ok {
		return false
	}
	sel, ok := ast.Unparen(call.Fun).(*ast.SelectorExpr)
	if !ok || sel.Sel.Name != apiActual(name) {
		return false
	}
	// the receiver is the token reader, however it is reached (a variable, a
	// field of a parser value)
	if (recv == "" || recv == "tr") && roleInfo != nil {
		if t := roleInfo.TypeOf(sel.X); t != nil && strings.HasSuffix(t.String(), ".tokenReader") {
			return true
		}
	}
	id, ok := ast.Unparen(sel.X).(*ast.Ident)
	// "tr" is this code base's name for the token reader; its method names
	// (Next, UnNext, Token, Err, readByte, unreadByte) are unique in the files
	// these rules look at, so any identifier is accepted as the receiver
	return ok && (recv == "" || recv == "tr" || id.Name == recv)
}

func containsCall(n ast.Node, pred func(*ast.CallExpr) bool) bool {
	found := false
	ast.Inspect(n, func(m ast.Node) bool {
		if c, ok := m.(*ast.CallExpr); ok && pred(c) {
			found = true
		}
		if _, isLit := m.(*ast.FuncLit); isLit {
			return false
		}
		return !found
	})
	return found
}

// nextCondEdges classifies a block-ending condition built from tr.Next():
// returns the successor index taken when Next() returned false, or -1.
func nextFalseEdge(cond ast.Expr, recv string) int {
	cond = ast.Unparen(cond)
	if isMethodCall(cond, recv, "Next") {
		return 1
	}
	if u, ok := cond.(*ast.UnaryExpr); ok && u.Op == token.NOT && isMethodCall(ast.Unparen(u.X), recv, "Next") {
		return 0
	}
	return -1
}

// reach walks forward from block start (beginning at node index from).
// visit is called for every node in order; returning true stops that path
// (discharged). atReturn is called for every return statement reached.
func (f *fnCFG) reach(start *cfg.Block, from int, visit func(n ast.Node) bool, atReturn func(r *ast.ReturnStmt, path []*cfg.Block)) {
	seen := map[*cfg.Block]bool{}
	var walk func(b *cfg.Block, from int, path []*cfg.Block)
	walk = func(b *cfg.Block, from int, path []*cfg.Block) {
		if from == 0 {
			if seen[b] {
				return
			}
			seen[b] = true
		}
		path = append(path, b)
		for i := from; i < len(b.Nodes); i++ {
			n := b.Nodes[i]
			if visit(n) {
				return
			}
			if r, ok := n.(*ast.ReturnStmt); ok {
				atReturn(r, path)
				return
			}
		}
		if len(b.Succs) == 0 {
			// falls off the end of the function
			atReturn(nil, path)
			return
		}
		for _, s := range b.Succs {
			walk(s, 0, path)
		}
	}
	walk(start, from, nil)
}

func (f *fnCFG) pathString(path []*cfg.Block) []string {
	var out []string
	for _, b := range path {
		if len(b.Nodes) > 0 {
			out = append(out, f.p.Pos(b.Nodes[0].Pos()))
		}
	}
	if len(out) > 12 {
		out = append(out[:6], append([]string{"…"}, out[len(out)-5:]...)...)
	}
	return out
}

// funcsOfFile lists the FuncDecls of package pkg declared in files whose base
// name is in names.
func funcsOfFiles(p *load.Prog, pkg *packages.Package, names ...string) []*ast.FuncDecl {
	want := map[string]bool{}
	for _, n := range names {
		want[n] = true
	}
	var out []*ast.FuncDecl
	for _, f := range pkg.Syntax {
		fn := p.Fset.Position(f.Pos()).Filename
		base := fn
		for i := len(fn) - 1; i >= 0; i-- {
			if fn[i] == '/' {
				base = fn[i+1:]
				break
			}
		}
		// a file split off one of the named files keeps its stem
		// (parse.go -> parse_records.go, tokenize.go -> tokenize_literals.go)
		match := want[base]
		for n := range want {
			if strings.HasPrefix(base, strings.TrimSuffix(n, ".go")+"_") && strings.HasSuffix(base, ".go") && !strings.HasSuffix(base, "_test.go") {
				match = true
			}
		}
		if !match {
			continue
		}
		for _, d := range f.Decls {
			if fd, ok := d.(*ast.FuncDecl); ok && fd.Body != nil {
				out = append(out, fd)
			}
		}
	}
	return out
}

func lastResultIsNil(r *ast.ReturnStmt) bool {
	if r == nil || len(r.Results) == 0 {
		return false
	}
	id, ok := ast.Unparen(r.Results[len(r.Results)-1]).(*ast.Ident)
	return ok && id.Name == "nil"
}

func funcReturnsError(pkg *packages.Package, fd *ast.FuncDecl) bool {
	obj, ok := pkg.TypesInfo.Defs[fd.Name].(*types.Func)
	if !ok {
		return false
	}
	res := obj.Type().(*types.Signature).Results()
	return res.Len() > 0 && isErrorType(res.At(res.Len()-1).Type())
}

// roleInfo is the type information of package bebop of the program being
// analysed (set by loadRepo). trCanon renders an expression like wire.Canon
// but spells every variable by its role where the rules compare against a
// spelling: a *tokenReader is "tr", whatever the code calls it.
var roleInfo *types.Info

// The token reader's API by role. The rules were written against the names
// this code base gives the roles (Next, UnNext, Token, Err, next, readByte,
// unreadByte, addError, setNextToken, and the push-back flag keepNextToken);
// a rename of a method or field is not a change of behaviour, so the names
// are looked up by what the methods do (discoverTokenAPI) and the rules go
// through apiActual / apiRole wherever they compare a spelling.
var apiNames = map[string]string{} // role -> actual name
var apiRoles = map[string]string{} // actual name -> role

func apiActual(role string) string {
	if a, ok := apiNames[role]; ok {
		return a
	}
	return role
}

func apiRole(actual string) string {
	if r, ok := apiRoles[actual]; ok {
		return r
	}
	// a name that some role owns under another spelling is not that role
	if _, taken := apiNames[actual]; taken && apiNames[actual] != actual {
		return "\x00" + actual
	}
	return actual
}

// discoverTokenAPI finds the methods and the push-back flag of the type
// tokenReader of package bebop by structure:
//
//	readByte    calls (*bufio.Reader).ReadByte and returns (byte, error)
//	unreadByte  calls (*bufio.Reader).UnreadByte
//	addError    has one error parameter and no result
//	flag        the bool field set to true in a method without parameters and
//	            results — that method is UnNext
//	next        returns bool, no parameters, clears the flag (flag = false)
//	Next        returns bool, no parameters, calls next
//	Token       no parameters, returns the package's token type
//	Err         no parameters, returns error
//	setNextToken  one parameter of the token type, no result
func discoverTokenAPI(p *load.Prog) {
	apiNames, apiRoles = map[string]string{}, map[string]string{}
	pkg := p.Bebop()
	info := pkg.TypesInfo
	tn, _ := pkg.Types.Scope().Lookup("tokenReader").(*types.TypeName)
	if tn == nil {
		return
	}
	set := func(role, actual string) {
		if actual == "" {
			return
		}
		if _, dup := apiNames[role]; dup {
			return
		}
		apiNames[role] = actual
		apiRoles[actual] = role
	}
	type meth struct {
		fn *types.Func
		fd *ast.FuncDecl
	}
	var ms []meth
	for fn, fd := range p.AllDecls() {
		if p.Owner(fn) != pkg || fd.Body == nil || fd.Recv == nil {
			continue
		}
		sig, _ := fn.Type().(*types.Signature)
		if sig == nil || sig.Recv() == nil {
			continue
		}
		rt := sig.Recv().Type()
		if pt, ok := rt.(*types.Pointer); ok {
			rt = pt.Elem()
		}
		if nt, ok := rt.(*types.Named); !ok || nt.Obj() != tn {
			continue
		}
		ms = append(ms, meth{fn, fd})
	}
	sort.Slice(ms, func(i, j int) bool { return ms[i].fn.Pos() < ms[j].fn.Pos() })
	callsBufio := func(fd *ast.FuncDecl, name string) bool {
		found := false
		ast.Inspect(fd.Body, func(n ast.Node) bool {
			if call, ok := n.(*ast.CallExpr); ok {
				if cal := load.Callee(info, call); cal != nil && cal.Pkg() != nil && cal.Pkg().Path() == "bufio" && cal.Name() == name {
					found = true
				}
			}
			return !found
		})
		return found
	}
	// the flag: a bool field of the receiver assigned the constant true in a
	// method without parameters or results, and the constant false in a
	// parameterless method that returns bool (the one that delivers the token
	// again) — a switch like optionalSemicolons is set but never consumed so
	clearedByBoolMethod := func(v *types.Var) bool {
		for _, m := range ms {
			sig := m.fn.Type().(*types.Signature)
			if sig.Params().Len() != 0 || sig.Results().Len() != 1 {
				continue
			}
			if b, ok := sig.Results().At(0).Type().Underlying().(*types.Basic); !ok || b.Kind() != types.Bool {
				continue
			}
			found := false
			ast.Inspect(m.fd.Body, func(n ast.Node) bool {
				if as, ok := n.(*ast.AssignStmt); ok && len(as.Lhs) == 1 && len(as.Rhs) == 1 {
					if sel, ok := ast.Unparen(as.Lhs[0]).(*ast.SelectorExpr); ok && info.ObjectOf(sel.Sel) == types.Object(v) {
						if tv := info.Types[as.Rhs[0]]; tv.Value != nil && tv.Value.ExactString() == "false" {
							found = true
						}
					}
				}
				return !found
			})
			if found {
				return true
			}
		}
		return false
	}
	var flag *types.Var
	for _, m := range ms {
		sig := m.fn.Type().(*types.Signature)
		if sig.Params().Len() != 0 || sig.Results().Len() != 0 {
			continue
		}
		ast.Inspect(m.fd.Body, func(n ast.Node) bool {
			as, ok := n.(*ast.AssignStmt)
			if !ok || len(as.Lhs) != 1 || len(as.Rhs) != 1 {
				return true
			}
			sel, ok := ast.Unparen(as.Lhs[0]).(*ast.SelectorExpr)
			if !ok {
				return true
			}
			if tv := info.Types[as.Rhs[0]]; tv.Value == nil || tv.Value.ExactString() != "true" {
				return true
			}
			if v, ok := info.ObjectOf(sel.Sel).(*types.Var); ok && v.IsField() && flag == nil {
				if b, isB := v.Type().Underlying().(*types.Basic); isB && b.Kind() == types.Bool && clearedByBoolMethod(v) {
					flag = v
					set("keepNextToken", v.Name())
					set("UnNext", m.fn.Name())
				}
			}
			return true
		})
	}
	tokenType := pkg.Types.Scope().Lookup("token")
	for _, m := range ms {
		sig := m.fn.Type().(*types.Signature)
		np, nr := sig.Params().Len(), sig.Results().Len()
		switch {
		case callsBufio(m.fd, "UnreadByte"):
			set("unreadByte", m.fn.Name())
		case callsBufio(m.fd, "ReadByte") && nr == 2:
			set("readByte", m.fn.Name())
		case np == 1 && nr == 0 && isErrorType(sig.Params().At(0).Type()):
			// the one that appends to the slice of recorded errors itself (a
			// helper that calls it is not it)
			ast.Inspect(m.fd.Body, func(n ast.Node) bool {
				if as, ok := n.(*ast.AssignStmt); ok && len(as.Lhs) == 1 && len(as.Rhs) == 1 {
					if sel, ok := ast.Unparen(as.Lhs[0]).(*ast.SelectorExpr); ok {
						if call, ok := ast.Unparen(as.Rhs[0]).(*ast.CallExpr); ok && wire.Canon(call.Fun) == "append" {
							if v, ok := info.ObjectOf(sel.Sel).(*types.Var); ok && v.IsField() {
								set("addError", m.fn.Name())
								set("errs", v.Name())
							}
						}
					}
				}
				return true
			})
		case np == 1 && nr == 0 && tokenType != nil && types.Identical(sig.Params().At(0).Type(), tokenType.Type()):
			set("setNextToken", m.fn.Name())
		case np == 0 && nr == 1 && tokenType != nil && types.Identical(sig.Results().At(0).Type(), tokenType.Type()):
			set("Token", m.fn.Name())
		case np == 0 && nr == 1 && isErrorType(sig.Results().At(0).Type()):
			set("Err", m.fn.Name())
		}
	}
	// next clears the flag; Next calls next
	var inner *types.Func
	for _, m := range ms {
		sig := m.fn.Type().(*types.Signature)
		if sig.Params().Len() != 0 || sig.Results().Len() != 1 {
			continue
		}
		if b, ok := sig.Results().At(0).Type().Underlying().(*types.Basic); !ok || b.Kind() != types.Bool {
			continue
		}
		clears := false
		ast.Inspect(m.fd.Body, func(n ast.Node) bool {
			if as, ok := n.(*ast.AssignStmt); ok && len(as.Lhs) == 1 && len(as.Rhs) == 1 {
				if sel, ok := ast.Unparen(as.Lhs[0]).(*ast.SelectorExpr); ok && flag != nil && info.ObjectOf(sel.Sel) == types.Object(flag) {
					if tv := info.Types[as.Rhs[0]]; tv.Value != nil && tv.Value.ExactString() == "false" {
						clears = true
					}
				}
			}
			return true
		})
		if clears && inner == nil {
			inner = m.fn
			set("next", m.fn.Name())
		}
	}
	for _, m := range ms {
		sig := m.fn.Type().(*types.Signature)
		if sig.Params().Len() != 0 || sig.Results().Len() != 1 || m.fn == inner {
			continue
		}
		if b, ok := sig.Results().At(0).Type().Underlying().(*types.Basic); !ok || b.Kind() != types.Bool {
			continue
		}
		calls := false
		ast.Inspect(m.fd.Body, func(n ast.Node) bool {
			if call, ok := n.(*ast.CallExpr); ok && inner != nil && load.Callee(info, call) == inner {
				calls = true
			}
			return !calls
		})
		if calls {
			set("Next", m.fn.Name())
		}
	}
}

func trCanon(e ast.Expr) string {
	s := wire.Canon(e)
	if roleInfo == nil || e == nil {
		return s
	}
	ren := map[string]string{}
	// methods and fields of the token reader by role
	ast.Inspect(e, func(n ast.Node) bool {
		if sel, ok := n.(*ast.SelectorExpr); ok {
			if r, has := apiRoles[sel.Sel.Name]; has && r != sel.Sel.Name {
				if t := roleInfo.TypeOf(sel.X); t != nil && strings.HasSuffix(t.String(), ".tokenReader") {
					s = strings.ReplaceAll(s, "."+sel.Sel.Name, "."+r)
				}
			}
		}
		return true
	})
	ast.Inspect(e, func(n ast.Node) bool {
		if id, ok := n.(*ast.Ident); ok {
			if o := roleInfo.ObjectOf(id); o != nil {
				if _, isVar := o.(*types.Var); isVar && strings.HasSuffix(o.Type().String(), ".tokenReader") && id.Name != "tr" {
					ren[id.Name] = "tr"
				}
			}
		}
		return true
	})
	if len(ren) == 0 {
		return s
	}
	return renameWords(s, ren)
}

// renameWords replaces whole identifiers that are not selector field names.
func renameWords(s string, ren map[string]string) string {
	var b strings.Builder
	i := 0
	isStart := func(c byte) bool { return c == '_' || (c >= 'a' && c <= 'z') || (c >= 'A' && c <= 'Z') }
	for i < len(s) {
		c := s[i]
		if isStart(c) {
			j := i
			for j < len(s) && (isStart(s[j]) || (s[j] >= '0' && s[j] <= '9')) {
				j++
			}
			w := s[i:j]
			if to, ok := ren[w]; ok && (i == 0 || s[i-1] != '.') {
				w = to
			}
			b.WriteString(w)
			i = j
			continue
		}
		b.WriteByte(c)
		i++
	}
	return b.String()
}

// declClosure: fd and the functions of the same package it calls, transitively
// (a helper extracted from a function is part of what the function does).
func declClosure(p *load.Prog, pkg *packages.Package, fd *ast.FuncDecl, maxDepth int) []*ast.FuncDecl {
	seen := map[*ast.FuncDecl]bool{fd: true}
	out := []*ast.FuncDecl{fd}
	var add func(d *ast.FuncDecl, depth int)
	add = func(d *ast.FuncDecl, depth int) {
		if depth >= maxDepth {
			return
		}
		ast.Inspect(d.Body, func(n ast.Node) bool {
			call, ok := n.(*ast.CallExpr)
			if !ok {
				return true
			}
			cal := load.Callee(pkg.TypesInfo, call)
			if cal == nil || cal.Pkg() != pkg.Types {
				return true
			}
			cd := p.Decl(cal)
			if cd == nil || cd.Body == nil || seen[cd] {
				return true
			}
			seen[cd] = true
			out = append(out, cd)
			add(cd, depth+1)
			return true
		})
	}
	add(fd, 0)
	return out
}

// caseConds maps every case expression of the tagged switches of fd to the
// comparison it stands for. go/cfg records a tagged switch as the tag followed
// by bare case expressions; path analyses that refine on conditions need
// `tag == expr` back.
func caseConds(fd *ast.FuncDecl) map[ast.Expr]ast.Expr {
	out := map[ast.Expr]ast.Expr{}
	ast.Inspect(fd.Body, func(n ast.Node) bool {
		sw, ok := n.(*ast.SwitchStmt)
		if !ok || sw.Tag == nil {
			return true
		}
		for _, cc := range sw.Body.List {
			for _, e := range cc.(*ast.CaseClause).List {
				out[e] = &ast.BinaryExpr{X: sw.Tag, Op: token.EQL, Y: e, OpPos: e.Pos()}
			}
		}
		return true
	})
	return out
}

// calleeNamed: the call is to the function or method of package bebop with
// that name, whether it is written f(…), x.f(…) or pkg.f(…): a function that
// was made a method of a parser or formatter value keeps its name.
func calleeNamed(call *ast.CallExpr, name string) bool {
	switch f := ast.Unparen(call.Fun).(type) {
	case *ast.Ident:
		return f.Name == name
	case *ast.SelectorExpr:
		if f.Sel.Name != name {
			return false
		}
		if roleInfo != nil {
			if fn, ok := roleInfo.ObjectOf(f.Sel).(*types.Func); ok {
				return fn.Pkg() != nil && strings.HasSuffix(fn.Pkg().Path(), "bebop")
			}
		}
		return true
	}
	return false
}

// filesOf: the syntax trees of the named files of pkg and of the files split
// off them (same stem: parse.go -> parse_records.go).
func filesOf(p *load.Prog, pkg *packages.Package, names ...string) []*ast.File {
	var out []*ast.File
	for _, f := range pkg.Syntax {
		fn := p.Fset.Position(f.Pos()).Filename
		base := fn
		if i := strings.LastIndex(fn, "/"); i >= 0 {
			base = fn[i+1:]
		}
		match := false
		for _, n := range names {
			if base == n || (strings.HasPrefix(base, strings.TrimSuffix(n, ".go")+"_") && strings.HasSuffix(base, ".go") && !strings.HasSuffix(base, "_test.go")) {
				match = true
			}
		}
		if match {
			out = append(out, f)
		}
	}
	return out
}

// reachableFuncs: the functions of pkg that fd reaches through static calls,
// method values and expressions, and function values listed in package-level
// tables it mentions (a driver that runs its phases from a []func table).
// fd's own function is included.
func reachableFuncs(p *load.Prog, pkg *packages.Package, fd *ast.FuncDecl) map[*types.Func]bool {
	info := pkg.TypesInfo
	reach := map[*types.Func]bool{}
	seenVar := map[types.Object]bool{}
	var visitFn func(n ast.Node, depth int)
	visitObj := func(o types.Object, depth int) {
		switch x := o.(type) {
		case *types.Func:
			if x.Pkg() == pkg.Types && !reach[x] && depth < 8 {
				reach[x] = true
				if d := p.Decl(x); d != nil && d.Body != nil {
					visitFn(d.Body, depth+1)
				}
			}
		case *types.Var:
			if x.Pkg() == nil || x.Parent() != pkg.Types.Scope() || seenVar[o] || depth >= 8 {
				return
			}
			seenVar[o] = true
			for _, f := range pkg.Syntax {
				for _, d := range f.Decls {
					gd, ok := d.(*ast.GenDecl)
					if !ok {
						continue
					}
					for _, sp := range gd.Specs {
						vs, ok := sp.(*ast.ValueSpec)
						if !ok {
							continue
						}
						for i, nm := range vs.Names {
							if info.Defs[nm] == o && i < len(vs.Values) {
								visitFn(vs.Values[i], depth+1)
							}
						}
					}
				}
			}
		}
	}
	visitFn = func(n ast.Node, depth int) {
		ast.Inspect(n, func(m ast.Node) bool {
			switch x := m.(type) {
			case *ast.Ident:
				if o := info.Uses[x]; o != nil {
					visitObj(o, depth)
				}
			case *ast.SelectorExpr:
				if sel, ok := info.Selections[x]; ok {
					if f, ok := sel.Obj().(*types.Func); ok {
						visitObj(f, depth)
					}
				}
			}
			return true
		})
	}
	if self, ok := info.Defs[fd.Name].(*types.Func); ok {
		reach[self] = true
	}
	if fd.Body != nil {
		visitFn(fd.Body, 0)
	}
	return reach
}
