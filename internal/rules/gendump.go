package rules

import (
	"fmt"
	"strings"

	"bebopverif/internal/core"
	"bebopverif/internal/geneval"
	"bebopverif/internal/load"
	"bebopverif/internal/wire"
)

// GenDump is a development aid: prints what the reader extracts.
func GenDump(repo, filter string, text bool) int {
	p, err := load.Load(repo, "")
	if err != nil {
		fmt.Println(err)
		return 2
	}
	c := core.NewCtx("DUMP", "quick", repo, "/tmp")
	all := geneval.AllOptions()
	cfg := genConfig{Depth: 2, Level: 0, Options: all, PerBatch: 120, DeepOpts: all, FirstFull: 1000}
	ga := runGen(c, p, cfg)
	for _, u := range c.Undecided {
		fmt.Println("UNDECIDED", u)
	}
	if ga == nil {
		return 2
	}
	unk := map[string]int{}
	for _, gf := range ga.Files {
		if gf.ParseErr != nil {
			fmt.Println("PARSE ERROR", gf.ParseErr)
		}
		for i, te := range gf.TypeErrs {
			if i < 10 {
				fmt.Println("TYPE ERROR", te)
			}
		}
		if gf.GenErr != "" {
			fmt.Println("GEN ERROR", gf.GenErr)
		}
	}
	for _, rf := range ga.Recs {
		for _, m := range allMethods {
			mf := rf.M[m]
			if t, _, ok := wire.HasUnknown(mf.Items); ok {
				unk[m+": "+t]++
			}
			for _, n := range mf.Size {
				if n.Unknown != "" {
					unk[m+": "+n.Unknown]++
				}
			}
		}
		if filter == "" || !(rf.shapeKey() == filter || rf.Spec.Name == filter) {
			continue
		}
		fmt.Printf("=== %s %s (%s) opts=%s\n", kindName(rf.Spec.Kind), rf.Spec.Name, rf.shapeKey(), rf.GF.Opts)
		ew, _ := ga.expectedRecord(rf, "w")
		er, _ := ga.expectedRecord(rf, "r")
		fmt.Println("  spec(w):", wire.Sig(ew))
		fmt.Println("  spec(r):", wire.Sig(er))
		for _, m := range allMethods {
			mf := rf.M[m]
			if !mf.Present {
				fmt.Printf("  %s: absent\n", m)
				continue
			}
			if m == mSZ {
				fmt.Printf("  %s: %s\n", m, wire.SzString(wire.NormSz(mf.Size)))
			} else {
				fmt.Printf("  %s: %s\n", m, wire.Sig(mf.Items))
			}
			for _, f := range mf.Fails {
				fmt.Printf("      FAIL[%s] leaf=%s %s\n", f.Rule, f.Leaf, f.Msg)
			}
			for _, a := range mf.Allocs {
				fmt.Printf("      ALLOC %+v\n", a)
			}
			if mf.Lim.Installed {
				fmt.Printf("      LIM %+v\n", mf.Lim)
			}
			fmt.Printf("      returns %v\n", mf.Returns)
			if text {
				fmt.Println(rf.GF.Snippet(mf.Decl))
			}
		}
	}
	fmt.Printf("records=%d methods=%d shapes=%d\n", ga.NRecords, ga.NMethods, ga.NShapes)
	for k, v := range unk {
		fmt.Printf("UNKNOWN x%d %s\n", v, strings.TrimSpace(k))
	}
	return 0
}
