package rules

import (
	"fmt"
	"go/ast"
	"go/token"
	"strings"

	"bebopverif/internal/core"
	"bebopverif/internal/geneval"
	"bebopverif/internal/genfacts"
	"bebopverif/internal/wire"
)

func genPos(gr *genRun) string {
	if d := gr.p.FuncDecl(gr.p.Bebop(), "File.Generate"); d != nil {
		return gr.p.Pos(d.Pos()) + " (File.Generate)"
	}
	return "gen.go (File.Generate)"
}

func (gr *genRun) probe(rule, key string, fs geneval.FileSpec, opts []geneval.Options) {
	gr.probeMay(rule, key, fs, opts, false)
}

// probeMay: with mayRefuse, an error from Generate discharges the option set —
// the property is about the schemas Generate accepts; what it emits for them
// must compile, and refusing is the other way of keeping that promise.
func (gr *genRun) probeMay(rule, key string, fs geneval.FileSpec, opts []geneval.Options, mayRefuse bool) {
	for _, o := range opts {
		gf := gr.ga.G.GenerateSpec(fs, o)
		gr.c.Count("probe_files", 1)
		if gf.EvalErr != nil {
			gr.c.Undecide("probe %s: %v", key, gf.EvalErr)
			return
		}
		if gf.GenErr != "" {
			if mayRefuse {
				continue
			}
			gr.c.Check(rule, key, genPos(gr), false, "Generate refuses the schema: "+gf.GenErr)
			return
		}
		if gf.ParseErr != nil {
			gr.c.Check(rule, key, genPos(gr), false, fmt.Sprintf("emitted file does not parse under options %s: %v", o, gf.ParseErr))
			return
		}
		if len(gf.TypeErrs) > 0 {
			e := gf.TypeErrs[0]
			gr.c.Check(rule, key, genPos(gr), false, fmt.Sprintf("emitted file does not type-check under options %s (%d errors), first: %s — %s", o, len(gf.TypeErrs), e.Msg, gf.Line(e.Pos)))
			return
		}
	}
	gr.c.Check(rule, key, genPos(gr), true, "")
}

func twoOpts() []geneval.Options {
	all := geneval.AllOptions()
	return []geneval.Options{all[0], all[1], all[8], all[31]}
}

// probeLowercaseNames: bebop identifiers may start with a lower-case letter.
func probeLowercaseNames(c *core.Ctx, gr *genRun) {
	b := gr.ga.G.B
	S := geneval.Simple
	mk := func(field geneval.Shape, defs func(fs *geneval.FileSpec)) geneval.FileSpec {
		fs := geneval.FileSpec{GoPackage: "example.com/x/gen"}
		defs(&fs)
		fs.Structs = append(fs.Structs, b.Struct("User", false, 0, geneval.FieldSpec{Name: "f", Shape: field}))
		return fs
	}
	gr.probe("R3", "lower-case struct name used as a field type", mk(S("lowSt"), func(fs *geneval.FileSpec) {
		fs.Structs = append(fs.Structs, b.Struct("lowSt", false, 0, geneval.FieldSpec{Name: "a", Shape: S("int32")}))
	}), twoOpts())
	gr.probe("R3", "lower-case message name used as a field type", mk(geneval.Arr(S("lowMsg")), func(fs *geneval.FileSpec) {
		fs.Messages = append(fs.Messages, b.Message("lowMsg", 0, geneval.NumField{Num: 1, FieldSpec: geneval.FieldSpec{Name: "a", Shape: S("int32")}}))
	}), twoOpts())
	gr.probe("R3", "lower-case enum name used as a field type", mk(geneval.MapOf("string", S("lowEnum")), func(fs *geneval.FileSpec) {
		fs.Enums = append(fs.Enums, b.Enum("lowEnum", "uint32", true, geneval.OptSpec{Name: "A", UintValue: 1}))
	}), twoOpts())
	gr.probe("R3", "lower-case union and branch names", mk(S("lowUn"), func(fs *geneval.FileSpec) {
		fs.Unions = append(fs.Unions, b.Union("lowUn", 0, geneval.Branch{Num: 1, Struct: b.Struct("lowBr", false, 0, geneval.FieldSpec{Name: "a", Shape: S("int32")})}))
	}), twoOpts())
	gr.probe("R3", "upper-case field names and lower-case record name", geneval.FileSpec{GoPackage: "example.com/x/gen", Structs: []geneval.Value{
		b.Struct("rec", false, 0, geneval.FieldSpec{Name: "Field", Shape: S("string")}, geneval.FieldSpec{Name: "other", Shape: S("guid")})}}, twoOpts())
	gr.probe("R3", "type and field names starting with a non-ASCII letter", geneval.FileSpec{GoPackage: "example.com/x/gen", Structs: []geneval.Value{
		b.Struct("Éclair", false, 0, geneval.FieldSpec{Name: "ärger", Shape: S("string")}, geneval.FieldSpec{Name: "Ñu", Shape: S("int32")}),
		b.Struct("Uses", true, 0, geneval.FieldSpec{Name: "é", Shape: geneval.Arr(S("Éclair"))})}}, geneval.AllOptions())
	depr := b.Field(geneval.FieldSpec{Name: "old", Shape: S("int32"), Deprecated: true})
	depr.Set("DeprecatedMessage", "line one\nline two")
	stDepr := b.Struct("Dep", false, 0)
	stDepr.Set("Fields", geneval.List(depr))
	enDepr := b.Enum("DepE", "uint32", true, geneval.OptSpec{Name: "A", UintValue: 1, Deprecated: true})
	gr.probe("R3", "deprecation message with a line break", geneval.FileSpec{GoPackage: "example.com/x/gen", Structs: []geneval.Value{stDepr}, Enums: []geneval.Value{enDepr}}, twoOpts())
	gr.probe("R3", "readonly struct with upper-case field names", geneval.FileSpec{GoPackage: "example.com/x/gen", Structs: []geneval.Value{
		b.Struct("Ro", true, 0, geneval.FieldSpec{Name: "Field", Shape: S("string")}, geneval.FieldSpec{Name: "other", Shape: geneval.Arr(S("date"))})}}, twoOpts())
	// names that are words of Go: a readonly struct keeps its fields unexported
	// (the schema's spelling), private definitions keep the record's
	gr.probe("R3", "readonly struct with fields named like Go keywords", geneval.FileSpec{GoPackage: "example.com/x/gen", Structs: []geneval.Value{
		b.Struct("Kw", true, 0, geneval.FieldSpec{Name: "type", Shape: S("int32")}, geneval.FieldSpec{Name: "range", Shape: S("string")})}}, geneval.AllOptions())
	gr.probe("R3", "records named like Go keywords", geneval.FileSpec{GoPackage: "example.com/x/gen", Structs: []geneval.Value{
		b.Struct("range", false, 0, geneval.FieldSpec{Name: "a", Shape: S("int32")})},
		Messages: []geneval.Value{b.Message("func", 0, geneval.NumField{Num: 1, FieldSpec: geneval.FieldSpec{Name: "a", Shape: S("int32")}})}}, geneval.AllOptions())
	gr.probeMay("R3", "fields named like the generated methods are refused or emitted under another name", geneval.FileSpec{GoPackage: "example.com/x/gen", Structs: []geneval.Value{
		b.Struct("Clash", false, 0, geneval.FieldSpec{Name: "Size", Shape: S("int32")}, geneval.FieldSpec{Name: "size", Shape: S("int32")})},
		Messages: []geneval.Value{b.Message("ClashM", 0, geneval.NumField{Num: 1, FieldSpec: geneval.FieldSpec{Name: "MarshalBebop", Shape: S("int32")}})}}, geneval.AllOptions(), true)
	gr.probeMay("R3", "a message field named like a generated method", geneval.FileSpec{GoPackage: "example.com/x/gen",
		Messages: []geneval.Value{b.Message("ClashM", 0, geneval.NumField{Num: 1, FieldSpec: geneval.FieldSpec{Name: "decodeBebop", Shape: S("int32")}})}}, geneval.AllOptions(), true)
	gr.probeMay("R3", "a union branch field named like a generated method", geneval.FileSpec{GoPackage: "example.com/x/gen",
		Unions: []geneval.Value{b.Union("ClashU", 0, geneval.Branch{Num: 1, Struct: b.Struct("ClashB", false, 0, geneval.FieldSpec{Name: "encodeBebop", Shape: S("int32")})})}}, geneval.AllOptions(), true)
	gr.probeMay("R3", "two fields whose names differ in the case of the first letter", geneval.FileSpec{GoPackage: "example.com/x/gen",
		Structs: []geneval.Value{b.Struct("CaseF", false, 0, geneval.FieldSpec{Name: "a", Shape: S("int32")}, geneval.FieldSpec{Name: "A", Shape: S("int32")})}}, geneval.AllOptions(), true)
	gr.probeMay("R3", "two definitions whose names differ in the case of the first letter", geneval.FileSpec{GoPackage: "example.com/x/gen",
		Structs:  []geneval.Value{b.Struct("caseD", false, 0, geneval.FieldSpec{Name: "a", Shape: S("int32")})},
		Messages: []geneval.Value{b.Message("CaseD", 0, geneval.NumField{Num: 1, FieldSpec: geneval.FieldSpec{Name: "a", Shape: S("int32")}})}}, geneval.AllOptions(), true)
	gr.probe("R3", "a readonly struct field named like a generated method", geneval.FileSpec{GoPackage: "example.com/x/gen",
		Structs: []geneval.Value{b.Struct("RoClash", true, 0, geneval.FieldSpec{Name: "Size", Shape: S("int32")})}}, geneval.AllOptions())
}

// probeImports: the import list must match what the body uses.
func probeImports(c *core.Ctx, gr *genRun) {
	b := gr.ga.G.B
	S := geneval.Simple
	pkg := "example.com/x/gen"
	consts := []geneval.Value{
		b.Const("int32", "negative", "-5"), b.Const("uint64", "big", "18446744073709551615"), b.Const("string", "greeting", `"hi \"there\""`),
		b.Const("bool", "yes", "true"), b.Const("float64", "pi", "3.14"), b.Const("guid", "id", `"e215a946-b26f-4567-a276-13136f0a1708"`),
		b.Const("int64", "hex", "0x7fffffffffffffff"), b.Const("byte", "b", "255"),
	}
	special := []geneval.Value{b.Const("float32", "ninf", "math.Inf(-1)"), b.Const("float64", "pinf", "math.Inf(1)"), b.Const("float64", "nan", "math.NaN()")}
	gr.probe("R5", "imports: consts only", geneval.FileSpec{GoPackage: pkg, Consts: consts}, twoOpts())
	gr.probe("R5", "imports: consts with inf/nan", geneval.FileSpec{GoPackage: pkg, Consts: append(append([]geneval.Value{}, consts...), special...)}, twoOpts())
	gr.probe("R5", "imports: only inf/nan consts", geneval.FileSpec{GoPackage: pkg, Consts: special}, twoOpts())
	gr.probe("R5", "imports: enums only", geneval.FileSpec{GoPackage: pkg, Enums: []geneval.Value{b.Enum("E", "int16", false, geneval.OptSpec{Name: "A", Value: -1})}}, twoOpts())
	gr.probe("R5", "imports: empty schema", geneval.FileSpec{GoPackage: pkg}, twoOpts())
	gr.probe("R5", "imports: struct with a date field", geneval.FileSpec{GoPackage: pkg, Structs: []geneval.Value{b.Struct("D", false, 0, geneval.FieldSpec{Name: "t", Shape: S("date")})}}, twoOpts())
	gr.probe("R5", "imports: date only as a map key in a message", geneval.FileSpec{GoPackage: pkg, Messages: []geneval.Value{b.Message("D", 0, geneval.NumField{Num: 1, FieldSpec: geneval.FieldSpec{Name: "t", Shape: geneval.MapOf("date", S("int32"))}})}}, twoOpts())
	gr.probe("R5", "imports: date only inside a union branch", geneval.FileSpec{GoPackage: pkg, Unions: []geneval.Value{b.Union("U", 0, geneval.Branch{Num: 1, Struct: b.Struct("B", false, 0, geneval.FieldSpec{Name: "t", Shape: geneval.Arr(S("date"))})})}}, twoOpts())
	gr.probe("R5", "imports: struct without date", geneval.FileSpec{GoPackage: pkg, Structs: []geneval.Value{b.Struct("D", false, 0, geneval.FieldSpec{Name: "t", Shape: S("int32")})}}, twoOpts())
	gr.probe("R5", "imports: empty records only", geneval.FileSpec{GoPackage: pkg, Structs: []geneval.Value{b.Struct("E", false, 0)}, Messages: []geneval.Value{b.Message("M", 0)}, Unions: []geneval.Value{b.Union("U", 0)}}, twoOpts())
	gr.probe("R5", "records with opcodes, comments, tags and deprecations", geneval.FileSpec{GoPackage: pkg,
		Structs: []geneval.Value{b.Struct("T", false, 0x1234, geneval.FieldSpec{Name: "a", Shape: S("int32"), Comment: " a comment\n[tag(json:\"a,omitempty\")]", Tags: []geneval.TagSpec{{Key: "json", Value: "a,omitempty"}}, Deprecated: true},
			geneval.FieldSpec{Name: "b", Shape: S("string"), Tags: []geneval.TagSpec{{Key: "flag", Boolean: true}}})},
		Messages: []geneval.Value{b.Message("Mt", 0x41424344, geneval.NumField{Num: 1, FieldSpec: geneval.FieldSpec{Name: "a", Shape: S("int32"), Comment: "multi\nline", Tags: []geneval.TagSpec{{Key: "db", Value: "x"}}}})},
	}, geneval.AllOptions())
}

func init() {
	register("C05", checkC05)
	register("C08", checkC08)
	register("C20", checkC20)
}

func checkC05(c *core.Ctx) {
	c.Explainf("C05 (decided clauses). R1: every iohelp stream reader reads exactly the width of its wire type through io.ReadFull on the ErrorReader, whose Read is itself io.ReadFull on the underlying reader — chunking is absorbed in one place. R2: nothing but ErrorReader.Read, Drain and the constructor touches the underlying reader; no emitted decoder reads r.Reader other than to install/restore the limiter. R2c: the constructor stores the caller's reader itself — nothing that reads ahead (bufio) is put in between. R3: limiter typestate of every emitted message/union DecodeBebop: the limiter is installed over the saved base reader, Drain happens only while limited, every `return r.Err` happens after the base reader is restored, and none is taken between reading the length prefix and consuming the body it announces (other than for a prefix of zero). R4: struct decoders install no limiter. R5: the Make<T>(r) wrappers of records with framing always decode. R2e: on the syntax tree of every emitted DecodeBebop the caller's io.Reader is only handed to iohelp.NewErrorReader (or io.ReadFull/io.ReadAtLeast); a method called on it directly outside a loop is a single raw Read. R2d: Drain takes the rest of a bounded region with a read that absorbs short reads (io.Copy, io.ReadFull, or a loop), never below the limiter, and a loop in it ends exactly when a read fails. NOT decided: 'consumed == Size() of the decoded value' (false by design when deprecated/unknown fields are on the wire); readers that violate the io.Reader contract.")
	gr := startGen(c)
	if gr == nil {
		return
	}
	iohelpStreamWidths(c, gr.p, "R1")
	iohelpLatchRules(c, gr.p, "-", "R2", "-", "-")
	iohelpCtorDirect(c, gr.p, "R2c")
	iohelpDrain(c, gr.p, "R2d", false)
	dropRules(c, "-")
	for _, rf := range gr.ga.Recs {
		sr := rf.M[mSR]
		// R2e, on the syntax tree of every emitted DecodeBebop, understood by
		// the signature reader or not: the caller's stream is only wrapped. A
		// method called on it directly outside any loop is one raw Read, which
		// the io.Reader contract allows to return fewer bytes than asked for
		if sr.Emitted {
			raw, other := rawStreamUse(sr.Decl)
			key := mSR + " reads the caller's stream only through the wrapper " + kindName(rf.Spec.Kind)
			switch {
			case raw != nil:
				c.Check("R2e", key, anchorPos(gr.p, rf.Spec.Kind, mSR), false,
					"emitted DecodeBebop calls "+wire.Canon(raw.Fun)+" on the caller's reader itself, once: a reader that delivers the record in pieces leaves the rest of it unread and on the stream — "+rf.where(raw.Pos()))
			case other != nil:
				c.Undecide("C05/R2e: %s uses the caller's reader in %s, which is neither iohelp.NewErrorReader nor io.ReadFull/io.ReadAtLeast — %s", mSR, wire.Canon(other), rf.where(other.Pos()))
			default:
				c.Check("R2e", key, anchorPos(gr.p, rf.Spec.Kind, mSR), true, "")
			}
		}
		if !sr.Present {
			continue
		}
		l := sr.Lim
		if rf.Spec.Kind == genfacts.ClsStruct {
			c.Check("R4", "struct DecodeBebop installs no limiter "+bodyKeyAll(rf), anchorPos(gr.p, rf.Spec.Kind, mSR), !l.Installed, "a struct has no length on the wire to bound a limiter — "+rf.where(l.Pos))
			continue
		}
		c.Check("R3", "limiter installed over the saved base reader "+frameKey(rf), anchorPos(gr.p, rf.Spec.Kind, mSR), l.Installed && l.OKShape && l.BaseVar != "",
			fmt.Sprintf("limiter %+v — %s", l, rf.where(l.Pos)))
		for _, f := range sr.Fails {
			if f.Rule == "limiter" {
				c.Check("R3", failKey(rf, mSR, f), anchorPos(gr.p, rf.Spec.Kind, mSR), false, f.Msg+" — "+rf.where(f.Pos))
			}
		}
		c.Check("R3", "every return of the latch happens with the base reader restored "+frameKey(rf), anchorPos(gr.p, rf.Spec.Kind, mSR), len(l.ReturnsBad) == 0,
			fmt.Sprintf("%d `return r.Err` while the limiter is still installed: the caller's next read would be cut short or run past the record — %s", len(l.ReturnsBad), rf.where(firstPos(l.ReturnsBad))))
		c.Check("R3", "no return between the length prefix and the body "+frameKey(rf), anchorPos(gr.p, rf.Spec.Kind, mSR), len(l.ShortReturns) == 0,
			fmt.Sprintf("%d shortcut return(s) right after the length prefix for a prefix other than zero: the bytes the prefix announces (at least the terminator) stay on the stream and the next record is read from the middle of this one — %s", len(l.ShortReturns), rf.where(firstPos(l.ShortReturns))))
		c.Check("R3", "Drain only while limited "+frameKey(rf), anchorPos(gr.p, rf.Spec.Kind, mSR), len(l.DrainBad) == 0,
			fmt.Sprintf("%d Drain calls on the unbounded base reader: would swallow every following record — %s", len(l.DrainBad), rf.where(firstPos(l.DrainBad))))
		// R5: the Make wrapper decodes unless the record has no wire footprint
		gr.checkMakeWrappers(rf)
		// the emitted text touches r.Reader only in the save / install / restore statements
		bad := ""
		nMention := 0
		ast.Inspect(sr.Decl.Body, func(n ast.Node) bool {
			as, isAs := n.(*ast.AssignStmt)
			if isAs && len(as.Lhs) == 1 && len(as.Rhs) == 1 {
				lhs, rhs := wire.Canon(as.Lhs[0]), wire.Canon(as.Rhs[0])
				switch {
				case rhs == "r.Reader" && as.Tok == token.DEFINE:
					nMention++
					return false // save
				case lhs == "r.Reader" && (rhs == l.BaseVar || strings.HasPrefix(rhs, "&io.LimitedReader") || !strings.Contains(rhs, "r.Reader")):
					nMention++
					// install (a limiter over the saved reader) or restore
					mentions := false
					ast.Inspect(as.Rhs[0], func(k ast.Node) bool {
						if sel, ok := k.(*ast.SelectorExpr); ok && wire.Canon(sel) == "r.Reader" {
							mentions = true
						}
						return true
					})
					if mentions {
						bad = rf.GF.Snippet(as)
					}
					return false
				}
			}
			// if lr, ok := r.Reader.(*io.LimitedReader); … { … }: looking at how much
			// the installed limiter has left moves nothing, as long as the limiter
			// so obtained is only read (lr.N in expressions)
			if ifs, isIf := n.(*ast.IfStmt); isIf && ifs.Init != nil {
				if ias, ok := ifs.Init.(*ast.AssignStmt); ok && ias.Tok == token.DEFINE && len(ias.Lhs) == 2 && len(ias.Rhs) == 1 {
					if ta, ok := ast.Unparen(ias.Rhs[0]).(*ast.TypeAssertExpr); ok && wire.Canon(ta.X) == "r.Reader" && ta.Type != nil && wire.Canon(ta.Type) == "*io.LimitedReader" {
						lr := wire.Canon(ias.Lhs[0])
						onlyRead := true
						var visit func(k ast.Node, lhs bool)
						visit = func(k ast.Node, lhs bool) {
							ast.Inspect(k, func(q ast.Node) bool {
								switch y := q.(type) {
								case *ast.AssignStmt:
									if y == ias {
										return false
									}
									for _, l := range y.Lhs {
										visit(l, true)
									}
									for _, r := range y.Rhs {
										visit(r, false)
									}
									return false
								case *ast.IncDecStmt:
									visit(y.X, true)
									return false
								case *ast.SelectorExpr:
									if wire.Canon(y.X) == lr {
										if y.Sel.Name != "N" || lhs {
											onlyRead = false
										}
										return false
									}
								case *ast.Ident:
									if y.Name == lr {
										onlyRead = false
									}
								}
								return true
							})
						}
						visit(ifs.Cond, false)
						visit(ifs.Body, false)
						if ifs.Else != nil {
							visit(ifs.Else, false)
						}
						if onlyRead {
							// the rest of the statement is still looked at
							ast.Inspect(ifs.Body, func(q ast.Node) bool {
								if as2, ok := q.(*ast.AssignStmt); ok && len(as2.Lhs) == 1 && len(as2.Rhs) == 1 && wire.Canon(as2.Lhs[0]) == "r.Reader" && wire.Canon(as2.Rhs[0]) == l.BaseVar {
									return false // restore before an early return
								}
								if sel, ok := q.(*ast.SelectorExpr); ok && wire.Canon(sel) == "r.Reader" {
									bad = "r.Reader used outside the save/install/restore statements"
								}
								return true
							})
							return false
						}
					}
				}
			}
			if sel, ok := n.(*ast.SelectorExpr); ok && wire.Canon(sel) == "r.Reader" {
				bad = "r.Reader used outside the save/install/restore statements"
			}
			return true
		})
		c.Check("R2", "emitted DecodeBebop touches r.Reader only to install/restore "+frameKey(rf), anchorPos(gr.p, rf.Spec.Kind, mSR), bad == "" && nMention >= 3,
			fmt.Sprintf("%s (%d save/install/restore statements) — %s", bad, nMention, rf.where(sr.Decl.Pos())))
	}
	for _, rf := range gr.ga.Recs {
		if rf.Spec.Kind == genfacts.ClsStruct {
			gr.checkMakeWrappers(rf)
		}
		// R6: the limiter is sized by the length prefix: it bounds exactly one
		// record only if the prefix the encoder wrote (Size()-K) is exact
		if sz, sw := rf.M[mSZ], rf.M[mSW]; sz.Present && sw.Present && rf.Spec.Kind != genfacts.ClsStruct {
			want := wire.SzString(normSzTop(wire.SizeOf(sw.Items)))
			got := wire.SzString(normSzTop(sz.Size))
			msg := ""
			if got != want {
				msg = fmt.Sprintf("Size() computes %s but EncodeBebop writes %s: the prefix overstates or understates the body, so Drain swallows the start of the next record or leaves the tail of this one — %s", got, want, rf.where(sz.Decl.Pos()))
			}
			c.Check("R6", "the length prefix bounds exactly the record: Size vs EncodeBebop "+bodyKeyAll(rf), anchorPos(gr.p, rf.Spec.Kind, mSZ), got == want, msg)
		}
	}
	gr.sample(2)
}

func dropRules(c *core.Ctx, rule string) {
	// obligations registered under the placeholder rule "-" belong to another property
	var keep []core.Obl
	for _, o := range c.Obls {
		if o.Rule != c.Prop+"/"+rule {
			keep = append(keep, o)
		}
	}
	c.Obls = keep
}

func firstPos(ps []tokenPos) tokenPos {
	if len(ps) > 0 {
		return ps[0]
	}
	return 0
}

func checkC08(c *core.Ctx) {
	c.Explainf("C08 (decided clauses). R1: ErrorReader.Read and ErrorWriter.Write store the underlying error into .Err on the err != nil path and return it. R1c: every store into .Err in iohelp stores a value that is not nil (a variable under a test that it is not nil, a package-level error value) — never a call's error result as it comes, never nil: the latch is never cleared. R2: nothing else in iohelp touches the underlying stream. R2c: the constructors store the caller's stream itself (no buffering layer that defers writes and their errors). R3: every return of every emitted EncodeBebop/DecodeBebop is the latch (w.Err / r.Err) or the err of a nested call; `return nil` only where no I/O was performed. R3d: on the syntax tree of every emitted DecodeBebop (understood by the signature reader or not), no `return nil` and no `return f(…)` with f not given the reader is reached with a stream read behind it whose outcome was not tested by `if r.Err != nil { … return }`. R4: every nested EncodeBebop / Make<T>(r) is followed at once by `if err != nil { return err }`. R5: no call on the underlying stream has its error assigned to _ (Drain). R6: the constructors return an existing wrapper unchanged, so nested records share the latch. R7: no emitted EncodeBebop/DecodeBebop assigns the error latch itself. R9: emitted EncodeBebop/DecodeBebop never call a method of, or hand to a function, the wrapper's underlying w.Writer / r.Reader. R8: after a failed read no stream reader decodes the bytes an earlier read left in the shared scratch (the function tests the error, or ErrorReader.Read clears its destination on every failing path): a stale length prefix read back as a count makes the decoder allocate and loop for elements that are not in the stream before it gets to report the error. NOT decided: 'does not hang' as such; that an error from one Write makes later Writes harmless is the io.Writer contract.")
	gr := startGen(c)
	if gr == nil {
		return
	}
	iohelpLatchRules(c, gr.p, "R1", "R2", "R5", "R6")
	iohelpLatchNeverCleared(c, gr.p, "R1c")
	iohelpCtorDirect(c, gr.p, "R2c")
	iohelpDrain(c, gr.p, "R5", true)
	iohelpStaleReads(c, gr.p, "R8")
	for _, rf := range gr.ga.Recs {
		for _, m := range []string{mSW, mSR} {
			mf := rf.M[m]
			if !mf.Emitted {
				continue
			}
			n := 0
			// what is derived from the lifted signature needs a method the reader
			// understood; the two rules on the syntax tree (R7, R9) do not
			fails := mf.Fails
			if !mf.Present {
				fails = nil
				n = 1 // no "returns the latch" obligation for a method not understood
			}
			for _, f := range fails {
				switch f.Rule {
				case "return":
					n++
					c.Check("R3", failKey(rf, m, f), anchorPos(gr.p, rf.Spec.Kind, m), false, f.Msg+" — "+rf.where(f.Pos))
				case "errprop":
					n++
					c.Check("R4", failKey(rf, m, f), anchorPos(gr.p, rf.Spec.Kind, m), false, f.Msg+" — "+rf.where(f.Pos))
				}
			}
			if n == 0 {
				c.Check("R3", m+" returns the latch on every path "+bodyKeyAll(rf), anchorPos(gr.p, rf.Spec.Kind, m), len(mf.Returns) > 0, "no return statement found — "+rf.where(mf.Decl.Pos()))
			}
			// R7: only iohelp's Read/Write latch; emitted code never overwrites or clears it
			latch := map[string]string{mSW: "w.Err", mSR: "r.Err"}[m]
			ast.Inspect(mf.Decl.Body, func(nd ast.Node) bool {
				if as, ok := nd.(*ast.AssignStmt); ok {
					for _, l := range as.Lhs {
						if wire.Canon(l) == latch {
							c.Check("R7", m+" never assigns the error latch "+kindName(rf.Spec.Kind), anchorPos(gr.p, rf.Spec.Kind, m), false,
								"emitted code assigns "+latch+": an error recorded by an earlier read/write can be overwritten or cleared — "+rf.where(as.Pos()))
						}
					}
				}
				return true
			})
			c.Check("R7", m+" never assigns the error latch "+kindName(rf.Spec.Kind), anchorPos(gr.p, rf.Spec.Kind, m), true, "")
			// R9: emitted code moves bytes through the wrapper only. w.Writer /
			// r.Reader may be saved, limited and restored (the decoders' body
			// limiter), never handed to a function or have a method called on
			// them: a write or read that goes round the wrapper is not latched
			under := map[string]string{mSW: "w.Writer", mSR: "r.Reader"}[m]
			bypass := ""
			ast.Inspect(mf.Decl.Body, func(nd ast.Node) bool {
				call, ok := nd.(*ast.CallExpr)
				if !ok {
					return true
				}
				for _, a := range call.Args {
					if wire.Canon(a) == under {
						bypass = wire.Canon(call.Fun) + "(" + under + ", …)"
					}
				}
				if sel, ok := ast.Unparen(call.Fun).(*ast.SelectorExpr); ok && wire.Canon(sel.X) == under {
					bypass = wire.Canon(call.Fun) + "(…)"
				}
				return true
			})
			c.Check("R9", m+" moves bytes only through the error-latching wrapper "+kindName(rf.Spec.Kind), anchorPos(gr.p, rf.Spec.Kind, m), bypass == "",
				"emitted code calls "+bypass+": what goes to the underlying stream directly is not seen by the wrapper, so its failure is never recorded and the method returns a nil latch — "+rf.where(mf.Decl.Pos()))
			// R3d: on the syntax tree of every emitted DecodeBebop, understood or
			// not: a return of nil, or of the error of a call that is not given
			// the reader, is not reached with a stream read behind it whose
			// outcome was not looked at
			if m == mSR {
				bad, unsure := unlatchedReturns(mf.Decl)
				key := m + " consults the latch before returning anything else " + kindName(rf.Spec.Kind)
				switch {
				case bad != nil && !unsure:
					c.Check("R3d", key, anchorPos(gr.p, rf.Spec.Kind, m), false,
						"DecodeBebop returns "+wire.Canon(bad.Results[0])+" after reading from the stream without having tested r.Err: a failed or short read is reported as success — "+rf.where(bad.Pos()))
				case bad != nil:
					c.Undecide("C08/R3d: %s returns %s after a stream read and uses r.Err in a way that is not the guard `if r.Err != nil { return … }` — %s", m, wire.Canon(bad.Results[0]), rf.where(bad.Pos()))
				default:
					c.Check("R3d", key, anchorPos(gr.p, rf.Spec.Kind, m), true, "")
				}
			}
		}
	}
	gr.sample(2)
}

func checkC20(c *core.Ctx) {
	c.Explainf("C20 (decided clauses, all on iohelp's AST and types). R1: width triple-agreement per scalar — bounds probe index+1 == unsafe.Sizeof of the cast's pointee == width of the wire type, cast at index 0, in Read<F>Bytes and Write<F>Bytes; stream variants move exactly that width through an 8-byte scratch. R2: same Go type both ways; floats through math.FloatNbits/frombits of the same-width integer. R3: the three GUID tables equal the spec permutation (and so each other). R4: ReadDateBytes multiplies by 100, tick 0 is the zero time, UTC. R5: the checked string readers guard buf[4:4+sz] by two dominating length tests in non-wrapping arithmetic. R6: a failed stream read is latched and no reader decodes stale scratch bytes. NOT decided: inverse-ness for all bit patterns as a runtime fact — reduced to 'a w-byte store followed by a w-byte load of the same type at the same address' (Go memory model, trusted); little-endianness is an assumption.")
	c.Assume("GOARCH is little-endian; unsafe loads/stores of a type T at &b[0] are inverse to each other (Go memory model)")
	p := loadRepo(c)
	if p == nil {
		return
	}
	iohelpLayoutRules(c, p, "R1", "R3", "R1p")
	iohelpStreamWidths(c, p, "R1s")
	iohelpCheckedStrings(c, p, "R5")
	iohelpStaleReads(c, p, "R6")
	iohelpLatchRules(c, p, "R6l", "R6a", "R6d", "-")
	dropRules(c, "-")
	iohelpMustUse(c, p, "R5m")
}

// unlatchedReturns walks a DecodeBebop body in statement order with one bit of
// state — a read from the stream has happened whose outcome was not tested —
// and returns the first `return nil` / `return f(…)` (f not given the reader)
// reached in that state. unsure reports that r.Err is used somewhere in a form
// other than the guard, so the bit may be wrong.
func unlatchedReturns(fd *ast.FuncDecl) (bad *ast.ReturnStmt, unsure bool) {
	mentions := func(n ast.Node, what ...string) bool {
		found := false
		ast.Inspect(n, func(k ast.Node) bool {
			if e, ok := k.(ast.Expr); ok {
				for _, w := range what {
					if wire.Canon(e) == w {
						found = true
					}
				}
			}
			return !found
		})
		return found
	}
	// a call that can move the stream: a method of r, or any call given r / ior,
	// except the constructor that only wraps it
	reads := func(n ast.Node) bool {
		found := false
		ast.Inspect(n, func(k ast.Node) bool {
			call, ok := k.(*ast.CallExpr)
			if !ok {
				return !found
			}
			if sel, ok := ast.Unparen(call.Fun).(*ast.SelectorExpr); ok {
				if wire.Canon(sel.X) == "r" {
					found = true
				}
				if sel.Sel.Name == "NewErrorReader" {
					return false
				}
			}
			for _, a := range call.Args {
				if c := wire.Canon(a); c == "r" || c == "ior" {
					found = true
				}
			}
			return !found
		})
		return found
	}
	isGuard := func(s ast.Stmt) bool {
		x, ok := s.(*ast.IfStmt)
		if !ok || x.Init != nil || x.Else != nil || len(x.Body.List) == 0 {
			return false
		}
		b, ok := ast.Unparen(x.Cond).(*ast.BinaryExpr)
		if !ok || b.Op != token.NEQ || wire.Canon(b.X) != "r.Err" || wire.Canon(b.Y) != "nil" {
			return false
		}
		_, isRet := x.Body.List[len(x.Body.List)-1].(*ast.ReturnStmt)
		return isRet
	}
	var walk func(stmts []ast.Stmt, dirty bool) bool
	walk = func(stmts []ast.Stmt, dirty bool) bool {
		for _, s := range stmts {
			if isGuard(s) {
				dirty = false
				continue
			}
			switch x := s.(type) {
			case *ast.ReturnStmt:
				if len(x.Results) == 1 && dirty && bad == nil {
					r := ast.Unparen(x.Results[0])
					if id, ok := r.(*ast.Ident); ok && id.Name == "nil" {
						bad = x
					}
					if call, ok := r.(*ast.CallExpr); ok && !reads(call) && !mentions(call, "r.Err") {
						bad = x
					}
				}
				continue
			case *ast.BlockStmt:
				dirty = walk(x.List, dirty)
				continue
			case *ast.IfStmt:
				if x.Init != nil && reads(x.Init) || reads(x.Cond) {
					dirty = true
				}
				if mentions(x.Cond, "r.Err") {
					unsure = true
				}
				d := walk(x.Body.List, dirty)
				if x.Else != nil {
					d = walk([]ast.Stmt{x.Else}, dirty) || d
				} else {
					d = d || dirty
				}
				dirty = d
				continue
			case *ast.ForStmt:
				if x.Init != nil && reads(x.Init) || x.Cond != nil && reads(x.Cond) || x.Post != nil && reads(x.Post) {
					dirty = true
				}
				dirty = walk(x.Body.List, dirty) || dirty
				dirty = walk(x.Body.List, dirty) || dirty
				continue
			case *ast.RangeStmt:
				if reads(x.X) {
					dirty = true
				}
				dirty = walk(x.Body.List, dirty) || dirty
				dirty = walk(x.Body.List, dirty) || dirty
				continue
			case *ast.SwitchStmt:
				if x.Init != nil && reads(x.Init) || x.Tag != nil && reads(x.Tag) {
					dirty = true
				}
				d := dirty
				for _, cc := range x.Body.List {
					d = walk(cc.(*ast.CaseClause).Body, dirty) || d
				}
				dirty = d
				continue
			case *ast.DeferStmt:
				continue
			}
			if reads(s) {
				dirty = true
			}
			if mentions(s, "r.Err") {
				unsure = true
			}
		}
		return dirty
	}
	walk(fd.Body.List, false)
	return bad, unsure
}

// rawStreamUse looks at how a DecodeBebop uses its io.Reader parameter. raw is
// a method called on it outside any for statement; other is any use that is
// not the argument of iohelp.NewErrorReader, io.ReadFull or io.ReadAtLeast
// (including a method call inside a loop, which may or may not be a correct
// fill loop).
func rawStreamUse(fd *ast.FuncDecl) (raw *ast.CallExpr, other ast.Expr) {
	if fd.Type.Params == nil || len(fd.Type.Params.List) == 0 || len(fd.Type.Params.List[0].Names) == 0 {
		return nil, nil
	}
	name := fd.Type.Params.List[0].Names[0].Name
	isParam := func(e ast.Expr) bool {
		id, ok := ast.Unparen(e).(*ast.Ident)
		return ok && id.Name == name
	}
	var walk func(n ast.Node, inLoop bool)
	walk = func(n ast.Node, inLoop bool) {
		ast.Inspect(n, func(k ast.Node) bool {
			switch x := k.(type) {
			case *ast.ForStmt:
				if x.Init != nil {
					walk(x.Init, inLoop)
				}
				if x.Cond != nil {
					walk(x.Cond, true)
				}
				if x.Post != nil {
					walk(x.Post, true)
				}
				walk(x.Body, true)
				return false
			case *ast.RangeStmt:
				walk(x.X, inLoop)
				walk(x.Body, true)
				return false
			case *ast.CallExpr:
				if sel, ok := ast.Unparen(x.Fun).(*ast.SelectorExpr); ok {
					if isParam(sel.X) {
						if !inLoop && raw == nil {
							raw = x
						} else if other == nil {
							other = x
						}
						for _, a := range x.Args {
							walk(a, inLoop)
						}
						return false
					}
					fn := wire.Canon(x.Fun)
					if fn == "iohelp.NewErrorReader" || fn == "io.ReadFull" || fn == "io.ReadAtLeast" {
						for _, a := range x.Args {
							if !isParam(a) {
								walk(a, inLoop)
							}
						}
						return false
					}
				}
			case *ast.Ident:
				if x.Name == name && other == nil {
					other = x
				}
			}
			return true
		})
	}
	walk(fd.Body, false)
	return raw, other
}
