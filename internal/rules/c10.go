package rules

import (
	"fmt"
	"go/ast"
	"go/token"
	"go/types"
	"sort"
	"strings"

	"bebopverif/internal/core"
	"bebopverif/internal/load"
	"bebopverif/internal/wire"

	"golang.org/x/tools/go/cfg"
)

func init() { register("C10", checkC10) }

func checkC10(c *core.Ctx) {
	c.Explainf("C10 (decided clauses, go/cfg path rules on parse.go and tokenize.go). R1: in ReadFile every path from a false result of tr.Next() to a return whose error is nil passes a call of tr.Err() whose result is returned — Next() is false without an error only at a clean EOF, so success implies the whole input was tokenized; expectNext/expectAnyOfNext test tr.Err() right after Next(). R2: a failed Next() invalidates the current token on every failing return, and UnNext() is only called while the current token is valid (typestate over each function of parse.go) — otherwise the previous token is delivered again (an unterminated union is accepted because the branch's '}' is taken for the union's). R3: every unreadByte() is dominated by a successful byte read whose error was tested; in Next() a reader failure in findFirst returns before unreadByte(). R4: the explicit panic of decodeIntegerType is fenced: its case constants cover every key of uintTypes and intTypes, the only names readEnum lets through. R5: no inner node of the token tree built by newTokenTree has a successor set whose first sorted label is the synthetic \"number\" (the recovery path indexes successors by that label's first byte). R6: every tokenizer function that reads the underlying reader records a failing read as an error and adds the end-of-input sentinel only for io.EOF. R7: a block comment token is long enough for readBlockComment's slice. R8: every index into a slice or string (and every slice-to-array conversion) in parse.go, parse_expr.go, eval_expr.go, tokenize.go and token_tree.go is proven in bounds by one of the enumerated idioms — a dominating `if len(x)… {return}`, an enclosing if/for condition, the arity of the expectNext call that produced the slice (expectNext's own contract is checked), a range over a same-length make, a counting fill, or, for a parameter, the same proof at every call site; token counts and token text are input-controlled, so an unproven index is an input that panics. R9: every non-range loop of the parser and tokenizer takes at least one token or byte from the input on balance on its cheapest cycle (consuming calls minus UnNext/unread calls, Bellman-Ford over the loop's sub-graph of the go/cfg graph, callee summaries over successful returns), or advances a counter its condition bounds; with a finite input and a reader that eventually reports EOF this bounds the iterations. R10: the tokenizer's one-token push-back flag (keepNextToken) is written only by the tokenizer itself and at one confirmed parser site (frozen table with reasons): clearing it elsewhere throws away a token a callee pushed back and the definition it starts is skipped silently. R11: the reader that reaches the tokenizer's buffer is the caller's own, or bufio around it — never io.LimitReader / io.LimitedReader / io.SectionReader, which end the input with a clean EOF at their limit and drop the rest of the schema without an error. R12: every shift in the ReadFile path has a count that cannot be negative (a constant, an unsigned value, non-negative parts) or an earlier `if count < 0 { return … }`: Go panics on a negative shift count. NOT decided: termination as such (a reader that never ends, recursion depth); slice expressions x[a:b] other than those of R7; nil-map and nil-pointer panics.")
	p := loadRepo(c)
	if p == nil {
		return
	}
	pkg := p.Bebop()
	info := pkg.TypesInfo

	// ---- R1 ReadFile
	if f := buildCFG(p, pkg, p.FuncDecl(pkg, "ReadFile")); f == nil {
		c.Undecide("ReadFile not found")
	} else {
		edges := 0
		for _, b := range f.g.Blocks {
			cond := blockCond(b)
			if cond == nil {
				continue
			}
			e := nextFalseEdge(cond, "tr")
			if e < 0 {
				continue
			}
			edges++
			key := fmt.Sprintf("ReadFile: failed Next() #%d reaches success only through tr.Err()", edges)
			ok := true
			var badPath []string
			var badPos token.Pos
			f.reach(b.Succs[e], 0, func(n ast.Node) bool {
				return containsCall(n, func(call *ast.CallExpr) bool { return isMethodCall(call, "tr", "Err") })
			}, func(r *ast.ReturnStmt, path []*cfg.Block) {
				if lastResultIsNil(r) {
					ok = false
					badPath = f.pathString(path)
					badPos = r.Pos()
				}
			})
			c.CheckPath("R1", key, p.Pos(cond.Pos()), ok, fmt.Sprintf("from the false edge of %s a `return …, nil` at %s is reachable without consulting tr.Err(): a tokenizer error (stray byte, unterminated comment, failing reader) between definitions yields a truncated File and a nil error", wire.Canon(cond), p.Pos(badPos)), badPath)
		}
		c.Count("readfile_next_conditions", edges)
		c.Floor("readfile_next_conditions", 2)
		// the error consulted must also be returned
		returnsErr := false
		ast.Inspect(f.fd.Body, func(n ast.Node) bool {
			ifs, ok := n.(*ast.IfStmt)
			if !ok {
				return true
			}
			if containsCall(ifs, func(call *ast.CallExpr) bool { return isMethodCall(call, "tr", "Err") }) {
				for _, s := range ifs.Body.List {
					if r, ok := s.(*ast.ReturnStmt); ok && !lastResultIsNil(r) {
						returnsErr = true
					}
				}
			}
			return true
		})
		if edges > 0 {
			c.Check("R1", "ReadFile returns the tokenizer error it consults", p.Pos(f.fd.Pos()), returnsErr || !readFileHasErrCall(f), "tr.Err() is called in ReadFile but its non-nil result is not returned")
		}
	}
	for _, name := range []string{"expectNext", "expectAnyOfNext"} {
		fd := p.FuncDecl(pkg, name)
		if fd == nil {
			c.Undecide("%s not found", name)
			continue
		}
		// In the function itself or in the helper it delegates the step to: every
		// path from a Next() call to a use of the token (tr.Token()) or to a
		// successful return passes a call of tr.Err(), and the value of tr.Err()
		// is returned when it is not nil; a helper's error is returned at once.
		ok := true
		why := ""
		nNext := 0
		for _, g := range declClosure(p, pkg, fd, 2) {
			if !containsCall(g.Body, func(call *ast.CallExpr) bool { return isMethodCall(call, "tr", "Next") }) {
				continue
			}
			f := buildCFG(p, pkg, g)
			if f == nil {
				continue
			}
			for _, b := range f.g.Blocks {
				for i, nd := range b.Nodes {
					if !containsCall(nd, func(call *ast.CallExpr) bool { return isMethodCall(call, "tr", "Next") }) {
						continue
					}
					nNext++
					f.reach(b, i+1, func(n ast.Node) bool {
						if containsCall(n, func(call *ast.CallExpr) bool { return isMethodCall(call, "tr", "Err") }) {
							return true
						}
						if containsCall(n, func(call *ast.CallExpr) bool { return isMethodCall(call, "tr", "Token") }) {
							ok = false
							why = "the token is used at " + p.Pos(n.Pos()) + " before tr.Err() is consulted"
							return true
						}
						return false
					}, func(r *ast.ReturnStmt, path []*cfg.Block) {
						if r == nil || lastResultIsNil(r) {
							ok = false
							why = "a successful return is reached before tr.Err() is consulted"
						}
					})
				}
			}
			// the consulted error is returned when set
			returnsIt := false
			ast.Inspect(g.Body, func(n ast.Node) bool {
				ifs, is := n.(*ast.IfStmt)
				if !is || !endsInReturn(ifs.Body) {
					return true
				}
				r := ifs.Body.List[len(ifs.Body.List)-1].(*ast.ReturnStmt)
				if len(r.Results) == 0 || lastResultIsNil(r) {
					return true
				}
				// if tr.Err() != nil { return …, tr.Err() }
				if be, isB := ast.Unparen(ifs.Cond).(*ast.BinaryExpr); isB && be.Op == token.NEQ && wire.Canon(be.Y) == "nil" {
					if trCanon(be.X) == "tr.Err()" && trCanon(r.Results[len(r.Results)-1]) == "tr.Err()" {
						returnsIt = true
					}
					// if err := tr.Err(); err != nil { return …, err }
					if as, isA := ifs.Init.(*ast.AssignStmt); isA && len(as.Lhs) == 1 && len(as.Rhs) == 1 && trCanon(as.Rhs[0]) == "tr.Err()" {
						if wire.Canon(be.X) == wire.Canon(as.Lhs[0]) && wire.Canon(r.Results[len(r.Results)-1]) == wire.Canon(as.Lhs[0]) {
							returnsIt = true
						}
					}
				}
				return true
			})
			if !returnsIt {
				ok = false
				why = "the value of tr.Err() is not returned when it is set (" + g.Name.Name + ")"
			}
			if g != fd {
				// the helper's error leaves the caller at once
				propagated := false
				ast.Inspect(fd.Body, func(n ast.Node) bool {
					blk, is := n.(*ast.BlockStmt)
					if !is {
						return true
					}
					for i, st := range blk.List {
						as, isA := st.(*ast.AssignStmt)
						if !isA || len(as.Rhs) != 1 || i+1 >= len(blk.List) {
							continue
						}
						call, isC := as.Rhs[0].(*ast.CallExpr)
						if !isC || wire.Canon(call.Fun) != g.Name.Name {
							continue
						}
						if ifs, isI := blk.List[i+1].(*ast.IfStmt); isI && endsInReturn(ifs.Body) {
							if ev, isErr := errNilTest(pkg.TypesInfo, ifs.Cond); isErr {
								r := ifs.Body.List[len(ifs.Body.List)-1].(*ast.ReturnStmt)
								if id, isId := ast.Unparen(r.Results[len(r.Results)-1]).(*ast.Ident); isId && pkg.TypesInfo.ObjectOf(id) == ev {
									propagated = true
								}
							}
						}
					}
					return true
				})
				if !propagated {
					ok = false
					why = "the error of " + g.Name.Name + " is not returned by " + name + " at once"
				}
			}
		}
		if nNext == 0 {
			ok = false
			why = "no Next() call found in " + name + " or the helpers it calls"
		}
		c.Check("R1", name+" returns tr.Err() right after Next()", p.Pos(fd.Pos()), ok, "the helper every definition reader relies on must surface tokenizer errors before looking at the token: "+why)
	}

	// ---- R2a: Next invalidates on failure
	checkNextInvalidates(c, p)
	// ---- R2b: UnNext typestate
	checkUnNextTypestate(c, p)
	// ---- R6 (first: R3 uses its path analysis)
	checkErrorRecording(c, p)
	// ---- R3
	checkUnreadByte(c, p)
	// ---- R7
	checkBlockCommentLength(c, p)
	// ---- R10
	checkPushbackOwners(c, p)
	checkWholeInput(c, p)
	checkShiftCounts(c, p)
	// ---- R8
	checkParserBounds(c, p, "R8")
	// ---- R9
	checkLoopProgress(c, p, "R9", "parse.go", "parse_expr.go", "tokenize.go", "token_tree.go")
	c.Floor("loops_checked_for_progress", 8)
	// ---- R4
	checkDecodeIntegerFence(c, p)
	// ---- R5
	checkTokenTree(c, p)
	_ = info
}

func readFileHasErrCall(f *fnCFG) bool {
	return containsCall(f.fd.Body, func(call *ast.CallExpr) bool { return isMethodCall(call, "tr", "Err") })
}

// checkNextInvalidates: on every path of tokenReader.Next that may return
// false, tr.nextToken was reset to a token without a kind.
func checkNextInvalidates(c *core.Ctx, p *load.Prog) {
	pkg := p.Bebop()
	f := buildCFG(p, pkg, p.FuncDecl(pkg, "tokenReader.Next"))
	if f == nil {
		c.Undecide("tokenReader.Next not found")
		return
	}
	type state struct {
		inv  bool
		tvar string // variable known to be true
	}
	invalidates := func(n ast.Node) bool {
		as, ok := n.(*ast.AssignStmt)
		if !ok || len(as.Lhs) != 1 || len(as.Rhs) != 1 || trCanon(as.Lhs[0]) != "tr.nextToken" {
			return false
		}
		cl, ok := ast.Unparen(as.Rhs[0]).(*ast.CompositeLit)
		if !ok || wire.Canon(cl.Type) != "token" {
			return false
		}
		for _, el := range cl.Elts {
			kv, ok := el.(*ast.KeyValueExpr)
			if !ok {
				return false
			}
			if wire.Canon(kv.Key) == "kind" && wire.Canon(kv.Value) != "tokenKindInvalid" {
				return false
			}
		}
		return true
	}
	var bad []string
	nRet := 0
	type key struct {
		b *cfg.Block
		s state
	}
	seen := map[key]bool{}
	var walk func(b *cfg.Block, s state)
	walk = func(b *cfg.Block, s state) {
		if seen[key{b, s}] {
			return
		}
		seen[key{b, s}] = true
		for _, n := range b.Nodes {
			if invalidates(n) {
				s.inv = true
			}
			if containsCall(n, func(call *ast.CallExpr) bool { return isMethodCall(call, "tr", "setNextToken") }) {
				s.inv = false
			}
			if r, ok := n.(*ast.ReturnStmt); ok && len(r.Results) == 1 {
				nRet++
				res := ast.Unparen(r.Results[0])
				switch x := res.(type) {
				case *ast.Ident:
					if x.Name == "true" || s.inv || x.Name == s.tvar {
						return
					}
				}
				if s.inv {
					return
				}
				bad = append(bad, p.Pos(r.Pos())+" returns "+wire.Canon(res))
				return
			}
		}
		cond := blockCond(b)
		for i, succ := range b.Succs {
			ns := s
			if cond != nil {
				cx := ast.Unparen(cond)
				if id, ok := cx.(*ast.Ident); ok && i == 0 {
					ns.tvar = id.Name
				}
				if u, ok := cx.(*ast.UnaryExpr); ok && u.Op == token.NOT && i == 1 {
					if id, ok := ast.Unparen(u.X).(*ast.Ident); ok {
						ns.tvar = id.Name
					}
				}
			}
			walk(succ, ns)
		}
	}
	if len(f.g.Blocks) > 0 {
		walk(f.g.Blocks[0], state{})
	}
	sort.Strings(bad)
	c.Count("next_returns", nRet)
	c.Floor("next_returns", 1)
	// Invalidation on failure is a defence in depth, not a necessary condition
	// of the property (a parser that never consults the token after a failed
	// Next() does not need it): it is reported as a fact, not as an obligation.
	c.Notes["tokenReader.Next invalidates the token on every failing return"] = len(bad) == 0
	// What is necessary: the parser never discards the result of Next(), so it
	// always knows whether Token() is fresh.
	n := 0
	for _, fd := range funcsOfFiles(p, pkg, "parse.go", "parse_expr.go") {
		ast.Inspect(fd.Body, func(m ast.Node) bool {
			es, ok := m.(*ast.ExprStmt)
			if ok && isMethodCall(es.X, "tr", "Next") {
				n++
				c.Check("R2", fmt.Sprintf("%s does not discard the result of Next() (#%d)", fd.Name.Name, n), p.Pos(es.Pos()), false,
					"the result of tr.Next() is thrown away: when the input ends here the code goes on with the previous token as if it were new (an unterminated union was accepted that way)")
			}
			return true
		})
	}
	c.Check("R2", "no function of the parser discards the result of Next() (scan complete)", "parse.go", true, "")
}

// checkUnNextTypestate: UnNext() only while the current token is valid.
func checkUnNextTypestate(c *core.Ctx, p *load.Prog) {
	pkg := p.Bebop()
	sites := 0
	for _, fd := range funcsOfFiles(p, pkg, "parse.go", "parse_expr.go") {
		if !containsCall(fd.Body, func(call *ast.CallExpr) bool { return isMethodCall(call, "tr", "UnNext") }) {
			continue
		}
		f := buildCFG(p, pkg, fd)
		type key struct {
			b     *cfg.Block
			valid bool
		}
		seen := map[key]bool{}
		badAt := map[token.Pos]bool{}
		siteAt := map[token.Pos]bool{}
		var walk func(b *cfg.Block, valid bool)
		walk = func(b *cfg.Block, valid bool) {
			if seen[key{b, valid}] {
				return
			}
			seen[key{b, valid}] = true
			cond := blockCond(b)
			for i, n := range b.Nodes {
				isCond := cond != nil && i == len(b.Nodes)-1
				if isCond {
					break
				}
				valid = stepTokenState(n, valid, siteAt, badAt)
			}
			if cond != nil {
				e := nextFalseEdge(cond, "tr")
				for i, s := range b.Succs {
					v := valid
					if e >= 0 {
						v = i != e
					} else {
						v = stepTokenState(cond, valid, siteAt, badAt)
					}
					walk(s, v)
				}
				return
			}
			for _, s := range b.Succs {
				walk(s, valid)
			}
		}
		walk(f.g.Blocks[0], true)
		for pos := range siteAt {
			sites++
			c.Check("R2", "UnNext() in "+f.name+" only re-delivers a valid token", p.Pos(pos), !badAt[pos],
				"UnNext() is reachable after a Next() whose result was false or discarded: the previous token is delivered a second time")
		}
	}
	c.Count("unnext_sites", sites)
	c.Floor("unnext_sites", 2)
}

// stepTokenState updates the valid flag over one straight-line node.
func stepTokenState(n ast.Node, valid bool, siteAt, badAt map[token.Pos]bool) bool {
	ast.Inspect(n, func(m ast.Node) bool {
		call, ok := m.(*ast.CallExpr)
		if !ok {
			return true
		}
		switch {
		case isMethodCall(call, "tr", "UnNext"):
			siteAt[call.Pos()] = true
			if !valid {
				badAt[call.Pos()] = true
			}
		case isMethodCall(call, "tr", "Next"):
			valid = false // result not used as a branch condition here
		default:
			if id, ok := call.Fun.(*ast.Ident); ok && (id.Name == "expectNext" || id.Name == "expectAnyOfNext") {
				valid = true // callers return on its error; on success the token is fresh
			}
		}
		return true
	})
	return valid
}

// checkUnreadByte: R3
func checkUnreadByte(c *core.Ctx, p *load.Prog) {
	pkg := p.Bebop()
	sites := 0
	for _, fd := range funcsOfFiles(p, pkg, "tokenize.go", "token_tree.go") {
		has := containsCall(fd.Body, func(call *ast.CallExpr) bool { return isMethodCall(call, "tr", "unreadByte") })
		if !has || apiRole(fd.Name.Name) == "unreadByte" {
			continue
		}
		sites++
		name := fd.Name.Name
		pos := p.Pos(fd.Pos())
		if apiRole(name) == "Next" || apiRole(name) == "next" {
			// findFirst may fail because the reader failed: then nothing can be unread
			okGuard := false
			info := pkg.TypesInfo
			// the bool result of findFirst
			var found types.Object
			ast.Inspect(fd.Body, func(n ast.Node) bool {
				if as, is := n.(*ast.AssignStmt); is && len(as.Lhs) == 2 && len(as.Rhs) == 1 {
					if call, isC := as.Rhs[0].(*ast.CallExpr); isC {
						// the scanner: findFirst, or whatever package function hands
						// back the token read and whether there was one
						if cal := load.Callee(info, call); cal != nil && cal.Pkg() == pkg.Types {
							isScanner := cal.Name() == "findFirst"
							if sig, okS := cal.Type().(*types.Signature); okS && sig.Results().Len() == 2 {
								b, isB := sig.Results().At(1).Type().Underlying().(*types.Basic)
								if isB && b.Kind() == types.Bool && strings.HasSuffix(sig.Results().At(0).Type().String(), ".token") {
									isScanner = true
								}
							}
							if id, isId := as.Lhs[1].(*ast.Ident); isId && isScanner && found == nil {
								found = info.ObjectOf(id)
							}
						}
					}
				}
				return true
			})
			var unreadPos token.Pos
			ast.Inspect(fd.Body, func(n ast.Node) bool {
				if call, is := n.(*ast.CallExpr); is && isMethodCall(call, "tr", "unreadByte") && unreadPos == 0 {
					unreadPos = call.Pos()
				}
				return true
			})
			// if !<found> && <something about the recorded errors> { return … } before the unread
			ast.Inspect(fd.Body, func(n ast.Node) bool {
				ifs, is := n.(*ast.IfStmt)
				if !is || !endsInReturn(ifs.Body) || ifs.Pos() > unreadPos {
					return true
				}
				notFound, errs := false, false
				ast.Inspect(ifs.Cond, func(k ast.Node) bool {
					switch x := k.(type) {
					case *ast.UnaryExpr:
						if id, isId := ast.Unparen(x.X).(*ast.Ident); isId && x.Op == token.NOT && found != nil && info.ObjectOf(id) == found {
							notFound = true
						}
					case *ast.SelectorExpr:
						if apiRole(x.Sel.Name) == "errs" {
							errs = true
						}
					case *ast.CallExpr:
						if isMethodCall(x, "tr", "Err") {
							errs = true
						}
					}
					return true
				})
				if notFound && errs {
					okGuard = true
				}
				return true
			})
			if found == nil {
				c.Undecide("tokenReader.%s: no call that returns the token read and whether there was one (findFirst) is bound to variables: the guard before unreadByte() is not recognised", name)
				continue
			}
			// the guard must precede the unreadByte call
			c.Check("R3", "unreadByte() in tokenReader."+name+" is skipped when findFirst failed on a reader error", pos, okGuard,
				"when findFirst returns !ok because the reader failed (not EOF), Next falls through to unreadByte(), which panics if no byte was ever read and otherwise unreads a byte that belongs to the previous token")
			continue
		}
		// every readByte() in this function binds its error, and the error is tested
		discards := false
		tested := false
		ast.Inspect(fd.Body, func(n ast.Node) bool {
			switch x := n.(type) {
			case *ast.AssignStmt:
				if len(x.Rhs) == 1 && isMethodCall(x.Rhs[0], "tr", "readByte") && len(x.Lhs) == 2 {
					if id, ok := x.Lhs[1].(*ast.Ident); ok && id.Name == "_" {
						discards = true
					}
				}
			case *ast.IfStmt:
				// a test of an error variable (against nil or io.EOF) that leaves the function
				testsErr := false
				ast.Inspect(x.Cond, func(k ast.Node) bool {
					if be, isB := k.(*ast.BinaryExpr); isB && (be.Op == token.NEQ || be.Op == token.EQL) {
						if id, isId := ast.Unparen(be.X).(*ast.Ident); isId {
							if o := pkg.TypesInfo.ObjectOf(id); o != nil && isErrorType(o.Type()) {
								testsErr = true
							}
						}
					}
					return true
				})
				if testsErr && endsInReturn(x.Body) {
					tested = true
				}
			}
			return true
		})
		// by paths (see checkErrorRecording): unreadByte() is only reached with the
		// error of the read known to be nil; the syntactic test is the fall-back
		// for a function whose read the path analysis does not see
		if bad, analysed := unreadAfterFailedRead[fd]; analysed {
			c.Check("R3", "unreadByte() in "+name+" follows a byte read whose error was tested", pos, !discards && bad == "",
				fmt.Sprintf("readByte error discarded=%v; %s: at EOF or on a reader failure unreadByte() un-reads a byte of the previous token or panics", discards, bad))
			continue
		}
		c.Check("R3", "unreadByte() in "+name+" follows a byte read whose error was tested", pos, !discards && tested,
			fmt.Sprintf("readByte error discarded=%v, tested-with-return=%v: at EOF or on a reader failure unreadByte() un-reads a byte of the previous token or panics", discards, tested))
	}
	c.Count("unreadbyte_callers", sites)
	c.Floor("unreadbyte_callers", 3)
}

func constStrings(info *types.Info, exprs []ast.Expr) []string {
	var out []string
	for _, e := range exprs {
		if tv := info.Types[e]; tv.Value != nil {
			out = append(out, strings.Trim(tv.Value.ExactString(), `"`))
		}
	}
	return out
}

func mapLitKeys(p *load.Prog, name string) ([]string, bool) {
	pkg := p.Bebop()
	obj := pkg.Types.Scope().Lookup(name)
	if obj == nil {
		return nil, false
	}
	var keys []string
	found := false
	for _, f := range pkg.Syntax {
		ast.Inspect(f, func(n ast.Node) bool {
			vs, ok := n.(*ast.ValueSpec)
			if !ok {
				return true
			}
			for i, nm := range vs.Names {
				if pkg.TypesInfo.Defs[nm] == obj && i < len(vs.Values) {
					if cl, ok := vs.Values[i].(*ast.CompositeLit); ok {
						found = true
						for _, el := range cl.Elts {
							if kv, ok := el.(*ast.KeyValueExpr); ok {
								keys = append(keys, constStrings(pkg.TypesInfo, []ast.Expr{kv.Key})...)
							}
						}
					}
				}
			}
			return true
		})
	}
	return keys, found
}

func checkDecodeIntegerFence(c *core.Ctx, p *load.Prog) {
	pkg := p.Bebop()
	fd := p.FuncDecl(pkg, "decodeIntegerType")
	if fd == nil {
		c.Undecide("decodeIntegerType not found")
		return
	}
	cases := map[string]bool{}
	hasPanicDefault := false
	ast.Inspect(fd.Body, func(n ast.Node) bool {
		cc, ok := n.(*ast.CaseClause)
		if !ok {
			return true
		}
		if cc.List == nil {
			hasPanicDefault = containsCall(cc, func(call *ast.CallExpr) bool { id, ok := call.Fun.(*ast.Ident); return ok && id.Name == "panic" })
		}
		for _, s := range constStrings(pkg.TypesInfo, cc.List) {
			cases[s] = true
		}
		return true
	})
	u, ok1 := mapLitKeys(p, "uintTypes")
	i, ok2 := mapLitKeys(p, "intTypes")
	if !ok1 || !ok2 {
		c.Undecide("uintTypes/intTypes are no longer map literals")
		return
	}
	var missing []string
	for _, k := range append(u, i...) {
		if !cases[k] {
			missing = append(missing, k)
		}
	}
	c.Count("integer_type_names", len(u)+len(i))
	c.Floor("integer_type_names", 8)
	c.Check("R4", "decodeIntegerType covers every name readEnum accepts", p.Pos(fd.Pos()), len(missing) == 0 || !hasPanicDefault,
		fmt.Sprintf("readEnum accepts %v as an enum base type but decodeIntegerType has no case for it and panics", missing))
	// readEnum's gate is exactly isUintPrimitive || isIntPrimitive
	re := p.FuncDecl(pkg, "readEnum")
	if re != nil {
		gate := false
		ast.Inspect(re.Body, func(n ast.Node) bool {
			if ifs, ok := n.(*ast.IfStmt); ok && endsInReturn(ifs.Body) {
				// !isUintPrimitive(x) && !isIntPrimitive(x)
				neg := map[string]bool{}
				var conj func(e ast.Expr)
				conj = func(e ast.Expr) {
					e = ast.Unparen(e)
					if be, isB := e.(*ast.BinaryExpr); isB && be.Op == token.LAND {
						conj(be.X)
						conj(be.Y)
						return
					}
					if u, isU := e.(*ast.UnaryExpr); isU && u.Op == token.NOT {
						if call, isC := ast.Unparen(u.X).(*ast.CallExpr); isC {
							neg[wire.Canon(call.Fun)] = true
						}
					}
				}
				conj(ifs.Cond)
				if neg["isUintPrimitive"] && neg["isIntPrimitive"] {
					gate = true
				}
			}
			return true
		})
		c.Check("R4", "readEnum rejects non-integer base types before decodeIntegerType", p.Pos(re.Pos()), gate, "the guard `!isUintPrimitive(x) && !isIntPrimitive(x)` with an error return is gone")
	}
}

// checkTokenTree folds the tt.add calls of newTokenTree into a trie.
func checkTokenTree(c *core.Ctx, p *load.Prog) {
	pkg := p.Bebop()
	fd := p.FuncDecl(pkg, "newTokenTree")
	if fd == nil {
		c.Undecide("newTokenTree not found")
		return
	}
	info := pkg.TypesInfo
	type node struct{ succ map[byte]*node }
	root := &node{succ: map[byte]*node{}}
	nAdds := 0
	undecided := false
	var addSeq func(seq []byte)
	addSeq = func(seq []byte) {
		cur := root
		for _, b := range seq {
			if cur.succ[b] == nil {
				cur.succ[b] = &node{succ: map[byte]*node{}}
			}
			cur = cur.succ[b]
		}
	}
	var visit func(n ast.Node, env map[string][2]int)
	visit = func(n ast.Node, env map[string][2]int) {
		switch x := n.(type) {
		case *ast.ForStmt:
			// for c := byte('0'); c <= '9'; c++
			as, ok1 := x.Init.(*ast.AssignStmt)
			cond, ok2 := x.Cond.(*ast.BinaryExpr)
			if ok1 && ok2 && len(as.Lhs) == 1 && len(as.Rhs) == 1 {
				lo, okLo := constInt(info, as.Rhs[0])
				hi, okHi := constInt(info, cond.Y)
				if okLo && okHi && (cond.Op == token.LEQ || cond.Op == token.LSS) {
					if cond.Op == token.LSS {
						hi--
					}
					ne := map[string][2]int{}
					for k, v := range env {
						ne[k] = v
					}
					ne[wire.Canon(as.Lhs[0])] = [2]int{lo, hi}
					for _, s := range x.Body.List {
						visit(s, ne)
					}
					return
				}
			}
			undecided = true
		case *ast.ExprStmt:
			call, ok := x.X.(*ast.CallExpr)
			if !ok || !isMethodCall(call, "tt", "add") || len(call.Args) != 2 {
				return
			}
			cl, ok := call.Args[0].(*ast.CompositeLit)
			if !ok {
				undecided = true
				return
			}
			nAdds++
			seqs := [][]byte{{}}
			for _, el := range cl.Elts {
				if v, ok := constInt(info, el); ok {
					for i := range seqs {
						seqs[i] = append(seqs[i], byte(v))
					}
					continue
				}
				if r, ok := env[wire.Canon(el)]; ok {
					var ns [][]byte
					for _, s := range seqs {
						for v := r[0]; v <= r[1]; v++ {
							ns = append(ns, append(append([]byte{}, s...), byte(v)))
						}
					}
					seqs = ns
					continue
				}
				undecided = true
			}
			for _, s := range seqs {
				addSeq(s)
			}
		case *ast.BlockStmt:
			for _, s := range x.List {
				visit(s, env)
			}
		default:
			// an add inside any other statement (a range over a table of
			// tokens, an if): the tree read off the literal adds would be
			// incomplete
			if n != nil && containsCall(n, func(call *ast.CallExpr) bool { return isMethodCall(call, "tt", "add") }) {
				undecided = true
			}
		}
	}
	visit(fd.Body, map[string][2]int{})
	if undecided {
		c.Undecide("newTokenTree builds the tree with something other than literal tt.add calls")
		return
	}
	c.Count("token_tree_adds", nAdds)
	c.Floor("token_tree_adds", 15)
	inner := 0
	var bad []string
	var walk func(n *node, path []byte)
	walk = func(n *node, path []byte) {
		if len(path) > 0 && len(n.succ) > 0 {
			inner++
			opts := map[string]bool{}
			for k := range n.succ {
				if k >= '0' && k <= '9' {
					opts["number"] = true
				} else {
					opts[string(k)] = true
				}
			}
			var strs []string
			for k := range opts {
				strs = append(strs, k)
			}
			sort.Strings(strs)
			first := strs[0][0]
			if n.succ[first] == nil {
				bad = append(bad, fmt.Sprintf("after %q the recovery picks %q which is not a successor", string(path), strs[0]))
			}
		}
		for k, ch := range n.succ {
			walk(ch, append(append([]byte{}, path...), k))
		}
	}
	walk(root, nil)
	sort.Strings(bad)
	c.Count("token_tree_inner_nodes", inner)
	c.Check("R5", "token tree recovery always lands on an existing successor", p.Pos(fd.Pos()), len(bad) == 0, strings.Join(bad, "; ")+" — tokenTree.find would dereference a nil subtree")
}

func constInt(info *types.Info, e ast.Expr) (int, bool) {
	tv := info.Types[e]
	if tv.Value == nil {
		return 0, false
	}
	var v int
	if _, err := fmt.Sscanf(tv.Value.ExactString(), "%d", &v); err != nil {
		return 0, false
	}
	return v, true
}

// checkErrorRecording: R6. Every function of the tokenizer that reads from the
// underlying reader records a non-EOF failure with addError(err) and stops;
// the clean end-of-input sentinel addError(io.EOF) is only added where the
// error was tested to be io.EOF.
// unreadAfterFailedRead: per tokenizer function that reads, "" when every
// unreadByte() in it is reached only with the read's error known to be nil,
// otherwise what was found (filled by checkErrorRecording, read by R3).
var unreadAfterFailedRead = map[*ast.FuncDecl]string{}

func checkErrorRecording(c *core.Ctx, p *load.Prog) {
	pkg := p.Bebop()
	n := 0
	// helpers that hand the error of a read on to their caller: a call of one
	// is itself a read whose error the caller must record (fixpoint)
	propagators := map[types.Object]bool{}
	isRead := func(call *ast.CallExpr) bool {
		fn := trCanon(call.Fun)
		if fn == "tr.readByte" || fn == "tr.r.ReadRune" || fn == "tr.r.ReadBytes" || fn == "tr.r.ReadByte" || fn == "tr.r.ReadSlice" || fn == "tr.r.ReadString" || fn == "tr.r.Peek" || fn == "tr.r.ReadLine" {
			return true
		}
		if cal := load.Callee(pkg.TypesInfo, call); cal != nil && propagators[cal] {
			return true
		}
		return false
	}
	// helpers that record the error they are handed: a top-level statement of
	// the body is <recv>.addError(<the error parameter>)
	recorders := map[types.Object]bool{}
	for _, fd := range funcsOfFiles(p, pkg, "tokenize.go", "token_tree.go") {
		obj := pkg.TypesInfo.Defs[fd.Name]
		if obj == nil || fd.Body == nil || apiRole(fd.Name.Name) == "addError" {
			continue
		}
		params := map[types.Object]bool{}
		if fd.Type.Params != nil {
			for _, f := range fd.Type.Params.List {
				for _, nm := range f.Names {
					if o := pkg.TypesInfo.Defs[nm]; o != nil && isErrorType(o.Type()) {
						params[o] = true
					}
				}
			}
		}
		for _, st := range fd.Body.List {
			es, ok := st.(*ast.ExprStmt)
			if !ok {
				continue
			}
			call, ok := es.X.(*ast.CallExpr)
			if !ok || len(call.Args) != 1 {
				continue
			}
			if sel, ok := call.Fun.(*ast.SelectorExpr); !ok || apiRole(sel.Sel.Name) != "addError" {
				continue
			}
			if id, ok := ast.Unparen(call.Args[0]).(*ast.Ident); ok && params[pkg.TypesInfo.ObjectOf(id)] {
				recorders[obj] = true
			}
		}
	}
	for changed := true; changed; {
		changed = false
		for _, fd := range funcsOfFiles(p, pkg, "tokenize.go", "token_tree.go") {
			obj := pkg.TypesInfo.Defs[fd.Name]
			if obj == nil || propagators[obj] {
				continue
			}
			sig, _ := obj.Type().(*types.Signature)
			if sig == nil || sig.Results().Len() == 0 || !isErrorType(sig.Results().At(sig.Results().Len()-1).Type()) {
				continue
			}
			ev := map[types.Object]bool{}
			ast.Inspect(fd.Body, func(m ast.Node) bool {
				if as, ok := m.(*ast.AssignStmt); ok && len(as.Rhs) == 1 && len(as.Lhs) >= 2 {
					if call, ok := as.Rhs[0].(*ast.CallExpr); ok && isRead(call) {
						if id, ok := as.Lhs[len(as.Lhs)-1].(*ast.Ident); ok {
							ev[pkg.TypesInfo.ObjectOf(id)] = true
						}
					}
				}
				return true
			})
			ast.Inspect(fd.Body, func(m ast.Node) bool {
				if _, isLit := m.(*ast.FuncLit); isLit {
					return false
				}
				if r, ok := m.(*ast.ReturnStmt); ok && len(r.Results) == sig.Results().Len() {
					last := ast.Unparen(r.Results[len(r.Results)-1])
					if id, ok := last.(*ast.Ident); ok && ev[pkg.TypesInfo.ObjectOf(id)] {
						propagators[obj] = true
						changed = true
					}
					if call, ok := last.(*ast.CallExpr); ok && isRead(call) {
						propagators[obj] = true
						changed = true
					}
				}
				return true
			})
		}
	}
	for _, fd := range funcsOfFiles(p, pkg, "tokenize.go", "token_tree.go") {
		reads := false
		errVars := map[types.Object]bool{}
		ast.Inspect(fd.Body, func(m ast.Node) bool {
			as, ok := m.(*ast.AssignStmt)
			if !ok || len(as.Rhs) != 1 {
				return true
			}
			call, ok := as.Rhs[0].(*ast.CallExpr)
			if !ok {
				return true
			}
			if isRead(call) {
				if len(as.Lhs) >= 2 {
					if id, ok := as.Lhs[len(as.Lhs)-1].(*ast.Ident); ok && id.Name != "_" {
						if o := pkg.TypesInfo.ObjectOf(id); o != nil && isErrorType(o.Type()) {
							reads = true
							errVars[o] = true
						}
					}
				}
			}
			return true
		})
		if !reads {
			continue
		}
		n++
		name := fd.Name.Name
		// (a)+(b) by paths: E is the error of the read. Conditions passed refine
		// what is known about E (nil or not, io.EOF or not). A path that leaves the
		// function, or comes round to the next read, with E possibly a failure
		// other than io.EOF must have called addError(E); addError(io.EOF) may
		// only be reached where E is known to be io.EOF.
		recorded, okSentinel := true, true
		whyRec := ""
		unreadBad := ""
		if f := buildCFG(p, pkg, fd); f != nil {
			info := pkg.TypesInfo
			isE := func(e ast.Expr) bool {
				id, ok := ast.Unparen(e).(*ast.Ident)
				return ok && errVars[info.ObjectOf(id)]
			}
			isReadAssign := func(n ast.Node) bool {
				as, ok := n.(*ast.AssignStmt)
				if !ok || len(as.Rhs) != 1 {
					return false
				}
				call, ok := as.Rhs[0].(*ast.CallExpr)
				if !ok {
					return false
				}
				return isRead(call)
			}
			// what is known about E is the set of cases still possible:
			// nil, io.EOF, or some other failure
			const (
				wNil   = 1
				wEOF   = 2
				wOther = 4
				// bufio.ErrBufferFull: bufio asking its caller to come back for more
				// of the line; not a failure of the underlying reader
				wBuf = 8
				wAll = 15
			)
			type st int
			// three-valued evaluation of a condition in one case
			const (
				vF = 1
				vT = 2
				vB = 3
			)
			var eval func(cond ast.Expr, w int) int
			eval = func(cond ast.Expr, w int) int {
				cond = ast.Unparen(cond)
				switch x := cond.(type) {
				case *ast.UnaryExpr:
					if x.Op == token.NOT {
						switch eval(x.X, w) {
						case vT:
							return vF
						case vF:
							return vT
						}
						return vB
					}
				case *ast.CallExpr:
					if wire.Canon(x.Fun) == "errors.Is" && len(x.Args) == 2 && isE(x.Args[0]) && wire.Canon(x.Args[1]) == "io.EOF" {
						if w == wEOF {
							return vT
						}
						if w == wNil {
							return vF
						}
						return vB
					}
				case *ast.BinaryExpr:
					switch x.Op {
					case token.LAND:
						a, b := eval(x.X, w), eval(x.Y, w)
						if a == vF || b == vF {
							return vF
						}
						if a == vT && b == vT {
							return vT
						}
						return vB
					case token.LOR:
						a, b := eval(x.X, w), eval(x.Y, w)
						if a == vT || b == vT {
							return vT
						}
						if a == vF && b == vF {
							return vF
						}
						return vB
					case token.EQL, token.NEQ:
						if !isE(x.X) {
							return vB
						}
						r := vB
						switch wire.Canon(x.Y) {
						case "nil":
							r = vF
							if w == wNil {
								r = vT
							}
						case "io.EOF":
							r = vF
							if w == wEOF {
								r = vT
							}
						case "bufio.ErrBufferFull":
							r = vF
							if w == wBuf {
								r = vT
							}
						default:
							// another sentinel: only the "other" case can equal it
							if w != wOther {
								r = vF
							}
						}
						if x.Op == token.NEQ && r != vB {
							r = vT + vF - r
						}
						return r
					}
				}
				return vB
			}
			refine := func(cond ast.Expr, truth bool, s st) st {
				out := 0
				for _, w := range []int{wNil, wEOF, wOther, wBuf} {
					if int(s)&w == 0 {
						continue
					}
					v := eval(cond, w)
					if (truth && v&vT != 0) || (!truth && v&vF != 0) {
						out |= w
					}
				}
				return st(out)
			}
			type key struct {
				b    *cfg.Block
				from int
				s    st
				rec  bool
			}
			seen := map[key]bool{}
			tagged := caseConds(fd)
			mayFail := func(s st) bool { return int(s)&wOther != 0 }
			var walk func(b *cfg.Block, from int, s st, rec bool)
			walk = func(b *cfg.Block, from int, s st, rec bool) {
				k := key{b, from, s, rec}
				if seen[k] {
					return
				}
				seen[k] = true
				for i := from; i < len(b.Nodes); i++ {
					n := b.Nodes[i]
					if isReadAssign(n) {
						// the next read overwrites E
						if mayFail(s) && !rec {
							recorded = false
							whyRec = "the next read at " + p.Pos(n.Pos()) + " is reached with the previous failure unrecorded"
						}
						return
					}
					ast.Inspect(n, func(m ast.Node) bool {
						call, ok := m.(*ast.CallExpr)
						if ok && isMethodCall(call, "tr", "unreadByte") && int(s)&^wNil != 0 {
							unreadBad = "unreadByte() at " + p.Pos(call.Pos()) + " is reachable with the error of the read possibly not nil"
						}
						// a helper that records its error parameter on every way through
						if ok && !isMethodCall(call, "tr", "addError") {
							if cal := load.Callee(info, call); cal != nil && recorders[cal] {
								for _, a := range call.Args {
									if isE(a) {
										rec = true
									}
								}
							}
						}
						if !ok || !isMethodCall(call, "tr", "addError") || len(call.Args) != 1 {
							return true
						}
						if wire.Canon(call.Args[0]) == "io.EOF" {
							// the clean-end sentinel: only where E is known to be io.EOF
							if int(s) != wEOF {
								okSentinel = false
							}
						} else {
							// E itself, or an error standing for it
							rec = true
						}
						return true
					})
					if r, ok := n.(*ast.ReturnStmt); ok {
						// handing E to the caller: the caller records it (checked there)
						if selfObj := info.Defs[fd.Name]; selfObj != nil && propagators[selfObj] && len(r.Results) > 0 && isE(r.Results[len(r.Results)-1]) {
							return
						}
						if mayFail(s) && !rec {
							recorded = false
							whyRec = "return at " + p.Pos(r.Pos()) + " is reached with a possibly failing read unrecorded"
						}
						return
					}
				}
				if len(b.Succs) == 2 {
					if cond := blockCond(b); cond != nil {
						if full, isCase := tagged[cond]; isCase {
							cond = full
						}
						walk(b.Succs[0], 0, refine(cond, true, s), rec)
						walk(b.Succs[1], 0, refine(cond, false, s), rec)
						return
					}
				}
				if len(b.Succs) == 0 && mayFail(s) && !rec {
					recorded = false
					whyRec = "the function ends with a possibly failing read unrecorded"
				}
				for _, nx := range b.Succs {
					walk(nx, 0, s, rec)
				}
			}
			for _, b := range f.g.Blocks {
				for i, n := range b.Nodes {
					if isReadAssign(n) {
						if as := n.(*ast.AssignStmt); len(as.Lhs) >= 2 && isE(as.Lhs[len(as.Lhs)-1]) {
							walk(b, i+1, st(wAll), false)
						}
					}
				}
			}
		}
		unreadAfterFailedRead[fd] = unreadBad
		c.Check("R6", name+" records a failing read of the underlying reader as an error", p.Pos(fd.Pos()), recorded,
			whyRec+": a reader failure is lost or mistaken for the end of the input")
		c.Check("R6", name+" adds the end-of-input sentinel only for io.EOF", p.Pos(fd.Pos()), okSentinel,
			"addError(io.EOF) is reachable for an error that was not tested to be io.EOF: Next() pops that sentinel and reports a clean end of input, so a failing reader truncates the File without an error")
	}
	c.Count("tokenizer_read_functions", n)
	c.Floor("tokenizer_read_functions", 3)
}

// checkBlockCommentLength: R7. readBlockComment slices a block comment token
// as concrete[2:len-2], which needs at least four bytes. blockCommentToken
// guarantees that only if the '*' of the terminator is a byte read after the
// two-byte opener: the terminator test must compare a variable that is only
// ever assigned from the byte just read, never look back into the token text
// (where the opener's own '*' sits).
func checkBlockCommentLength(c *core.Ctx, p *load.Prog) {
	pkg := p.Bebop()
	info := pkg.TypesInfo
	fd := p.FuncDecl(pkg, "blockCommentToken")
	rb := p.FuncDecl(pkg, "readBlockComment")
	if fd == nil || rb == nil {
		c.Undecide("blockCommentToken / readBlockComment not found")
		return
	}
	need := 0
	ast.Inspect(rb.Body, func(n ast.Node) bool {
		if se, ok := n.(*ast.SliceExpr); ok && se.Low != nil && se.High != nil {
			lo, _ := constInt(info, se.Low)
			if be, ok := ast.Unparen(se.High).(*ast.BinaryExpr); ok && be.Op == token.SUB {
				hi, _ := constInt(info, be.Y)
				need = lo + hi
			}
		}
		return true
	})
	// the byte variable read in the loop
	var readVar, readChunk types.Object
	undecided := ""
	ast.Inspect(fd.Body, func(n ast.Node) bool {
		// the byte of this iteration: first result of a call on the token reader that yields a byte
		if as, ok := n.(*ast.AssignStmt); ok && len(as.Rhs) == 1 && len(as.Lhs) == 2 {
			if call, isC := as.Rhs[0].(*ast.CallExpr); isC {
				if cal := load.Callee(info, call); cal != nil {
					if sig, okS := cal.Type().(*types.Signature); okS && sig.Recv() != nil && strings.HasSuffix(sig.Recv().Type().String(), ".tokenReader") && sig.Results().Len() == 2 {
						if b, isB := sig.Results().At(0).Type().Underlying().(*types.Basic); isB && b.Kind() == types.Uint8 {
							if id, ok := as.Lhs[0].(*ast.Ident); ok {
								readVar = info.ObjectOf(id)
							}
						}
						// or the bytes of this iteration: a fresh slice read from the input
						if sl, isS := sig.Results().At(0).Type().Underlying().(*types.Slice); isS {
							if b, isB := sl.Elem().Underlying().(*types.Basic); isB && b.Kind() == types.Uint8 {
								if id, ok := as.Lhs[0].(*ast.Ident); ok {
									readChunk = info.ObjectOf(id)
								}
							}
						}
					}
				}
			}
		}
		return true
	})
	ok := false
	why := "no comparison with '*' found"
	ast.Inspect(fd.Body, func(n ast.Node) bool {
		be, is := n.(*ast.BinaryExpr)
		if !is || be.Op != token.EQL {
			return true
		}
		if v, isC := constInt(info, be.Y); !isC || v != '*' {
			return true
		}
		id, isId := ast.Unparen(be.X).(*ast.Ident)
		if ix, isIx := ast.Unparen(be.X).(*ast.IndexExpr); isIx && readChunk != nil {
			// a byte of the slice read in this iteration comes after the opener
			if bid, isB := ast.Unparen(ix.X).(*ast.Ident); isB && info.ObjectOf(bid) == readChunk {
				reassigned := false
				ast.Inspect(fd.Body, func(m ast.Node) bool {
					if as, isA := m.(*ast.AssignStmt); isA {
						for _, l := range as.Lhs {
							if lid, isL := l.(*ast.Ident); isL && info.ObjectOf(lid) == readChunk {
								if call, isC := as.Rhs[0].(*ast.CallExpr); !(len(as.Rhs) == 1 && isC && load.Callee(info, call) != nil) {
									reassigned = true
								}
							}
						}
					}
					return true
				})
				if !reassigned {
					ok = true
					return false
				}
			}
		}
		if !isId {
			undecided = "the terminator test reads " + wire.Canon(be.X) + ": not a recognised form"
			ok = false
			why = "the terminator test reads " + wire.Canon(be.X) + ", which can be the '*' of the opening /*"
			return false
		}
		obj := info.ObjectOf(id)
		all := true
		ast.Inspect(fd.Body, func(m ast.Node) bool {
			if as, isA := m.(*ast.AssignStmt); isA && as.Tok == token.ASSIGN {
				for i, l := range as.Lhs {
					if lid, isL := l.(*ast.Ident); isL && info.ObjectOf(lid) == obj && i < len(as.Rhs) {
						rid, isR := ast.Unparen(as.Rhs[i]).(*ast.Ident)
						if !isR || info.ObjectOf(rid) != readVar {
							all = false
						}
					}
				}
			}
			return true
		})
		ok = all && readVar != nil
		if !all {
			why = id.Name + " is assigned from something other than the byte just read"
		}
		return false
	})
	if !ok && undecided != "" {
		// only a look into the token text itself (or the concrete parameter) is the known defect
		isTokenText := false
		ast.Inspect(fd.Body, func(n ast.Node) bool {
			if be, is := n.(*ast.BinaryExpr); is && be.Op == token.EQL {
				if v, isC := constInt(info, be.Y); isC && v == '*' {
					if ix, isIx := ast.Unparen(be.X).(*ast.IndexExpr); isIx {
						if t := info.TypeOf(ix.X); t != nil {
							if _, isSel := ast.Unparen(ix.X).(*ast.SelectorExpr); isSel {
								isTokenText = true
							}
							if pid, isP := ast.Unparen(ix.X).(*ast.Ident); isP {
								if v, isV := info.ObjectOf(pid).(*types.Var); isV && isParamOf(info, fd, v) {
									isTokenText = true
								}
							}
						}
					}
				}
			}
			return true
		})
		if !isTokenText {
			c.Undecide("blockCommentToken: " + undecided)
			return
		}
	}
	c.Check("R7", fmt.Sprintf("a block comment token is at least %d bytes long", need), p.Pos(fd.Pos()), ok && need > 0,
		why+": `/*/` would be accepted as a comment of 3 bytes and readBlockComment's slice panics")
}

// isEOFTest matches `<error variable> == io.EOF` and errors.Is(<error>, io.EOF).
func isEOFTest(info *types.Info, e ast.Expr) bool {
	e = ast.Unparen(e)
	if be, ok := e.(*ast.BinaryExpr); ok && be.Op == token.EQL && wire.Canon(be.Y) == "io.EOF" {
		if id, ok := ast.Unparen(be.X).(*ast.Ident); ok {
			if o := info.ObjectOf(id); o != nil && isErrorType(o.Type()) {
				return true
			}
		}
	}
	if call, ok := e.(*ast.CallExpr); ok && wire.Canon(call.Fun) == "errors.Is" && len(call.Args) == 2 && wire.Canon(call.Args[1]) == "io.EOF" {
		return true
	}
	return false
}

// checkPushbackOwners: R10. keepNextToken is the tokenizer's one-token
// push-back. A parser function that clears it discards whatever a callee put
// back (readConst ends in optNewline, which puts back the first token of the
// next definition): the token vanishes and the definition it starts is skipped
// without an error. Who may write the flag is a frozen table, confirmed by
// reading, one reason each.
func checkPushbackOwners(c *core.Ctx, p *load.Prog) {
	pkg := p.Bebop()
	info := pkg.TypesInfo
	allowed := map[string]string{
		"tokenReader.UnNext": "the push-back itself",
		"tokenReader.Token":  "re-delivers the token after injecting an optional semicolon",
		"tokenReader.next":   "consumes the push-back when the token is delivered again",
		"tokenReader.Next":   "delegates to next",
		"readUnion":          "a field-less member leaves its own '}' pushed back; it is dropped right before the Next() that must not see it (fix 903b076)",
	}
	n := 0
	for fn, fd := range p.AllDecls() {
		if p.Owner(fn) != pkg || fd.Body == nil {
			continue
		}
		name := load.FuncName(fn)
		ast.Inspect(fd.Body, func(nd ast.Node) bool {
			as, ok := nd.(*ast.AssignStmt)
			if !ok {
				return true
			}
			for _, l := range as.Lhs {
				sel, ok := ast.Unparen(l).(*ast.SelectorExpr)
				if !ok || apiRole(sel.Sel.Name) != "keepNextToken" {
					continue
				}
				if t := info.TypeOf(sel.X); t == nil || !strings.HasSuffix(t.String(), ".tokenReader") {
					continue
				}
				n++
				// by role: tokenReader.<role of the method>; a parser function by its
				// bare name, whether it is a function or a method of a parser value
				key := name
				if i := strings.LastIndex(name, "."); i >= 0 {
					if strings.HasPrefix(name, "tokenReader.") {
						key = "tokenReader." + apiRole(name[i+1:])
					} else {
						key = name[i+1:]
					}
				}
				_, ok = allowed[key]
				c.Check("R10", "the token push-back flag is written by "+name, p.Pos(as.Pos()), ok,
					name+" writes tokenReader.keepNextToken: outside the tokenizer (and the one confirmed site in readUnion) clearing it throws away a token a callee pushed back — the definition that token starts is then skipped without an error")
			}
			return true
		})
	}
	c.Count("pushback_flag_writes", n)
	c.Floor("pushback_flag_writes", 2)
}

// isParamOf: v is a parameter (or the receiver) of fd.
func isParamOf(info *types.Info, fd *ast.FuncDecl, v *types.Var) bool {
	lists := []*ast.FieldList{fd.Type.Params, fd.Recv}
	for _, fl := range lists {
		if fl == nil {
			continue
		}
		for _, f := range fl.List {
			for _, nm := range f.Names {
				if info.Defs[nm] == types.Object(v) {
					return true
				}
			}
		}
	}
	return false
}

// checkWholeInput: R11. ReadFile (and Format) tokenize the reader they were
// given, all of it: the value that reaches the tokenizer's buffered reader is
// the caller's io.Reader itself, or bufio around it. A wrapper that ends the
// stream early with a clean EOF (io.LimitReader, io.LimitedReader,
// io.SectionReader) makes everything beyond its limit vanish without an error;
// any other wrapper is unknown to the rule and leaves it without a verdict.
func checkWholeInput(c *core.Ctx, p *load.Prog) {
	pkg := p.Bebop()
	info := pkg.TypesInfo
	n := 0
	var classify func(fd *ast.FuncDecl, e ast.Expr, depth int) (verdict int, why string) // 1 ok, 0 bad, -1 unknown
	classify = func(fd *ast.FuncDecl, e ast.Expr, depth int) (int, string) {
		e = ast.Unparen(e)
		switch x := e.(type) {
		case *ast.Ident:
			if v, ok := info.ObjectOf(x).(*types.Var); ok {
				if isParamOf(info, fd, v) {
					return 1, ""
				}
				// a local with one definition
				var def ast.Expr
				defs := 0
				ast.Inspect(fd.Body, func(m ast.Node) bool {
					if as, ok := m.(*ast.AssignStmt); ok && len(as.Lhs) == len(as.Rhs) {
						for i, l := range as.Lhs {
							if lid, ok := l.(*ast.Ident); ok && info.ObjectOf(lid) == types.Object(v) {
								defs++
								def = as.Rhs[i]
							}
						}
					}
					return true
				})
				if defs == 1 && depth < 3 {
					return classify(fd, def, depth+1)
				}
			}
			return -1, "the reader " + x.Name + " is not the function's own parameter"
		case *ast.CallExpr:
			cal := load.Callee(info, x)
			if cal != nil && cal.Pkg() != nil {
				full := cal.Pkg().Path() + "." + cal.Name()
				switch full {
				case "bufio.NewReader", "bufio.NewReaderSize":
					if len(x.Args) >= 1 {
						return classify(fd, x.Args[0], depth+1)
					}
				case "io.LimitReader", "io.NewSectionReader":
					return 0, full + " ends the input at its limit with a clean EOF"
				}
			}
			return -1, "the reader goes through " + wire.Canon(x.Fun) + ", which the rule does not know"
		case *ast.UnaryExpr:
			if cl, ok := ast.Unparen(x.X).(*ast.CompositeLit); ok && x.Op == token.AND {
				if t := info.TypeOf(cl); t != nil && strings.HasSuffix(t.String(), "io.LimitedReader") {
					return 0, "an io.LimitedReader ends the input at its limit with a clean EOF"
				}
			}
		}
		return -1, "the reader expression " + wire.Canon(e) + " is not recognised"
	}
	report := func(key, pos string, v int, why string) {
		n++
		if v == -1 {
			c.Undecide("%s: %s (%s)", key, why, pos)
			return
		}
		c.Check("R11", key, pos, v == 1, why+": input beyond that point is dropped and ReadFile still returns a nil error — part of the schema is silently missing")
	}
	ctor := p.FuncDecl(pkg, "newTokenReader")
	for _, name := range []string{"ReadFile", "Format"} {
		fd := p.FuncDecl(pkg, name)
		if fd == nil {
			continue
		}
		ast.Inspect(fd.Body, func(m ast.Node) bool {
			call, ok := m.(*ast.CallExpr)
			if !ok || len(call.Args) != 1 {
				return true
			}
			cal := load.Callee(info, call)
			if cal == nil || ctor == nil || types.Object(cal) != info.Defs[ctor.Name] {
				return true
			}
			v, why := classify(fd, call.Args[0], 0)
			report(name+" hands the caller's reader to the tokenizer unshortened", p.Pos(call.Pos()), v, why)
			return true
		})
	}
	if ctor != nil {
		// the buffered reader stored in the tokenReader wraps the parameter
		ast.Inspect(ctor.Body, func(m ast.Node) bool {
			kv, ok := m.(*ast.KeyValueExpr)
			if !ok {
				return true
			}
			if t := info.TypeOf(kv.Value); t == nil || !strings.HasSuffix(t.String(), "bufio.Reader") {
				return true
			}
			v, why := classify(ctor, kv.Value, 0)
			report("newTokenReader buffers the reader it was given, unshortened", p.Pos(kv.Pos()), v, why)
			return true
		})
	}
	c.Count("tokenizer_input_handoffs", n)
	c.Floor("tokenizer_input_handoffs", 2)
}

// checkShiftCounts: R12. A Go shift whose count is a signed integer panics at
// run time when the count is negative. In the files of the ReadFile path the
// counts come from the schema text (`1 << -1` in a [flags] expression), so
// every shift whose count is neither a constant, nor of an unsigned type, nor
// built from non-negative parts (len, loop counters that start at a constant
// >= 0 and are only incremented) needs an earlier `if count < 0 { return … }`
// in the same function.
func checkShiftCounts(c *core.Ctx, p *load.Prog) {
	pkg := p.Bebop()
	info := pkg.TypesInfo
	signed := func(t types.Type) bool {
		if t == nil {
			return false
		}
		if tp, ok := t.(*types.TypeParam); ok {
			// every type of the constraint's type set is signed?
			iface, ok := tp.Constraint().Underlying().(*types.Interface)
			if !ok {
				return true
			}
			anySigned := false
			for i := 0; i < iface.NumEmbeddeds(); i++ {
				if u, ok := iface.EmbeddedType(i).(*types.Union); ok {
					for j := 0; j < u.Len(); j++ {
						if b, ok := u.Term(j).Type().Underlying().(*types.Basic); ok && b.Info()&types.IsInteger != 0 && b.Info()&types.IsUnsigned == 0 {
							anySigned = true
						}
					}
				} else if nt, ok := iface.EmbeddedType(i).(*types.Named); ok {
					if ni, ok := nt.Underlying().(*types.Interface); ok {
						for k := 0; k < ni.NumEmbeddeds(); k++ {
							if u, ok := ni.EmbeddedType(k).(*types.Union); ok {
								for j := 0; j < u.Len(); j++ {
									if b, ok := u.Term(j).Type().Underlying().(*types.Basic); ok && b.Info()&types.IsInteger != 0 && b.Info()&types.IsUnsigned == 0 {
										anySigned = true
									}
								}
							}
						}
					}
				}
			}
			return anySigned
		}
		b, ok := t.Underlying().(*types.Basic)
		return ok && b.Info()&types.IsInteger != 0 && b.Info()&types.IsUnsigned == 0
	}
	n := 0
	decls := funcsOfFiles(p, pkg, "parse.go", "parse_expr.go", "eval_expr.go", "tokenize.go", "token_tree.go")
	// variables assumed non-negative while a callee is looked at for a call
	// whose arguments are
	assumed := map[types.Object]bool{}
	var guardedAt func(fd *ast.FuncDecl, count ast.Expr, at token.Pos) bool
	var nonNeg func(fd *ast.FuncDecl, e ast.Expr, depth int) bool
	nonNeg = func(fd *ast.FuncDecl, e ast.Expr, depth int) bool {
		e = ast.Unparen(e)
		if v, ok := constInt(info, e); ok {
			return v >= 0
		}
		if !signed(info.TypeOf(e)) {
			return true
		}
		if depth > 3 {
			return false
		}
		if id, ok := e.(*ast.Ident); ok && assumed[info.ObjectOf(id)] {
			return true
		}
		switch x := e.(type) {
		case *ast.BinaryExpr:
			if x.Op == token.ADD || x.Op == token.MUL {
				return nonNeg(fd, x.X, depth+1) && nonNeg(fd, x.Y, depth+1)
			}
			// the sign bit of x & y is set only if it is set in both
			if x.Op == token.AND {
				return nonNeg(fd, x.X, depth+1) || nonNeg(fd, x.Y, depth+1)
			}
			if x.Op == token.SHR || x.Op == token.QUO {
				return nonNeg(fd, x.X, depth+1) && (x.Op == token.SHR || nonNeg(fd, x.Y, depth+1))
			}
		case *ast.CallExpr:
			if wire.Canon(x.Fun) == "len" || wire.Canon(x.Fun) == "cap" {
				return true
			}
			if tv, ok := info.Types[x.Fun]; ok && tv.IsType() && len(x.Args) == 1 {
				return nonNeg(fd, x.Args[0], depth+1)
			}
			// a function of the package every return of which is non-negative
			// when the parameters that are handed non-negative values are
			if cal := load.Callee(info, x); cal != nil && cal.Pkg() == pkg.Types {
				if cd := p.Decl(cal); cd != nil && cd.Body != nil && cd != fd {
					sig, _ := cal.Type().(*types.Signature)
					var bound []types.Object
					if sig != nil {
						for i, a := range x.Args {
							if i < sig.Params().Len() && (nonNeg(fd, a, depth+1) || guardedAt != nil && guardedAt(fd, a, x.Pos())) {
								po := types.Object(sig.Params().At(i))
								if !assumed[po] {
									assumed[po] = true
									bound = append(bound, po)
								}
							}
						}
					}
					all, any := true, false
					ast.Inspect(cd.Body, func(m ast.Node) bool {
						if _, isLit := m.(*ast.FuncLit); isLit {
							return false
						}
						if r, ok := m.(*ast.ReturnStmt); ok && len(r.Results) >= 1 {
							any = true
							if !nonNeg(cd, r.Results[0], depth+1) {
								all = false
							}
						}
						return true
					})
					for _, po := range bound {
						delete(assumed, po)
					}
					return any && all
				}
			}
		case *ast.Ident:
			// a loop counter that starts at a constant >= 0 and is only incremented
			o := info.ObjectOf(x)
			okInit, okSteps := false, true
			ast.Inspect(fd.Body, func(m ast.Node) bool {
				switch y := m.(type) {
				case *ast.AssignStmt:
					for i, l := range y.Lhs {
						if lid, ok := l.(*ast.Ident); ok && info.ObjectOf(lid) == o {
							if y.Tok == token.DEFINE && i < len(y.Rhs) {
								if v, ok := constInt(info, y.Rhs[i]); ok && v >= 0 {
									okInit = true
									continue
								}
							}
							if y.Tok == token.ADD_ASSIGN {
								if v, ok := constInt(info, y.Rhs[0]); ok && v >= 0 {
									continue
								}
							}
							okSteps = false
						}
					}
				case *ast.IncDecStmt:
					if lid, ok := y.X.(*ast.Ident); ok && info.ObjectOf(lid) == o && y.Tok != token.INC {
						okSteps = false
					}
				}
				return true
			})
			return okInit && okSteps
		}
		return false
	}
	guarded := func(fd *ast.FuncDecl, count ast.Expr, at token.Pos) bool {
		want := wire.Canon(count)
		found := false
		ast.Inspect(fd.Body, func(m ast.Node) bool {
			ifs, ok := m.(*ast.IfStmt)
			if !ok || ifs.Pos() >= at || !endsInReturn(ifs.Body) {
				return true
			}
			// the guard may be one conjunct: if count < 0 && isShift { return … }
			// only covers the shifts; accepted when the call it protects is reached
			// for shifts only is not decidable here, so a conjunction is accepted
			// only if its other conjuncts do not mention the count
			ast.Inspect(ifs.Cond, func(k ast.Node) bool {
				be, ok := k.(*ast.BinaryExpr)
				if !ok {
					return true
				}
				if be.Op == token.LSS && wire.Canon(be.X) == want {
					if v, ok := constInt(info, be.Y); ok && v == 0 {
						found = true
					}
				}
				if be.Op == token.GTR && wire.Canon(be.Y) == want {
					if v, ok := constInt(info, be.X); ok && v == 0 {
						found = true
					}
				}
				return true
			})
			return true
		})
		return found
	}
	guardedAt = guarded
	// a count that is a parameter is safe when every call in the package hands
	// it a value that is non-negative or guarded at the call
	var safeParam func(fd *ast.FuncDecl, count ast.Expr, depth int) bool
	safeParam = func(fd *ast.FuncDecl, count ast.Expr, depth int) bool {
		id, ok := ast.Unparen(count).(*ast.Ident)
		if !ok || depth > 2 {
			return false
		}
		v, ok := info.ObjectOf(id).(*types.Var)
		if !ok || !isParamOf(info, fd, v) {
			return false
		}
		self, _ := info.Defs[fd.Name].(*types.Func)
		sig, _ := self.Type().(*types.Signature)
		if self == nil || sig == nil {
			return false
		}
		idx := -1
		for i := 0; i < sig.Params().Len(); i++ {
			if sig.Params().At(i) == v {
				idx = i
			}
		}
		if idx < 0 {
			return false
		}
		calls, allOK := 0, true
		for _, cfd := range decls {
			ast.Inspect(cfd.Body, func(m ast.Node) bool {
				call, ok := m.(*ast.CallExpr)
				if !ok || load.Callee(info, call) != self || idx >= len(call.Args) {
					return true
				}
				calls++
				a := call.Args[idx]
				if !(nonNeg(cfd, a, 0) || guarded(cfd, a, call.Pos()) || safeParam(cfd, a, depth+1)) {
					allOK = false
				}
				return true
			})
		}
		return calls > 0 && allOK
	}
	for _, fd := range decls {
		k := 0
		ast.Inspect(fd.Body, func(m ast.Node) bool {
			if _, isLit := m.(*ast.FuncLit); isLit {
				return true
			}
			var count ast.Expr
			var pos token.Pos
			switch x := m.(type) {
			case *ast.BinaryExpr:
				if x.Op == token.SHL || x.Op == token.SHR {
					count, pos = x.Y, x.Pos()
				}
			case *ast.AssignStmt:
				if (x.Tok == token.SHL_ASSIGN || x.Tok == token.SHR_ASSIGN) && len(x.Rhs) == 1 {
					count, pos = x.Rhs[0], x.Pos()
				}
			}
			if count == nil {
				return true
			}
			n++
			k++
			ok := nonNeg(fd, count, 0) || guarded(fd, count, pos) || safeParam(fd, count, 0)
			if !ok {
				// a shift inside a function literal (an operator table): its count
				// is the literal's own parameter, which the rule does not follow
				inLit := false
				ast.Inspect(fd.Body, func(q ast.Node) bool {
					if fl, isLit := q.(*ast.FuncLit); isLit && fl.Pos() <= pos && pos < fl.End() {
						inLit = true
					}
					return true
				})
				if inLit {
					c.Undecide("%s: the shift at %s sits in a function literal; whether its count can be negative depends on where the literal is called", fd.Name.Name, p.Pos(pos))
					return true
				}
			}
			c.Check("R12", fmt.Sprintf("%s: the count of shift #%d (%s) cannot be negative", fd.Name.Name, k, wire.Canon(count)), p.Pos(pos), ok,
				"the count "+wire.Canon(count)+" is a signed value taken from the schema text and no earlier `if "+wire.Canon(count)+" < 0 { return … }` excludes a negative one (here or at every call that supplies it): Go panics on a negative shift count, so `A = 1 << -1;` in a [flags] enum makes ReadFile panic instead of returning an error")
			return true
		})
	}
	c.Count("shift_expressions", n)
	c.Floor("shift_expressions", 3)
}
