package rules

import (
	"fmt"
	"go/ast"
	"go/importer"
	"go/parser"
	"go/token"
	"go/types"
	"path/filepath"
	"sort"
	"strings"

	"bebopverif/internal/core"
	"bebopverif/internal/geneval"
	"bebopverif/internal/genfacts"
	"bebopverif/internal/load"
	"bebopverif/internal/wire"

	"golang.org/x/tools/go/packages"
)

func init() { register("C14", checkC14) }

func libraryPkgs(p *load.Prog) []*packages.Package {
	var out []*packages.Package
	for _, pk := range p.All {
		if strings.HasPrefix(pk.PkgPath, load.Mod+"/main/") {
			continue
		}
		out = append(out, pk)
	}
	return out
}

func checkC14(c *core.Ctx) {
	c.Explainf("C14 (decided clauses: the structural ways this code could be impure or order-dependent; absence of data races as such is a dynamic notion and R2d: no function returns, stores in per-call state or hands to another function a value that carries a slice and was read out of a package-level variable (a table of ready-made tokens): every call would share one backing array (positive control: fixtures/sharedslice). NOT decided). R1: every `range` over a map in the non-test code of the three library packages is enumerated and its body classified — insertion into a map/set, deletion, raising a flag and `continue` are order-independent; an `append` is accepted only if the slice is sorted afterwards in the same function; a `return`/`break` that carries a value derived from the iteration variables, or an emit, makes the result depend on map iteration order. R2: no function of the library packages assigns to, deletes from, or updates through an alias a package-level variable (the type tables are read-only). R2c: no package-level variable holds a struct of the package whose pointer-receiver methods, reachable from the exported API, assign to receiver fields (a lazily filled cache on a shared value). R3: Generate, which receives File by value, never appends to a slice of its receiver without first clipping its capacity (otherwise it writes into the caller's backing array — the race the property describes). R3b: no function with a by-value File/record writes through a local alias of one of its exported slices — append onto a re-slice (the in-place filter `x := f.Consts[:0]`), element store, in-place sort, copy into — (positive control: fixtures/aliaswrite). R3d: outside the parser no assignment's target is reached through a pointer-typed field of a schema type (UnionField.Struct / .Message): a by-value File still points at the caller's branch records. R4: every pointer- or map-typed scratch field of GenerateSettings is given a fresh value in File.Generate before the first record is generated. R5: the generator is folded twice by the evaluator over the first two batches of the exploration, visiting map keys in ascending and in descending order; the emitted text must be identical.")
	p := loadRepo(c)
	if p == nil {
		return
	}
	mapOrderFold(c, p)
	pointerFieldWrites(c, p)
	sharedMutableGlobals(c, p)
	sharedSlicesStayHome(c, p)
	nRanges := 0
	sortsParam = makeSortsParam(p)
	resultOnlyFoldedIntoSets = makeResultOnlyFoldedIntoSets(p)
	for _, pk := range libraryPkgs(p) {
		info := pk.TypesInfo
		for _, file := range pk.Syntax {
			for _, d := range file.Decls {
				fd, ok := d.(*ast.FuncDecl)
				if !ok || fd.Body == nil {
					continue
				}
				fname := fd.Name.Name
				if obj, ok := info.Defs[fd.Name].(*types.Func); ok {
					fname = load.FuncName(obj)
				}
				ord := 0
				ast.Inspect(fd.Body, func(n ast.Node) bool {
					rs, ok := n.(*ast.RangeStmt)
					if !ok {
						return true
					}
					t := info.TypeOf(rs.X)
					if t == nil {
						return true
					}
					if _, isMap := t.Underlying().(*types.Map); !isMap {
						return true
					}
					ord++
					nRanges++
					verdict, why := classifyMapRange(info, fd, rs)
					key := fmt.Sprintf("range over map %s in %s #%d", wire.Canon(rs.X), fname, ord)
					c.Check("R1", key, p.Pos(rs.Pos()), verdict, why)
					return true
				})
			}
		}
	}
	c.Count("map_ranges", nRanges)
	c.Floor("map_ranges", 10)

	// ---- R2 package-level state
	nFuncs := 0
	for _, pk := range libraryPkgs(p) {
		nFuncs += scanGlobalWrites(pk.TypesInfo, pk.Syntax, func(fname, what, why string, pos token.Pos) {
			c.Check("R2", fname+" "+what, p.Pos(pos), false, why)
		})
	}
	// R2b: a []byte taken from package-level storage must not be stored into a
	// value that callers extend in place (format.go appends to token.concrete)
	for _, pk := range libraryPkgs(p) {
		info := pk.TypesInfo
		rootedAtGlobal := func(e ast.Expr) (string, bool) {
			for {
				switch x := ast.Unparen(e).(type) {
				case *ast.IndexExpr:
					e = x.X
					continue
				case *ast.SliceExpr:
					e = x.X
					continue
				case *ast.Ident:
					if v, ok := info.ObjectOf(x).(*types.Var); ok && v.Pkg() != nil && v.Parent() == v.Pkg().Scope() {
						return v.Name(), true
					}
					return "", false
				}
				return "", false
			}
		}
		for _, file := range pk.Syntax {
			ast.Inspect(file, func(n ast.Node) bool {
				var field string
				var rhs ast.Expr
				switch x := n.(type) {
				case *ast.KeyValueExpr:
					if id, ok := x.Key.(*ast.Ident); ok {
						field, rhs = id.Name, x.Value
					}
				case *ast.AssignStmt:
					if len(x.Lhs) == 1 && len(x.Rhs) == 1 {
						if sel, ok := ast.Unparen(x.Lhs[0]).(*ast.SelectorExpr); ok {
							field, rhs = sel.Sel.Name, x.Rhs[0]
						}
					}
				}
				if rhs == nil || field == "" {
					return true
				}
				if t := info.TypeOf(rhs); t == nil || !strings.HasPrefix(t.String(), "[]") {
					return true
				}
				if g, ok := rootedAtGlobal(rhs); ok {
					c.Check("R2", "field "+field+" is given a slice of package-level "+g, p.Pos(n.Pos()), false,
						"the slice shares its backing array with package-level state: a caller that appends to it in place (the formatter does, to token text) writes into memory every other call sees")
				}
				return true
			})
		}
	}
	c.Count("functions_scanned_for_global_writes", nFuncs)
	c.Floor("functions_scanned_for_global_writes", 50)
	c.Check("R2", "no library function writes package-level state (scan complete)", "-", true, "")
	positiveControlGlobalWrite(c)

	// ---- R3 receiver storage
	receiverAppends(c, p)
	// ---- R4 scratch
	scratchPerCall(c, p)
}

// classifyMapRange decides whether the observable effect of a range-over-map
// body is independent of iteration order.
func classifyMapRange(info *types.Info, fd *ast.FuncDecl, rs *ast.RangeStmt) (bool, string) {
	iterVars := map[types.Object]bool{}
	for _, e := range []ast.Expr{rs.Key, rs.Value} {
		if id, ok := e.(*ast.Ident); ok && id.Name != "_" {
			iterVars[info.ObjectOf(id)] = true
		}
	}
	// taint: locals assigned from expressions mentioning an iteration variable
	mentions := func(n ast.Node) bool {
		found := false
		ast.Inspect(n, func(m ast.Node) bool {
			if id, ok := m.(*ast.Ident); ok && iterVars[info.ObjectOf(id)] {
				found = true
			}
			return !found
		})
		return found
	}
	changed := true
	for changed {
		changed = false
		ast.Inspect(rs.Body, func(n ast.Node) bool {
			if as, ok := n.(*ast.AssignStmt); ok && as.Tok == token.DEFINE {
				for i, l := range as.Lhs {
					if id, ok := l.(*ast.Ident); ok && id.Name != "_" {
						rhs := as.Rhs[0]
						if i < len(as.Rhs) {
							rhs = as.Rhs[i]
						}
						if mentions(rhs) && !iterVars[info.ObjectOf(id)] {
							iterVars[info.ObjectOf(id)] = true
							changed = true
						}
					}
				}
			}
			return true
		})
	}
	var appended []string
	appendedExpr := map[string]ast.Expr{}
	bad := ""
	var visit func(n ast.Node, inNested bool)
	visit = func(n ast.Node, inNested bool) {
		ast.Inspect(n, func(m ast.Node) bool {
			if bad != "" {
				return false
			}
			switch x := m.(type) {
			case *ast.FuncLit:
				return false
			case *ast.ReturnStmt:
				for _, r := range x.Results {
					if mentions(r) {
						bad = "returns a value derived from the iteration variables: which entry is reported depends on map iteration order"
					}
				}
				if bad == "" && len(x.Results) > 0 {
					// returning a constant result from inside the loop is order-independent
					// only if no earlier iteration had an effect; accept constants (existence test)
					for _, r := range x.Results {
						if id, ok := ast.Unparen(r).(*ast.Ident); ok && (id.Name == "nil" || id.Name == "true" || id.Name == "false") {
							continue
						}
						if tv := info.Types[r]; tv.Value != nil {
							continue
						}
						bad = "returns from inside the loop with a non-constant value"
					}
				}
			case *ast.BranchStmt:
				if x.Tok == token.BREAK && !inNested {
					// break is fine only if what was done before it does not depend on the entry
				}
			case *ast.AssignStmt:
				for i, l := range x.Lhs {
					lhs := ast.Unparen(l)
					if ix, ok := lhs.(*ast.IndexExpr); ok {
						if _, isMap := info.TypeOf(ix.X).Underlying().(*types.Map); isMap {
							continue // set/map insertion
						}
						// filling a slice that is sorted afterwards is order-independent
						appended = append(appended, wire.Canon(ix.X))
						appendedExpr[wire.Canon(ix.X)] = ix.X
						continue
					}
					if i < len(x.Rhs) {
						if call, ok := x.Rhs[i].(*ast.CallExpr); ok && wire.Canon(call.Fun) == "append" {
							appended = append(appended, wire.Canon(l))
							appendedExpr[wire.Canon(l)] = l
							continue
						}
					}
					if id, ok := lhs.(*ast.Ident); ok {
						if x.Tok == token.DEFINE || iterVars[info.ObjectOf(id)] || id.Name == "_" {
							continue
						}
						// assignment to an outer variable: fine for constants (flags) and for idempotent values
						if i < len(x.Rhs) {
							if tv := info.Types[x.Rhs[i]]; tv.Value != nil {
								continue
							}
						}
						if x.Tok == token.ASSIGN && i < len(x.Rhs) && mentions(x.Rhs[i]) {
							bad = "assigns a value derived from the iteration variables to " + id.Name + ": the last entry visited wins"
						}
						continue
					}
					if sel, ok := lhs.(*ast.SelectorExpr); ok {
						if root, ok := ast.Unparen(sel.X).(*ast.Ident); ok && iterVars[info.ObjectOf(root)] {
							continue // field of the per-iteration copy
						}
					}
				}
			case *ast.CallExpr:
				fn := wire.Canon(x.Fun)
				if strings.HasPrefix(fn, "writeLine") || strings.HasPrefix(fn, "fmt.Fprint") || strings.HasSuffix(fn, ".Write") || strings.HasSuffix(fn, ".SafeWrite") || strings.HasSuffix(fn, ".Generate") {
					bad = "emits output (" + fn + ") inside a range over a map: the emitted text depends on map iteration order"
				}
			}
			return true
		})
	}
	visit(rs.Body, false)
	if bad != "" {
		return false, bad
	}
	// appended slices must be sorted after the loop, in this function
	for _, sl := range appended {
		sorted := false
		ast.Inspect(fd.Body, func(m ast.Node) bool {
			call, ok := m.(*ast.CallExpr)
			if !ok || call.Pos() < rs.End() {
				return true
			}
			fn := wire.Canon(call.Fun)
			if (strings.HasPrefix(fn, "sort.") || strings.HasPrefix(fn, "slices.Sort")) && len(call.Args) > 0 && wire.Canon(call.Args[0]) == sl {
				sorted = true
			}
			// handed to a function of the package that sorts that parameter
			if cal := load.Callee(info, call); cal != nil && sortsParam != nil {
				for i, a := range call.Args {
					if wire.Canon(a) == sl && sortsParam(cal, i) {
						sorted = true
					}
				}
			}
			return true
		})
		if !sorted {
			// appending then breaking immediately with a value that does not depend on the entry
			if breaksAfterIndependentAppend(info, rs, mentions) {
				continue
			}
			// a work list: a local slice that is only measured, indexed, re-sliced
			// and appended to, never returned, stored or handed to a call — the
			// order of its elements decides the order of the visit, not the result
			if localWorkList(info, fd, appendedExpr[sl]) {
				continue
			}
			// the slice is this function's result and every caller only folds it
			// into a set: `for _, x := range f() { m[x] = … }`
			if resultOnlyFoldedIntoSets != nil && resultOnlyFoldedIntoSets(info, fd, appendedExpr[sl]) {
				continue
			}
			return false, "appends to " + sl + " in map iteration order and never sorts it"
		}
	}
	return true, ""
}

// breaksAfterIndependentAppend accepts
//
//	for k := range m { if cond(k) { s = append(s, x); break } }
//
// where x does not mention the iteration variables.
func breaksAfterIndependentAppend(info *types.Info, rs *ast.RangeStmt, mentions func(ast.Node) bool) bool {
	ok := true
	found := false
	ast.Inspect(rs.Body, func(n ast.Node) bool {
		blk, is := n.(*ast.BlockStmt)
		if !is {
			return true
		}
		for i, s := range blk.List {
			as, is := s.(*ast.AssignStmt)
			if !is || len(as.Rhs) != 1 {
				continue
			}
			call, is := as.Rhs[0].(*ast.CallExpr)
			if !is || wire.Canon(call.Fun) != "append" {
				continue
			}
			found = true
			for _, a := range call.Args[1:] {
				if mentions(a) {
					ok = false
				}
			}
			if i+1 >= len(blk.List) {
				ok = false
				continue
			}
			if br, is := blk.List[i+1].(*ast.BranchStmt); !is || br.Tok != token.BREAK {
				ok = false
			}
		}
		return true
	})
	return found && ok
}

// receiverAppends: R3
func receiverAppends(c *core.Ctx, p *load.Prog) {
	pkg := p.Bebop()
	info := pkg.TypesInfo
	n := 0
	for fn, fd := range p.AllDecls() {
		if p.Owner(fn) != pkg || fd.Body == nil {
			continue
		}
		// value parameters / receivers of struct type with slice fields
		valueVars := map[types.Object]bool{}
		sig := fn.Type().(*types.Signature)
		add := func(v *types.Var) {
			if v == nil {
				return
			}
			if _, isStruct := v.Type().Underlying().(*types.Struct); isStruct {
				valueVars[v] = true
			}
		}
		add(sig.Recv())
		for i := 0; i < sig.Params().Len(); i++ {
			add(sig.Params().At(i))
		}
		if len(valueVars) == 0 {
			continue
		}
		clipped := map[string]token.Pos{}
		clipStmt := map[string]ast.Stmt{}
		// dominates: stmt a is a direct statement of a block that (transitively)
		// contains b, and comes before the statement containing b
		dominates := func(a ast.Stmt, b ast.Node) bool {
			found := false
			ast.Inspect(fd.Body, func(n ast.Node) bool {
				var list []ast.Stmt
				switch x := n.(type) {
				case *ast.BlockStmt:
					list = x.List
				case *ast.CaseClause:
					list = x.Body
				default:
					return true
				}
				ai := -1
				for i, st := range list {
					if st == a {
						ai = i
					}
				}
				if ai < 0 {
					return true
				}
				for _, st := range list[ai+1:] {
					if containsNode(st, b) {
						found = true
					}
				}
				return true
			})
			return found
		}
		ast.Inspect(fd.Body, func(m ast.Node) bool {
			as, ok := m.(*ast.AssignStmt)
			if !ok || len(as.Lhs) != 1 || len(as.Rhs) != 1 {
				return true
			}
			sel, ok := ast.Unparen(as.Lhs[0]).(*ast.SelectorExpr)
			if !ok {
				return true
			}
			root, ok := ast.Unparen(sel.X).(*ast.Ident)
			if !ok || !valueVars[info.ObjectOf(root)] {
				return true
			}
			if _, isSlice := info.TypeOf(sel).Underlying().(*types.Slice); !isSlice {
				return true
			}
			if !sel.Sel.IsExported() {
				// an unexported field cannot have been given spare capacity by a caller outside the package
				return true
			}
			field := wire.Canon(sel)
			rhs := ast.Unparen(as.Rhs[0])
			// a clip: f.X = f.X[:len(f.X):len(f.X)]  or slices.Clip(f.X) or a fresh copy
			if se, ok := rhs.(*ast.SliceExpr); ok && se.Slice3 && wire.Canon(se.X) == field && wire.Canon(se.High) == wire.Canon(se.Max) {
				clipped[field] = as.Pos()
				clipStmt[field] = as
				return true
			}
			if call, ok := rhs.(*ast.CallExpr); ok {
				cf := wire.Canon(call.Fun)
				if cf == "slices.Clip" || cf == "slices.Clone" {
					clipped[field] = as.Pos()
					clipStmt[field] = as
					return true
				}
				if cf == "append" && len(call.Args) >= 1 {
					first := wire.Canon(call.Args[0])
					if first == field {
						n++
						_, isClipped := clipped[field]
						ok := isClipped && clipStmt[field] != nil && dominates(clipStmt[field], as)
						c.Check("R3", fmt.Sprintf("%s appends to %s only after clipping its capacity", load.FuncName(fn), field), p.Pos(as.Pos()), ok,
							"append onto a slice of a by-value receiver/parameter writes into the caller's backing array when it has spare capacity: concurrent or repeated calls sharing one File see each other's elements")
					} else if strings.HasPrefix(first, "[]") || first == "nil" {
						clipped[field] = as.Pos() // fresh copy
						clipStmt[field] = as
					}
				}
			}
			return true
		})
	}
	c.Count("receiver_slice_appends", n)
	c.Floor("receiver_slice_appends", 2)
	receiverAliasWrites(c, p)
}

// receiverAliasWrites: R3b. A local variable that is a reslice (or plain copy)
// of an exported slice field of a by-value receiver/parameter shares the
// caller's backing array. Appending to it within capacity (`x := f.Consts[:0]`,
// the in-place filter idiom), storing into its elements, sorting it or copying
// into it rewrites the caller's File. The same holds for the field itself.
func receiverAliasWrites(c *core.Ctx, p *load.Prog) {
	pkg := p.Bebop()
	decls := map[*types.Func]*ast.FuncDecl{}
	for fn, fd := range p.AllDecls() {
		if p.Owner(fn) == pkg && fd.Body != nil {
			decls[fn] = fd
		}
	}
	nAlias := scanAliasWrites(pkg.TypesInfo, decls, func(fname, what, field string, pos token.Pos) {
		c.Check("R3b", fmt.Sprintf("%s does not write through storage shared with %s (%s)", fname, field, what), p.Pos(pos), false,
			"the slice shares the backing array of the caller's "+field+": "+what+" rewrites the File the caller still holds (a second Generate sees the changed list; concurrent calls race)")
	})
	c.Check("R3b", "no function writes through a slice shared with a by-value File/record (scan complete)", "gen.go", true, "")
	c.Count("receiver_slice_aliases", nAlias)
	// positive control: the rule's expected count on the repository is zero
	path := filepath.Join(c.VerifDir, "fixtures", "aliaswrite", "fx.go")
	fset := token.NewFileSet()
	f, err := parser.ParseFile(fset, path, nil, 0)
	if err != nil {
		c.Undecide("positive control fixture: %v", err)
		return
	}
	info := &types.Info{Types: map[ast.Expr]types.TypeAndValue{}, Defs: map[*ast.Ident]types.Object{}, Uses: map[*ast.Ident]types.Object{}, Selections: map[*ast.SelectorExpr]*types.Selection{}}
	if _, err := (&types.Config{Importer: importer.ForCompiler(fset, "source", nil)}).Check("fx", fset, []*ast.File{f}, info); err != nil {
		c.Undecide("positive control fixture does not type-check: %v", err)
		return
	}
	fx := map[*types.Func]*ast.FuncDecl{}
	for _, d := range f.Decls {
		if fd, ok := d.(*ast.FuncDecl); ok && fd.Body != nil {
			fx[info.Defs[fd.Name].(*types.Func)] = fd
		}
	}
	hits := map[string]bool{}
	scanAliasWrites(info, fx, func(fname, what, field string, pos token.Pos) { hits[fname] = true })
	for _, want := range []string{"T.filterInPlace", "T.store", "T.sortInPlace", "T.appendReslice", "T.copyInto", "dedupe"} {
		c.Check("R3b", "positive control: "+want+" is recognised", "fixtures/aliaswrite/fx.go", hits[want], "the rule no longer matches the shape it is meant to find")
	}
	for _, not := range []string{"T.fresh", "T.clipped", "T.readOnly"} {
		c.Check("R3b", "positive control: "+not+" is not reported", "fixtures/aliaswrite/fx.go", !hits[not], "")
	}
}

func scanAliasWrites(info *types.Info, decls map[*types.Func]*ast.FuncDecl, report0 func(fname, what, field string, pos token.Pos)) int {
	nAlias := 0
	for fn, fd := range decls {
		valueVars := map[types.Object]bool{}
		sig := fn.Type().(*types.Signature)
		add := func(v *types.Var) {
			if v == nil {
				return
			}
			if _, isStruct := v.Type().Underlying().(*types.Struct); isStruct {
				valueVars[v] = true
			}
		}
		add(sig.Recv())
		for i := 0; i < sig.Params().Len(); i++ {
			add(sig.Params().At(i))
		}
		sliceParams := map[types.Object]bool{}
		for i := 0; i < sig.Params().Len(); i++ {
			if _, isSlice := sig.Params().At(i).Type().Underlying().(*types.Slice); isSlice {
				// byte buffers are scratch space by convention (token text, wire buffers)
				if b, isB := sig.Params().At(i).Type().Underlying().(*types.Slice).Elem().Underlying().(*types.Basic); !isB || b.Kind() != types.Uint8 {
					sliceParams[sig.Params().At(i)] = true
				}
			}
		}
		if len(valueVars) == 0 && len(sliceParams) == 0 {
			continue
		}
		// sharedField: the receiver field an expression shares storage with ("" = none)
		alias := map[types.Object]string{}
		var sharedField func(e ast.Expr) string
		sharedField = func(e ast.Expr) string {
			switch x := ast.Unparen(e).(type) {
			case *ast.SliceExpr:
				// p[:k] of a slice parameter: a shorter window onto the caller's
				// elements; appending to it overwrites them
				if id, ok := ast.Unparen(x.X).(*ast.Ident); ok && sliceParams[info.ObjectOf(id)] && (x.High != nil || x.Low != nil) && !x.Slice3 {
					return "the caller's slice " + id.Name
				}
				return sharedField(x.X)
			case *ast.SelectorExpr:
				if root, ok := ast.Unparen(x.X).(*ast.Ident); ok && valueVars[info.ObjectOf(root)] && x.Sel.IsExported() {
					if _, isSlice := info.TypeOf(x).Underlying().(*types.Slice); isSlice {
						return wire.Canon(x)
					}
				}
			case *ast.Ident:
				return alias[info.ObjectOf(x)]
			}
			return ""
		}
		// aliases are collected flow-insensitively: a variable that ever holds
		// shared storage is treated as shared (a variable re-pointed to a fresh
		// copy before the write would be a false report; none exists, and the
		// report names the definition so it can be judged)
		for changed := true; changed; {
			changed = false
			ast.Inspect(fd.Body, func(m ast.Node) bool {
				as, ok := m.(*ast.AssignStmt)
				if !ok || len(as.Lhs) != len(as.Rhs) {
					return true
				}
				for i, l := range as.Lhs {
					id, ok := l.(*ast.Ident)
					if !ok || id.Name == "_" {
						continue
					}
					if f := sharedField(as.Rhs[i]); f != "" {
						// a full slice expression with max == high cannot grow into the caller's array,
						// but element writes still land there: keep it as an alias for stores only
						obj := info.ObjectOf(id)
						if alias[obj] == "" {
							alias[obj] = f
							changed = true
						}
					}
				}
				return true
			})
		}
		nAlias += len(alias)
		name := load.FuncName(fn)
		report := func(pos token.Pos, what, field string) { report0(name, what, field, pos) }
		clipped3 := func(e ast.Expr) bool {
			se, ok := ast.Unparen(e).(*ast.SliceExpr)
			return ok && se.Slice3 && se.Max != nil && se.High != nil && wire.Canon(se.High) == wire.Canon(se.Max)
		}
		ast.Inspect(fd.Body, func(m ast.Node) bool {
			switch x := m.(type) {
			case *ast.AssignStmt:
				for _, l := range x.Lhs {
					if ix, ok := l.(*ast.IndexExpr); ok {
						if f := sharedField(ix.X); f != "" {
							report(x.Pos(), "element store "+wire.Canon(l), f)
						}
					}
				}
			case *ast.CallExpr:
				cf := wire.Canon(x.Fun)
				switch {
				case cf == "append" && len(x.Args) >= 1:
					// appends onto the field itself are R3 (clip dominance); here: aliases
					if id, ok := ast.Unparen(x.Args[0]).(*ast.Ident); ok {
						if f := alias[info.ObjectOf(id)]; f != "" && !aliasAlwaysClipped(info, fd, info.ObjectOf(id), clipped3) {
							report(x.Pos(), "append onto "+id.Name, f)
						}
					} else if se, ok := ast.Unparen(x.Args[0]).(*ast.SliceExpr); ok && !clipped3(se) {
						if f := sharedField(se.X); f != "" {
							report(x.Pos(), "append onto "+wire.Canon(se), f)
						}
					}
				case (strings.HasPrefix(cf, "sort.") || cf == "slices.Sort" || cf == "slices.SortFunc" || cf == "slices.SortStableFunc" || cf == "slices.Reverse") && len(x.Args) >= 1:
					if f := sharedField(x.Args[0]); f != "" {
						report(x.Pos(), cf+" in place", f)
					}
				case cf == "copy" && len(x.Args) == 2:
					if f := sharedField(x.Args[0]); f != "" {
						report(x.Pos(), "copy into "+wire.Canon(x.Args[0]), f)
					}
				}
			}
			return true
		})
	}
	return nAlias
}

// aliasAlwaysClipped: every definition of the alias is a full slice expression
// whose capacity equals its length (append then reallocates).
func aliasAlwaysClipped(info *types.Info, fd *ast.FuncDecl, obj types.Object, clipped3 func(ast.Expr) bool) bool {
	all, any := true, false
	ast.Inspect(fd.Body, func(m ast.Node) bool {
		as, ok := m.(*ast.AssignStmt)
		if !ok || len(as.Lhs) != len(as.Rhs) {
			return true
		}
		for i, l := range as.Lhs {
			if id, ok := l.(*ast.Ident); ok && info.ObjectOf(id) == obj {
				// x = append(x, …) keeps whatever x was
				if call, ok := ast.Unparen(as.Rhs[i]).(*ast.CallExpr); ok && wire.Canon(call.Fun) == "append" && len(call.Args) > 0 {
					if a, ok := ast.Unparen(call.Args[0]).(*ast.Ident); ok && info.ObjectOf(a) == obj {
						continue
					}
				}
				any = true
				if !clipped3(as.Rhs[i]) {
					all = false
				}
			}
		}
		return true
	})
	return any && all
}

// assignsField: body holds an assignment to the GenerateSettings field name.
func assignsField(info *types.Info, body ast.Node, name string) bool {
	found := false
	ast.Inspect(body, func(m ast.Node) bool {
		if as, ok := m.(*ast.AssignStmt); ok {
			for _, l := range as.Lhs {
				if lsel, isSel := ast.Unparen(l).(*ast.SelectorExpr); isSel && lsel.Sel.Name == name && typeBaseName(info.TypeOf(lsel.X)) == "GenerateSettings" {
					found = true
				}
			}
		}
		return !found
	})
	return found
}

// scratchPerCall: R4
func scratchPerCall(c *core.Ctx, p *load.Prog) {
	pkg := p.Bebop()
	gs, _ := pkg.Types.Scope().Lookup("GenerateSettings").(*types.TypeName)
	fd := p.FuncDecl(pkg, "File.Generate")
	if gs == nil || fd == nil {
		c.Undecide("GenerateSettings / File.Generate not found")
		return
	}
	st := gs.Type().Underlying().(*types.Struct)
	firstGen := token.Pos(0)
	ast.Inspect(fd.Body, func(m ast.Node) bool {
		if call, ok := m.(*ast.CallExpr); ok {
			if sel, ok := call.Fun.(*ast.SelectorExpr); ok && sel.Sel.Name == "Generate" && firstGen == 0 {
				firstGen = call.Pos()
			}
		}
		return true
	})
	n := 0
	reach := reachableFuncs(p, pkg, fd)
	for i := 0; i < st.NumFields(); i++ {
		f := st.Field(i)
		if f.Exported() || f.Embedded() {
			continue
		}
		switch f.Type().Underlying().(type) {
		case *types.Map, *types.Pointer:
		default:
			continue
		}
		n++
		assigned := token.Pos(0)
		fresh := false
		scanBody := fd.Body
		inPhase := ""
		// the assignment may sit in a phase function that Generate runs (directly
		// or from a table of phases)
		if !assignsField(pkg.TypesInfo, fd.Body, f.Name()) {
			var names []string
			byName := map[string]*ast.FuncDecl{}
			for fn := range reach {
				if d := p.Decl(fn); d != nil && d != fd && d.Body != nil && assignsField(pkg.TypesInfo, d.Body, f.Name()) {
					names = append(names, fn.Name())
					byName[fn.Name()] = d
				}
			}
			sort.Strings(names)
			if len(names) > 0 {
				inPhase = names[0]
				scanBody = byName[inPhase].Body
			}
		}
		ast.Inspect(scanBody, func(m ast.Node) bool {
			as, ok := m.(*ast.AssignStmt)
			if !ok {
				return true
			}
			for j, l := range as.Lhs {
				lsel, isSel := ast.Unparen(l).(*ast.SelectorExpr)
				if isSel && lsel.Sel.Name == f.Name() && typeBaseName(pkg.TypesInfo.TypeOf(lsel.X)) == "GenerateSettings" && assigned == 0 && j < len(as.Rhs) {
					assigned = as.Pos()
					if call, ok := ast.Unparen(as.Rhs[j]).(*ast.CallExpr); ok {
						fn := wire.Canon(call.Fun)
						fresh = fn == "new" || fn == "make"
						// a method of the receiver that builds the value
						if sel, ok := ast.Unparen(call.Fun).(*ast.SelectorExpr); ok && typeBaseName(pkg.TypesInfo.TypeOf(sel.X)) == "File" {
							fresh = true
						}
					}
				}
			}
			return true
		})
		if inPhase != "" {
			// made fresh in a phase: that it is made per call is decided; that
			// the phase runs before the records are generated is not
			c.Check("R4", "GenerateSettings."+f.Name()+" is made fresh in File.Generate before any record is generated", p.Pos(fd.Pos()), assigned != 0 && fresh,
				"the scratch field is shared through the settings value: without a fresh value per call two Generate calls influence each other")
			if assigned != 0 && fresh {
				c.Undecide("GenerateSettings.%s is made fresh in %s, a function File.Generate reaches: whether that happens before the first record is generated is not recognised in this arrangement", f.Name(), inPhase)
			}
			continue
		}
		c.Check("R4", "GenerateSettings."+f.Name()+" is made fresh in File.Generate before any record is generated", p.Pos(fd.Pos()), assigned != 0 && fresh && (firstGen == 0 || assigned < firstGen),
			"the scratch field is shared through the settings value: without a fresh value per call two Generate calls influence each other")
	}
	c.Count("scratch_fields", n)
	c.Floor("scratch_fields", 4)
}

// scanGlobalWrites reports assignments, element stores (also through a local
// alias), increments and deletes whose target is a package-level variable.
func scanGlobalWrites(info *types.Info, files []*ast.File, report func(fname, what, why string, pos token.Pos)) int {
	isGlobal := func(e ast.Expr) (string, bool) {
		for {
			switch x := ast.Unparen(e).(type) {
			case *ast.IndexExpr:
				e = x.X
				continue
			case *ast.SelectorExpr:
				if _, isSel := info.Selections[x]; isSel {
					e = x.X
					continue
				}
				if v, ok := info.Uses[x.Sel].(*types.Var); ok && v.Parent() == v.Pkg().Scope() {
					return v.Name(), true
				}
				return "", false
			case *ast.StarExpr:
				e = x.X
				continue
			case *ast.Ident:
				if v, ok := info.ObjectOf(x).(*types.Var); ok && v.Pkg() != nil && v.Parent() == v.Pkg().Scope() {
					return v.Name(), true
				}
				return "", false
			}
			return "", false
		}
	}
	nFuncs := 0
	for _, file := range files {
		for _, d := range file.Decls {
			fd, ok := d.(*ast.FuncDecl)
			if !ok || fd.Body == nil {
				continue
			}
			nFuncs++
			fname := fd.Name.Name
			if obj, ok := info.Defs[fd.Name].(*types.Func); ok {
				fname = load.FuncName(obj)
			}
			alias := map[types.Object]string{}
			ast.Inspect(fd.Body, func(n ast.Node) bool {
				as, ok := n.(*ast.AssignStmt)
				if !ok {
					return true
				}
				for i, l := range as.Lhs {
					if i >= len(as.Rhs) {
						break
					}
					if id, ok := l.(*ast.Ident); ok {
						if g, isG := isGlobal(as.Rhs[i]); isG {
							if _, isIdent := ast.Unparen(as.Rhs[i]).(*ast.Ident); isIdent {
								switch info.TypeOf(as.Rhs[i]).Underlying().(type) {
								case *types.Map, *types.Slice, *types.Pointer:
									alias[info.ObjectOf(id)] = g
								}
							}
						}
					}
				}
				return true
			})
			// once-only initialisation: the function literal handed to Do of a
			// package-level sync.Once runs once per process, before any reader of
			// what it builds; a store in it whose value depends on nothing of the
			// enclosing call is not a dependence on earlier calls
			onceBodies := onceInitBodies(info, fd, isGlobal)
			inOnce := func(pos token.Pos) *ast.FuncLit {
				for _, fl := range onceBodies {
					if fl.Pos() <= pos && pos < fl.End() {
						return fl
					}
				}
				return nil
			}
			dependsOnCall := func(e ast.Expr, fl *ast.FuncLit) bool {
				dep := false
				ast.Inspect(e, func(k ast.Node) bool {
					if id, ok := k.(*ast.Ident); ok {
						if v, ok := info.ObjectOf(id).(*types.Var); ok && v.Pkg() != nil && v.Parent() != v.Pkg().Scope() && !v.IsField() {
							// a variable of the enclosing function (declared outside the literal)
							if !(fl.Pos() <= v.Pos() && v.Pos() < fl.End()) {
								dep = true
							}
						}
					}
					return !dep
				})
				return dep
			}
			ast.Inspect(fd.Body, func(n ast.Node) bool {
				switch x := n.(type) {
				case *ast.AssignStmt:
					for li, l := range x.Lhs {
						if g, isG := isGlobal(l); isG {
							if fl := inOnce(x.Pos()); fl != nil && len(x.Lhs) == len(x.Rhs) && !dependsOnCall(x.Rhs[li], fl) {
								if _, plain := ast.Unparen(l).(*ast.Ident); plain {
									continue
								}
							}
							report(fname, "writes package-level "+g, "a library function assigns to package-level state: repeated or concurrent calls are no longer functions of their input alone", x.Pos())
						}
						if ix, ok := ast.Unparen(l).(*ast.IndexExpr); ok {
							if id, ok := ast.Unparen(ix.X).(*ast.Ident); ok {
								if g, isA := alias[info.ObjectOf(id)]; isA {
									report(fname, "writes package-level "+g+" through alias "+id.Name, "the local is the same map/slice as the package-level table: the store mutates shared state", x.Pos())
								}
							}
						}
					}
				case *ast.IncDecStmt:
					if g, isG := isGlobal(x.X); isG {
						report(fname, "writes package-level "+g, "a library function increments package-level state", x.Pos())
					}
				case *ast.CallExpr:
					// G.M(…) with M declared on *T: the method is handed the address of
					// package-level G. For a type of another package (sync.Map, a
					// bytes.Buffer, a sync.Pool) the body is not ours to read: every
					// such call counts as a write unless the method is one of the
					// few that only read.
					if sel, ok := ast.Unparen(x.Fun).(*ast.SelectorExpr); ok {
						if msel, isM := info.Selections[sel]; isM && msel.Kind() == types.MethodVal {
							if g, isG := isGlobal(sel.X); isG {
								if fn, okF := msel.Obj().(*types.Func); okF {
									if sig, okS := fn.Type().(*types.Signature); okS && sig.Recv() != nil {
										_, ptrRecv := sig.Recv().Type().(*types.Pointer)
										foreign := fn.Pkg() == nil || info.Defs[fd.Name] == nil || fn.Pkg() != info.Defs[fd.Name].Pkg()
										readOnly := map[string]bool{"Load": true, "Range": true, "Len": true, "String": true, "Bytes": true, "Cap": true}
										// a sync.Pool hands out interchangeable scratch storage: which
										// buffer a caller gets is not observable as long as it does not
										// read what an earlier user left in it (not decided here)
										isPool := false
										if nt, okN := sig.Recv().Type().(*types.Pointer); okN {
											if named, okN2 := nt.Elem().(*types.Named); okN2 && named.Obj().Pkg() != nil && named.Obj().Pkg().Path() == "sync" && named.Obj().Name() == "Pool" {
												isPool = true
											}
										}
										// (*sync.Once).Do with a literal that depends on nothing of
										// this call: once-only initialisation
										isOnceInit := false
										for _, fl := range onceBodies {
											if len(x.Args) == 1 && ast.Unparen(x.Args[0]) == ast.Expr(fl) {
												isOnceInit = true
											}
										}
										if ptrRecv && foreign && !readOnly[fn.Name()] && !isPool && !isOnceInit {
											report(fname, "calls "+fn.Name()+" on package-level "+g, "a method with a pointer receiver on a package-level value of another package's type (a cache, a pool, a buffer): what this call returns, or a later one, depends on the calls that came before", x.Pos())
										}
									}
								}
							}
						}
					}
					if id, ok := x.Fun.(*ast.Ident); ok && id.Name == "delete" && len(x.Args) == 2 {
						if g, isG := isGlobal(x.Args[0]); isG {
							report(fname, "deletes from package-level "+g, "a library function deletes from a package-level map", x.Pos())
						}
						if aid, ok := ast.Unparen(x.Args[0]).(*ast.Ident); ok {
							if g, isA := alias[info.ObjectOf(aid)]; isA {
								report(fname, "deletes from package-level "+g+" through alias "+aid.Name, "the local is the same map as the package-level table", x.Pos())
							}
						}
					}
				}
				return true
			})
		}
	}
	return nFuncs
}

// positiveControlGlobalWrite keeps the zero-count rule R2 honest: the bad
// shapes in fixtures/globalwrite must be recognised on every run.
func positiveControlGlobalWrite(c *core.Ctx) {
	path := filepath.Join(c.VerifDir, "fixtures", "globalwrite", "fx.go")
	fset := token.NewFileSet()
	f, err := parser.ParseFile(fset, path, nil, 0)
	if err != nil {
		c.Undecide("positive control fixture: %v", err)
		return
	}
	info := &types.Info{Types: map[ast.Expr]types.TypeAndValue{}, Defs: map[*ast.Ident]types.Object{}, Uses: map[*ast.Ident]types.Object{}, Selections: map[*ast.SelectorExpr]*types.Selection{}}
	if _, err := (&types.Config{Importer: importer.ForCompiler(fset, "source", nil)}).Check("fx", fset, []*ast.File{f}, info); err != nil {
		c.Undecide("positive control fixture does not type-check: %v", err)
		return
	}
	hits := map[string]bool{}
	scanGlobalWrites(info, []*ast.File{f}, func(fname, what, why string, pos token.Pos) { hits[fname] = true })
	for _, want := range []string{"direct", "aliased", "deleted", "incremented", "cached", "builtFromArg"} {
		c.Check("R2", "positive control: "+want+" write to package-level state is recognised", "fixtures/globalwrite/fx.go", hits[want], "the rule no longer matches the shape it is meant to find")
	}
	c.Check("R2", "positive control: a read of package-level state is not reported", "fixtures/globalwrite/fx.go", !hits["readonly"] && !hits["looked"] && !hits["builtOnce"], "")
}

// sortsParam is set by checkC14: does function fn sort its i-th parameter in
// place (a sort.* / slices.Sort* call on it, directly or one call deeper)?
var sortsParam func(fn *types.Func, i int) bool

func makeSortsParam(p *load.Prog) func(fn *types.Func, i int) bool {
	var rec func(fn *types.Func, i, depth int) bool
	rec = func(fn *types.Func, i, depth int) bool {
		fd := p.Decl(fn)
		sig, _ := fn.Type().(*types.Signature)
		if fd == nil || fd.Body == nil || sig == nil || i >= sig.Params().Len() || depth > 2 {
			return false
		}
		pk := p.Owner(fn)
		if pk == nil {
			return false
		}
		info := pk.TypesInfo
		po := types.Object(sig.Params().At(i))
		found := false
		ast.Inspect(fd.Body, func(n ast.Node) bool {
			call, ok := n.(*ast.CallExpr)
			if !ok || len(call.Args) == 0 {
				return true
			}
			for j, a := range call.Args {
				id, isId := ast.Unparen(a).(*ast.Ident)
				if !isId || info.ObjectOf(id) != po {
					continue
				}
				fnName := wire.Canon(call.Fun)
				if j == 0 && (strings.HasPrefix(fnName, "sort.") || strings.HasPrefix(fnName, "slices.Sort")) {
					found = true
				}
				if cal := load.Callee(info, call); cal != nil && cal.Pkg() == fn.Pkg() && rec(cal, j, depth+1) {
					found = true
				}
			}
			return true
		})
		return found
	}
	return func(fn *types.Func, i int) bool { return rec(fn, i, 0) }
}

// mapOrderFold: R5. R1 classifies every map range syntactically; a loop that
// fills a table from a computation that reads the same table (a two-pass
// "until it settles" over `range structs`) passes that classification and
// still depends on the order. So the generator is also folded twice by the
// evaluator over the first batch of the exploration (every leaf class, nested
// structs three deep, forward references) — once visiting map keys in
// ascending and once in descending order. The emitted text must be identical.
func mapOrderFold(c *core.Ctx, p *load.Prog) {
	g, err := genfacts.NewGen(p)
	if err != nil {
		c.Undecide("generator evaluator: %v", err)
		return
	}
	shapes := g.U.Shapes(2, 0)
	plan := g.MakePlan(shapes, 260)
	all := geneval.AllOptions()
	n := 0
	for _, o := range []geneval.Options{all[0], all[len(all)-1]} {
		for bi, recs := range plan.Batches {
			if bi > 1 {
				break
			}
			a, ga, ea := g.TextOnly(recs, o, false)
			b, gb, eb := g.TextOnly(recs, o, true)
			if ea != nil || eb != nil {
				c.Undecide("map-order fold (batch %d, options %s): %v %v", bi, o, ea, eb)
				continue
			}
			n++
			same := a == b && ga == gb
			where := ""
			if !same {
				la, lb := strings.Split(a, "\n"), strings.Split(b, "\n")
				for i := 0; i < len(la) && i < len(lb); i++ {
					if la[i] != lb[i] {
						where = fmt.Sprintf("first difference at line %d: %q vs %q", i+1, strings.TrimSpace(la[i]), strings.TrimSpace(lb[i]))
						break
					}
				}
			}
			c.Check("R5", fmt.Sprintf("emitted text does not depend on map iteration order (batch %d, options %s)", bi, o), "gen.go (File.Generate)", same,
				"folding the generator over the same schemas with map keys visited in ascending and in descending order gives different text — "+where+": regenerating an unchanged schema can produce a diff")
		}
	}
	c.Count("map_order_folds", n)
	c.Floor("map_order_folds", 2)
}

// sharedMutableGlobals: R2c. R2 looks for writes that name a package-level
// variable. A package-level variable that holds (a pointer to) a struct of the
// package is shared by every call as well; if a method of that struct type
// assigns to a field of its receiver outside of construction, concurrent calls
// write the same memory (a lazily filled cache on a shared tree, for instance)
// even though no statement mentions the variable.
func sharedMutableGlobals(c *core.Ctx, p *load.Prog) {
	n := 0
	for _, pk := range libraryPkgs(p) {
		decls := map[*types.Func]*ast.FuncDecl{}
		for fn, fd := range p.AllDecls() {
			if p.Owner(fn) == pk && fd.Body != nil {
				decls[fn] = fd
			}
		}
		n += scanSharedMutableGlobals(pk.TypesInfo, pk.Types, decls, func(v *types.Var, method string) {
			c.Check("R2c", "package-level "+v.Name()+" is not mutated through its methods after construction", p.Pos(v.Pos()), method == "",
				"the variable is shared by every call of the package, and "+method+" — reachable from the exported API — assigns to fields of its receiver: concurrent calls write the same memory")
		})
	}
	c.Check("R2c", "no package-level value of a struct type is mutated through its methods (scan complete)", "package bebop", true, "")
	c.Count("package_level_struct_values", n)
	// positive control (the count on the repository is zero)
	path := filepath.Join(c.VerifDir, "fixtures", "sharedglobal", "fx.go")
	fset := token.NewFileSet()
	f, err := parser.ParseFile(fset, path, nil, 0)
	if err != nil {
		c.Undecide("positive control fixture: %v", err)
		return
	}
	info := &types.Info{Types: map[ast.Expr]types.TypeAndValue{}, Defs: map[*ast.Ident]types.Object{}, Uses: map[*ast.Ident]types.Object{}, Selections: map[*ast.SelectorExpr]*types.Selection{}}
	tpkg, err := (&types.Config{Importer: importer.ForCompiler(fset, "source", nil)}).Check("fx", fset, []*ast.File{f}, info)
	if err != nil {
		c.Undecide("positive control fixture does not type-check: %v", err)
		return
	}
	fx := map[*types.Func]*ast.FuncDecl{}
	for _, d := range f.Decls {
		if fd, ok := d.(*ast.FuncDecl); ok && fd.Body != nil {
			fx[info.Defs[fd.Name].(*types.Func)] = fd
		}
	}
	hits := map[string]string{}
	scanSharedMutableGlobals(info, tpkg, fx, func(v *types.Var, method string) { hits[v.Name()] = method })
	c.Check("R2c", "positive control: a lazily filled cache on a shared tree is recognised", "fixtures/sharedglobal/fx.go", hits["sharedTree"] != "", "the rule no longer matches the shape it is meant to find")
	c.Check("R2c", "positive control: a shared value that is only read is not reported", "fixtures/sharedglobal/fx.go", hits["readOnlyTable"] == "", "")
}

// scanSharedMutableGlobals reports, for every package-level variable holding
// (a pointer to) a struct type of the package, the name of a pointer-receiver
// method of that type that assigns to receiver fields and is reachable from an
// exported function ("" when there is none). Returns the number of variables.
func scanSharedMutableGlobals(info *types.Info, tpkg *types.Package, decls map[*types.Func]*ast.FuncDecl, report func(v *types.Var, method string)) int {
	n := 0
	scope := tpkg.Scope()
	for _, nm := range scope.Names() {
		v, ok := scope.Lookup(nm).(*types.Var)
		if !ok {
			continue
		}
		t := v.Type()
		if pt, isP := t.(*types.Pointer); isP {
			t = pt.Elem()
		}
		named, isN := t.(*types.Named)
		if !isN || named.Obj().Pkg() != tpkg {
			continue
		}
		if _, isStruct := named.Underlying().(*types.Struct); !isStruct {
			continue
		}
		n++
		bad := ""
		for fn, fd := range decls {
			if fd.Recv == nil || len(fd.Recv.List) != 1 || len(fd.Recv.List[0].Names) != 1 {
				continue
			}
			rt := info.TypeOf(fd.Recv.List[0].Type)
			prt, isP := rt.(*types.Pointer)
			if !isP || prt.Elem() != types.Type(named) {
				continue // value receiver: writes go to a copy
			}
			recv := info.ObjectOf(fd.Recv.List[0].Names[0])
			writes := false
			ast.Inspect(fd.Body, func(k ast.Node) bool {
				as, isA := k.(*ast.AssignStmt)
				if !isA {
					return true
				}
				for _, l := range as.Lhs {
					e := ast.Unparen(l)
					for {
						if ix, isIx := e.(*ast.IndexExpr); isIx {
							e = ast.Unparen(ix.X)
							continue
						}
						break
					}
					if sel, isSel := e.(*ast.SelectorExpr); isSel {
						if id, isId := ast.Unparen(sel.X).(*ast.Ident); isId && info.ObjectOf(id) == recv {
							writes = true
						}
					}
				}
				return true
			})
			if writes && reachableFromEntry(info, tpkg, decls, fn) {
				if name := load.FuncName(fn); bad == "" || name < bad {
					bad = name
				}
			}
		}
		report(v, bad)
	}
	return n
}

// reachableFromEntry: is fn called, transitively and by static calls, from an
// exported function or method of the package that is not a constructor of the
// shared value? (exported API = ReadFile, Format, Validate, Generate, …)
func reachableFromEntry(info *types.Info, tpkg *types.Package, decls map[*types.Func]*ast.FuncDecl, target *types.Func) bool {
	callers := map[*types.Func][]*types.Func{}
	isG := func(e ast.Expr) (string, bool) {
		if id, ok := ast.Unparen(e).(*ast.Ident); ok {
			if v, ok := info.ObjectOf(id).(*types.Var); ok && v.Pkg() != nil && v.Parent() == v.Pkg().Scope() {
				return v.Name(), true
			}
		}
		return "", false
	}
	for fn, fd := range decls {
		fn := fn
		// what runs inside a once-only initialiser builds the shared value; it
		// is not a use of it
		once := onceInitBodies(info, fd, isG)
		ast.Inspect(fd.Body, func(n ast.Node) bool {
			if call, ok := n.(*ast.CallExpr); ok {
				for _, fl := range once {
					if fl.Pos() <= call.Pos() && call.Pos() < fl.End() {
						return true
					}
				}
				if cal := load.Callee(info, call); cal != nil && cal.Pkg() == tpkg {
					callers[cal] = append(callers[cal], fn)
				}
			}
			return true
		})
	}
	seen := map[*types.Func]bool{target: true}
	work := []*types.Func{target}
	for len(work) > 0 {
		f := work[0]
		work = work[1:]
		for _, cl := range callers[f] {
			if seen[cl] {
				continue
			}
			seen[cl] = true
			if cl.Exported() {
				return true
			}
			work = append(work, cl)
		}
	}
	return false
}

// localWorkList: the slice named sl is a local variable of fd whose every use
// is len(sl), sl[i], sl[a:b], sl = append(sl, …) or sl = sl[…].
func localWorkList(info *types.Info, fd *ast.FuncDecl, sl ast.Expr) bool {
	var obj types.Object
	if id, isId := ast.Unparen(sl).(*ast.Ident); isId {
		if o, isVar := info.ObjectOf(id).(*types.Var); isVar && fd.Body.Pos() <= o.Pos() && o.Pos() < fd.Body.End() {
			obj = o
		}
	}
	if obj == nil {
		return false
	}
	ok := true
	var stack []ast.Node
	ast.Inspect(fd.Body, func(n ast.Node) bool {
		if n == nil {
			stack = stack[:len(stack)-1]
			return true
		}
		stack = append(stack, n)
		id, isId := n.(*ast.Ident)
		if !isId || info.ObjectOf(id) != obj || len(stack) < 2 {
			return true
		}
		switch par := stack[len(stack)-2].(type) {
		case *ast.IndexExpr:
			if par.X != ast.Expr(id) {
				ok = false
			}
		case *ast.SliceExpr:
			if par.X != ast.Expr(id) {
				ok = false
			}
		case *ast.CallExpr:
			fn := wire.Canon(par.Fun)
			if !(fn == "len" || fn == "cap" || (fn == "append" && len(par.Args) > 0 && par.Args[0] == ast.Expr(id))) {
				ok = false
			}
		case *ast.AssignStmt:
			isLhs := false
			for _, l := range par.Lhs {
				if l == ast.Expr(id) {
					isLhs = true
				}
			}
			if !isLhs {
				ok = false
			}
		case *ast.ValueSpec, *ast.BinaryExpr:
			// declaration; comparison of len() is a CallExpr parent, a bare comparison is not expected
		default:
			ok = false
		}
		return true
	})
	return ok
}

// resultOnlyFoldedIntoSets is set by checkC14: the local slice sl of fd is
// only appended to and returned, fd is not exported, and every call of fd in
// the program is the operand of a range statement whose body does nothing but
// store into maps under the element as key — the order of the slice cannot
// reach the output.
var resultOnlyFoldedIntoSets func(info *types.Info, fd *ast.FuncDecl, sl ast.Expr) bool

func makeResultOnlyFoldedIntoSets(p *load.Prog) func(info *types.Info, fd *ast.FuncDecl, sl ast.Expr) bool {
	return func(info *types.Info, fd *ast.FuncDecl, slx ast.Expr) bool {
		slid, isId := ast.Unparen(slx).(*ast.Ident)
		if !isId {
			return false
		}
		target := info.ObjectOf(slid)
		sl := slid.Name
		self, _ := info.Defs[fd.Name].(*types.Func)
		if self == nil || self.Exported() {
			return false
		}
		// sl: only `sl = append(sl, …)`, `return sl`, len(sl), declaration
		var obj types.Object
		usesOK := true
		var stack []ast.Node
		ast.Inspect(fd.Body, func(n ast.Node) bool {
			if n == nil {
				stack = stack[:len(stack)-1]
				return true
			}
			stack = append(stack, n)
			id, isId := n.(*ast.Ident)
			if !isId || id.Name != sl || len(stack) < 2 {
				return true
			}
			o := info.ObjectOf(id)
			if _, isVar := o.(*types.Var); !isVar {
				return true
			}
			if o != target {
				return true
			}
			obj = o
			switch par := stack[len(stack)-2].(type) {
			case *ast.ReturnStmt, *ast.ValueSpec:
			case *ast.AssignStmt:
				isLhs := false
				for _, l := range par.Lhs {
					if l == ast.Expr(id) {
						isLhs = true
					}
				}
				if !isLhs {
					usesOK = false
				}
			case *ast.CallExpr:
				fn := wire.Canon(par.Fun)
				if !(fn == "len" || fn == "cap" || (fn == "append" && len(par.Args) > 0 && par.Args[0] == ast.Expr(id))) {
					usesOK = false
				}
			default:
				usesOK = false
			}
			return true
		})
		if obj == nil || !usesOK {
			return false
		}
		calls, ok := 0, true
		for fn, cfd := range p.AllDecls() {
			pk := p.Owner(fn)
			if pk == nil || cfd.Body == nil {
				continue
			}
			ci := pk.TypesInfo
			rangeOperands := map[*ast.CallExpr]*ast.RangeStmt{}
			ast.Inspect(cfd.Body, func(n ast.Node) bool {
				if rs, isR := n.(*ast.RangeStmt); isR {
					if call, isC := ast.Unparen(rs.X).(*ast.CallExpr); isC {
						rangeOperands[call] = rs
					}
				}
				return true
			})
			ast.Inspect(cfd.Body, func(n ast.Node) bool {
				call, isC := n.(*ast.CallExpr)
				if !isC || load.Callee(ci, call) != self {
					return true
				}
				calls++
				rs := rangeOperands[call]
				if rs == nil || rs.Value == nil {
					ok = false
					return true
				}
				elem, isId := rs.Value.(*ast.Ident)
				if !isId {
					ok = false
					return true
				}
				eo := ci.ObjectOf(elem)
				for _, st := range rs.Body.List {
					as, isA := st.(*ast.AssignStmt)
					if !isA || len(as.Lhs) != 1 || as.Tok != token.ASSIGN {
						ok = false
						continue
					}
					ix, isIx := ast.Unparen(as.Lhs[0]).(*ast.IndexExpr)
					if !isIx {
						ok = false
						continue
					}
					if _, isMap := ci.TypeOf(ix.X).Underlying().(*types.Map); !isMap {
						ok = false
					}
					if kid, isK := ast.Unparen(ix.Index).(*ast.Ident); !isK || ci.ObjectOf(kid) != eo {
						ok = false
					}
					// the stored value must not depend on the position in the slice:
					// no call in it, and no reference to the key variable of the range
					ast.Inspect(as.Rhs[0], func(m ast.Node) bool {
						if _, isCall := m.(*ast.CallExpr); isCall {
							ok = false
						}
						if rs.Key != nil {
							if mid, isM := m.(*ast.Ident); isM {
								if kid, isK := rs.Key.(*ast.Ident); isK && kid.Name != "_" && ci.ObjectOf(mid) == ci.ObjectOf(kid) {
									ok = false
								}
							}
						}
						return true
					})
				}
				return true
			})
		}
		return ok && calls > 0
	}
}

// pointerFieldWrites: R3d. The records of a union's branches hang off the File
// by pointer (UnionField.Struct, UnionField.Message). Generate, Validate and
// Format receive the File by value, but a copy of a File (of a Union, of a
// UnionField) still points at the caller's branch records: an assignment whose
// target is reached through such a pointer-typed field writes into the
// caller's File. Outside the parser, which builds those records, nothing may.
func pointerFieldWrites(c *core.Ctx, p *load.Prog) {
	pkg := p.Bebop()
	info := pkg.TypesInfo
	n, sites := 0, 0
	throughPointerField := func(e ast.Expr) string {
		for {
			switch x := ast.Unparen(e).(type) {
			case *ast.SelectorExpr:
				if sel, ok := info.Selections[x]; ok && sel.Kind() == types.FieldVal {
					// is the operand itself a pointer-typed field of a schema type?
					if inner, ok := ast.Unparen(x.X).(*ast.SelectorExpr); ok {
						if isel, ok := info.Selections[inner]; ok && isel.Kind() == types.FieldVal {
							if pt, ok := info.TypeOf(inner).(*types.Pointer); ok {
								if nt, ok := pt.Elem().(*types.Named); ok && nt.Obj().Pkg() == pkg.Types {
									return wire.Canon(inner)
								}
							}
						}
					}
				}
				e = x.X
			case *ast.IndexExpr:
				e = x.X
			case *ast.StarExpr:
				if inner, ok := ast.Unparen(x.X).(*ast.SelectorExpr); ok {
					if isel, ok := info.Selections[inner]; ok && isel.Kind() == types.FieldVal {
						if pt, ok := info.TypeOf(inner).(*types.Pointer); ok {
							if nt, ok := pt.Elem().(*types.Named); ok && nt.Obj().Pkg() == pkg.Types {
								return wire.Canon(inner)
							}
						}
					}
				}
				e = x.X
			default:
				return ""
			}
		}
	}
	for _, file := range pkg.Syntax {
		fname := filepath.Base(p.Fset.Position(file.Pos()).Filename)
		if strings.HasPrefix(fname, "parse") || strings.HasPrefix(fname, "token") || strings.HasSuffix(fname, "_test.go") {
			continue // the parser builds the records it later hands out
		}
		for _, d := range file.Decls {
			fd, ok := d.(*ast.FuncDecl)
			if !ok || fd.Body == nil {
				continue
			}
			n++
			ast.Inspect(fd.Body, func(nd ast.Node) bool {
				var targets []ast.Expr
				switch x := nd.(type) {
				case *ast.AssignStmt:
					if x.Tok != token.DEFINE {
						targets = x.Lhs
					}
				case *ast.IncDecStmt:
					targets = []ast.Expr{x.X}
				}
				for _, t := range targets {
					if via := throughPointerField(t); via != "" {
						sites++
						c.Check("R3d", fmt.Sprintf("%s does not write through the record pointer %s", fd.Name.Name, via), p.Pos(t.Pos()), false,
							fmt.Sprintf("%s = … is reached through %s, a pointer stored in the File: the by-value copy Generate/Validate/Format work on still points at the caller's record, so the caller's File is modified (and two concurrent calls race on it)", wire.Canon(t), via))
					}
				}
				return true
			})
		}
	}
	c.Check("R3d", "nothing outside the parser writes through a record pointer stored in the File (scan complete)", pkg.PkgPath, true, "")
	c.Count("functions_scanned_for_pointer_field_writes", n)
	c.Floor("functions_scanned_for_pointer_field_writes", 40)
	_ = sites
}

// holdsSlice: a value of this type carries a slice header (so copying the
// value shares the backing array): a slice, or a struct/array with such a
// component. Maps and pointers are handled by R2/R2c.
func holdsSlice(t types.Type, depth int) bool {
	if t == nil || depth > 4 {
		return false
	}
	switch u := t.Underlying().(type) {
	case *types.Slice:
		return true
	case *types.Struct:
		for i := 0; i < u.NumFields(); i++ {
			if holdsSlice(u.Field(i).Type(), depth+1) {
				return true
			}
		}
	case *types.Array:
		return holdsSlice(u.Elem(), depth+1)
	}
	return false
}

// scanSharedSlices: R2d. A value that carries a slice and lives in
// package-level storage (a table of ready-made tokens, say) shares its backing
// array with every copy handed out. Code that only looks at it is fine; a
// function that *returns* such a value, stores it in per-call state or hands
// it to another function gives every caller the same array — what one call
// appends onto or writes through, another call sees (and concurrent calls
// race). Reported: a slice-carrying value read out of a package-level variable
// that reaches a return, a store into a field or element, or a call argument
// (other than len/cap/copy source/append spread/conversion), directly or
// through one local.
func scanSharedSlices(info *types.Info, tpkg *types.Package, files []*ast.File, report func(fn string, v types.Object, how string, pos token.Pos)) (nVars int) {
	globals := map[types.Object]bool{}
	scope := tpkg.Scope()
	for _, nm := range scope.Names() {
		v, ok := scope.Lookup(nm).(*types.Var)
		if !ok {
			continue
		}
		t := v.Type()
		carries := holdsSlice(t, 0)
		switch u := t.Underlying().(type) {
		case *types.Map:
			carries = holdsSlice(u.Elem(), 0)
		case *types.Pointer:
			carries = holdsSlice(u.Elem(), 0)
		}
		if carries {
			globals[v] = true
			nVars++
		}
	}
	if len(globals) == 0 {
		return 0
	}
	for _, f := range files {
		for _, d := range f.Decls {
			fd, ok := d.(*ast.FuncDecl)
			if !ok || fd.Body == nil {
				continue
			}
			// root global of an expression that reads out of package-level storage
			var rootOf func(e ast.Expr) types.Object
			tainted := map[types.Object]types.Object{}
			rootOf = func(e ast.Expr) types.Object {
				switch x := ast.Unparen(e).(type) {
				case *ast.Ident:
					o := info.ObjectOf(x)
					if globals[o] {
						return o
					}
					if g, ok := tainted[o]; ok {
						return g
					}
				case *ast.IndexExpr:
					return rootOf(x.X)
				case *ast.SelectorExpr:
					return rootOf(x.X)
				case *ast.StarExpr:
					return rootOf(x.X)
				case *ast.SliceExpr:
					return rootOf(x.X)
				}
				return nil
			}
			carriesOut := func(e ast.Expr) types.Object {
				t := info.TypeOf(e)
				if tup, ok := t.(*types.Tuple); ok && tup.Len() > 0 {
					t = tup.At(0).Type() // v, ok := m[k]
				}
				if t == nil || !holdsSlice(t, 0) {
					return nil
				}
				return rootOf(e)
			}
			// locals that receive such a value (two rounds are enough for x := g[k]; y := x)
			for round := 0; round < 2; round++ {
				ast.Inspect(fd.Body, func(n ast.Node) bool {
					switch x := n.(type) {
					case *ast.AssignStmt:
						if len(x.Rhs) == 1 && len(x.Lhs) >= 1 {
							if g := carriesOut(x.Rhs[0]); g != nil {
								if id, ok := ast.Unparen(x.Lhs[0]).(*ast.Ident); ok && id.Name != "_" {
									if o := info.ObjectOf(id); o != nil && !globals[o] {
										tainted[o] = g
									}
								}
							}
						}
					case *ast.RangeStmt:
						if g := rootOf(x.X); g != nil && x.Value != nil {
							if id, ok := x.Value.(*ast.Ident); ok && holdsSlice(info.TypeOf(id), 0) {
								tainted[info.ObjectOf(id)] = g
							}
						}
					}
					return true
				})
			}
			ast.Inspect(fd.Body, func(n ast.Node) bool {
				switch x := n.(type) {
				case *ast.ReturnStmt:
					for _, r := range x.Results {
						if g := carriesOut(r); g != nil {
							report(fd.Name.Name, g, "returns "+wire.Canon(r), r.Pos())
						}
					}
				case *ast.AssignStmt:
					for i, r := range x.Rhs {
						if i >= len(x.Lhs) {
							break
						}
						g := carriesOut(r)
						if g == nil {
							continue
						}
						switch l := ast.Unparen(x.Lhs[i]).(type) {
						case *ast.SelectorExpr, *ast.IndexExpr, *ast.StarExpr:
							if rootOf(l) == nil {
								report(fd.Name.Name, g, "stores "+wire.Canon(r)+" in "+wire.Canon(l), r.Pos())
							}
						}
					}
				case *ast.CallExpr:
					fn := wire.Canon(x.Fun)
					if info.Types[x.Fun].IsType() || fn == "len" || fn == "cap" {
						return true
					}
					// the searching and comparing functions of bytes, strings,
					// slices and utf8 whose result carries no slice only read
					// their operands: bytes.HasSuffix(tok, blockEnd)
					if cal := load.Callee(info, x); cal != nil && cal.Pkg() != nil {
						switch cal.Pkg().Path() {
						case "bytes", "strings", "slices", "unicode/utf8":
							if sig, ok := cal.Type().(*types.Signature); ok && sig.Recv() == nil {
								plain := true
								for k := 0; k < sig.Results().Len(); k++ {
									if holdsSlice(sig.Results().At(k).Type(), 0) {
										plain = false
									}
								}
								if plain && !strings.HasPrefix(cal.Name(), "Sort") && cal.Name() != "Reverse" {
									return true
								}
							}
						}
					}
					for i, a := range x.Args {
						g := carriesOut(a)
						if g == nil {
							continue
						}
						if fn == "copy" && i == 1 {
							continue
						}
						if fn == "append" && i == len(x.Args)-1 && x.Ellipsis.IsValid() && i > 0 {
							continue
						}
						report(fd.Name.Name, g, "hands "+wire.Canon(a)+" to "+fn, a.Pos())
					}
				}
				return true
			})
		}
	}
	return nVars
}

func sharedSlicesStayHome(c *core.Ctx, p *load.Prog) {
	for _, pkg := range []*packages.Package{p.Bebop(), p.Iohelp()} {
		if pkg == nil {
			continue
		}
		n := scanSharedSlices(pkg.TypesInfo, pkg.Types, pkg.Syntax, func(fn string, v types.Object, how string, pos token.Pos) {
			c.Check("R2d", fn+" does not hand out a slice kept in the package-level "+v.Name(), p.Pos(pos), false,
				fn+" "+how+", a value that carries a slice whose backing array lives in the package-level variable "+v.Name()+": every call gets the same array, so what one caller appends onto or writes through shows up in the results of the others, and concurrent calls race")
		})
		c.Count("package_level_values_carrying_slices", n)
	}
	// R2e: a value built once for the whole package (a package-level variable
	// initialised by a call) that holds function literals: a literal that
	// returns a variable of its builder which carries a slice returns the same
	// backing array to every caller, for the life of the process
	// (`tk := token{concrete: []byte(text)}; add(func() token { return tk })`)
	for _, pkg := range []*packages.Package{p.Bebop(), p.Iohelp()} {
		if pkg == nil {
			continue
		}
		info := pkg.TypesInfo
		for _, f := range pkg.Syntax {
			for _, d := range f.Decls {
				gd, ok := d.(*ast.GenDecl)
				if !ok || gd.Tok != token.VAR {
					continue
				}
				for _, sp := range gd.Specs {
					vs, ok := sp.(*ast.ValueSpec)
					if !ok {
						continue
					}
					for i, val := range vs.Values {
						call, ok := ast.Unparen(val).(*ast.CallExpr)
						if !ok || i >= len(vs.Names) {
							continue
						}
						cal := load.Callee(info, call)
						if cal == nil || cal.Pkg() != pkg.Types {
							continue
						}
						bd := p.Decl(cal)
						if bd == nil || bd.Body == nil {
							continue
						}
						ast.Inspect(bd.Body, func(n ast.Node) bool {
							lit, ok := n.(*ast.FuncLit)
							if !ok {
								return true
							}
							ast.Inspect(lit.Body, func(k ast.Node) bool {
								ret, ok := k.(*ast.ReturnStmt)
								if !ok {
									return true
								}
								for _, r := range ret.Results {
									id, ok := ast.Unparen(r).(*ast.Ident)
									if !ok {
										continue
									}
									o, ok := info.ObjectOf(id).(*types.Var)
									if !ok || !holdsSlice(o.Type(), 0) {
										continue
									}
									// declared in the builder, outside the literal
									if o.Pos() >= bd.Body.Pos() && o.Pos() < bd.Body.End() && !(o.Pos() >= lit.Pos() && o.Pos() < lit.End()) {
										c.Check("R2e", "a function kept in the package-level "+vs.Names[i].Name+" does not return a slice-carrying variable of its builder ("+id.Name+")", p.Pos(ret.Pos()), false,
											vs.Names[i].Name+" is built once by "+cal.Name()+"; the function literal it keeps returns "+id.Name+", a variable of "+cal.Name()+" that carries a slice: every call, from every goroutine, gets the same backing array, and an append onto it by one caller (Format appends to a `[` token's text) is seen by all")
									}
								}
								return true
							})
							return true
						})
					}
				}
			}
		}
	}
	c.Check("R2d", "no slice kept in package-level storage is handed out (scan complete)", "package bebop, iohelp", true, "")
	f, info, err := typeCheckFixture(c, "sharedslice")
	if err != nil {
		c.Undecide("positive control fixture sharedslice: %v", err)
		return
	}
	tpkg := info.Defs[f.Name]
	_ = tpkg
	var fpkg *types.Package
	for _, o := range info.Defs {
		if o != nil && o.Pkg() != nil {
			fpkg = o.Pkg()
			break
		}
	}
	hits := map[string]bool{}
	if fpkg != nil {
		scanSharedSlices(info, fpkg, []*ast.File{f}, func(fn string, v types.Object, how string, pos token.Pos) { hits[fn] = true })
	}
	for _, want := range []string{"lookup", "viaLocal", "intoState"} {
		c.Check("R2d", "positive control: "+want+" is recognised", "fixtures/sharedslice/fx.go", hits[want], "the rule no longer matches the shape it is meant to find")
	}
	for _, not := range []string{"kindOf", "cloned", "measured", "searched"} {
		c.Check("R2d", "positive control: "+not+" is not reported", "fixtures/sharedslice/fx.go", !hits[not], "")
	}
}

// onceInitBodies: the function literals handed to Do of a package-level
// sync.Once in fd.
func onceInitBodies(info *types.Info, fd *ast.FuncDecl, isGlobal func(ast.Expr) (string, bool)) []*ast.FuncLit {
	var out []*ast.FuncLit
	ast.Inspect(fd.Body, func(n ast.Node) bool {
		call, ok := n.(*ast.CallExpr)
		if !ok || len(call.Args) != 1 {
			return true
		}
		sel, ok := ast.Unparen(call.Fun).(*ast.SelectorExpr)
		if !ok || sel.Sel.Name != "Do" {
			return true
		}
		if _, isG := isGlobal(sel.X); !isG {
			return true
		}
		t := info.TypeOf(sel.X)
		if pt, isP := t.(*types.Pointer); isP {
			t = pt.Elem()
		}
		nt, ok := t.(*types.Named)
		if !ok || nt.Obj().Pkg() == nil || nt.Obj().Pkg().Path() != "sync" || nt.Obj().Name() != "Once" {
			return true
		}
		if fl, ok := ast.Unparen(call.Args[0]).(*ast.FuncLit); ok {
			out = append(out, fl)
		}
		return true
	})
	return out
}
