package rules

import (
	"fmt"
	"go/ast"
	"go/types"
	"sort"
	"strings"

	"bebopverif/internal/core"
	"bebopverif/internal/geneval"
	"bebopverif/internal/genfacts"
	"bebopverif/internal/load"
	"bebopverif/internal/wire"

	"golang.org/x/tools/go/cfg"
)

func init() { register("C18", checkC18) }

func checkC18(c *core.Ctx) {
	c.Explainf("C18 (decided clauses). R1 worklist discipline in File.Generate: imports are appended to the worklist only past the miss edge of the `imported[path]` test and the path is marked imported on that path, so every file's imports are expanded once and the loop is bounded by the number of distinct paths. R2: the directory an import path is joined to depends on the worklist element (the importing file), not on a value computed once from the root file. R3 DFS discipline in dgraph.findCycle: the node is pushed on the stack on entry and popped on every non-cycle exit, the cycle test consults the stack before recursing, and nodes already fully explored are not descended into again (otherwise shared sub-graphs are re-walked exponentially). R4: both import modes cover every definition kind of File (combined mode appends every slice-typed field of File but Imports; separate mode namespaces and appends every record/enum kind), and FindCycle runs iff the mode is separate, before any output is written. R5: a graph edge is added for every import occurrence, before the de-duplication `continue`. R6: the generator's source, folded by the evaluator over an import scenario (root -> sub/a.bop -> b.bop next to a) served from a virtual file system, opens each file relative to its importer, and in both modes the emitted file type-checks; combined mode declares every type the imported files define. NOT decided: 'exactly when cyclic' for files without go_package (node \"\"); wire equivalence with the inlined schema (C01-C03 on the concatenation).")
	p := loadRepo(c)
	if p == nil {
		return
	}
	pkg := p.Bebop()
	info := pkg.TypesInfo
	gen := p.FuncDecl(pkg, "File.Generate")
	if gen == nil {
		c.Undecide("File.Generate not found")
		return
	}
	// the worklist loop: for i := 0; i < len(imports); i++
	var loop *ast.ForStmt
	ast.Inspect(gen.Body, func(n ast.Node) bool {
		f, ok := n.(*ast.ForStmt)
		if ok && loop == nil && f.Cond != nil && strings.Contains(wire.Canon(f.Cond), "len(imports)") {
			loop = f
		}
		return loop == nil
	})
	if loop == nil {
		c.Undecide("the import worklist loop of File.Generate was not found")
		return
	}
	// positions of the interesting statements inside the loop body
	idx := map[string]int{"miss": -1, "append": -1, "mark": -1, "edge": -1, "join": -1}
	var joinCall *ast.CallExpr
	var elemVar types.Object
	for i, s := range loop.Body.List {
		src := strings.Join(strings.Fields(srcOf(p, s)), " ")
		switch {
		case strings.Contains(src, "filepath.Join("):
			idx["join"] = i
			ast.Inspect(s, func(n ast.Node) bool {
				if call, ok := n.(*ast.CallExpr); ok && wire.Canon(call.Fun) == "filepath.Join" {
					joinCall = call
				}
				return true
			})
		case strings.HasPrefix(src, "if _, ok := imported[") && strings.Contains(src, "continue"):
			idx["miss"] = i
		case strings.Contains(src, "imports = append(imports,"):
			idx["append"] = i
		case strings.HasPrefix(src, "imported[") && strings.Contains(src, "] = "):
			idx["mark"] = i
		case strings.Contains(src, ".AddEdge("):
			idx["edge"] = i
		}
		if as, ok := s.(*ast.AssignStmt); ok && len(as.Lhs) == 1 && len(as.Rhs) == 1 {
			if ix, ok := as.Rhs[0].(*ast.IndexExpr); ok && wire.Canon(ix.X) == "imports" {
				if id, ok := as.Lhs[0].(*ast.Ident); ok {
					elemVar = info.ObjectOf(id)
				}
			}
		}
	}
	pos := p.Pos(loop.Pos())
	c.Check("R1", "sub-imports are queued only past the already-imported test", pos, idx["miss"] >= 0 && idx["append"] > idx["miss"], fmt.Sprintf("statement order in the worklist loop: %v", idx))
	c.Check("R1", "an expanded path is marked imported", pos, idx["mark"] > idx["miss"] && idx["miss"] >= 0, fmt.Sprintf("statement order in the worklist loop: %v", idx))
	c.Check("R5", "a graph edge is added for every import occurrence", pos, idx["edge"] >= 0 && idx["miss"] > idx["edge"], "AddEdge must run before the de-duplication `continue`, or a package imported twice contributes one edge only")
	// R2
	if joinCall == nil || len(joinCall.Args) < 2 || elemVar == nil {
		c.Undecide("import path construction not recognised (filepath.Join / worklist element)")
	} else {
		dependsOnElem := false
		ast.Inspect(joinCall.Args[0], func(n ast.Node) bool {
			if id, ok := n.(*ast.Ident); ok && info.ObjectOf(id) == elemVar {
				dependsOnElem = true
			}
			return true
		})
		c.Check("R2", "an import is resolved relative to the importing file", p.Pos(joinCall.Pos()), dependsOnElem,
			"the directory joined with the import path ("+wire.Canon(joinCall.Args[0])+") is computed once from the root file: an import inside a file of another directory is looked up in the wrong place")
	}
	// ---- R4
	fileT, _ := pkg.Types.Scope().Lookup("File").(*types.TypeName)
	if fileT == nil {
		c.Undecide("type File not found")
		return
	}
	st := fileT.Type().Underlying().(*types.Struct)
	var defSlices []string
	for i := 0; i < st.NumFields(); i++ {
		f := st.Field(i)
		if sl, ok := f.Type().Underlying().(*types.Slice); ok {
			if _, isStruct := sl.Elem().Underlying().(*types.Struct); isStruct {
				defSlices = append(defSlices, f.Name())
			}
		}
	}
	sort.Strings(defSlices)
	c.Count("file_definition_slices", len(defSlices))
	c.Floor("file_definition_slices", 5)
	comb := caseBody(gen, "ImportGenerationModeCombined")
	sep := caseBody(gen, "ImportGenerationModeSeparate")
	if comb == nil || sep == nil {
		c.Undecide("the import mode switch of File.Generate was not found")
	} else {
		combSrc := ""
		for _, s := range comb {
			combSrc += srcOf(p, s)
		}
		sepSrc := ""
		for _, s := range sep {
			sepSrc += srcOf(p, s)
		}
		for _, f := range defSlices {
			c.Check("R4", "combined mode inlines imported "+f, p.Pos(gen.Pos()), strings.Contains(combSrc, "f."+f+" = append(f."+f+", imp."+f+"...)"), "definitions of this kind in an imported file are missing from the combined output")
			if f == "Consts" {
				continue // separate mode leaves constants in their own package
			}
			c.Check("R4", "separate mode makes imported "+f+" available under their package name", p.Pos(gen.Pos()),
				strings.Contains(sepSrc, "range imp."+f) && strings.Contains(sepSrc, "f."+f+" = append(f."+f+","), "definitions of this kind in an imported file cannot be referenced")
		}
	}
	genSrc := srcOf(p, gen.Body)
	iCycle := strings.Index(genSrc, ".FindCycle()")
	iFirstWrite := strings.Index(genSrc, "writeLine(w,")
	guard := strings.Contains(strings.Join(strings.Fields(genSrc), " "), "if settings.ImportGenerationMode == ImportGenerationModeSeparate { if err := importGraph.FindCycle(); err != nil { return err } }")
	c.Check("R4", "import cycles are searched in separate mode, before any output", p.Pos(gen.Pos()), guard && iCycle >= 0 && iCycle < iFirstWrite, "")

	// ---- R6 import scenario, folded by the generator evaluator
	importScenarioRules(c, p)
	// ---- R3 DFS discipline
	ig := p.Pkgs[load.Mod+"/internal/importgraph"]
	if ig == nil {
		c.Undecide("package importgraph not loaded")
		return
	}
	fc := p.FuncDecl(ig, "dgraph.findCycle")
	if fc == nil {
		c.Undecide("dgraph.findCycle not found")
		return
	}
	var rng *ast.RangeStmt
	pushAt, popAt, rngAt := -1, -1, -1
	for i, s := range fc.Body.List {
		src := strings.Join(strings.Fields(srcOf(p, s)), " ")
		if strings.HasPrefix(src, "stack[from] =") {
			pushAt = i
		}
		if strings.HasPrefix(src, "delete(stack, from)") {
			popAt = i
		}
		if r, ok := s.(*ast.RangeStmt); ok {
			rng = r
			rngAt = i
		}
	}
	fpos := p.Pos(fc.Pos())
	c.Check("R3", "findCycle pushes the node before exploring its edges", fpos, pushAt >= 0 && rngAt > pushAt, "")
	c.Check("R3", "findCycle pops the node on the non-cycle exit", fpos, popAt > rngAt && rngAt >= 0, "a node left on the stack makes every later path through it look like a cycle")
	// path rule: from the push, every `return nil` is reached through the pop
	if f := buildCFG(p, ig, fc); f != nil {
		var start *cfg.Block
		startIdx := 0
		for _, b := range f.g.Blocks {
			for i, n := range b.Nodes {
				if strings.HasPrefix(strings.Join(strings.Fields(srcOf(p, n)), " "), "stack[from] =") {
					start, startIdx = b, i+1
				}
			}
		}
		okPath := start != nil
		var bad []string
		if start != nil {
			f.reach(start, startIdx, func(n ast.Node) bool {
				return strings.HasPrefix(strings.Join(strings.Fields(srcOf(p, n)), " "), "delete(stack, from)")
			}, func(r *ast.ReturnStmt, path []*cfg.Block) {
				if r != nil && lastResultIsNil(r) {
					okPath = false
					bad = append(bad, p.Pos(r.Pos()))
				}
			})
		}
		c.Check("R3", "every non-cycle return of findCycle pops the node first", fpos, okPath, fmt.Sprintf("`return nil` at %v is reachable from the push without delete(stack, from): the node stays on the stack and the next path through it is reported as a cycle", bad))
	}
	if rng == nil {
		c.Undecide("findCycle has no edge loop")
		return
	}
	stackTest, recurse, visitedSkip := -1, -1, -1
	for i, s := range rng.Body.List {
		src := strings.Join(strings.Fields(srcOf(p, s)), " ")
		if strings.Contains(src, "stack[to]") && strings.Contains(src, "return") {
			stackTest = i
		}
		if strings.Contains(src, "visited[to]") && strings.Contains(src, "continue") {
			visitedSkip = i
		}
		if strings.Contains(src, "d.findCycle(to,") {
			recurse = i
		}
	}
	c.Check("R3", "findCycle tests the stack before recursing", fpos, stackTest >= 0 && recurse > stackTest, "")
	c.Check("R3", "findCycle does not descend into nodes already explored", fpos, visitedSkip >= 0 && recurse > visitedSkip && visitedSkip > stackTest,
		"visited is written but never consulted during the descent: a node reachable along k paths is explored k times, which is exponential on layered diamond-shaped import graphs")
	// the outer loop skips visited start nodes
	if top := p.FuncDecl(ig, "dgraph.FindCycle"); top != nil {
		src := strings.Join(strings.Fields(srcOf(p, top.Body)), " ")
		c.Check("R3", "FindCycle starts a search from every unvisited node", p.Pos(top.Pos()), strings.Contains(src, "if _, ok := visited[node]; ok { continue }") && strings.Contains(src, "d.findCycle(node, stack, visited,"), "")
	}
}

// importScenarioRules folds File.Generate over root.bop -> sub/a.bop -> b.bop
// (b lies next to a) with the import files served from a virtual file system,
// in both modes, and checks: the paths opened are relative to the importer;
// the emitted root file type-checks (against separately generated imported
// packages in separate mode); combined mode declares every imported record.
func importScenarioRules(c *core.Ctx, p *load.Prog) {
	g, err := genfacts.NewGen(p)
	if err != nil {
		c.Undecide("generator evaluator: %v", err)
		return
	}
	g.U.AddImportTypes()
	all := geneval.AllOptions()
	n := 0
	for _, combined := range []bool{false, true} {
		for _, o := range []geneval.Options{all[0], all[9]} {
			ir := g.GenerateImports(o, combined)
			n++
			mode := "separate"
			if combined {
				mode = "combined"
			}
			pos := "gen.go (File.Generate)"
			if ir.Root.EvalErr != nil {
				c.Undecide("import scenario (%s): %v", mode, ir.Root.EvalErr)
				continue
			}
			want := []string{genfacts.ImpAPath, genfacts.ImpBPath}
			c.Check("R6", "import scenario ("+mode+"): files are opened relative to their importer", pos, fmt.Sprint(ir.Opened) == fmt.Sprint(want),
				fmt.Sprintf("opened %v, expected %v (b.bop is imported by sub/a.bop and lies next to it)", ir.Opened, want))
			c.Check("R6", "import scenario ("+mode+"): Generate succeeds", pos, ir.Root.GenErr == "", "Generate returned: "+ir.Root.GenErr)
			if ir.Root.GenErr != "" {
				continue
			}
			msg := ""
			ok := ir.Root.ParseErr == nil && len(ir.Root.TypeErrs) == 0
			if ir.Root.ParseErr != nil {
				msg = ir.Root.ParseErr.Error()
			} else if len(ir.Root.TypeErrs) > 0 {
				msg = ir.Root.TypeErrs[0].Msg + " — " + ir.Root.Line(ir.Root.TypeErrs[0].Pos)
			}
			c.Check("R6", "import scenario ("+mode+"): the emitted file type-checks", pos, ok, "options "+o.String()+": "+msg)
			if combined && ir.Root.Pkg != nil {
				for _, name := range []string{"ISt", "IMs", "IUn", "IUb", "IBs", "IEn", "RS", "RM"} {
					obj := ir.Root.Pkg.Scope().Lookup(genfacts.GoTypeName(name, o))
					c.Check("R6", "combined mode declares imported type "+name, pos, obj != nil, "the single file combined mode emits does not declare a type an imported file defines")
				}
			}
		}
	}
	c.Count("import_scenarios", n)
	c.Floor("import_scenarios", 4)
}
