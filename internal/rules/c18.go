package rules

import (
	"fmt"
	"go/ast"
	"go/token"
	"go/types"
	"sort"

	"bebopverif/internal/core"
	"bebopverif/internal/geneval"
	"bebopverif/internal/genfacts"
	"bebopverif/internal/load"
	"bebopverif/internal/wire"

	"golang.org/x/tools/go/cfg"
	"golang.org/x/tools/go/packages"
)

func init() { register("C18", checkC18) }

func checkC18(c *core.Ctx) {
	c.Explainf("C18 (decided clauses). R1 worklist discipline in File.Generate: imports are appended to the worklist only past the miss edge of the `imported[path]` test and the path is marked imported on that path, so every file's imports are expanded once and the loop is bounded by the number of distinct paths. R2: the directory an import path is joined to depends on the worklist element (the importing file), not on a value computed once from the root file. R2 also: no map in the worklist loop is keyed by the import string as written (only by the joined path). R2c: the key of the set of files already expanded is not glued together from strings (+, Sprintf, strings.Join) without cleaning: one spelling per file. R3f: AddEdge stores every edge it is given, unconditionally. R3e: whatever the form of the search, the set whose membership reports a cycle never gains the target of an edge inside the edge loop (a node is on the path when it is entered, not when it is queued: otherwise a diamond is reported as a cycle). R3 DFS discipline in dgraph.findCycle: the node is pushed on the stack on entry and popped on every non-cycle exit, the cycle test consults the stack before recursing, and nodes already fully explored are not descended into again (otherwise shared sub-graphs are re-walked exponentially). R4: both import modes cover every definition kind of File (combined mode appends every slice-typed field of File but Imports; separate mode namespaces and appends every record/enum kind), and FindCycle runs iff the mode is separate, before any output is written. R5: a graph edge is added for every import occurrence, before the de-duplication `continue`. R6: the generator's source, folded by the evaluator over an import scenario (root -> sub/a.bop -> deep/b.bop -> c.bop, each next to its importer) served from a virtual file system, opens each file relative to its importer, and in both modes the emitted file type-checks; combined mode declares every type the imported files define. NOT decided: 'exactly when cyclic' for files without go_package (node \"\"); wire equivalence with the inlined schema (C01-C03 on the concatenation).")
	p := loadRepo(c)
	if p == nil {
		return
	}
	pkg := p.Bebop()
	info := pkg.TypesInfo
	gen := p.FuncDecl(pkg, "File.Generate")
	if gen == nil {
		c.Undecide("File.Generate not found")
		return
	}
	// the worklist loop: `for i := 0; i < len(W); i++` whose body appends to W
	var loop *ast.ForStmt
	var work types.Object
	host := gen // the function that holds the worklist loop: Generate or a helper it calls
	for _, cand := range declClosure(p, pkg, gen, 2) {
		if loop != nil {
			break
		}
		candFd := cand
		ast.Inspect(cand.Body, func(n ast.Node) bool {
			f, ok := n.(*ast.ForStmt)
			if !ok || loop != nil || f.Cond == nil {
				return loop == nil
			}
			// the condition measures the worklist: i < len(W), len(W) > 0, len(W) != 0
			var id *ast.Ident
			ast.Inspect(f.Cond, func(k ast.Node) bool {
				if call, isC := k.(*ast.CallExpr); isC && wire.Canon(call.Fun) == "len" && len(call.Args) == 1 {
					if i, isI := ast.Unparen(call.Args[0]).(*ast.Ident); isI {
						id = i
					}
				}
				return true
			})
			if id == nil {
				return true
			}
			w := info.ObjectOf(id)
			grows := false
			ast.Inspect(f.Body, func(m ast.Node) bool {
				if as, ok := m.(*ast.AssignStmt); ok && len(as.Lhs) == 1 && len(as.Rhs) == 1 {
					if l, ok := as.Lhs[0].(*ast.Ident); ok && info.ObjectOf(l) == w {
						if ap, ok := as.Rhs[0].(*ast.CallExpr); ok && wire.Canon(ap.Fun) == "append" {
							grows = true
						}
					}
				}
				return true
			})
			if grows {
				loop, work = f, w
				host = candFd
			}
			return loop == nil
		})
	}
	if loop == nil {
		// even so: a loop over a list of import strings (in Generate, a helper or
		// a closure) that appends to a slice of Generate's, with a `continue`
		// ahead of the append, does not queue every import — and the edge of an
		// import is added when its element is processed (R5). A file marked as
		// seen when it is *queued* loses the edge of its second import.
		for _, cand := range declClosure(p, pkg, gen, 2) {
			ast.Inspect(cand.Body, func(n ast.Node) bool {
				rs, ok := n.(*ast.RangeStmt)
				if !ok {
					return true
				}
				sl, ok := info.TypeOf(rs.X).Underlying().(*types.Slice)
				if !ok {
					return true
				}
				if b, ok := sl.Elem().Underlying().(*types.Basic); !ok || b.Info()&types.IsString == 0 {
					return true
				}
				appendAt := -1
				for j, st := range rs.Body.List {
					if as, ok := st.(*ast.AssignStmt); ok && len(as.Lhs) == 1 && len(as.Rhs) == 1 {
						l, isId := as.Lhs[0].(*ast.Ident)
						ap, isCall := as.Rhs[0].(*ast.CallExpr)
						if isId && isCall && wire.Canon(ap.Fun) == "append" && len(ap.Args) >= 1 && wire.Canon(ap.Args[0]) == l.Name {
							if st, ok := info.TypeOf(l).Underlying().(*types.Slice); ok {
								if _, isStruct := st.Elem().Underlying().(*types.Struct); isStruct {
									appendAt = j
									break
								}
							}
						}
					}
				}
				if appendAt < 0 {
					return true
				}
				for _, st := range rs.Body.List[:appendAt] {
					ast.Inspect(st, func(k ast.Node) bool {
						if br, ok := k.(*ast.BranchStmt); ok && (br.Tok == token.CONTINUE || br.Tok == token.BREAK) {
							c.Check("R5", "every import of a file just read is queued", p.Pos(br.Pos()), false,
								"the `"+br.Tok.String()+"` at "+p.Pos(br.Pos())+" leaves the cycle of the loop over a file's imports before the import is queued: the edge of an import statement is added when its worklist element is processed, so an import that is not queued (a file already seen) contributes no edge and a cycle through it is not reported")
						}
						return true
					})
				}
				return true
			})
		}
		c.Undecide("the import worklist loop of File.Generate was not found")
		importScenarioRules(c, p)
		return
	}
	_ = host
	// positions of the interesting statements inside the loop body
	idx := map[string]int{"miss": -1, "append": -1, "mark": -1, "edge": -1, "join": -1}
	var joinCall *ast.CallExpr
	var elemVar, seen types.Object
	// the de-duplication test: if _, ok := M[k]; ok { continue }
	for i, st := range loop.Body.List {
		ifs, ok := st.(*ast.IfStmt)
		if !ok || ifs.Init == nil || len(ifs.Body.List) == 0 {
			continue
		}
		as, ok := ifs.Init.(*ast.AssignStmt)
		if !ok || len(as.Lhs) != 2 || len(as.Rhs) != 1 {
			continue
		}
		ix, ok := ast.Unparen(as.Rhs[0]).(*ast.IndexExpr)
		if !ok {
			continue
		}
		if _, isMap := info.TypeOf(ix.X).Underlying().(*types.Map); !isMap {
			continue
		}
		if br, ok := ifs.Body.List[len(ifs.Body.List)-1].(*ast.BranchStmt); ok && br.Tok == token.CONTINUE && wire.Canon(ifs.Cond) == wire.Canon(as.Lhs[1]) {
			if id, ok := ast.Unparen(ix.X).(*ast.Ident); ok {
				seen = info.ObjectOf(id)
				idx["miss"] = i
			}
		}
	}
	// the same test in two statements: v, ok := M[k] … if ok { …; continue }
	lookupAt := -1
	if idx["miss"] < 0 {
		var okVar types.Object
		for i, st := range loop.Body.List {
			if as, ok := st.(*ast.AssignStmt); ok && len(as.Lhs) == 2 && len(as.Rhs) == 1 && okVar == nil {
				if ix, ok := ast.Unparen(as.Rhs[0]).(*ast.IndexExpr); ok {
					if _, isMap := info.TypeOf(ix.X).Underlying().(*types.Map); isMap {
						if id, ok := ast.Unparen(ix.X).(*ast.Ident); ok {
							if okId, ok := as.Lhs[1].(*ast.Ident); ok && okId.Name != "_" {
								okVar = info.ObjectOf(okId)
								seen = info.ObjectOf(id)
								lookupAt = i
							}
						}
					}
				}
				continue
			}
			if ifs, ok := st.(*ast.IfStmt); ok && okVar != nil && idx["miss"] < 0 && len(ifs.Body.List) > 0 {
				if cid, ok := ast.Unparen(ifs.Cond).(*ast.Ident); ok && info.ObjectOf(cid) == okVar {
					if br, ok := ifs.Body.List[len(ifs.Body.List)-1].(*ast.BranchStmt); ok && br.Tok == token.CONTINUE {
						idx["miss"] = i
					}
				}
			}
		}
		if idx["miss"] < 0 {
			seen, lookupAt = nil, -1
		}
	}
	for i, st := range loop.Body.List {
		ast.Inspect(st, func(n ast.Node) bool {
			switch x := n.(type) {
			case *ast.CallExpr:
				if cal := load.Callee(info, x); cal != nil {
					if cal.Pkg() != nil && cal.Pkg().Path() == "path/filepath" && cal.Name() == "Join" && joinCall == nil {
						joinCall = x
						idx["join"] = i
					}
					if cal.Name() == "AddEdge" && idx["edge"] < 0 {
						idx["edge"] = i
					}
				}
			case *ast.AssignStmt:
				if len(x.Lhs) == 1 && len(x.Rhs) == 1 {
					if l, ok := x.Lhs[0].(*ast.Ident); ok && info.ObjectOf(l) == work {
						if ap, ok := x.Rhs[0].(*ast.CallExpr); ok && wire.Canon(ap.Fun) == "append" && idx["append"] < 0 {
							idx["append"] = i
						}
					}
					if lix, ok := x.Lhs[0].(*ast.IndexExpr); ok && seen != nil {
						if id, ok := ast.Unparen(lix.X).(*ast.Ident); ok && info.ObjectOf(id) == seen && idx["mark"] < 0 {
							idx["mark"] = i
						}
					}
					if rix, ok := x.Rhs[0].(*ast.IndexExpr); ok {
						if id, ok := ast.Unparen(rix.X).(*ast.Ident); ok && info.ObjectOf(id) == work {
							if l, ok := x.Lhs[0].(*ast.Ident); ok {
								elemVar = info.ObjectOf(l)
							}
						}
					}
				}
			}
			return true
		})
	}
	pos := p.Pos(loop.Pos())
	c.Check("R1", "sub-imports are queued only past the already-imported test", pos, idx["miss"] >= 0 && idx["append"] > idx["miss"], fmt.Sprintf("statement order in the worklist loop: %v", idx))
	markAfter := idx["miss"]
	if lookupAt >= 0 {
		markAfter = lookupAt // marked on the miss side of a lookup made ahead of the `continue`
	}
	c.Check("R1", "an expanded path is marked imported", pos, idx["mark"] > markAfter && idx["miss"] >= 0, fmt.Sprintf("statement order in the worklist loop: %v", idx))
	// every way round the loop that is not an error return adds the edge: an
	// AddEdge statement of the loop body itself precedes each `continue`, or the
	// block that ends in the `continue` adds the edge itself first
	isAddEdge := func(st ast.Stmt) bool {
		es, ok := st.(*ast.ExprStmt)
		if !ok {
			return false
		}
		call, ok := es.X.(*ast.CallExpr)
		if !ok {
			return false
		}
		cal := load.Callee(info, call)
		return cal != nil && cal.Name() == "AddEdge"
	}
	firstEdge := -1
	for i, st := range loop.Body.List {
		if isAddEdge(st) && firstEdge < 0 {
			firstEdge = i
		}
	}
	edgeOK := firstEdge >= 0
	whyEdge := "no AddEdge statement in the body of the worklist loop"
	for i, st := range loop.Body.List {
		var walk func(n ast.Node, blocks []*ast.BlockStmt)
		walk = func(n ast.Node, blocks []*ast.BlockStmt) {
			switch x := n.(type) {
			case *ast.ForStmt, *ast.RangeStmt, *ast.FuncLit:
				return
			case *ast.BlockStmt:
				for j, inner := range x.List {
					if br, ok := inner.(*ast.BranchStmt); ok && br.Tok == token.CONTINUE && br.Label == nil {
						covered := firstEdge >= 0 && firstEdge < i
						for _, prev := range x.List[:j] {
							if isAddEdge(prev) {
								covered = true
							}
						}
						if !covered {
							edgeOK = false
							whyEdge = "the `continue` at " + p.Pos(br.Pos()) + " is reached without AddEdge"
						}
					}
					walk(inner, append(blocks, x))
				}
				return
			case *ast.IfStmt:
				walk(x.Body, blocks)
				if x.Else != nil {
					walk(x.Else, blocks)
				}
				return
			case *ast.SwitchStmt:
				for _, cc := range x.Body.List {
					walk(&ast.BlockStmt{List: cc.(*ast.CaseClause).Body}, blocks)
				}
				return
			}
		}
		walk(st, nil)
	}
	// R5b: the edge of an import statement is added when its worklist element
	// is processed, so every import of the file just read must be queued: in
	// the loop over that file's Imports the append to the worklist is a
	// statement of the loop body itself with nothing before it that can leave
	// the cycle (a `continue` for files already read drops the edge of the
	// second import of a file, and a cycle through it is not seen)
	{
		found, queuedAll, why := false, true, ""
		ast.Inspect(loop.Body, func(n ast.Node) bool {
			rs, ok := n.(*ast.RangeStmt)
			if !ok {
				return true
			}
			sel, ok := ast.Unparen(rs.X).(*ast.SelectorExpr)
			if !ok || sel.Sel.Name != "Imports" || typeBaseName(info.TypeOf(sel.X)) != "File" {
				return true
			}
			found = true
			appendAt := -1
			for j, st := range rs.Body.List {
				if as, ok := st.(*ast.AssignStmt); ok && len(as.Lhs) == 1 && len(as.Rhs) == 1 {
					if l, ok := as.Lhs[0].(*ast.Ident); ok && info.ObjectOf(l) == work {
						if ap, ok := as.Rhs[0].(*ast.CallExpr); ok && wire.Canon(ap.Fun) == "append" {
							appendAt = j
							break
						}
					}
				}
			}
			if appendAt < 0 {
				queuedAll = false
				why = "the loop over the imports of the file just read at " + p.Pos(rs.Pos()) + " has no append to the worklist among its own statements"
				return false
			}
			for _, st := range rs.Body.List[:appendAt] {
				ast.Inspect(st, func(k ast.Node) bool {
					switch y := k.(type) {
					case *ast.FuncLit:
						return false
					case *ast.BranchStmt:
						queuedAll = false
						why = "the `" + y.Tok.String() + "` at " + p.Pos(y.Pos()) + " leaves the cycle before the import is queued"
					case *ast.ReturnStmt:
						// an error return ends Generate: nothing is dropped silently
					}
					return true
				})
			}
			return false
		})
		if !found {
			c.Undecide("File.Generate: no loop over the Imports of the file just read inside the worklist loop: how sub-imports are queued is not recognised")
		} else {
			c.Check("R5", "every import of a file just read is queued", pos, queuedAll, why+": the edge of an import statement is added when its worklist element is processed, so an import that is not queued contributes no edge and a cycle through it is not reported")
		}
	}
	c.Check("R5", "a graph edge is added for every import occurrence", pos, edgeOK, whyEdge+": AddEdge must run on every way round the loop (before the de-duplication `continue`, or in its own block), or a package imported twice contributes one edge only and a cycle through the second import is not seen")
	// R2c: the set that tells files already expanded from new ones is keyed by
	// a path in one spelling per file. A key glued together from directory and
	// import string keeps "./", "../" and doubled separators as written, so one
	// file reached by two spellings is expanded — and its definitions emitted —
	// twice. Reported only where the gluing is seen; any other unknown
	// construction leaves R2 UNDECIDED below.
	if seen != nil {
		ast.Inspect(loop.Body, func(n ast.Node) bool {
			ix, ok := n.(*ast.IndexExpr)
			if !ok {
				return true
			}
			mid, ok := ast.Unparen(ix.X).(*ast.Ident)
			if !ok || info.ObjectOf(mid) != seen {
				return true
			}
			key := ast.Unparen(ix.Index)
			kid, isId := key.(*ast.Ident)
			glued := func(e ast.Expr) bool {
				e = ast.Unparen(e)
				if b, ok := e.(*ast.BinaryExpr); ok && b.Op == token.ADD {
					if t, ok := info.TypeOf(b).Underlying().(*types.Basic); ok && t.Info()&types.IsString != 0 {
						return true
					}
				}
				if call, ok := e.(*ast.CallExpr); ok {
					if cal := load.Callee(info, call); cal != nil && cal.Pkg() != nil {
						q := cal.Pkg().Path() + "." + cal.Name()
						return q == "fmt.Sprintf" || q == "fmt.Sprint" || q == "strings.Join"
					}
				}
				return false
			}
			bad := glued(key)
			if isId {
				ast.Inspect(loop.Body, func(m ast.Node) bool {
					if as, ok := m.(*ast.AssignStmt); ok && len(as.Lhs) == len(as.Rhs) {
						for i, l := range as.Lhs {
							if lid, ok := l.(*ast.Ident); ok && info.ObjectOf(lid) == info.ObjectOf(kid) && glued(as.Rhs[i]) {
								bad = true
							}
						}
					}
					return true
				})
			}
			c.Check("R2c", "the set of files already expanded is keyed by a path in one spelling per file", pos, !bad,
				"the key "+wire.Canon(ix.Index)+" ("+p.Pos(ix.Pos())+") is glued together from strings and not cleaned (filepath.Join / Clean): the same file imported as \"z.bop\" and \"./z.bop\" is expanded twice and its definitions are emitted twice")
			return true
		})
	}
	// R2
	if joinCall == nil || len(joinCall.Args) < 2 || elemVar == nil {
		c.Undecide("import path construction not recognised (filepath.Join / worklist element)")
	} else {
		// values derived from the worklist element inside the loop body
		derived := map[types.Object]bool{elemVar: true}
		var dep func(e ast.Expr) bool
		dep = func(e ast.Expr) bool {
			found := false
			ast.Inspect(e, func(n ast.Node) bool {
				if id, ok := n.(*ast.Ident); ok && derived[info.ObjectOf(id)] {
					found = true
				}
				return !found
			})
			return found
		}
		for changed := true; changed; {
			changed = false
			ast.Inspect(loop.Body, func(n ast.Node) bool {
				if as, ok := n.(*ast.AssignStmt); ok && as.Tok == token.DEFINE && len(as.Rhs) == 1 {
					if dep(as.Rhs[0]) {
						for _, l := range as.Lhs {
							if id, ok := l.(*ast.Ident); ok && id.Name != "_" && !derived[info.ObjectOf(id)] {
								derived[info.ObjectOf(id)] = true
								changed = true
							}
						}
					}
				}
				return true
			})
		}
		// R2b: a map that tells files apart is keyed by the joined path, never by
		// the import string as it is written in the importing file
		raw := wire.Canon(joinCall.Args[len(joinCall.Args)-1])
		nKeyed := 0
		ast.Inspect(loop.Body, func(n ast.Node) bool {
			ix, ok := n.(*ast.IndexExpr)
			if !ok {
				return true
			}
			if _, isMap := info.TypeOf(ix.X).Underlying().(*types.Map); !isMap {
				return true
			}
			key := wire.Canon(ix.Index)
			// a local that is just the raw string
			if id, ok := ast.Unparen(ix.Index).(*ast.Ident); ok {
				ast.Inspect(loop.Body, func(m ast.Node) bool {
					if as, ok := m.(*ast.AssignStmt); ok && len(as.Lhs) == len(as.Rhs) {
						for i, l := range as.Lhs {
							if lid, ok := l.(*ast.Ident); ok && info.ObjectOf(lid) == info.ObjectOf(id) && wire.Canon(as.Rhs[i]) == raw {
								key = raw
							}
						}
					}
					return true
				})
			}
			if key == raw {
				nKeyed++
				c.Check("R2", fmt.Sprintf("the map %s is keyed by the resolved path of the imported file", wire.Canon(ix.X)), p.Pos(ix.Pos()), false,
					"it is indexed by "+raw+", the import string as written: two files in different directories that spell an import alike (\"./types.bop\") are taken for one and the same file")
			}
			return true
		})
		_ = nKeyed
		// every directory a path is joined to inside the loop comes from the
		// element being expanded (the importing file), at every level
		nJoin := 0
		ast.Inspect(loop.Body, func(n ast.Node) bool {
			call, ok := n.(*ast.CallExpr)
			if !ok {
				return true
			}
			cal := load.Callee(info, call)
			if cal == nil || cal.Pkg() == nil || cal.Pkg().Path() != "path/filepath" || cal.Name() != "Join" || len(call.Args) < 2 {
				return true
			}
			nJoin++
			c.Check("R2", fmt.Sprintf("an import is resolved relative to the importing file (Join #%d)", nJoin), p.Pos(call.Pos()), dep(call.Args[0]),
				"the directory joined with the import path ("+wire.Canon(call.Args[0])+") does not come from the file being expanded: an import inside a file of another directory is looked up in the wrong place")
			return true
		})
	}
	// ---- R4
	fileT, _ := pkg.Types.Scope().Lookup("File").(*types.TypeName)
	if fileT == nil {
		c.Undecide("type File not found")
		return
	}
	st := fileT.Type().Underlying().(*types.Struct)
	var defSlices []string
	for i := 0; i < st.NumFields(); i++ {
		f := st.Field(i)
		if sl, ok := f.Type().Underlying().(*types.Slice); ok {
			if _, isStruct := sl.Elem().Underlying().(*types.Struct); isStruct {
				defSlices = append(defSlices, f.Name())
			}
		}
	}
	sort.Strings(defSlices)
	c.Count("file_definition_slices", len(defSlices))
	c.Floor("file_definition_slices", 5)
	// the switch on the import mode: in Generate or in a helper it calls
	var comb, sep []ast.Stmt
	for _, d := range declClosure(p, pkg, gen, 2) {
		if cb, sp := caseBody(d, "ImportGenerationModeCombined"), caseBody(d, "ImportGenerationModeSeparate"); cb != nil && sp != nil {
			comb, sep = cb, sp
			break
		}
	}
	// appendsAndRanges: a package function that ranges over its parameter
	// `defs`, appends to its parameter `dst` and returns it
	appendsAndRanges := func(call *ast.CallExpr) (dst, defs int, ok bool) {
		cal := load.Callee(info, call)
		if cal == nil || cal.Pkg() != pkg.Types {
			return 0, 0, false
		}
		cd := p.Decl(cal)
		sig, _ := cal.Type().(*types.Signature)
		if cd == nil || cd.Body == nil || sig == nil {
			return 0, 0, false
		}
		paramIdx := func(e ast.Expr) int {
			id, isId := ast.Unparen(e).(*ast.Ident)
			if !isId {
				return -1
			}
			for i := 0; i < sig.Params().Len(); i++ {
				if info.ObjectOf(id) == types.Object(sig.Params().At(i)) {
					return i
				}
			}
			return -1
		}
		dst, defs = -1, -1
		returned := -1
		ast.Inspect(cd.Body, func(n ast.Node) bool {
			switch x := n.(type) {
			case *ast.RangeStmt:
				if i := paramIdx(x.X); i >= 0 {
					defs = i
				}
			case *ast.AssignStmt:
				if len(x.Lhs) == 1 && len(x.Rhs) == 1 {
					if ap, isC := x.Rhs[0].(*ast.CallExpr); isC && wire.Canon(ap.Fun) == "append" && len(ap.Args) >= 2 {
						if i := paramIdx(x.Lhs[0]); i >= 0 && paramIdx(ap.Args[0]) == i {
							dst = i
						}
					}
				}
			case *ast.ReturnStmt:
				if len(x.Results) == 1 {
					returned = paramIdx(x.Results[0])
				}
			}
			return true
		})
		return dst, defs, dst >= 0 && defs >= 0 && dst != defs && returned == dst
	}
	if comb == nil || sep == nil {
		c.Undecide("the import mode switch of File.Generate was not found")
	} else {
		// appendsTo[F]: `<File>.F = append(<File>.F, …)`; spreads[F]: the appended
		// operand is `<other File>.F...`; ranged[F]: a loop over `<File>.F`
		scan := func(stmts []ast.Stmt) (appendsTo, spreads, ranged map[string]bool) {
			appendsTo, spreads, ranged = map[string]bool{}, map[string]bool{}, map[string]bool{}
			for _, s := range stmts {
				ast.Inspect(s, func(n ast.Node) bool {
					switch x := n.(type) {
					case *ast.RangeStmt:
						if f := fileField(info, x.X); f != "" {
							ranged[f] = true
						}
					case *ast.AssignStmt:
						if len(x.Lhs) != 1 || len(x.Rhs) != 1 {
							return true
						}
						f := fileField(info, x.Lhs[0])
						ap, ok := x.Rhs[0].(*ast.CallExpr)
						if f != "" && ok {
							// <File>.F = helper(<File>.F, <other File>.F, …)
							if dst, defs, isH := appendsAndRanges(ap); isH && dst < len(ap.Args) && defs < len(ap.Args) &&
								fileField(info, ap.Args[dst]) == f && fileField(info, ap.Args[defs]) == f && wire.Canon(ap.Args[dst]) == wire.Canon(x.Lhs[0]) {
								appendsTo[f], ranged[f] = true, true
								return true
							}
						}
						if f == "" || !ok || wire.Canon(ap.Fun) != "append" || len(ap.Args) < 2 || fileField(info, ap.Args[0]) != f {
							return true
						}
						appendsTo[f] = true
						if ap.Ellipsis.IsValid() && fileField(info, ap.Args[1]) == f && wire.Canon(ap.Args[1]) != wire.Canon(ap.Args[0]) {
							spreads[f] = true
						}
					}
					return true
				})
			}
			return
		}
		_, cSpread, _ := scan(comb)
		sAppend, _, sRanged := scan(sep)
		for _, f := range defSlices {
			c.Check("R4", "combined mode inlines imported "+f, p.Pos(gen.Pos()), cSpread[f], "definitions of this kind in an imported file are missing from the combined output")
			if f == "Consts" {
				continue // separate mode leaves constants in their own package
			}
			c.Check("R4", "separate mode makes imported "+f+" available under their package name", p.Pos(gen.Pos()),
				sRanged[f] && sAppend[f], "definitions of this kind in an imported file cannot be referenced")
		}
	}
	// FindCycle runs under `if <settings>.ImportGenerationMode == ImportGenerationModeSeparate`,
	// its error is returned, and no output has been written yet; the test may
	// live in the helper that loads the imports
	var cyclePos, firstWrite token.Pos
	guard := false
	ast.Inspect(gen.Body, func(n ast.Node) bool {
		if call, ok := n.(*ast.CallExpr); ok {
			if cal := load.Callee(info, call); cal != nil && cal.Name() == "writeLine" && (firstWrite == 0 || call.Pos() < firstWrite) {
				firstWrite = call.Pos()
			}
		}
		return true
	})
	isFindCycle := func(e ast.Expr) bool {
		call, ok := ast.Unparen(e).(*ast.CallExpr)
		if !ok {
			return false
		}
		cal := load.Callee(info, call)
		return cal != nil && cal.Name() == "FindCycle"
	}
	for _, d := range declClosure(p, pkg, gen, 2) {
		d := d
		ast.Inspect(d.Body, func(n ast.Node) bool {
			x, ok := n.(*ast.IfStmt)
			if !ok {
				return true
			}
			be, ok := ast.Unparen(x.Cond).(*ast.BinaryExpr)
			if !ok || be.Op != token.EQL {
				return true
			}
			sel, ok := ast.Unparen(be.X).(*ast.SelectorExpr)
			if !ok || sel.Sel.Name != "ImportGenerationMode" || wire.Canon(be.Y) != "ImportGenerationModeSeparate" {
				return true
			}
			returned := false
			for _, st := range x.Body.List {
				switch y := st.(type) {
				case *ast.ReturnStmt:
					// return graph.FindCycle()
					if len(y.Results) == 1 && isFindCycle(y.Results[0]) {
						returned = true
					}
				case *ast.IfStmt:
					// if err := graph.FindCycle(); err != nil { return err }
					if as, isA := y.Init.(*ast.AssignStmt); isA && len(as.Rhs) == 1 && isFindCycle(as.Rhs[0]) && endsInReturn(y.Body) {
						if _, isErr := errNilTest(info, y.Cond); isErr && !lastResultIsNil(y.Body.List[len(y.Body.List)-1].(*ast.ReturnStmt)) {
							returned = true
						}
					}
				}
			}
			if !returned {
				return true
			}
			if d == gen {
				guard, cyclePos = true, x.Pos()
				return true
			}
			// in a helper: its call in Generate is what happens "before any output",
			// and the helper's error must leave Generate
			ast.Inspect(gen.Body, func(k ast.Node) bool {
				call, isC := k.(*ast.CallExpr)
				if !isC {
					return true
				}
				if cal := load.Callee(info, call); cal != nil && types.Object(cal) == info.ObjectOf(d.Name) {
					guard, cyclePos = true, call.Pos()
				}
				return true
			})
			return true
		})
	}
	c.Check("R4", "import cycles are searched in separate mode, before any output", p.Pos(gen.Pos()), guard && cyclePos < firstWrite && firstWrite != 0,
		"FindCycle must run when (and only when) the mode is separate, its error must be returned, and nothing may have been written before")

	// ---- R6 import scenario, folded by the generator evaluator
	importScenarioRules(c, p)
	// ---- R3 DFS discipline
	ig := p.Pkgs[load.Mod+"/internal/importgraph"]
	if ig == nil {
		c.Undecide("package importgraph not loaded")
		return
	}
	fc := p.FuncDecl(ig, "dgraph.findCycle")
	if fc == nil {
		c.Undecide("dgraph.findCycle not found")
		return
	}
	// parameters by role: the node (first string parameter), the stack and the
	// visited set (the two map parameters; the stack is the one deleted from)
	igInfo := ig.TypesInfo
	var node, stack, visited types.Object
	var maps []types.Object
	for _, f := range fc.Type.Params.List {
		for _, nm := range f.Names {
			o := igInfo.ObjectOf(nm)
			switch o.Type().Underlying().(type) {
			case *types.Map:
				maps = append(maps, o)
			case *types.Basic:
				if node == nil {
					node = o
				}
			}
		}
	}
	isDeleteOf := func(n ast.Node, m, k types.Object) bool {
		es, ok := n.(*ast.ExprStmt)
		if !ok {
			return false
		}
		call, ok := es.X.(*ast.CallExpr)
		if !ok || wire.Canon(call.Fun) != "delete" || len(call.Args) != 2 {
			return false
		}
		a, ok1 := ast.Unparen(call.Args[0]).(*ast.Ident)
		b, ok2 := ast.Unparen(call.Args[1]).(*ast.Ident)
		return ok1 && ok2 && (m == nil || igInfo.ObjectOf(a) == m) && igInfo.ObjectOf(b) == k
	}
	// R3f: AddEdge records every edge it is given: no path through it returns
	// without the store (an edge from a package to itself is a cycle of length
	// one and must reach the search like any other)
	if ae := p.FuncDecl(ig, "dgraph.AddEdge"); ae != nil {
		stores, early := 0, ""
		var stack []ast.Node
		ast.Inspect(ae.Body, func(n ast.Node) bool {
			if n == nil {
				stack = stack[:len(stack)-1]
				return true
			}
			stack = append(stack, n)
			switch x := n.(type) {
			case *ast.AssignStmt:
				for _, l := range x.Lhs {
					if ix, ok := ast.Unparen(l).(*ast.IndexExpr); ok {
						if _, isMap := igInfo.TypeOf(ix.X).Underlying().(*types.Map); isMap {
							stores++
							for _, a := range stack[:len(stack)-1] {
								switch a.(type) {
								case *ast.IfStmt, *ast.SwitchStmt, *ast.CaseClause:
									early = "the store of the edge at " + p.Pos(x.Pos()) + " is conditional"
								}
							}
						}
					}
				}
			case *ast.ReturnStmt:
				if stores == 0 {
					early = "AddEdge returns at " + p.Pos(x.Pos()) + " before the edge is stored"
				}
			}
			return true
		})
		if stores == 0 {
			c.Undecide("dgraph.AddEdge: no store into the adjacency map found")
		} else {
			c.Check("R3f", "AddEdge records every edge it is given", p.Pos(ae.Pos()), early == "",
				early+": an import that the graph never sees cannot be part of a reported cycle — a file importing itself (or two files of one go package importing each other) generates code that imports its own package")
		}
	} else {
		c.Undecide("dgraph.AddEdge not found")
	}
	// R3e, whatever the form of the search (recursive or with its own work
	// list): the set whose membership reports a cycle (`if _, ok := S[x]; ok
	// { return <path> }`) holds the nodes of the path being followed. It may
	// gain the node whose edges are being followed, never the target of an
	// edge inside the edge loop: a node marked when it is merely queued makes
	// a second edge to it (a diamond) look like a cycle.
	{
		var onPath types.Object
		ast.Inspect(fc.Body, func(n ast.Node) bool {
			ifs, ok := n.(*ast.IfStmt)
			if !ok || ifs.Init == nil || !endsInReturn(ifs.Body) || lastResultIsNil(ifs.Body.List[len(ifs.Body.List)-1].(*ast.ReturnStmt)) {
				return true
			}
			as, ok := ifs.Init.(*ast.AssignStmt)
			if !ok || len(as.Lhs) != 2 || len(as.Rhs) != 1 || wire.Canon(ifs.Cond) != wire.Canon(as.Lhs[1]) {
				return true
			}
			if ix, ok := ast.Unparen(as.Rhs[0]).(*ast.IndexExpr); ok {
				if id, ok := ast.Unparen(ix.X).(*ast.Ident); ok {
					if _, isMap := igInfo.TypeOf(id).Underlying().(*types.Map); isMap {
						onPath = igInfo.ObjectOf(id)
					}
				}
			}
			return true
		})
		if onPath != nil {
			bad := ""
			ast.Inspect(fc.Body, func(n ast.Node) bool {
				rs, ok := n.(*ast.RangeStmt)
				if !ok {
					return true
				}
				tgt, ok := rs.Value.(*ast.Ident)
				if !ok {
					return true
				}
				to := igInfo.ObjectOf(tgt)
				ast.Inspect(rs.Body, func(m ast.Node) bool {
					as, ok := m.(*ast.AssignStmt)
					if !ok || len(as.Lhs) != 1 {
						return true
					}
					ix, ok := ast.Unparen(as.Lhs[0]).(*ast.IndexExpr)
					if !ok {
						return true
					}
					a, ok1 := ast.Unparen(ix.X).(*ast.Ident)
					b, ok2 := ast.Unparen(ix.Index).(*ast.Ident)
					if ok1 && ok2 && igInfo.ObjectOf(a) == onPath && igInfo.ObjectOf(b) == to {
						bad = p.Pos(as.Pos())
					}
					return true
				})
				return true
			})
			c.Check("R3e", "findCycle puts a node on the path set when it is entered, not when an edge to it is seen", p.Pos(fc.Pos()), bad == "",
				"the edge loop stores the edge's target into the set that reports cycles (at "+bad+"): a node queued by one importer and reached again through a sibling is reported as an import cycle although the graph is a diamond")
		}
	}
	ast.Inspect(fc.Body, func(n ast.Node) bool {
		if es, ok := n.(*ast.ExprStmt); ok && isDeleteOf(es, nil, node) {
			a := ast.Unparen(es.X.(*ast.CallExpr).Args[0]).(*ast.Ident)
			stack = igInfo.ObjectOf(a)
		}
		return true
	})
	for _, m := range maps {
		if m != stack {
			visited = m
		}
	}
	if node != nil && len(maps) == 1 && stack == nil {
		colourDFS(c, p, ig, fc, node, maps[0])
		return
	}
	if node == nil || stack == nil || visited == nil || len(maps) != 2 {
		c.Undecide("findCycle: node / stack / visited parameters not recognised")
		return
	}
	isStoreOf := func(n ast.Node, m, k types.Object) bool {
		as, ok := n.(*ast.AssignStmt)
		if !ok || len(as.Lhs) != 1 {
			return false
		}
		ix, ok := as.Lhs[0].(*ast.IndexExpr)
		if !ok {
			return false
		}
		a, ok1 := ast.Unparen(ix.X).(*ast.Ident)
		b, ok2 := ast.Unparen(ix.Index).(*ast.Ident)
		return ok1 && ok2 && igInfo.ObjectOf(a) == m && igInfo.ObjectOf(b) == k
	}
	var rng *ast.RangeStmt
	pushAt, popAt, rngAt := -1, -1, -1
	for i, s := range fc.Body.List {
		if isStoreOf(s, stack, node) {
			pushAt = i
		}
		if isDeleteOf(s, stack, node) {
			popAt = i
		}
		if r, ok := s.(*ast.RangeStmt); ok {
			rng = r
			rngAt = i
		}
	}
	fpos := p.Pos(fc.Pos())
	c.Check("R3", "findCycle pushes the node before exploring its edges", fpos, pushAt >= 0 && rngAt > pushAt, "")
	c.Check("R3", "findCycle pops the node on the non-cycle exit", fpos, popAt > rngAt && rngAt >= 0, "a node left on the stack makes every later path through it look like a cycle")
	// path rule: from the push, every `return nil` is reached through the pop
	if f := buildCFG(p, ig, fc); f != nil {
		var start *cfg.Block
		startIdx := 0
		for _, b := range f.g.Blocks {
			for i, n := range b.Nodes {
				if isStoreOf(n, stack, node) {
					start, startIdx = b, i+1
				}
			}
		}
		okPath := start != nil
		var bad []string
		if start != nil {
			f.reach(start, startIdx, func(n ast.Node) bool {
				return isDeleteOf(n, stack, node)
			}, func(r *ast.ReturnStmt, path []*cfg.Block) {
				if r != nil && lastResultIsNil(r) {
					okPath = false
					bad = append(bad, p.Pos(r.Pos()))
				}
			})
		}
		c.Check("R3", "every non-cycle return of findCycle pops the node first", fpos, okPath, fmt.Sprintf("`return nil` at %v is reachable from the push without removing the node from the stack: the node stays on the stack and the next path through it is reported as a cycle", bad))
	}
	if rng == nil {
		c.Undecide("findCycle has no edge loop")
		return
	}
	var to types.Object
	if id, ok := rng.Value.(*ast.Ident); ok {
		to = igInfo.ObjectOf(id)
	}
	// membership test `if _, ok := M[to]; ok { <exit> }` as a direct statement of the loop
	memberTest := func(s ast.Stmt, m types.Object, exit func(*ast.BlockStmt) bool) bool {
		ifs, ok := s.(*ast.IfStmt)
		if !ok || ifs.Init == nil {
			return false
		}
		as, ok := ifs.Init.(*ast.AssignStmt)
		if !ok || len(as.Lhs) != 2 || len(as.Rhs) != 1 || wire.Canon(ifs.Cond) != wire.Canon(as.Lhs[1]) {
			return false
		}
		ix, ok := ast.Unparen(as.Rhs[0]).(*ast.IndexExpr)
		if !ok {
			return false
		}
		a, ok1 := ast.Unparen(ix.X).(*ast.Ident)
		b, ok2 := ast.Unparen(ix.Index).(*ast.Ident)
		return ok1 && ok2 && igInfo.ObjectOf(a) == m && igInfo.ObjectOf(b) == to && exit(ifs.Body)
	}
	endsInContinue := func(b *ast.BlockStmt) bool {
		if len(b.List) == 0 {
			return false
		}
		br, ok := b.List[len(b.List)-1].(*ast.BranchStmt)
		return ok && br.Tok == token.CONTINUE
	}
	stackTest, recurse, visitedSkip := -1, -1, -1
	for i, s := range rng.Body.List {
		if memberTest(s, stack, func(b *ast.BlockStmt) bool {
			return endsInReturn(b) && !lastResultIsNil(b.List[len(b.List)-1].(*ast.ReturnStmt))
		}) {
			stackTest = i
		}
		if memberTest(s, visited, endsInContinue) {
			visitedSkip = i
		}
		if recurse < 0 && containsCall(s, func(call *ast.CallExpr) bool {
			cal := load.Callee(igInfo, call)
			return cal != nil && types.Object(cal) == igInfo.ObjectOf(fc.Name)
		}) {
			recurse = i
		}
	}
	c.Check("R3", "findCycle tests the stack before recursing", fpos, stackTest >= 0 && recurse > stackTest, "")
	c.Check("R3", "findCycle does not descend into nodes already explored", fpos, visitedSkip >= 0 && recurse > visitedSkip && visitedSkip > stackTest,
		"visited is written but never consulted during the descent: a node reachable along k paths is explored k times, which is exponential on layered diamond-shaped import graphs")
	// the outer loop skips visited start nodes
	if top := p.FuncDecl(ig, "dgraph.FindCycle"); top != nil {
		skips, starts := false, false
		ast.Inspect(top.Body, func(n ast.Node) bool {
			r, ok := n.(*ast.RangeStmt)
			if !ok {
				return true
			}
			var nodeVar types.Object
			if id, ok := r.Value.(*ast.Ident); ok {
				nodeVar = igInfo.ObjectOf(id)
			}
			for _, s := range r.Body.List {
				if ifs, ok := s.(*ast.IfStmt); ok && ifs.Init != nil && endsInContinue(ifs.Body) {
					if as, ok := ifs.Init.(*ast.AssignStmt); ok && len(as.Rhs) == 1 {
						if ix, ok := ast.Unparen(as.Rhs[0]).(*ast.IndexExpr); ok {
							if k, ok := ast.Unparen(ix.Index).(*ast.Ident); ok && igInfo.ObjectOf(k) == nodeVar && nodeVar != nil {
								skips = true
							}
						}
					}
				}
				if containsCall(s, func(call *ast.CallExpr) bool {
					cal := load.Callee(igInfo, call)
					if cal == nil || types.Object(cal) != igInfo.ObjectOf(fc.Name) || len(call.Args) == 0 {
						return false
					}
					k, ok := ast.Unparen(call.Args[0]).(*ast.Ident)
					return ok && igInfo.ObjectOf(k) == nodeVar
				}) {
					starts = true
				}
			}
			return true
		})
		c.Check("R3", "FindCycle starts a search from every unvisited node", p.Pos(top.Pos()), skips && starts, fmt.Sprintf("skips visited start nodes: %v; starts findCycle from the loop's node: %v", skips, starts))
	}
}

// importScenarioRules folds File.Generate over root.bop -> sub/a.bop -> b.bop
// (b lies next to a) with the import files served from a virtual file system,
// in both modes, and checks: the paths opened are relative to the importer;
// the emitted root file type-checks (against separately generated imported
// packages in separate mode); combined mode declares every imported record.
func importScenarioRules(c *core.Ctx, p *load.Prog) {
	g, err := genfacts.NewGen(p)
	if err != nil {
		c.Undecide("generator evaluator: %v", err)
		return
	}
	g.U.AddImportTypes()
	all := geneval.AllOptions()
	n := 0
	for _, combined := range []bool{false, true} {
		for _, o := range []geneval.Options{all[0], all[9]} {
			ir := g.GenerateImports(o, combined)
			n++
			mode := "separate"
			if combined {
				mode = "combined"
			}
			pos := "gen.go (File.Generate)"
			if ir.Root.EvalErr != nil {
				c.Undecide("import scenario (%s): %v", mode, ir.Root.EvalErr)
				continue
			}
			if ir.DepErr != nil {
				c.Undecide("import scenario (%s): an imported package leaves the evaluator's subset: %v", mode, ir.DepErr)
				continue
			}
			want := []string{genfacts.ImpAPath, genfacts.ImpBPath, genfacts.ImpCPath}
			c.Check("R6", "import scenario ("+mode+"): files are opened relative to their importer", pos, fmt.Sprint(ir.Opened) == fmt.Sprint(want),
				fmt.Sprintf("opened %v, expected %v (sub/a.bop imports deep/b.bop, which imports c.bop lying next to it)", ir.Opened, want))
			c.Check("R6", "import scenario ("+mode+"): Generate succeeds", pos, ir.Root.GenErr == "", "Generate returned: "+ir.Root.GenErr)
			if ir.Root.GenErr != "" {
				continue
			}
			msg := ""
			ok := ir.Root.ParseErr == nil && len(ir.Root.TypeErrs) == 0
			if ir.Root.ParseErr != nil {
				msg = ir.Root.ParseErr.Error()
			} else if len(ir.Root.TypeErrs) > 0 {
				msg = ir.Root.TypeErrs[0].Msg + " — " + ir.Root.Line(ir.Root.TypeErrs[0].Pos)
			}
			c.Check("R6", "import scenario ("+mode+"): the emitted file type-checks", pos, ok, "options "+o.String()+": "+msg)
			if combined && ir.Root.Pkg != nil {
				for _, name := range []string{"ISt", "IMs", "IUn", "IUb", "IBs", "ICs", "IEn", "RS", "RM"} {
					obj := ir.Root.Pkg.Scope().Lookup(genfacts.GoTypeName(name, o))
					c.Check("R6", "combined mode declares imported type "+name, pos, obj != nil, "the single file combined mode emits does not declare a type an imported file defines")
				}
			}
		}
	}
	c.Count("import_scenarios", n)
	c.Floor("import_scenarios", 4)
}

// colourDFS: the same discipline (R3) for the three-colour formulation of the
// search: one map from node to state; the node is marked in-progress on entry
// and given another state on every non-cycle exit; an edge into an in-progress
// node returns the cycle; only unseen nodes are descended into.
func colourDFS(c *core.Ctx, p *load.Prog, ig *packages.Package, fc *ast.FuncDecl, node, state types.Object) {
	info := ig.TypesInfo
	fpos := p.Pos(fc.Pos())
	constOf := func(e ast.Expr) (string, bool) {
		tv := info.Types[e]
		if tv.Value == nil {
			return "", false
		}
		return tv.Value.ExactString(), true
	}
	// stores state[node] = <const>
	storeOf := func(n ast.Node) (string, bool) {
		as, ok := n.(*ast.AssignStmt)
		if !ok || len(as.Lhs) != 1 || len(as.Rhs) != 1 {
			return "", false
		}
		ix, ok := as.Lhs[0].(*ast.IndexExpr)
		if !ok {
			return "", false
		}
		a, ok1 := ast.Unparen(ix.X).(*ast.Ident)
		b, ok2 := ast.Unparen(ix.Index).(*ast.Ident)
		if !ok1 || !ok2 || info.ObjectOf(a) != state || info.ObjectOf(b) != node {
			return "", false
		}
		return constOf(as.Rhs[0])
	}
	inProg := ""
	pushAt, rngAt := -1, -1
	var rng *ast.RangeStmt
	for i, st := range fc.Body.List {
		if v, ok := storeOf(st); ok && inProg == "" && rng == nil {
			inProg, pushAt = v, i
		}
		if r, ok := st.(*ast.RangeStmt); ok && rng == nil {
			rng, rngAt = r, i
		}
	}
	c.Check("R3", "findCycle pushes the node before exploring its edges", fpos, pushAt >= 0 && rngAt > pushAt, "the node is not marked in-progress before its edges are followed")
	if rng == nil || inProg == "" {
		c.Undecide("findCycle (colour form): entry mark or edge loop not recognised")
		return
	}
	// every `return nil` after the push passes a store of a state other than in-progress
	if f := buildCFG(p, ig, fc); f != nil {
		var start *cfg.Block
		startIdx := 0
		for _, b := range f.g.Blocks {
			for i, n := range b.Nodes {
				if v, ok := storeOf(n); ok && v == inProg {
					start, startIdx = b, i+1
				}
			}
		}
		okPath := start != nil
		var bad []string
		if start != nil {
			f.reach(start, startIdx, func(n ast.Node) bool {
				v, ok := storeOf(n)
				return ok && v != inProg
			}, func(r *ast.ReturnStmt, path []*cfg.Block) {
				if r != nil && lastResultIsNil(r) {
					okPath = false
					bad = append(bad, p.Pos(r.Pos()))
				}
			})
		}
		c.Check("R3", "findCycle pops the node on the non-cycle exit", fpos, okPath, "a node left in-progress makes every later path through it look like a cycle")
		c.Check("R3", "every non-cycle return of findCycle pops the node first", fpos, okPath, fmt.Sprintf("`return nil` at %v is reachable with the node still marked in-progress", bad))
	}
	var to types.Object
	if id, ok := rng.Value.(*ast.Ident); ok {
		to = info.ObjectOf(id)
	}
	isStateOfTo := func(e ast.Expr) bool {
		ix, ok := ast.Unparen(e).(*ast.IndexExpr)
		if !ok {
			return false
		}
		a, ok1 := ast.Unparen(ix.X).(*ast.Ident)
		b, ok2 := ast.Unparen(ix.Index).(*ast.Ident)
		return ok1 && ok2 && info.ObjectOf(a) == state && info.ObjectOf(b) == to
	}
	recurses := func(n ast.Node) bool {
		return containsCall(n, func(call *ast.CallExpr) bool {
			cal := load.Callee(info, call)
			return cal != nil && types.Object(cal) == info.ObjectOf(fc.Name)
		})
	}
	cycleTest, guardedDescent := false, false
	// every value the state type has a constant for
	allStates := map[string]bool{}
	if mt, ok := state.Type().Underlying().(*types.Map); ok {
		if nt, ok := mt.Elem().(*types.Named); ok && nt.Obj().Pkg() != nil {
			sc := nt.Obj().Pkg().Scope()
			for _, nm := range sc.Names() {
				if k, ok := sc.Lookup(nm).(*types.Const); ok && types.Identical(k.Type(), nt) {
					allStates[k.Val().ExactString()] = true
				}
			}
		}
	}
	for si, st := range rng.Body.List {
		switch x := st.(type) {
		case *ast.SwitchStmt:
			if x.Tag == nil || !isStateOfTo(x.Tag) {
				continue
			}
			// a switch all of whose clauses for the seen states leave the
			// iteration, followed by the descent: only unseen nodes get there
			exits := map[string]bool{}
			hasDefault := false
			for _, cc := range x.Body.List {
				cl := cc.(*ast.CaseClause)
				if cl.List == nil {
					hasDefault = true
				}
				leaves := false
				if n := len(cl.Body); n > 0 {
					switch l := cl.Body[n-1].(type) {
					case *ast.ReturnStmt:
						leaves = true
					case *ast.BranchStmt:
						leaves = l.Tok == token.CONTINUE
					}
				}
				for _, e := range cl.List {
					if v, ok := constOf(e); ok && leaves {
						exits[v] = true
					}
				}
			}
			if !hasDefault && len(allStates) >= 2 {
				covered := true
				for v := range allStates {
					if v != "0" && !exits[v] {
						covered = false
					}
				}
				after := false
				for _, later := range rng.Body.List[si+1:] {
					if recurses(later) {
						after = true
					}
				}
				if covered && after && !exits["0"] {
					guardedDescent = true
				}
			}
			for _, cc := range x.Body.List {
				cl := cc.(*ast.CaseClause)
				var vals []string
				for _, e := range cl.List {
					if v, ok := constOf(e); ok {
						vals = append(vals, v)
					}
				}
				isInProg := len(vals) == 1 && vals[0] == inProg
				if isInProg && len(cl.Body) > 0 {
					if r, ok := cl.Body[len(cl.Body)-1].(*ast.ReturnStmt); ok && !lastResultIsNil(r) {
						cycleTest = true
					}
				}
				if recurses(cl) {
					// descent only for the zero (unseen) state
					guardedDescent = len(vals) == 1 && vals[0] == "0"
				}
			}
		case *ast.IfStmt:
			be, ok := ast.Unparen(x.Cond).(*ast.BinaryExpr)
			if !ok || !isStateOfTo(be.X) {
				continue
			}
			v, isC := constOf(be.Y)
			if !isC {
				continue
			}
			if be.Op == token.EQL && v == inProg && endsInReturn(x.Body) && !lastResultIsNil(x.Body.List[len(x.Body.List)-1].(*ast.ReturnStmt)) && !guardedDescent {
				cycleTest = true
			}
			if be.Op == token.EQL && v == "0" && recurses(x.Body) {
				guardedDescent = true
			}
			if be.Op == token.NEQ && v == "0" && len(x.Body.List) > 0 {
				if br, ok := x.Body.List[len(x.Body.List)-1].(*ast.BranchStmt); ok && br.Tok == token.CONTINUE {
					guardedDescent = true
				}
			}
		}
	}
	c.Check("R3", "findCycle tests the stack before recursing", fpos, cycleTest, "an edge into a node that is in progress must return the cycle")
	c.Check("R3", "findCycle does not descend into nodes already explored", fpos, guardedDescent,
		"the recursive call is not restricted to unseen nodes: a node reachable along k paths is explored k times, which is exponential on layered diamond-shaped import graphs")
	if top := p.FuncDecl(ig, "dgraph.FindCycle"); top != nil {
		skips, starts := false, false
		ast.Inspect(top.Body, func(n ast.Node) bool {
			r, ok := n.(*ast.RangeStmt)
			if !ok {
				return true
			}
			for _, st := range r.Body.List {
				if ifs, ok := st.(*ast.IfStmt); ok && len(ifs.Body.List) > 0 {
					if br, ok := ifs.Body.List[len(ifs.Body.List)-1].(*ast.BranchStmt); ok && br.Tok == token.CONTINUE {
						if be, ok := ast.Unparen(ifs.Cond).(*ast.BinaryExpr); ok && be.Op == token.NEQ {
							if v, isC := constOf(be.Y); isC && v == "0" {
								skips = true
							}
						}
					}
				}
				if recurses(st) {
					starts = true
				}
			}
			return true
		})
		c.Check("R3", "FindCycle starts a search from every unvisited node", p.Pos(top.Pos()), skips && starts, fmt.Sprintf("skips seen start nodes: %v; starts findCycle from the loop's node: %v", skips, starts))
	}
}
