package rules

import (
	"fmt"
	"go/ast"
	"go/token"
	"go/types"
	"sort"
	"strings"

	"bebopverif/internal/core"
	"bebopverif/internal/load"
	"bebopverif/internal/wire"

	"golang.org/x/tools/go/cfg"
	"golang.org/x/tools/go/packages"
)

// Loop-progress rule (C10/R9 for the parser and tokenizer, C16/R7 for the
// formatter): "does not hang" is not decidable as such, but its structural
// cause in this code is: a loop that can go round without taking anything
// from the input. For every `for` loop that is not a range loop, every cycle
// of the control-flow graph through the loop must
//
//   (a) consume input on balance: the calls that take a token or a byte
//       (tokenReader.Next/next/readByte, bufio's ReadRune/ReadByte/ReadBytes/Discard(k),
//       and package functions summarised to consume on every successful
//       return) minus the calls that give one back (UnNext, unreadByte,
//       UnreadRune, UnreadByte) is at least 1 on the cheapest path; or
//   (b) advance a counter the loop condition bounds (`for j < len(x) { … j++ }`,
//       three-clause loops): the cheapest path increments it, nothing else
//       assigns it.
//
// The input is finite and the reader eventually reports EOF (an assumption
// about io.Reader), so (a) bounds the number of iterations by the input length.

type progressEngine struct {
	p         *load.Prog
	pkg       *packages.Package
	info      *types.Info
	summaries map[*types.Func]int
	active    map[*types.Func]bool
	unknown   map[string]bool
	// the loop counter under analysis and the function that holds the loop:
	// inside that function "the counter itself" is a lower bound for itself
	counter   types.Object
	counterFd *ast.FuncDecl
}

const progressInf = 1 << 20

func newProgressEngine(p *load.Prog, pkg *packages.Package) *progressEngine {
	return &progressEngine{p: p, pkg: pkg, info: pkg.TypesInfo, summaries: map[*types.Func]int{}, active: map[*types.Func]bool{}, unknown: map[string]bool{}}
}

func isTokenReaderType(t types.Type) bool {
	return t != nil && strings.HasSuffix(t.String(), ".tokenReader")
}

// callWeight: tokens/bytes taken (+) or given back (-) by one call.
func (e *progressEngine) callWeight(call *ast.CallExpr) int {
	callee := load.Callee(e.info, call)
	if callee == nil {
		return 0
	}
	sig, _ := callee.Type().(*types.Signature)
	if sig != nil && sig.Recv() != nil {
		rt := sig.Recv().Type().String()
		switch {
		case strings.HasSuffix(rt, ".tokenReader"):
			switch apiRole(callee.Name()) {
			case "Next", "next", "readByte":
				return 1
			case "UnNext", "unreadByte":
				return -1
			}
		case strings.HasSuffix(rt, "bufio.Reader"):
			switch callee.Name() {
			case "ReadRune", "ReadByte", "ReadBytes", "ReadString", "ReadSlice", "ReadLine":
				return 1
			case "UnreadRune", "UnreadByte":
				return -1
			case "Discard":
				// Discard(k) of a positive constant takes k bytes, or fails
				if len(call.Args) == 1 {
					if k, isC := constInt(e.info, call.Args[0]); isC && k > 0 {
						return k
					}
				}
			}
			return 0
		}
	}
	if callee.Pkg() != e.pkg.Types {
		return 0
	}
	// package functions that work on the token reader
	takes := false
	if sig != nil {
		if sig.Recv() != nil && isTokenReaderType(sig.Recv().Type()) {
			takes = true
		}
		for i := 0; i < sig.Params().Len(); i++ {
			if isTokenReaderType(sig.Params().At(i).Type()) {
				takes = true
			}
		}
	}
	if !takes {
		return 0
	}
	if callee.Name() == "expectNext" && sig.Variadic() {
		// one token per kind listed at the call site, provided each iteration of
		// expectNext's loop takes one (checked once, below)
		if e.summary(callee) >= 0 && !call.Ellipsis.IsValid() {
			return len(call.Args) - (sig.Params().Len() - 1)
		}
		return 0
	}
	return e.summary(callee)
}

// unknownAmount finds, in n or in the package functions called from it (two
// levels), a (*bufio.Reader).Discard whose argument is not a constant.
func (e *progressEngine) unknownAmount(n ast.Node) token.Pos {
	var at token.Pos
	var visit func(n ast.Node, depth int)
	visit = func(n ast.Node, depth int) {
		ast.Inspect(n, func(m ast.Node) bool {
			call, ok := m.(*ast.CallExpr)
			if !ok || at.IsValid() {
				return !at.IsValid()
			}
			callee := load.Callee(e.info, call)
			if callee == nil {
				// a call through a function value (a field, a parameter, a table
				// entry) that is handed the reader: what it takes is not known
				if tv, ok := e.info.Types[call.Fun]; ok && !tv.IsType() && !tv.IsBuiltin() {
					if _, isSig := tv.Type.Underlying().(*types.Signature); isSig {
						for _, a := range call.Args {
							if t := e.info.TypeOf(a); t != nil && (isTokenReaderType(t) || strings.HasSuffix(t.String(), "bufio.Reader")) {
								at = call.Pos()
							}
						}
					}
				}
				return true
			}
			if sig, _ := callee.Type().(*types.Signature); sig != nil && sig.Recv() != nil && strings.HasSuffix(sig.Recv().Type().String(), "bufio.Reader") && callee.Name() == "Discard" {
				if len(call.Args) == 1 {
					if _, isC := constInt(e.info, call.Args[0]); !isC {
						at = call.Pos()
					}
				}
				return true
			}
			if callee.Pkg() == e.pkg.Types && depth < 2 {
				if fd := e.p.Decl(callee); fd != nil && fd.Body != nil {
					visit(fd.Body, depth+1)
				}
			}
			return true
		})
	}
	visit(n, 0)
	return at
}

func (e *progressEngine) nodeWeight(n ast.Node) int {
	w := 0
	ast.Inspect(n, func(m ast.Node) bool {
		switch x := m.(type) {
		case *ast.FuncLit:
			return false
		case *ast.CallExpr:
			w += e.callWeight(x)
		}
		return true
	})
	return w
}

// summary: the least net consumption over the paths from the entry of fn to a
// return that does not report an error (an error return ends the caller's
// loop in this code base: every caller returns on err != nil).
func (e *progressEngine) summary(fn *types.Func) int {
	if v, ok := e.summaries[fn]; ok {
		return v
	}
	if e.active[fn] {
		return 0 // recursion: assume nothing
	}
	fd := e.p.Decl(fn)
	if fd == nil || fd.Body == nil {
		return 0
	}
	e.active[fn] = true
	defer delete(e.active, fn)
	f := buildCFG(e.p, e.pkg, fd)
	if f == nil || len(f.g.Blocks) == 0 {
		e.summaries[fn] = 0
		return 0
	}
	sig := fn.Type().(*types.Signature)
	errLast := sig.Results().Len() > 0 && isErrorType(sig.Results().At(sig.Results().Len()-1).Type())
	dist := e.relax(f.g.Blocks[0], nil, func(b *cfg.Block) bool { return true })
	best := progressInf
	for _, b := range f.g.Blocks {
		d, ok := dist[b]
		if !ok {
			continue
		}
		// weight up to and including each return statement of the block
		acc := d
		for _, n := range b.Nodes {
			acc += e.nodeWeight(n)
			if r, ok := n.(*ast.ReturnStmt); ok {
				if errLast && len(r.Results) > 0 {
					last := ast.Unparen(r.Results[len(r.Results)-1])
					if _, isCall := last.(*ast.CallExpr); isCall {
						continue // readError(...), fmt.Errorf(...), tr.Err(): an error return
					}
				}
				if acc < best {
					best = acc
				}
			}
		}
		if len(b.Succs) == 0 && (len(b.Nodes) == 0 || !isReturn(b.Nodes[len(b.Nodes)-1])) && b.Live {
			if acc < best {
				best = acc
			}
		}
	}
	if best == progressInf {
		best = 0
	}
	if best < -1 {
		best = -1
	}
	e.summaries[fn] = best
	return best
}

func isReturn(n ast.Node) bool { _, ok := n.(*ast.ReturnStmt); return ok }

// relax computes, for every block reachable from start through blocks accepted
// by `in`, the least accumulated weight on entering it (Bellman-Ford; weights
// may be negative). Edges into `stop` are not followed. A block whose distance
// still improves after |blocks| rounds lies on a net-negative cycle and gets
// -progressInf.
func (e *progressEngine) relax(start, stop *cfg.Block, in func(*cfg.Block) bool) map[*cfg.Block]int {
	dist := map[*cfg.Block]int{start: 0}
	weight := map[*cfg.Block]int{}
	w := func(b *cfg.Block) int {
		if v, ok := weight[b]; ok {
			return v
		}
		s := 0
		for _, n := range b.Nodes {
			s += e.nodeWeight(n)
		}
		weight[b] = s
		return s
	}
	order := []*cfg.Block{start}
	seen := map[*cfg.Block]bool{start: true}
	for i := 0; i < len(order); i++ {
		for _, s := range order[i].Succs {
			if s == stop || seen[s] || !in(s) {
				continue
			}
			seen[s] = true
			order = append(order, s)
		}
	}
	for round := 0; round <= len(order)+1; round++ {
		changed := false
		for _, b := range order {
			d, ok := dist[b]
			if !ok {
				continue
			}
			out := d + w(b)
			for _, s := range b.Succs {
				if s == stop || !seen[s] {
					continue
				}
				if old, ok := dist[s]; !ok || out < old {
					dist[s] = out
					changed = true
				}
			}
		}
		if !changed {
			return dist
		}
		if round == len(order)+1 {
			for _, b := range order {
				if dist[b] < -len(order) {
					dist[b] = -progressInf
				}
			}
		}
	}
	return dist
}

// loopCycleMin: the least net weight of a path that leaves the loop's
// condition block, runs through the body and comes back to it.
func (e *progressEngine) loopCycleMin(f *fnCFG, loop *ast.ForStmt, weightOf func(ast.Node) int) (min int, ok bool, via *cfg.Block) {
	var head, body *cfg.Block
	for _, b := range f.g.Blocks {
		if b.Stmt == ast.Stmt(loop) {
			switch b.Kind {
			case cfg.KindForLoop:
				head = b
			case cfg.KindForBody:
				body = b
			}
		}
	}
	if body == nil {
		return 0, false, nil
	}
	if head == nil {
		// `for { … }` without condition or post statement: the body block is the head
		head = body
	}
	inLoop := func(b *cfg.Block) bool {
		for _, n := range b.Nodes {
			if n.Pos() < loop.Pos() || n.End() > loop.End() {
				return false
			}
		}
		if b.Stmt == ast.Stmt(loop) && b.Kind == cfg.KindForDone {
			return false
		}
		return true
	}
	blockW := func(b *cfg.Block) int {
		s := 0
		for _, n := range b.Nodes {
			s += weightOf(n)
		}
		return s
	}
	// distances on entering each block, starting at the head
	dist := map[*cfg.Block]int{head: 0}
	order := []*cfg.Block{head}
	seen := map[*cfg.Block]bool{head: true}
	for i := 0; i < len(order); i++ {
		for _, s := range order[i].Succs {
			if seen[s] || !inLoop(s) {
				continue
			}
			seen[s] = true
			order = append(order, s)
		}
	}
	best := progressInf
	for round := 0; round <= len(order)+1; round++ {
		changed := false
		for _, b := range order {
			d, ok := dist[b]
			if !ok {
				continue
			}
			out := d + blockW(b)
			for _, s := range b.Succs {
				if s == head {
					if out < best {
						best, via = out, b
						changed = true
					}
					continue
				}
				if !seen[s] {
					continue
				}
				if old, ok := dist[s]; !ok || out < old {
					dist[s] = out
					changed = true
				}
			}
		}
		if !changed {
			break
		}
		if round == len(order)+1 {
			return -progressInf, true, via
		}
	}
	if best == progressInf {
		// the body never returns to the head: not a loop in effect
		return progressInf, true, nil
	}
	return best, true, via
}

func checkLoopProgress(c *core.Ctx, p *load.Prog, rule string, files ...string) {
	pkg := p.Bebop()
	info := pkg.TypesInfo
	e := newProgressEngine(p, pkg)
	nLoops := 0
	type rec struct {
		key, pos, msg string
		ok            bool
	}
	var recs []rec
	for _, fd := range funcsOfFiles(p, pkg, files...) {
		f := buildCFG(p, pkg, fd)
		if f == nil {
			continue
		}
		name := fd.Name.Name
		if fd.Recv != nil && len(fd.Recv.List) == 1 {
			name = strings.TrimPrefix(wire.Canon(fd.Recv.List[0].Type), "*") + "." + name
		}
		k := 0
		ast.Inspect(fd.Body, func(n ast.Node) bool {
			if _, isLit := n.(*ast.FuncLit); isLit {
				return false
			}
			loop, ok := n.(*ast.ForStmt)
			if !ok {
				return true
			}
			nLoops++
			k++
			key := fmt.Sprintf("%s: loop #%d makes progress on every cycle", name, k)
			// (a) consumption
			consumed, okc, via := e.loopCycleMin(f, loop, e.nodeWeight)
			if !okc {
				c.Undecide("%s: loop at %s not found in the control-flow graph", name, p.Pos(loop.Pos()))
				return true
			}
			if consumed >= 1 {
				recs = append(recs, rec{key: key, pos: p.Pos(loop.Pos()), ok: true})
				return true
			}
			// (b) a bounded counter
			if v, down := boundedCounter(info, loop); v != nil {
				e.counter, e.counterFd = v, fd
				assignedElsewhere := false
				step, back := token.INC, token.DEC
				stepAssign := token.ADD_ASSIGN
				if down {
					step, back = token.DEC, token.INC
					stepAssign = token.SUB_ASSIGN
				}
				_ = back
				incWeight := func(n ast.Node) int {
					w := 0
					ast.Inspect(n, func(m ast.Node) bool {
						switch x := m.(type) {
						case *ast.FuncLit:
							return false
						case *ast.IncDecStmt:
							if id, ok := x.X.(*ast.Ident); ok && info.ObjectOf(id) == v {
								if x.Tok == step {
									w++
								} else {
									assignedElsewhere = true
								}
							}
						case *ast.AssignStmt:
							for li, l := range x.Lhs {
								if id, ok := l.(*ast.Ident); ok && info.ObjectOf(id) == v {
									if x.Tok == stepAssign {
										if tv := info.Types[x.Rhs[0]]; tv.Value != nil && tv.Value.String() != "0" && !strings.HasPrefix(tv.Value.String(), "-") {
											w++
											continue
										}
									}
									// v = F(…v…) where F returns an index that is never below
									// the one it was given: the counter does not go back
									if !down && len(x.Rhs) == 1 && e.nonDecreasingCall(x.Rhs[0], li, v) {
										continue
									}
									// v = X + c, c >= 1, X never below v: strictly forward
									if !down && x.Tok == token.ASSIGN && len(x.Lhs) == len(x.Rhs) {
										if be, isB := ast.Unparen(x.Rhs[li]).(*ast.BinaryExpr); isB && be.Op == token.ADD {
											if cst, isC := constInt(info, be.Y); isC && cst >= 1 && e.atLeast(be.X, v, fd, 0) {
												w++
												continue
											}
											if cst, isC := constInt(info, be.X); isC && cst >= 1 && e.atLeast(be.Y, v, fd, 0) {
												w++
												continue
											}
										}
									}
									assignedElsewhere = true
								}
							}
						}
						return true
					})
					return w
				}
				inc, _, _ := e.loopCycleMin(f, loop, incWeight)
				if inc >= 1 && !assignedElsewhere {
					recs = append(recs, rec{key: key, pos: p.Pos(loop.Pos()), ok: true})
					return true
				}
			}
			// a call that takes a number of bytes the rule cannot evaluate
			// (Discard(n), n computed): how much a cycle consumes is not known
			if at := e.unknownAmount(loop.Body); at.IsValid() {
				c.Undecide("%s: loop at %s consumes input through a call at %s whose amount is not evaluated (Discard(n) with n computed, or a function value that is handed the reader): whether every cycle takes at least one token or byte is not decided", name, p.Pos(loop.Pos()), p.Pos(at))
				return true
			}
			where := ""
			if via != nil && len(via.Nodes) > 0 {
				where = " (cheapest way round ends at " + p.Pos(via.Nodes[len(via.Nodes)-1].Pos()) + ")"
			}
			recs = append(recs, rec{key: key, pos: p.Pos(loop.Pos()), ok: false,
				msg: fmt.Sprintf("a path through the loop body returns to the loop head having taken %d token(s)/byte(s) from the input on balance%s, and no counter bounded by the loop condition is advanced on it: on an input that drives this path the loop never ends", consumed, where)})
			return true
		})
	}
	sort.Slice(recs, func(i, j int) bool { return recs[i].key < recs[j].key })
	for _, r := range recs {
		c.Check(rule, r.key, r.pos, r.ok, r.msg)
	}
	c.Count("loops_checked_for_progress", nLoops)
}

// boundedCounter: the variable v of a loop condition `v < e`, `v <= e`, `v != e`
// (counting up) or `v > e`, `v >= e` (counting down, second result true). A
// loop without a condition is bounded by a guard that is a statement of its
// body: `if v >= e { return … }` / `{ break }`.
func boundedCounter(info *types.Info, loop *ast.ForStmt) (types.Object, bool) {
	var cond ast.Expr
	negate := false
	if loop.Cond != nil {
		cond = loop.Cond
	} else {
		for _, st := range loop.Body.List {
			is, ok := st.(*ast.IfStmt)
			if !ok || is.Init != nil || len(is.Body.List) == 0 {
				continue
			}
			switch last := is.Body.List[len(is.Body.List)-1].(type) {
			case *ast.ReturnStmt:
				cond, negate = is.Cond, true
			case *ast.BranchStmt:
				if last.Tok == token.BREAK && last.Label == nil {
					cond, negate = is.Cond, true
				}
			}
			if cond != nil {
				break
			}
			// a statement that may `continue` before the guard is reached
			// takes the guard off some cycle
			skips := false
			ast.Inspect(st, func(n ast.Node) bool {
				switch x := n.(type) {
				case *ast.FuncLit, *ast.ForStmt, *ast.RangeStmt:
					return false
				case *ast.BranchStmt:
					if x.Tok == token.CONTINUE || x.Tok == token.GOTO {
						skips = true
					}
				}
				return true
			})
			if skips {
				break
			}
		}
	}
	if cond == nil {
		return nil, false
	}
	be, ok := ast.Unparen(cond).(*ast.BinaryExpr)
	if !ok {
		return nil, false
	}
	op := be.Op
	if negate {
		switch op {
		case token.GEQ:
			op = token.LSS
		case token.GTR:
			op = token.LEQ
		case token.EQL:
			op = token.NEQ
		case token.LEQ:
			op = token.GTR
		case token.LSS:
			op = token.GEQ
		default:
			return nil, false
		}
	}
	down := false
	switch op {
	case token.LSS, token.LEQ, token.NEQ:
	case token.GTR, token.GEQ:
		down = true
	default:
		return nil, false
	}
	id, ok := ast.Unparen(be.X).(*ast.Ident)
	if !ok {
		return nil, false
	}
	o := info.ObjectOf(id)
	if o == nil {
		return nil, false
	}
	if b, isB := o.Type().Underlying().(*types.Basic); !isB || b.Info()&types.IsInteger == 0 {
		return nil, false
	}
	// the bound must not mention the counter
	bad := false
	ast.Inspect(be.Y, func(n ast.Node) bool {
		if i, ok := n.(*ast.Ident); ok && info.ObjectOf(i) == o {
			bad = true
		}
		return true
	})
	if bad {
		return nil, false
	}
	return o, down
}

// nonDecreasingCall: e is a call F(…) whose result number ri is, on every
// return that does not report an error, at least the value of the argument
// that carries the counter v (v itself or v plus a non-negative constant).
func (e *progressEngine) nonDecreasingCall(expr ast.Expr, ri int, v types.Object) bool {
	call, ok := ast.Unparen(expr).(*ast.CallExpr)
	if !ok {
		return false
	}
	callee := load.Callee(e.info, call)
	if callee == nil || callee.Pkg() != e.pkg.Types {
		return false
	}
	for ai, a := range call.Args {
		if e.atLeast(a, v, nil, 0) && e.resultAtLeastParam(callee, ri, ai, 0) {
			return true
		}
	}
	return false
}

// atLeast: expression x is >= the variable v (or, inside a callee, >= its
// parameter p): v itself, x' + c with c >= 0 and x' atLeast, or a local with a
// single definition that is.
func (e *progressEngine) atLeast(x ast.Expr, v types.Object, fd *ast.FuncDecl, depth int) bool {
	if depth > 10 {
		return false
	}
	x = ast.Unparen(x)
	switch y := x.(type) {
	case *ast.Ident:
		o := e.info.ObjectOf(y)
		if o == v {
			return fd == nil || (v == e.counter && fd == e.counterFd) || e.onlyIncremented(fd, v)
		}
		if fd == nil {
			return false
		}
		// local with exactly one definition
		var def ast.Expr
		defIdx, defs := 0, 0
		var defStmt *ast.AssignStmt
		ast.Inspect(fd.Body, func(n ast.Node) bool {
			if as, ok := n.(*ast.AssignStmt); ok {
				for i, l := range as.Lhs {
					if id, ok := l.(*ast.Ident); ok && e.info.ObjectOf(id) == o {
						defs++
						defStmt, defIdx = as, i
						if len(as.Lhs) == len(as.Rhs) {
							def = as.Rhs[i]
						}
					}
				}
			}
			return true
		})
		if defs != 1 || !e.onlyIncremented(fd, o) {
			return false
		}
		if def != nil {
			return e.atLeast(def, v, fd, depth+1)
		}
		// a, b, c := G(…): result defIdx of a call
		if defStmt != nil && len(defStmt.Rhs) == 1 {
			if call, ok := ast.Unparen(defStmt.Rhs[0]).(*ast.CallExpr); ok {
				if callee := load.Callee(e.info, call); callee != nil && callee.Pkg() == e.pkg.Types {
					for ai, a := range call.Args {
						if e.atLeast(a, v, fd, depth+1) && e.resultAtLeastParam(callee, defIdx, ai, depth+1) {
							return true
						}
					}
				}
			}
		}
		return false
	case *ast.BinaryExpr:
		if y.Op == token.ADD {
			if c, ok := constInt(e.info, y.Y); ok && c >= 0 {
				return e.atLeast(y.X, v, fd, depth+1)
			}
			if c, ok := constInt(e.info, y.X); ok && c >= 0 {
				return e.atLeast(y.Y, v, fd, depth+1)
			}
		}
	}
	return false
}

// onlyIncremented: inside fd the variable is never assigned other than by its
// definition, ++ or += positive constant.
func (e *progressEngine) onlyIncremented(fd *ast.FuncDecl, o types.Object) bool {
	ok := true
	defs := 0
	ast.Inspect(fd.Body, func(n ast.Node) bool {
		switch x := n.(type) {
		case *ast.IncDecStmt:
			if id, is := x.X.(*ast.Ident); is && e.info.ObjectOf(id) == o && x.Tok != token.INC {
				ok = false
			}
		case *ast.AssignStmt:
			for _, l := range x.Lhs {
				if id, is := l.(*ast.Ident); is && e.info.ObjectOf(id) == o {
					switch x.Tok {
					case token.DEFINE:
						defs++
					case token.ADD_ASSIGN:
						if c, isC := constInt(e.info, x.Rhs[0]); !isC || c < 0 {
							ok = false
						}
					default:
						ok = false
					}
				}
			}
		}
		return true
	})
	return ok && defs <= 1
}

// resultAtLeastParam: every return of fn that does not report an error yields,
// as result ri, a value >= the parameter number pi.
func (e *progressEngine) resultAtLeastParam(fn *types.Func, ri, pi, depth int) bool {
	if depth > 10 {
		return false
	}
	fd := e.p.Decl(fn)
	sig, _ := fn.Type().(*types.Signature)
	if fd == nil || fd.Body == nil || sig == nil || pi >= sig.Params().Len() || ri >= sig.Results().Len() {
		return false
	}
	param := types.Object(sig.Params().At(pi))
	errLast := sig.Results().Len() > 0 && isErrorType(sig.Results().At(sig.Results().Len()-1).Type())
	ok, n := true, 0
	ast.Inspect(fd.Body, func(nd ast.Node) bool {
		if _, isLit := nd.(*ast.FuncLit); isLit {
			return false
		}
		r, isR := nd.(*ast.ReturnStmt)
		if !isR {
			return true
		}
		if len(r.Results) != sig.Results().Len() {
			ok = false // naked or forwarding return: not analysed
			return true
		}
		if errLast && wire.Canon(r.Results[len(r.Results)-1]) != "nil" {
			// an error return: the caller leaves its loop on it. `return x, i, err`
			// that may forward a nil err is still analysed, unless the index it
			// yields is a constant (the zero value that accompanies an error)
			_, isId := ast.Unparen(r.Results[len(r.Results)-1]).(*ast.Ident)
			_, isConst := constInt(e.info, r.Results[ri])
			if !isId || isConst {
				return true
			}
		}
		n++
		if !e.atLeast(r.Results[ri], param, fd, depth+1) {
			ok = false
		}
		return true
	})
	return ok && n > 0
}
