package rules

import (
	"fmt"
	"go/ast"
	"go/token"
	"strings"

	"bebopverif/internal/core"
	"bebopverif/internal/genfacts"
	"bebopverif/internal/load"
	"bebopverif/internal/wire"
)

type tokenPos = token.Pos

func collectSelectors(mf *MethodFacts) []string {
	var out []string
	if mf.Decl == nil {
		return nil
	}
	ast.Inspect(mf.Decl, func(n ast.Node) bool {
		if s, ok := n.(*ast.SelectorExpr); ok {
			out = append(out, wire.Canon(s))
		}
		return true
	})
	return out
}

// checkMakeWrappers: Make<T>(r) / Make<T>FromBytes(buf) must run the decoder
// unless the record has no wire footprint at all (a struct without fields).
func (gr *genRun) checkMakeWrappers(rf *RecFacts) {
	noFootprint := rf.Spec.Kind == genfacts.ClsStruct && len(rf.Spec.Fields) == 0
	pfx := "Make"
	if rf.GF.Opts.Private {
		pfx = "make"
	}
	for _, w := range []struct{ name, call string }{{pfx + rf.GoName, "DecodeBebop"}, {pfx + rf.GoName + "FromBytes", "UnmarshalBebop"}} {
		fd := rf.GF.Funcs[w.name]
		pos := "gen.go (writeMake/writeMakeFromBytes)"
		key := fmt.Sprintf("%s wrapper runs the decoder %s", strings.TrimPrefix(strings.TrimPrefix(w.name, pfx+rf.GoName), "x"), frameKey(rf))
		if strings.HasSuffix(w.name, "FromBytes") {
			key = "Make<T>FromBytes runs UnmarshalBebop " + frameKey(rf)
		} else {
			key = "Make<T> runs DecodeBebop " + frameKey(rf)
		}
		if fd == nil || fd.Body == nil {
			gr.c.Check("R5", key, pos, false, "wrapper "+w.name+" is not emitted — "+rf.where(token.NoPos))
			continue
		}
		src := strings.Join(strings.Fields(rf.GF.Snippet(fd.Body)), " ")
		// the wrapper calls the decoding method on the value it returns, with its own parameter
		decodes := false
		ast.Inspect(fd.Body, func(n ast.Node) bool {
			if call, ok := n.(*ast.CallExpr); ok && len(call.Args) == 1 {
				if sel, ok := call.Fun.(*ast.SelectorExpr); ok && sel.Sel.Name == w.call {
					decodes = true
				}
			}
			return true
		})
		gr.c.Check("R5", key, pos, decodes || noFootprint,
			"the wrapper returns a zero value without running the decoder although the record has a wire footprint (length prefix/terminator): "+src+" — "+rf.where(fd.Pos()))
	}
}

// iohelpMustUse: unchecked helpers are not used by checked ones inside iohelp.
func iohelpMustUse(c *core.Ctx, p *load.Prog, rule string) {
	pk := p.Iohelp()
	for fn, fd := range p.AllDecls() {
		if p.Owner(fn) != pk || fd.Body == nil {
			continue
		}
		name := load.FuncName(fn)
		if strings.HasPrefix(name, "Must") {
			continue
		}
		ast.Inspect(fd.Body, func(n ast.Node) bool {
			call, ok := n.(*ast.CallExpr)
			if !ok {
				return true
			}
			if callee := load.Callee(pk.TypesInfo, call); callee != nil && callee.Pkg() == pk.Types && strings.HasPrefix(callee.Name(), "Must") {
				c.Check(rule, "iohelp."+name+" calls unchecked "+callee.Name(), p.Pos(call.Pos()), false, "a checked iohelp function delegates to an unchecked Must* helper")
			}
			return true
		})
	}
	c.Check(rule, "checked iohelp functions call no Must* helper (scan complete)", "iohelp/iohelp.go", true, "")
}
