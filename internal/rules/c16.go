package rules

import (
	"fmt"
	"go/ast"
	"go/token"
	"go/types"
	"sort"
	"strings"

	"bebopverif/internal/core"
	"bebopverif/internal/load"
	"bebopverif/internal/wire"

	"golang.org/x/tools/go/cfg"
)

func init() { register("C16", checkC16) }

// counts is a set of possible token counts, possibly unbounded above.
type counts struct {
	set map[int]bool
	unb bool
}

func single(n int) counts { return counts{set: map[int]bool{n: true}} }
func none() counts        { return counts{set: map[int]bool{}} }

func (a counts) empty() bool { return len(a.set) == 0 && !a.unb }

func (a counts) plus(b counts) counts {
	out := counts{set: map[int]bool{}, unb: (a.unb && !b.empty()) || (b.unb && !a.empty())}
	for x := range a.set {
		for y := range b.set {
			out.set[x+y] = true
		}
	}
	if a.unb {
		for y := range b.set {
			_ = y
		}
	}
	return out
}

func (a counts) union(b counts) counts {
	out := counts{set: map[int]bool{}, unb: a.unb || b.unb}
	for x := range a.set {
		out.set[x] = true
	}
	for y := range b.set {
		out.set[y] = true
	}
	return out
}

func (a counts) String() string {
	var xs []int
	for x := range a.set {
		xs = append(xs, x)
	}
	sort.Ints(xs)
	var parts []string
	for _, x := range xs {
		parts = append(parts, fmt.Sprint(x))
	}
	if a.unb {
		parts = append(parts, "unbounded")
	}
	return "{" + strings.Join(parts, ",") + "}"
}

func (a counts) equal(b counts) bool { return a.String() == b.String() }

// covers reports whether every count in b is also possible in a (a general
// "until" loop covers every count).
func (a counts) covers(b counts) bool {
	if b.unb && !a.unb {
		return false
	}
	if a.unb {
		return true
	}
	for x := range b.set {
		if !a.set[x] {
			return false
		}
	}
	return true
}

// arityEngine computes how many tokens a piece of parser/formatter code takes
// from the tokenReader along its non-error paths.
type arityEngine struct {
	lastExpect map[string]bool
	p          *load.Prog
	summary    map[string]counts
	inProg     map[string]bool
	unknown    []string
	varCtx     []varArgs
}

// trivia helpers consume only optional newlines/comments: neutral for both sides.
var triviaHelpers = map[string]bool{"optNewline": true, "skipEndOfLineComments": true}

func (e *arityEngine) callCount(call *ast.CallExpr) (counts, bool) {
	if isMethodCall(call, "tr", "Next") {
		return single(1), true
	}
	if isMethodCall(call, "tr", "UnNext") {
		return single(-1), true
	}
	takesTr := false
	for _, a := range call.Args {
		if trCanon(a) == "tr" {
			takesTr = true
		}
		if t := e.p.Bebop().TypesInfo.TypeOf(a); t != nil && strings.HasSuffix(t.String(), ".tokenReader") {
			takesTr = true
		}
	}
	// a method of a value that holds the token reader (p.readEnum() with p.tr)
	if sel, ok := ast.Unparen(call.Fun).(*ast.SelectorExpr); ok && !takesTr {
		if t := e.p.Bebop().TypesInfo.TypeOf(sel.X); t != nil {
			if pt, isP := t.(*types.Pointer); isP {
				t = pt.Elem()
			}
			if st, isSt := t.Underlying().(*types.Struct); isSt {
				for i := 0; i < st.NumFields(); i++ {
					if strings.HasSuffix(st.Field(i).Type().String(), ".tokenReader") {
						takesTr = true
					}
				}
			}
		}
	}
	if !takesTr {
		return counts{}, false
	}
	id, ok := call.Fun.(*ast.Ident)
	if !ok {
		// a method that is handed the reader (attrs.readDeprecated(tr, …)), or a
		// call through a function value
		info := e.p.Bebop().TypesInfo
		if cal := load.Callee(info, call); cal != nil && cal.Pkg() == e.p.Bebop().Types {
			if fd := e.p.Decl(cal); fd != nil && fd.Body != nil {
				return e.declSummary(load.FuncName(cal), fd), true
			}
		}
		e.unknown = append(e.unknown, wire.Canon(call.Fun)+" (not a statically resolved function of the package)")
		return single(0), true
	}
	if obj := e.p.Bebop().TypesInfo.ObjectOf(id); obj != nil {
		if _, isFunc := obj.(*types.Func); !isFunc {
			// a function-typed variable or parameter: the callee is not known statically
			e.unknown = append(e.unknown, id.Name+" (called through a function value)")
			return single(0), true
		}
	}
	switch id.Name {
	case "expectNext":
		if call.Ellipsis.IsValid() {
			if n, ok := e.spreadLen(call.Args[len(call.Args)-1]); ok {
				return single(len(call.Args) - 2 + n), true
			}
			e.unknown = append(e.unknown, "expectNext("+wire.Canon(call.Args[len(call.Args)-1])+"...) (the number of kinds is not a constant the rule can derive)")
			return single(0), true
		}
		return single(len(call.Args) - 1), true
	case "expectAnyOfNext":
		return single(1), true
	case "readUntil":
		return counts{set: map[int]bool{}, unb: true}, true
	}
	if triviaHelpers[id.Name] {
		return single(0), true
	}
	// a variadic helper (expectIdentThen(tr, kinds...)) is summarised per number
	// of variadic arguments it is given
	if fd := e.p.FuncDecl(e.p.Bebop(), id.Name); fd != nil && fd.Type.Params != nil && len(fd.Type.Params.List) > 0 && !call.Ellipsis.IsValid() {
		last := fd.Type.Params.List[len(fd.Type.Params.List)-1]
		if _, variadic := last.Type.(*ast.Ellipsis); variadic && len(last.Names) == 1 {
			fixed := 0
			for _, f := range fd.Type.Params.List[:len(fd.Type.Params.List)-1] {
				fixed += len(f.Names)
			}
			if n := len(call.Args) - fixed; n >= 0 {
				e.varCtx = append(e.varCtx, varArgs{obj: e.p.Bebop().TypesInfo.ObjectOf(last.Names[0]), n: n})
				c := e.declSummary(fmt.Sprintf("%s/%d", id.Name, n), fd)
				e.varCtx = e.varCtx[:len(e.varCtx)-1]
				return c, true
			}
		}
	}
	return e.funcSummary(id.Name), true
}

type varArgs struct {
	obj types.Object
	n   int
}

// spreadLen is the length of a slice passed as xs... : the enclosing helper's
// own variadic parameter (as many as the call being summarised passes), or a
// local built in straight-line code by make/literal and appends, one of which
// may spread that parameter.
func (e *arityEngine) spreadLen(x ast.Expr) (int, bool) {
	info := e.p.Bebop().TypesInfo
	id, ok := ast.Unparen(x).(*ast.Ident)
	if !ok {
		return 0, false
	}
	o := info.ObjectOf(id)
	paramLen := func(obj types.Object) (int, bool) {
		if n := len(e.varCtx); n > 0 && e.varCtx[n-1].obj == obj {
			return e.varCtx[n-1].n, true
		}
		return 0, false
	}
	if n, ok := paramLen(o); ok {
		return n, true
	}
	var fd *ast.FuncDecl
	for _, d := range e.p.AllDecls() {
		if d.Body != nil && d.Body.Pos() <= o.Pos() && o.Pos() < d.Body.End() {
			fd = d
		}
	}
	if fd == nil {
		return 0, false
	}
	isX := func(ex ast.Expr) bool {
		i, ok := ast.Unparen(ex).(*ast.Ident)
		return ok && info.ObjectOf(i) == o
	}
	top := map[ast.Stmt]bool{}
	for _, st := range fd.Body.List {
		top[st] = true
	}
	n, defined, okAll := 0, false, true
	ast.Inspect(fd.Body, func(k ast.Node) bool {
		as, isAs := k.(*ast.AssignStmt)
		if !isAs {
			return true
		}
		for i, l := range as.Lhs {
			if !isX(l) {
				continue
			}
			if !top[as] || len(as.Lhs) != len(as.Rhs) || as.Pos() >= x.Pos() {
				okAll = false
				continue
			}
			switch r := ast.Unparen(as.Rhs[i]).(type) {
			case *ast.CompositeLit:
				if defined {
					okAll = false
				}
				defined, n = true, len(r.Elts)
			case *ast.CallExpr:
				fn, _ := ast.Unparen(r.Fun).(*ast.Ident)
				switch {
				case fn != nil && fn.Name == "make" && len(r.Args) >= 2 && !defined:
					v, isC := constInt(info, r.Args[1])
					if !isC || v < 0 {
						okAll = false
					}
					defined, n = true, v
				case fn != nil && fn.Name == "append" && len(r.Args) >= 1 && isX(r.Args[0]) && defined:
					if !r.Ellipsis.IsValid() {
						n += len(r.Args) - 1
					} else if sid, ok := ast.Unparen(r.Args[len(r.Args)-1]).(*ast.Ident); ok {
						if m, ok := paramLen(info.ObjectOf(sid)); ok {
							n += len(r.Args) - 2 + m
						} else {
							okAll = false
						}
					} else {
						okAll = false
					}
				default:
					okAll = false
				}
			default:
				okAll = false
			}
		}
		return true
	})
	return n, defined && okAll
}

func (e *arityEngine) declSummary(name string, fd *ast.FuncDecl) counts {
	if c, ok := e.summary[name]; ok {
		return c
	}
	if e.inProg[name] {
		return counts{set: map[int]bool{}, unb: true}
	}
	e.inProg[name] = true
	open, done := e.seq(fd.Body.List)
	delete(e.inProg, name)
	c := open.union(done)
	e.summary[name] = c
	return c
}

func (e *arityEngine) funcSummary(name string) counts {
	if c, ok := e.summary[name]; ok {
		return c
	}
	if e.inProg[name] {
		// recursion: the construct nests; report as unbounded
		return counts{set: map[int]bool{}, unb: true}
	}
	fd := e.p.FuncDecl(e.p.Bebop(), name)
	if fd == nil {
		e.unknown = append(e.unknown, name)
		return single(0)
	}
	e.inProg[name] = true
	open, done := e.seq(fd.Body.List)
	delete(e.inProg, name)
	c := open.union(done)
	e.summary[name] = c
	return c
}

// exprCount sums the token reads inside one expression or simple statement.
func (e *arityEngine) nodeCount(n ast.Node) counts {
	total := single(0)
	ast.Inspect(n, func(m ast.Node) bool {
		if _, isLit := m.(*ast.FuncLit); isLit {
			return false
		}
		if call, ok := m.(*ast.CallExpr); ok {
			if c, ok := e.callCount(call); ok {
				total = total.plus(c)
				return false
			}
		}
		return true
	})
	return total
}

func isErrorReturn(r *ast.ReturnStmt) bool {
	if len(r.Results) == 0 {
		return false
	}
	last := ast.Unparen(r.Results[len(r.Results)-1])
	switch x := last.(type) {
	case *ast.Ident:
		return x.Name == "err"
	case *ast.CallExpr:
		fn := wire.Canon(x.Fun)
		return fn == "readError" || strings.HasPrefix(fn, "fmt.Errorf") || strings.HasSuffix(fn, ".Err")
	}
	return false
}

// seq returns the counts of paths that fall out of the statement list (open)
// and of paths that ended normally inside it (done: return/continue/break).
func (e *arityEngine) seq(stmts []ast.Stmt) (open, done counts) {
	open = single(0)
	done = none()
	for _, s := range stmts {
		if open.empty() {
			break
		}
		ast.Inspect(s, func(n ast.Node) bool {
			if _, isSw := n.(*ast.SwitchStmt); isSw {
				return false
			}
			if call, ok := n.(*ast.CallExpr); ok {
				if id, ok := call.Fun.(*ast.Ident); ok && id.Name == "expectAnyOfNext" {
					e.lastExpect = map[string]bool{}
					for _, a := range call.Args[1:] {
						e.lastExpect[wire.Canon(a)] = true
					}
				}
			}
			return true
		})
		o, d := e.stmt(s)
		done = done.union(open.plus(d))
		open = open.plus(o)
	}
	return
}

func (e *arityEngine) stmt(s ast.Stmt) (open, done counts) {
	switch x := s.(type) {
	case *ast.ReturnStmt:
		if isErrorReturn(x) {
			return none(), none()
		}
		c := single(0)
		for _, r := range x.Results {
			c = c.plus(e.nodeCount(r))
		}
		return none(), c
	case *ast.BranchStmt:
		if x.Tok == token.CONTINUE || x.Tok == token.BREAK {
			return none(), single(0)
		}
		return single(0), none()
	case *ast.BlockStmt:
		return e.seq(x.List)
	case *ast.IfStmt:
		pre := single(0)
		if x.Init != nil {
			pre = pre.plus(e.nodeCount(x.Init))
		}
		pre = pre.plus(e.nodeCount(x.Cond))
		to, td := e.seq(x.Body.List)
		var eo, ed counts
		if x.Else != nil {
			eo, ed = e.stmt(x.Else)
		} else {
			eo, ed = single(0), none()
		}
		return pre.plus(to.union(eo)), pre.plus(td.union(ed))
	case *ast.ForStmt:
		// constant-trip loops: for j := 0; j < N; j++
		if x.Init != nil && x.Cond != nil && x.Post != nil {
			if be, ok := x.Cond.(*ast.BinaryExpr); ok && (be.Op == token.LSS || be.Op == token.LEQ) {
				info := e.p.Bebop().TypesInfo
				if n, ok := constInt(info, be.Y); ok {
					// the counter's start: j := K (a constant), stepping by one
					start, startOK := 0, false
					if as, isA := x.Init.(*ast.AssignStmt); isA && len(as.Lhs) == 1 && len(as.Rhs) == 1 {
						if k, isC := constInt(info, as.Rhs[0]); isC && wire.Canon(as.Lhs[0]) == wire.Canon(be.X) {
							start, startOK = k, true
						}
					}
					_, stepsByOne := x.Post.(*ast.IncDecStmt)
					if startOK && stepsByOne {
						trips := n - start
						if be.Op == token.LEQ {
							trips++
						}
						if trips < 0 {
							trips = 0
						}
						bo, _ := e.seq(x.Body.List)
						total := single(0)
						for i := 0; i < trips; i++ {
							total = total.plus(bo)
						}
						return total, none()
					}
				}
			}
		}
		// a general loop takes any number of tokens
		return counts{set: map[int]bool{0: true}, unb: true}, none()
	case *ast.RangeStmt:
		return single(0), none()
	case *ast.SwitchStmt:
		pre := single(0)
		if x.Init != nil {
			pre = pre.plus(e.nodeCount(x.Init))
		}
		if x.Tag != nil {
			pre = pre.plus(e.nodeCount(x.Tag))
		}
		open, done = none(), none()
		exhaustive := false
		if x.Tag != nil && trCanon(x.Tag) == "tr.Token().kind" && len(e.lastExpect) > 0 {
			labels := map[string]bool{}
			for _, cc := range x.Body.List {
				for _, l := range cc.(*ast.CaseClause).List {
					labels[wire.Canon(l)] = true
				}
			}
			exhaustive = len(labels) == len(e.lastExpect)
			for k := range e.lastExpect {
				if !labels[k] {
					exhaustive = false
				}
			}
		}
		hasDefault := false
		for _, cc := range x.Body.List {
			cl := cc.(*ast.CaseClause)
			if cl.List == nil {
				hasDefault = true
			}
			o, d := e.seq(cl.Body)
			// a break inside a switch case only leaves the switch
			open = open.union(o)
			done = done.union(d)
		}
		if !hasDefault && !exhaustive {
			open = open.union(single(0))
		}
		return pre.plus(open), pre.plus(done)
	case *ast.LabeledStmt:
		return e.stmt(x.Stmt)
	default:
		return e.nodeCount(s), none()
	}
}

func caseBody(fd *ast.FuncDecl, kind string) []ast.Stmt {
	var out []ast.Stmt
	found := false
	ast.Inspect(fd.Body, func(n ast.Node) bool {
		cc, ok := n.(*ast.CaseClause)
		if !ok || found {
			return !found
		}
		for _, e := range cc.List {
			if wire.Canon(e) == kind {
				out = cc.Body
				found = true
			}
		}
		return !found
	})
	return out
}

func stmtsBeforeLoop(fd *ast.FuncDecl) []ast.Stmt {
	for i, s := range fd.Body.List {
		switch x := s.(type) {
		case *ast.ForStmt:
			if x.Cond != nil && x.Init == nil {
				return fd.Body.List[:i]
			}
			if x.Cond == nil {
				return fd.Body.List[:i]
			}
		case *ast.LabeledStmt:
			return fd.Body.List[:i]
		}
	}
	// no loop of its own (the member loop sits in a shared driver): where the
	// header ends cannot be read off this function
	return nil
}

func checkC16(c *core.Ctx) {
	c.Explainf("C16 (decided clause: parser/formatter sibling agreement; that equal token counts imply equal text, and comment attachment, are NOT decided). format.go is a second consumer of the token grammar, driven by fixed token counts. R1: every token kind for which ReadFile's switch records something in the File has an arm in format's switch that writes. R2: for each paired construct every token count the parser can take along its non-error paths (sum of expectNext arities, expectAnyOfNext = 1, Next = 1, UnNext = -1, readUntil/loops = unbounded; optNewline/skipEndOfLineComments = trivia) must be a count the formatter can consume (constant-trip loops x body + straight-line Next calls; a loop that runs to a delimiter covers every count); both are recomputed from source on every run. R3: where the parser loops (postfix [] in readFieldType) the formatter loops. R4: every token the formatter takes with a bare tr.Next() is written back as its own text (.concrete) or as the same punctuation literal. R4c: a lookahead (a kind test on a token taken by position) puts the token back with UnNext() or writes it on every path of the side where the test fails, before another token is taken or the function returns (go/cfg path rule). The same for a lookahead written as a switch (a non-dispatch switch on .kind some clause of which calls UnNext): every clause, the default and the no-match path account for the token. And a loop that ends on `if <tok>.kind == K { break }` holds K when it ends: K is written before anything else is taken, where a call to a helper that starts with tr.Next() counts as taking (helpers are summarised by their first token event). R4d: a token or its text is only ever appended, assigned or written in format.go — handing it to any other function is a transformation of source text (a re-spaced `//[tag(…)]` stops being a field tag). R4e: the writer handed to iohelp.NewErrorWriter in format.go is the caller's own, or a wrapper of this package whose Write hands its argument on unchanged. R5: the readonly marker is carried to the struct formatter. R5b: the token kinds the parser skips between `readonly` and the record keyword (through a helper handed the reader before the arm's own Next()) are kinds on which format leaves its marker set. R7: every non-range loop of the formatter takes a token per cycle on balance or counts to its bound (the loop-progress rule of C10/R9 on format.go): Format terminates on finite input. R6: a line comment reaches the output with its line break: the tokenizer appends everything its delimiter read returned, or every formatter site adds the break. R8: the parser does not let a line break decide whether a non-comment attribute reaches its definition (C11/R1b on the five definition loops): Format removes blank lines, so an attribute a blank line detaches would be attached after formatting.")
	p := loadRepo(c)
	if p == nil {
		return
	}
	pkg := p.Bebop()
	info := pkg.TypesInfo
	startsCache = map[*types.Func]int{}
	tokenHelperDecls = func(fn *types.Func) *ast.FuncDecl { return p.Decl(fn) }
	rf := p.FuncDecl(pkg, "ReadFile")
	ff := p.FuncDecl(pkg, "format")
	if rf == nil || ff == nil {
		c.Undecide("ReadFile / format not found")
		return
	}
	// ---- R1 coverage
	recordKinds := map[string]bool{}
	var ptop *ast.SwitchStmt
	ast.Inspect(rf.Body, func(n ast.Node) bool {
		if sw, ok := n.(*ast.SwitchStmt); ok && ptop == nil {
			ptop = sw
		}
		return ptop == nil
	})
	if ptop == nil {
		c.Undecide("ReadFile has no top-level switch")
		return
	}
	for _, cc := range ptop.Body.List {
		cl := cc.(*ast.CaseClause)
		// the arm records something: it stores into the File, or into a pending
		// variable declared outside the loop that is not a list of comment lines
		records := false
		ast.Inspect(cl, func(n ast.Node) bool {
			as, ok := n.(*ast.AssignStmt)
			if !ok || as.Tok != token.ASSIGN {
				return true
			}
			for _, l := range as.Lhs {
				if fileField(info, l) != "" {
					records = true
				}
				if id, ok := l.(*ast.Ident); ok {
					if o := info.ObjectOf(id); o != nil && o.Pos() < ptop.Pos() && o.Pos() > rf.Pos() {
						if sl, isSlice := o.Type().Underlying().(*types.Slice); isSlice {
							if b, isB := sl.Elem().Underlying().(*types.Basic); isB && b.Kind() == types.String {
								continue
							}
						}
						records = true
					}
				}
			}
			return true
		})
		for _, e := range cl.List {
			k := wire.Canon(e)
			if strings.HasPrefix(k, "tokenKind") && records {
				recordKinds[k] = true
			}
		}
	}
	fmtKinds := map[string]bool{}
	var top *ast.SwitchStmt
	ast.Inspect(ff.Body, func(n ast.Node) bool {
		if sw, ok := n.(*ast.SwitchStmt); ok && top == nil {
			top = sw
		}
		return top == nil
	})
	// functions and methods of format.go that write (directly or through one another)
	writers := map[*ast.FuncDecl]bool{}
	for changed := true; changed; {
		changed = false
		for _, d := range funcsOfFiles(p, pkg, "format.go") {
			if writers[d] {
				continue
			}
			ast.Inspect(d.Body, func(n ast.Node) bool {
				call, ok := n.(*ast.CallExpr)
				if !ok {
					return true
				}
				if sel, ok := call.Fun.(*ast.SelectorExpr); ok && (sel.Sel.Name == "SafeWrite" || sel.Sel.Name == "Write") {
					writers[d] = true
					changed = true
				}
				if cal := load.Callee(info, call); cal != nil {
					if cd := p.Decl(cal); cd != nil && writers[cd] && !writers[d] {
						writers[d] = true
						changed = true
					}
				}
				return true
			})
		}
	}
	if top != nil {
		for _, cc := range top.Body.List {
			cl := cc.(*ast.CaseClause)
			// the arm writes, or raises a flag that a later arm turns into output
			writes := false
			ast.Inspect(cl, func(n ast.Node) bool {
				switch x := n.(type) {
				case *ast.CallExpr:
					if sel, ok := x.Fun.(*ast.SelectorExpr); ok && (sel.Sel.Name == "SafeWrite" || sel.Sel.Name == "Write") {
						writes = true
					}
					if cal := load.Callee(info, x); cal != nil {
						if cd := p.Decl(cal); cd != nil && cd != ff && writers[cd] {
							// a helper of format.go that writes — but not one of the
							// per-construct formatters, which return bytes
							if sig, ok := cal.Type().(*types.Signature); ok && sig.Results().Len() == 0 {
								writes = true
							}
						}
					}
				case *ast.AssignStmt:
					if x.Tok == token.ASSIGN && len(x.Lhs) == 1 && len(x.Rhs) == 1 {
						if id, ok := x.Lhs[0].(*ast.Ident); ok {
							if o := info.ObjectOf(id); o != nil && o.Pos() < top.Pos() {
								if tv := info.Types[x.Rhs[0]]; tv.Value != nil && tv.Value.String() == "true" {
									writes = true
								}
							}
						}
					}
				}
				return true
			})
			for _, e := range cl.List {
				if writes {
					fmtKinds[wire.Canon(e)] = true
				}
			}
		}
	}
	// a kind may also be dealt with ahead of the switch: if t.kind == K { raise
	// a marker (or write); continue }
	ast.Inspect(ff.Body, func(n ast.Node) bool {
		ifs, ok := n.(*ast.IfStmt)
		if !ok || top == nil || ifs.Pos() > top.Pos() {
			return true
		}
		be, ok := ast.Unparen(ifs.Cond).(*ast.BinaryExpr)
		if !ok || be.Op != token.EQL {
			return true
		}
		sel, ok := ast.Unparen(be.X).(*ast.SelectorExpr)
		kid, ok2 := ast.Unparen(be.Y).(*ast.Ident)
		if !ok || !ok2 || sel.Sel.Name != "kind" || !strings.HasPrefix(kid.Name, "tokenKind") {
			return true
		}
		marks := false
		ast.Inspect(ifs.Body, func(m ast.Node) bool {
			switch x := m.(type) {
			case *ast.AssignStmt:
				if x.Tok == token.ASSIGN && len(x.Rhs) == 1 {
					if tv := info.Types[x.Rhs[0]]; tv.Value != nil && tv.Value.String() == "true" {
						marks = true
					}
				}
			case *ast.CallExpr:
				if sel, ok := x.Fun.(*ast.SelectorExpr); ok && (sel.Sel.Name == "SafeWrite" || sel.Sel.Name == "Write") {
					marks = true
				}
			}
			return true
		})
		if marks {
			fmtKinds[kid.Name] = true
		}
		return true
	})
	// or through a table: if f, ok := table[t.kind]; ok { …write f(…)… } with
	// table a package-level map literal keyed by token kind
	tableUnknown := false
	ast.Inspect(ff.Body, func(n ast.Node) bool {
		ifs, ok := n.(*ast.IfStmt)
		if !ok {
			return true
		}
		var ix *ast.IndexExpr
		if as, ok := ifs.Init.(*ast.AssignStmt); ok && len(as.Rhs) == 1 {
			ix, _ = ast.Unparen(as.Rhs[0]).(*ast.IndexExpr)
		}
		if ix == nil {
			return true
		}
		mt, isMap := info.TypeOf(ix.X).Underlying().(*types.Map)
		if !isMap {
			return true
		}
		if nt, ok := mt.Key().(*types.Named); !ok || nt.Obj().Name() != "tokenKind" {
			return true
		}
		if sel, ok := ast.Unparen(ix.Index).(*ast.SelectorExpr); !ok || sel.Sel.Name != "kind" {
			return true
		}
		writes := false
		ast.Inspect(ifs.Body, func(m ast.Node) bool {
			if x, ok := m.(*ast.CallExpr); ok {
				if sel, ok := x.Fun.(*ast.SelectorExpr); ok && (sel.Sel.Name == "SafeWrite" || sel.Sel.Name == "Write") {
					writes = true
				}
			}
			return true
		})
		var lit *ast.CompositeLit
		if id, ok := ast.Unparen(ix.X).(*ast.Ident); ok {
			if v, ok := info.ObjectOf(id).(*types.Var); ok && v.Parent() == pkg.Types.Scope() {
				for _, f := range pkg.Syntax {
					for _, d := range f.Decls {
						gd, ok := d.(*ast.GenDecl)
						if !ok {
							continue
						}
						for _, sp := range gd.Specs {
							vs, ok := sp.(*ast.ValueSpec)
							if !ok {
								continue
							}
							for i, nm := range vs.Names {
								if info.ObjectOf(nm) == v && i < len(vs.Values) {
									lit, _ = ast.Unparen(vs.Values[i]).(*ast.CompositeLit)
								}
							}
						}
					}
				}
			}
		}
		if lit == nil || !writes {
			tableUnknown = true
			return true
		}
		for _, el := range lit.Elts {
			if kv, ok := el.(*ast.KeyValueExpr); ok {
				if kid, ok := ast.Unparen(kv.Key).(*ast.Ident); ok && strings.HasPrefix(kid.Name, "tokenKind") {
					fmtKinds[kid.Name] = true
				}
			}
		}
		return true
	})
	// `readonly` may be dealt with by remembering the kind of the previous
	// token and testing it where the struct is formatted
	if readonlyDerived(info, ff, nil) {
		fmtKinds["tokenKindReadOnly"] = true
	}
	var ks []string
	for k := range recordKinds {
		ks = append(ks, k)
	}
	sort.Strings(ks)
	if tableUnknown {
		c.Undecide("format dispatches on the token kind through a table the coverage rule R1 cannot read (not a package-level map literal, or its arm does not write)")
		ks = nil
	}
	c.Count("parser_top_level_kinds", len(ks))
	c.Floor("parser_top_level_kinds", 7)
	if top == nil || top.Tag == nil || !strings.HasSuffix(wire.Canon(top.Tag), ".kind") || len(top.Body.List) < 4 {
		// another architecture (a dispatch table, for instance): which kinds
		// are handled cannot be read off a switch
		c.Undecide("format does not dispatch on the token kind with a switch: the coverage rule R1 does not apply to this shape")
		ks = nil
	}
	for _, k := range ks {
		c.Check("R1", "format has a writing arm for "+k, p.Pos(ff.Pos()), fmtKinds[k], "ReadFile records this construct in the File but the formatter has no arm for it: the construct is dropped from (or mangled in) the formatted output")
	}

	// The token-flow rules R2-R4d and R7 read the formatter as functions that
	// are handed the reader and call tr.Next()/tr.Token() themselves. A
	// formatter that reaches the reader through a wrapper type (a struct with
	// the reader in a field and methods that take tokens) is outside what they
	// can follow: no verdict rather than a wrong one.
	wrapped := ""
	for _, fd := range funcsOfFiles(p, pkg, "format.go") {
		hasParam := false
		for _, f := range fd.Type.Params.List {
			for _, nm := range f.Names {
				if o := info.ObjectOf(nm); o != nil && strings.HasSuffix(o.Type().String(), ".tokenReader") {
					hasParam = true
				}
			}
		}
		if hasParam {
			continue
		}
		ast.Inspect(fd.Body, func(n ast.Node) bool {
			if call, ok := n.(*ast.CallExpr); ok {
				if sel, ok := call.Fun.(*ast.SelectorExpr); ok && (apiRole(sel.Sel.Name) == "Next" || apiRole(sel.Sel.Name) == "UnNext" || apiRole(sel.Sel.Name) == "Token") {
					if t := info.TypeOf(sel.X); t != nil && strings.HasSuffix(t.String(), ".tokenReader") {
						wrapped = fd.Name.Name
					}
				}
			}
			return true
		})
	}
	if wrapped != "" {
		c.Undecide("format.go takes tokens through a wrapper (%s calls the reader it was not handed as a parameter): the token-flow rules R2-R4d, R6 and R7 do not apply to this shape", wrapped)
		return
	}
	// ---- R2 arity pairs
	e := &arityEngine{p: p, summary: map[string]counts{}, inProg: map[string]bool{}}
	pairs := 0
	compare := func(name string, ps, fs []ast.Stmt, pfn, ffn *ast.FuncDecl) {
		if ps == nil || fs == nil {
			c.Undecide("arity pair %q: anchor not found", name)
			return
		}
		// a fresh engine per pair: what it could not summarise is known per pair
		pe := &arityEngine{p: p, summary: map[string]counts{}, inProg: map[string]bool{}}
		po, pd := pe.seq(ps)
		fo, fdn := pe.seq(fs)
		pc, fc := po.union(pd), fo.union(fdn)
		pairs++
		if len(pe.unknown) > 0 {
			// a count that leaves out what a helper takes is no count: no verdict
			// on this pair (the helpers are listed below)
			e.unknown = append(e.unknown, pe.unknown...)
			return
		}
		c.Check("R2", "token arity: "+name, p.Pos(ffn.Pos()), fc.covers(pc) && (fc.unb || !pc.empty()),
			fmt.Sprintf("the parser (%s) takes %s tokens for this construct, the formatter (%s) consumes %s: a form with a different count is mis-split and written back as a different (or unparsable) schema", load.FuncName2(pfn), pc, load.FuncName2(ffn), fc))
	}
	compare("top-level [attribute]", caseBody(rf, "tokenKindOpenSquare"), caseBody(ff, "tokenKindOpenSquare"), rf, ff)
	compare("import", caseBody(rf, "tokenKindImport"), caseBody(ff, "tokenKindImport"), rf, ff)
	for _, k := range []struct{ parse, format string }{{"readEnum", "formatEnum"}, {"readStruct", "formatStruct"}, {"readMessage", "formatMessage"}, {"readUnion", "formatUnion"}} {
		pf, fmtf := p.FuncDecl(pkg, k.parse), p.FuncDecl(pkg, k.format)
		if pf == nil || fmtf == nil {
			c.Undecide("%s / %s not found", k.parse, k.format)
			continue
		}
		compare(k.parse+" header", stmtsBeforeLoop(pf), stmtsBeforeLoop(fmtf), pf, fmtf)
		compare(k.parse+" [deprecated] attribute", caseBody(pf, "tokenKindOpenSquare"), caseBody(fmtf, "tokenKindOpenSquare"), pf, fmtf)
	}
	if pf, fmtf := p.FuncDecl(pkg, "readEnum"), p.FuncDecl(pkg, "formatEnum"); pf != nil && fmtf != nil {
		compare("enum option", caseBody(pf, "tokenKindIdent"), caseBody(fmtf, "tokenKindIdent"), pf, fmtf)
	}
	if pf, fmtf := p.FuncDecl(pkg, "readConst"), p.FuncDecl(pkg, "formatConst"); pf != nil && fmtf != nil {
		compare("const", pf.Body.List, fmtf.Body.List, pf, fmtf)
	}
	if pf, fmtf := p.FuncDecl(pkg, "readMessage"), p.FuncDecl(pkg, "formatMessage"); pf != nil && fmtf != nil {
		// the part of a message field that precedes its type: index and arrow
		_ = pf
		_ = fmtf
	}
	c.Count("arity_pairs", pairs)
	c.Floor("arity_pairs", 6)
	if len(e.unknown) > 0 {
		sort.Strings(e.unknown)
		var uniq []string
		for i, u := range e.unknown {
			if i == 0 || u != e.unknown[i-1] {
				uniq = append(uniq, u)
			}
		}
		c.Undecide("arity analysis met helpers it cannot summarise: %v", uniq)
	}

	// ---- R3 repetition
	if pf, fmtf := p.FuncDecl(pkg, "readFieldType"), p.FuncDecl(pkg, "formatType"); pf != nil && fmtf != nil {
		ownLoop := func(fd *ast.FuncDecl) bool {
			found := false
			ast.Inspect(fd.Body, func(n ast.Node) bool {
				if f, ok := n.(*ast.ForStmt); ok && mentionsIdent(f, "tokenKindOpenSquare") {
					found = true
				}
				return true
			})
			return found
		}
		// the loop may sit in a helper of the package that the function calls
		// (appendArraySuffixes(tr, …)): such a call is the loop
		suffixFns := map[types.Object]bool{}
		for fn, d := range p.AllDecls() {
			if p.Owner(fn) == pkg && d.Body != nil && d != fmtf && d != pf && ownLoop(d) {
				suffixFns[fn] = true
			}
		}
		callsLoop := func(n ast.Node) bool {
			found := false
			ast.Inspect(n, func(k ast.Node) bool {
				if call, ok := k.(*ast.CallExpr); ok {
					if cal := load.Callee(pkg.TypesInfo, call); cal != nil && suffixFns[cal] {
						found = true
					}
				}
				return !found
			})
			return found
		}
		loops := func(fd *ast.FuncDecl) bool { return ownLoop(fd) || callsLoop(fd.Body) }
		// every way out of formatType passes the postfix loop
		early := 0
		var loopPos token.Pos
		ast.Inspect(fmtf.Body, func(n ast.Node) bool {
			if f, ok := n.(*ast.ForStmt); ok && mentionsIdent(f, "tokenKindOpenSquare") && loopPos == 0 {
				loopPos = f.Pos()
			}
			return true
		})
		ast.Inspect(fmtf.Body, func(n ast.Node) bool {
			blk, ok := n.(*ast.BlockStmt)
			var list []ast.Stmt
			if ok {
				list = blk.List
			} else if cc, isCC := n.(*ast.CaseClause); isCC {
				list = cc.Body
			}
			for i, st := range list {
				r, ok := st.(*ast.ReturnStmt)
				if !ok || (loopPos != 0 && r.Pos() > loopPos) {
					continue
				}
				// the loop as a helper: in the returned expression, or the
				// statement just before the return
				if callsLoop(r) || (i > 0 && callsLoop(list[i-1])) {
					continue
				}
				early++
			}
			return true
		})
		c.Check("R3", "every path of formatType reaches the postfix [] loop", p.Pos(fmtf.Pos()), early == 0, fmt.Sprintf("%d return statements leave formatType before the loop that consumes postfix []: for that spelling of a type a following [] is left in the token stream and taken for the field name", early))
		pl, fl := loops(pf), loops(fmtf)
		c.Check("R3", "postfix [] repeats in the formatter as in the parser", p.Pos(fmtf.Pos()), !pl || fl, "readFieldType accepts any number of postfix [] in a loop, formatType handles at most one: T[][] is mis-split")
	} else {
		c.Undecide("readFieldType / formatType not found")
	}
	// ---- R4 token conservation: what the formatter takes from the reader it
	// writes back as the token's own text (or, for pure punctuation, as the
	// same literal)
	nNext := 0
	for _, fd := range funcsOfFiles(p, pkg, "format.go") {
		if fd.Name.Name == "Format" {
			continue
		}
		// simple statements of the function in source order
		var flat []ast.Stmt
		ast.Inspect(fd.Body, func(n ast.Node) bool {
			switch x := n.(type) {
			case *ast.ExprStmt, *ast.AssignStmt, *ast.ReturnStmt, *ast.BranchStmt:
				flat = append(flat, x.(ast.Stmt))
			case *ast.IfStmt:
				flat = append(flat, &ast.ExprStmt{X: x.Cond})
			case *ast.SwitchStmt:
				if x.Tag != nil {
					flat = append(flat, &ast.ExprStmt{X: x.Tag})
				}
			}
			return true
		})
		for i, st := range flat {
			es, ok := st.(*ast.ExprStmt)
			if !ok || !isMethodCall(es.X, "tr", "Next") {
				continue
			}
			nNext++
			okUse := false
			for _, follow := range flat[i+1:] {
				if fe, ok := follow.(*ast.ExprStmt); ok && isMethodCall(fe.X, "tr", "Next") {
					break
				}
				if usesTakenToken(info, follow) {
					okUse = true
					break
				}
			}
			c.Check("R4", fmt.Sprintf("%s writes back the token it takes (Next #%d)", fd.Name.Name, nNext), p.Pos(es.Pos()), okUse,
				"a token is taken from the reader and neither its text (.concrete) nor the same punctuation is written before the next token is taken: its text is dropped or replaced by something the formatter computed")
		}
	}
	for _, fd := range funcsOfFiles(p, pkg, "format.go") {
		ast.Inspect(fd.Body, func(n ast.Node) bool {
			if as, ok := n.(*ast.AssignStmt); ok {
				for _, l := range as.Lhs {
					if sel, ok := ast.Unparen(l).(*ast.SelectorExpr); ok && sel.Sel.Name == "concrete" {
						c.Check("R4", fd.Name.Name+" does not rewrite a token's text", p.Pos(as.Pos()), false,
							"the formatter assigns to a token's .concrete: what it writes is no longer the text that was read (a decimal literal re-spelled as hex changes its value)")
					}
				}
			}
			return true
		})
	}
	c.Check("R4", "the formatter never assigns a token's text (scan complete)", "format.go", true, "")
	lookaheadPutBack(c, p)
	lineCommentTerminator(c, p)
	tokensVerbatim(c, p, "R4d")
	// R7: Format terminates — every loop of the formatter takes a token per cycle or counts to a bound
	checkLoopProgress(c, p, "R7", "format.go")
	attributesSurviveLineBreaks(c, p)
	outputUntouched(c, p)
	c.Floor("loops_checked_for_progress", 8)
	c.Count("formatter_next_calls", nNext)
	c.Floor("formatter_next_calls", 8)
	// ---- R5
	// a bool raised in the readonly arm is an argument of the formatStruct call
	passed := map[types.Object]bool{}
	ast.Inspect(ff.Body, func(n ast.Node) bool {
		if call, ok := n.(*ast.CallExpr); ok && calleeNamed(call, "formatStruct") {
			for _, a := range call.Args {
				if id, ok := ast.Unparen(a).(*ast.Ident); ok {
					if o := info.ObjectOf(id); o != nil {
						if b, isB := o.Type().Underlying().(*types.Basic); isB && b.Kind() == types.Bool {
							passed[o] = true
						}
					}
				}
			}
		}
		return true
	})
	raised := false
	ast.Inspect(ff.Body, func(n ast.Node) bool {
		cl, ok := n.(*ast.CaseClause)
		if !ok {
			return true
		}
		isRO := false
		for _, e := range cl.List {
			if wire.Canon(e) == "tokenKindReadOnly" {
				isRO = true
			}
		}
		if !isRO {
			return true
		}
		for _, st := range cl.Body {
			if as, ok := st.(*ast.AssignStmt); ok && len(as.Lhs) == 1 && len(as.Rhs) == 1 {
				if id, ok := as.Lhs[0].(*ast.Ident); ok && passed[info.ObjectOf(id)] {
					if tv := info.Types[as.Rhs[0]]; tv.Value != nil && tv.Value.String() == "true" {
						raised = true
					}
				}
			}
		}
		return true
	})
	// or the marker is derived: ro := <kind of the previous token> == tokenKindReadOnly
	if readonlyDerived(info, ff, passed) {
		raised = true
	}
	if len(passed) == 0 && readonlyWrittenOnTheSpot(c, p, info, ff) {
		// R5d decided it
	} else if len(passed) == 0 {
		c.Undecide("format does not call formatStruct with a boolean variable: how the readonly marker travels is not recognised")
	} else {
		c.Check("R5", "the readonly marker reaches formatStruct", p.Pos(ff.Pos()), raised, "no boolean set in the readonly arm is passed to formatStruct: `readonly struct` is formatted as `struct`")
	}
	// ---- R5c: a marker the formatter raises in its arm for an attribute
	// ([flags], [opcode(...)]) and hands to a per-definition formatter survives
	// the comments that may stand between the attribute and the definition:
	// ReadFile keeps such an attribute pending across comment tokens (C11/R1b),
	// so a formatter that forgets it there formats the definition as if the
	// attribute were absent
	attributeMarkersSurviveComments(c, p, ff, top)
	// ---- R5b: what the parser lets stand between `readonly` and the record
	// keyword, the formatter's marker survives. The parser's arm: calls that are
	// handed the reader before the arm's first own Next() may skip tokens (a
	// helper like optNewline); the kinds they name are the kinds allowed in
	// between. The formatter's marker survives the kinds of the arms that leave
	// the iteration (continue) before the marker is cleared.
	if roArm := caseBody(rf, "tokenKindReadOnly"); roArm != nil && len(passed) > 0 {
		between := map[string]bool{}
		var firstNext token.Pos
		for _, st := range roArm {
			ast.Inspect(st, func(n ast.Node) bool {
				if call, ok := n.(*ast.CallExpr); ok && isMethodCall(call, "tr", "Next") && firstNext == 0 {
					firstNext = call.Pos()
				}
				return true
			})
		}
		for _, st := range roArm {
			ast.Inspect(st, func(n ast.Node) bool {
				call, ok := n.(*ast.CallExpr)
				if !ok || (firstNext != 0 && call.Pos() > firstNext) {
					return true
				}
				cal := load.Callee(info, call)
				if cal == nil || cal.Pkg() != pkg.Types {
					return true
				}
				takesReader := false
				for _, a := range call.Args {
					if t := info.TypeOf(a); t != nil && strings.HasSuffix(t.String(), ".tokenReader") {
						takesReader = true
					}
				}
				cd := p.Decl(cal)
				if !takesReader || cd == nil || cd.Body == nil {
					return true
				}
				ast.Inspect(cd.Body, func(k ast.Node) bool {
					if id, ok := k.(*ast.Ident); ok && strings.HasPrefix(id.Name, "tokenKind") {
						if _, isConst := info.ObjectOf(id).(*types.Const); isConst {
							between[id.Name] = true
						}
					}
					return true
				})
				return true
			})
		}
		survives := map[string]bool{}
		ast.Inspect(ff.Body, func(n ast.Node) bool {
			cl, ok := n.(*ast.CaseClause)
			if !ok || len(cl.Body) == 0 {
				return true
			}
			if br, ok := cl.Body[len(cl.Body)-1].(*ast.BranchStmt); ok && br.Tok == token.CONTINUE {
				clears := false
				for _, st := range cl.Body {
					if as, ok := st.(*ast.AssignStmt); ok && len(as.Lhs) == 1 && len(as.Rhs) == 1 {
						if id, ok := as.Lhs[0].(*ast.Ident); ok && passed[info.ObjectOf(id)] {
							if tv := info.Types[as.Rhs[0]]; tv.Value != nil && tv.Value.String() == "false" {
								clears = true
							}
						}
					}
				}
				if !clears {
					for _, e := range cl.List {
						survives[wire.Canon(e)] = true
					}
				}
			}
			return true
		})
		var lost []string
		for k := range between {
			if !survives[k] {
				lost = append(lost, k)
			}
		}
		sort.Strings(lost)
		c.Check("R5b", "the formatter's readonly marker survives what the parser allows between `readonly` and the record", p.Pos(ff.Pos()), len(lost) == 0,
			fmt.Sprintf("ReadFile skips %v after `readonly` before it expects the record keyword, but format clears its marker on those tokens: `readonly` followed by such a token is formatted as a plain struct", lost))
	}
}

// lookaheadPutBack: R4c. When the formatter tests the kind of a token it took
// by position (not the token the dispatch loop is switching on) it is looking
// ahead: on the side where the token is NOT of the tested kind, every path
// must write the token's text or put it back with UnNext() before another
// token is taken or the function returns. Otherwise the token — a field, a
// brace — silently disappears from the formatted schema.
func lookaheadPutBack(c *core.Ctx, p *load.Prog) {
	pkg := p.Bebop()
	info := pkg.TypesInfo
	n := 0
	mentionsConcrete := func(nd ast.Node) bool {
		found := false
		ast.Inspect(nd, func(m ast.Node) bool {
			if sel, ok := m.(*ast.SelectorExpr); ok && sel.Sel.Name == "concrete" {
				found = true
			}
			return !found
		})
		return found
	}
	isNext := func(call *ast.CallExpr) bool { return isMethodCall(call, "tr", "Next") }
	isUnNext := func(call *ast.CallExpr) bool { return isMethodCall(call, "tr", "UnNext") }
	for _, fd := range funcsOfFiles(p, pkg, "format.go") {
		f := buildCFG(p, pkg, fd)
		if f == nil {
			continue
		}
		// dispatch loops: `for tr.Next() { … switch <tok>.kind { … } }`; an if that
		// is a direct statement of such a loop body filters the dispatched token
		dispatchIf := map[ast.Node]bool{}
		ast.Inspect(fd.Body, func(m ast.Node) bool {
			fs, ok := m.(*ast.ForStmt)
			if !ok || fs.Cond == nil || !containsCall(fs.Cond, isNext) {
				return true
			}
			hasSwitch := false
			for _, st := range fs.Body.List {
				if sw, ok := st.(*ast.SwitchStmt); ok && sw.Tag != nil && strings.HasSuffix(wire.Canon(sw.Tag), ".kind") {
					hasSwitch = true
				}
			}
			if hasSwitch {
				for _, st := range fs.Body.List {
					if ifs, ok := st.(*ast.IfStmt); ok {
						dispatchIf[ifs.Cond] = true
					}
				}
			}
			return true
		})
		loopTokens := map[types.Object]bool{}
		ast.Inspect(fd.Body, func(m ast.Node) bool {
			fs, ok := m.(*ast.ForStmt)
			if !ok || fs.Cond == nil || !containsCall(fs.Cond, isNext) {
				return true
			}
			for _, st := range fs.Body.List {
				if containsCall(st, isNext) {
					break
				}
				if as, ok := st.(*ast.AssignStmt); ok && len(as.Lhs) == 1 && len(as.Rhs) == 1 && isMethodCall(as.Rhs[0], "tr", "Token") {
					if id, ok := as.Lhs[0].(*ast.Ident); ok {
						loopTokens[info.ObjectOf(id)] = true
					}
				}
			}
			return true
		})
		breaksOn := map[ast.Expr]bool{}
		ast.Inspect(fd.Body, func(m ast.Node) bool {
			if ifs, ok := m.(*ast.IfStmt); ok && ifs.Else == nil && len(ifs.Body.List) == 1 {
				if br, ok := ifs.Body.List[0].(*ast.BranchStmt); ok && br.Tok == token.BREAK && br.Label == nil {
					breaksOn[ifs.Cond] = true
				}
			}
			return true
		})
		count := 0
		for _, b := range f.g.Blocks {
			cond := blockCond(b)
			if cond == nil {
				continue
			}
			// go/cfg keeps `a && b` as one condition: look for the kind test among
			// the conjuncts (then the false edge is the miss side) or, for `!=`,
			// among the disjuncts (the true edge is)
			var be *ast.BinaryExpr
			var flat func(e ast.Expr, op token.Token) []ast.Expr
			flat = func(e ast.Expr, op token.Token) []ast.Expr {
				if b, ok := ast.Unparen(e).(*ast.BinaryExpr); ok && b.Op == op {
					return append(flat(b.X, op), flat(b.Y, op)...)
				}
				return []ast.Expr{ast.Unparen(e)}
			}
			isKindTest := func(e ast.Expr, op token.Token) *ast.BinaryExpr {
				b, ok := e.(*ast.BinaryExpr)
				if !ok || b.Op != op {
					return nil
				}
				sel, ok := ast.Unparen(b.X).(*ast.SelectorExpr)
				if !ok || sel.Sel.Name != "kind" || !strings.HasPrefix(wire.Canon(b.Y), "tokenKind") {
					return nil
				}
				return b
			}
			for _, e := range flat(cond, token.LAND) {
				if b := isKindTest(e, token.EQL); b != nil {
					be = b
				}
			}
			if be == nil {
				for _, e := range flat(cond, token.LOR) {
					if b := isKindTest(e, token.NEQ); b != nil {
						be = b
					}
				}
			}
			if be == nil {
				continue
			}
			// the token a `for tr.Next()` loop is working on (t := tr.Token() at the
			// top of its body): a test of its kind classifies, it does not look ahead
			if sel, ok := ast.Unparen(be.X).(*ast.SelectorExpr); ok {
				if id, ok := ast.Unparen(sel.X).(*ast.Ident); ok && loopTokens[info.ObjectOf(id)] {
					continue
				}
			}
			// a token received as a parameter was taken by the caller: classifying
			// it is not a lookahead of this function
			if sel, ok := ast.Unparen(be.X).(*ast.SelectorExpr); ok {
				if id, ok := ast.Unparen(sel.X).(*ast.Ident); ok {
					isParam := false
					for _, f := range fd.Type.Params.List {
						for _, nm := range f.Names {
							if info.ObjectOf(nm) == info.ObjectOf(id) {
								isParam = true
							}
						}
					}
					if isParam {
						continue
					}
				}
			}
			skip := false
			for c := range dispatchIf {
				if c.Pos() <= cond.Pos() && cond.End() <= c.End() {
					skip = true
				}
			}
			if skip {
				continue
			}
			// already written between the take and the test?
			lastNext, written := -1, false
			for i, nd := range b.Nodes[:len(b.Nodes)-1] {
				if containsCall(nd, isNext) {
					lastNext, written = i, false
				} else if mentionsConcrete(nd) {
					written = true
				}
			}
			_ = lastNext
			if written {
				continue
			}
			miss := 1
			if be.Op == token.NEQ {
				miss = 0
			}
			count++
			n++
			ok2 := true
			var badPath []string
			why := ""
			f.reach(b.Succs[miss], 0, func(nd ast.Node) bool {
				if containsCall(nd, isUnNext) || mentionsConcrete(nd) {
					return true
				}
				if containsCall(nd, isNext) {
					ok2 = false
					why = "the next token is taken at " + p.Pos(nd.Pos())
					return true
				}
				return false
			}, func(r *ast.ReturnStmt, path []*cfg.Block) {
				ok2 = false
				badPath = f.pathString(path)
				why = "the function returns"
			})
			c.CheckPath("R4c", fmt.Sprintf("%s: lookahead on %s puts the token back when it is something else (#%d)", fd.Name.Name, wire.Canon(be.Y), count), p.Pos(cond.Pos()), ok2,
				fmt.Sprintf("when the token is not %s, %s before its text is written or tr.UnNext() is called: the token is dropped from the output", wire.Canon(be.Y), why), badPath)
			// a loop that ends on `if <tok>.kind == K { break }` leaves the loop
			// holding the token K: it has to be written (as its text or as the
			// same punctuation) before anything else is taken
			if be.Op == token.EQL && breaksOn[cond] {
				okHit := true
				whyHit := ""
				var hitPath []string
				f.reach(b.Succs[1-miss], 0, func(nd ast.Node) bool {
					if st, isSt := nd.(ast.Stmt); isSt && usesTakenToken(info, st) {
						return true
					}
					if e, isE := nd.(ast.Expr); isE && usesTakenToken(info, &ast.ExprStmt{X: e}) {
						return true
					}
					takes := containsCall(nd, isNext) || containsCall(nd, func(call *ast.CallExpr) bool {
						cal := load.Callee(info, call)
						if cal == nil || cal.Pkg() != pkg.Types {
							return false
						}
						sig, _ := cal.Type().(*types.Signature)
						if sig == nil {
							return false
						}
						for i := 0; i < sig.Params().Len(); i++ {
							if strings.HasSuffix(sig.Params().At(i).Type().String(), ".tokenReader") {
								return !startsWithCurrentToken(info, cal)
							}
						}
						return false
					})
					if takes {
						okHit = false
						whyHit = "the next token is taken at " + p.Pos(nd.Pos())
						return true
					}
					return false
				}, func(r *ast.ReturnStmt, path []*cfg.Block) {
					okHit = false
					hitPath = f.pathString(path)
					whyHit = "the function returns"
				})
				c.CheckPath("R4c", fmt.Sprintf("%s: the %s that ends the loop is written (#%d)", fd.Name.Name, wire.Canon(be.Y), count), p.Pos(cond.Pos()), okHit,
					fmt.Sprintf("the loop stops on a %s it has already taken; %s before that token is written: what is taken next is written in its place and one token is lost", wire.Canon(be.Y), whyHit), hitPath)
			}
		}
	}
	// the same for a lookahead written as a switch on the kind of a token taken
	// by position (`tr.Next(); switch t := tr.Token(); t.kind { … }`): every
	// clause, the default and the no-clause-matched path must write the token or
	// put it back; only a clause for the newline token alone may drop it
	for _, fd := range funcsOfFiles(p, pkg, "format.go") {
		f := buildCFG(p, pkg, fd)
		if f == nil {
			continue
		}
		// dispatch switches: direct statements of a `for tr.Next()` body
		dispatch := map[*ast.SwitchStmt]bool{}
		ast.Inspect(fd.Body, func(m ast.Node) bool {
			fs, ok := m.(*ast.ForStmt)
			if !ok || fs.Cond == nil || !containsCall(fs.Cond, isNext) {
				return true
			}
			for _, st := range fs.Body.List {
				if sw, ok := st.(*ast.SwitchStmt); ok {
					dispatch[sw] = true
				}
			}
			return true
		})
		k := 0
		ast.Inspect(fd.Body, func(m ast.Node) bool {
			sw, ok := m.(*ast.SwitchStmt)
			if !ok || sw.Tag == nil || dispatch[sw] {
				return true
			}
			sel, ok := ast.Unparen(sw.Tag).(*ast.SelectorExpr)
			if !ok || sel.Sel.Name != "kind" {
				return true
			}
			// a switch that classifies the current token (every alternative is
			// formatted) is not a lookahead; one that puts the token back in some
			// clause is: the other clauses then have to account for the token too
			if !containsCall(sw.Body, isUnNext) {
				return true
			}
			k++
			n++
			check := func(start *cfg.Block, what string) {
				if start == nil {
					return
				}
				ok2 := true
				why := ""
				var badPath []string
				f.reach(start, 0, func(nd ast.Node) bool {
					if containsCall(nd, isUnNext) || mentionsConcrete(nd) {
						return true
					}
					if containsCall(nd, isNext) {
						ok2 = false
						why = "the next token is taken at " + p.Pos(nd.Pos())
						return true
					}
					return false
				}, func(r *ast.ReturnStmt, path []*cfg.Block) {
					ok2 = false
					badPath = f.pathString(path)
					why = "the function returns"
				})
				c.CheckPath("R4c", fmt.Sprintf("%s: lookahead switch #%d writes the token or puts it back (%s)", fd.Name.Name, k, what), p.Pos(sw.Pos()), ok2,
					fmt.Sprintf("on the path %s, %s before the token's text is written or tr.UnNext() is called: the token is dropped from the output", what, why), badPath)
			}
			hasDefault := false
			for _, cl := range sw.Body.List {
				cc := cl.(*ast.CaseClause)
				what := "default"
				if cc.List != nil {
					var ks []string
					for _, e := range cc.List {
						ks = append(ks, wire.Canon(e))
					}
					what = "case " + strings.Join(ks, ",")
					if len(ks) == 1 && ks[0] == "tokenKindNewline" {
						continue
					}
				} else {
					hasDefault = true
				}
				for _, b := range f.g.Blocks {
					if b.Stmt == ast.Stmt(cc) && b.Kind == cfg.KindSwitchCaseBody {
						check(b, what)
					}
				}
			}
			if !hasDefault {
				for _, b := range f.g.Blocks {
					if b.Stmt == ast.Stmt(sw) && b.Kind == cfg.KindSwitchDone {
						check(b, "no clause matched")
					}
				}
			}
			return true
		})
	}
	c.Count("formatter_lookaheads", n)
	c.Floor("formatter_lookaheads", 1)
}

// lineCommentTerminator: R6. The formatter writes a line comment as the
// token's text and nothing else; whatever follows lands on the same line and
// becomes part of the comment unless that text ends in the line break the
// tokenizer consumed. Either lineCommentToken keeps everything ReadBytes('\n')
// returned (the variable is never re-sliced or reassigned and is appended
// whole), or every formatter site that writes a line comment adds the break.
func lineCommentTerminator(c *core.Ctx, p *load.Prog) {
	pkg := p.Bebop()
	info := pkg.TypesInfo
	fd := p.FuncDecl(pkg, "lineCommentToken")
	if fd == nil {
		c.Undecide("lineCommentToken not found")
		return
	}
	var lineVar types.Object
	ast.Inspect(fd.Body, func(n ast.Node) bool {
		if as, ok := n.(*ast.AssignStmt); ok && len(as.Rhs) == 1 && len(as.Lhs) == 2 {
			if call, ok := as.Rhs[0].(*ast.CallExpr); ok {
				if sel, ok := call.Fun.(*ast.SelectorExpr); ok && (sel.Sel.Name == "ReadBytes" || sel.Sel.Name == "ReadString" || sel.Sel.Name == "ReadSlice") && len(call.Args) == 1 {
					if v, ok := constInt(info, call.Args[0]); ok && v == '\n' {
						if id, ok := as.Lhs[0].(*ast.Ident); ok {
							lineVar = info.ObjectOf(id)
						}
					}
				}
			}
		}
		return true
	})
	keeps := lineVar != nil
	why := "the rest of the line is not read up to and including '\\n' by a bufio delimiter read"
	appended := false
	if lineVar != nil {
		defs := 0
		ast.Inspect(fd.Body, func(n ast.Node) bool {
			switch x := n.(type) {
			case *ast.AssignStmt:
				for _, l := range x.Lhs {
					if id, ok := l.(*ast.Ident); ok && info.ObjectOf(id) == lineVar {
						defs++
					}
				}
			case *ast.CallExpr:
				if wire.Canon(x.Fun) == "append" && x.Ellipsis.IsValid() && len(x.Args) == 2 {
					if id, ok := ast.Unparen(x.Args[1]).(*ast.Ident); ok && info.ObjectOf(id) == lineVar {
						appended = true
					}
				}
			}
			return true
		})
		if defs != 1 {
			keeps, why = false, lineVar.Name()+" is reassigned or re-sliced after the read: the line break can be cut off"
		} else if !appended {
			keeps, why = false, lineVar.Name()+" is not appended whole to the token text"
		}
	}
	// formatter side: do all sites that write a line comment add a break?
	sites, adding := 0, 0
	for _, ff := range funcsOfFiles(p, pkg, "format.go") {
		ast.Inspect(ff.Body, func(n ast.Node) bool {
			var body []ast.Stmt
			switch x := n.(type) {
			case *ast.CaseClause:
				for _, e := range x.List {
					if wire.Canon(e) == "tokenKindLineComment" {
						body = x.Body
					}
				}
			case *ast.IfStmt:
				if be, ok := ast.Unparen(x.Cond).(*ast.BinaryExpr); ok && be.Op == token.EQL && wire.Canon(be.Y) == "tokenKindLineComment" {
					body = x.Body.List
				}
			}
			if body == nil {
				return true
			}
			sites++
			for _, st := range body {
				addsBreak := false
				ast.Inspect(st, func(k ast.Node) bool {
					if lit, ok := k.(*ast.BasicLit); ok && (lit.Kind == token.CHAR || lit.Kind == token.STRING) {
						if tv := info.Types[lit]; tv.Value != nil {
							v := tv.Value.ExactString()
							if v == "10" || strings.HasSuffix(strings.Trim(v, `"`), `\n`) {
								addsBreak = true
							}
						}
					}
					return true
				})
				if addsBreak {
					adding++
					break
				}
			}
			return true
		})
	}
	c.Count("formatter_line_comment_sites", sites)
	c.Floor("formatter_line_comment_sites", 2)
	c.Check("R6", "a line comment is written with its line break (kept by the tokenizer or added at every formatter site)", p.Pos(fd.Pos()), keeps || (sites > 0 && adding == sites),
		fmt.Sprintf("%s, and only %d of the %d formatter sites that write a line comment add a break: the token that follows the comment is written on the comment's line and disappears into it", why, adding, sites))
}

// tokensVerbatim: R4d. The formatter re-emits tokens; the text of a token
// (identifier, literal, comment — line comments carry `//[tag(…)]` field tags
// that the parser only recognises in their exact spelling) must reach the
// output as it was read. In format.go a token value or its .concrete may only
// be appended, assigned or written; handing it to any other function is a
// transformation of source text.
func tokensVerbatim(c *core.Ctx, p *load.Prog, rule string) {
	pkg := p.Bebop()
	info := pkg.TypesInfo
	isToken := func(e ast.Expr) bool {
		if t := info.TypeOf(e); t != nil {
			if n, ok := t.(*types.Named); ok && n.Obj().Name() == "token" && n.Obj().Pkg() == pkg.Types {
				return true
			}
		}
		if sel, ok := ast.Unparen(e).(*ast.SelectorExpr); ok && sel.Sel.Name == "concrete" {
			return true
		}
		if se, ok := ast.Unparen(e).(*ast.SliceExpr); ok {
			if sel, ok := ast.Unparen(se.X).(*ast.SelectorExpr); ok && sel.Sel.Name == "concrete" {
				return true
			}
		}
		return false
	}
	uses := 0
	// the functions of format.go are all scanned by this rule: handing a token
	// to one of them is not a way out of it
	local := map[string]bool{}
	localDecl := map[*ast.FuncDecl]bool{}
	for _, fd := range funcsOfFiles(p, pkg, "format.go") {
		local[fd.Name.Name] = true
		localDecl[fd] = true
	}
	for _, fd := range funcsOfFiles(p, pkg, "format.go") {
		// local names for a token's text (x := t.concrete): cutting a prefix off
		// them is cutting the token
		textVars := map[types.Object]bool{}
		ast.Inspect(fd.Body, func(n ast.Node) bool {
			if as, ok := n.(*ast.AssignStmt); ok && len(as.Lhs) == len(as.Rhs) {
				for i, l := range as.Lhs {
					if sel, isSel := ast.Unparen(as.Rhs[i]).(*ast.SelectorExpr); isSel && sel.Sel.Name == "concrete" {
						if id, isId := l.(*ast.Ident); isId {
							textVars[info.ObjectOf(id)] = true
						}
					}
				}
			}
			return true
		})
		ast.Inspect(fd.Body, func(n ast.Node) bool {
			se, ok := n.(*ast.SliceExpr)
			if !ok || se.Low == nil {
				return true
			}
			if id, isId := ast.Unparen(se.X).(*ast.Ident); isId && textVars[info.ObjectOf(id)] {
				c.Check(rule, fd.Name.Name+" writes whole token texts (re-slice of a copy of .concrete)", p.Pos(se.Pos()), false,
					"the beginning of a token's text is cut off before it is written")
			}
			return true
		})
		// functions that receive a token are themselves transformations only if
		// they are called with one; their bodies are scanned like any other
		ast.Inspect(fd.Body, func(n ast.Node) bool {
			switch x := n.(type) {
			case *ast.CallExpr:
				tokArg := false
				for _, a := range x.Args {
					if isToken(a) {
						tokArg = true
					}
				}
				if !tokArg {
					return true
				}
				uses++
				fn := wire.Canon(x.Fun)
				okCall := fn == "append" || strings.HasSuffix(fn, ".SafeWrite") || strings.HasSuffix(fn, ".Write") || local[fn]
				if cal := load.Callee(info, x); cal != nil && !okCall {
					// a function or method declared in format.go: scanned like the rest
					if d := p.Decl(cal); d != nil && localDecl[d] {
						okCall = true
					}
				}
				if sel, isSel := x.Fun.(*ast.SelectorExpr); isSel && !okCall {
					if s2, found := info.Selections[sel]; found && s2.Kind() == types.FieldVal {
						okCall = true // a function stored in a field: same argument as below
					}
				}
				if id, isId := x.Fun.(*ast.Ident); isId && !okCall {
					// a function value (parameter or variable): its possible targets are
					// functions of format.go, which this scan covers
					if o := info.ObjectOf(id); o != nil {
						if _, isVar := o.(*types.Var); isVar {
							okCall = true
						}
					}
				}
				if !okCall {
					c.Check(rule, fmt.Sprintf("%s passes token text only to append/Write (%s)", fd.Name.Name, fn), p.Pos(x.Pos()), false,
						"the text of a token goes through "+fn+" before it is written: what is written is no longer what was read (a re-spaced `//[tag(…)]` comment stops being a field tag; a re-spelled literal changes value)")
				}
			case *ast.SliceExpr:
				if sel, ok := ast.Unparen(x.X).(*ast.SelectorExpr); ok && sel.Sel.Name == "concrete" {
					c.Check(rule, fd.Name.Name+" writes whole token texts (re-slice of .concrete)", p.Pos(x.Pos()), false,
						"a part of a token's text is cut out before it is written")
				}
			}
			return true
		})
	}
	c.Check(rule, "token text reaches the output verbatim (scan complete)", "format.go", true, "")
	c.Count("formatter_token_text_uses", uses)
	c.Floor("formatter_token_text_uses", 12)
}

func mentionsIdent(n ast.Node, name string) bool {
	found := false
	ast.Inspect(n, func(m ast.Node) bool {
		if id, ok := m.(*ast.Ident); ok && id.Name == name {
			found = true
		}
		return !found
	})
	return found
}

// usesTakenToken: the statement writes the current token's text, puts the
// token back, hands the reader to another formatter function, or writes a
// literal that is pure punctuation (the formatter re-spells `;` and `[]`).
func usesTakenToken(info *types.Info, st ast.Stmt) bool {
	found := false
	ast.Inspect(st, func(m ast.Node) bool {
		switch x := m.(type) {
		case *ast.SelectorExpr:
			if x.Sel.Name == "concrete" {
				found = true
			}
		case *ast.CallExpr:
			if isMethodCall(x, "tr", "UnNext") {
				found = true
			}
			// a helper that receives the reader and starts by using the current
			// token continues from it; one that starts by taking the next token
			// does not (the current one is then lost unless written before)
			if cal := load.Callee(info, x); cal != nil && startsWithCurrentToken(info, cal) {
				found = true
			}
		case *ast.BasicLit:
			if x.Kind == token.STRING || x.Kind == token.CHAR {
				if tv := info.Types[x]; tv.Value != nil {
					txt := tv.Value.ExactString()
					if x.Kind == token.CHAR {
						if r, ok := constInt(info, x); ok {
							txt = string(rune(r))
						}
					} else {
						txt = strings.Trim(txt, `"`)
						txt = strings.ReplaceAll(txt, `\n`, "\n")
					}
					punct := strings.TrimSpace(txt) != ""
					for _, r := range txt {
						if r == ';' || r == '[' || r == ']' || r == '\n' || r == ' ' {
							continue
						}
						punct = false
					}
					if punct {
						found = true
					}
				}
			}
		}
		return !found
	})
	return found
}

// startsWithCurrentToken: fn takes the token reader and, on every path, its
// first token event is a use of the current token (tr.Token(), .concrete,
// handing the reader to another such function) rather than tr.Next().
var tokenHelperDecls func(fn *types.Func) *ast.FuncDecl
var startsCache = map[*types.Func]int{} // 1 = uses current first, 2 = takes first / unknown

func startsWithCurrentToken(info *types.Info, fn *types.Func) bool {
	if v, ok := startsCache[fn]; ok {
		return v == 1
	}
	startsCache[fn] = 2
	sig, _ := fn.Type().(*types.Signature)
	if sig == nil || tokenHelperDecls == nil {
		return false
	}
	takes := false
	for i := 0; i < sig.Params().Len(); i++ {
		if strings.HasSuffix(sig.Params().At(i).Type().String(), ".tokenReader") {
			takes = true
		}
	}
	fd := tokenHelperDecls(fn)
	if !takes || fd == nil || fd.Body == nil {
		return false
	}
	// first token event in source order along the straight-line prefix of the
	// body (conservative: any Next() before a use anywhere in the first
	// statements decides "takes first")
	res := 0
	ast.Inspect(fd.Body, func(n ast.Node) bool {
		if res != 0 {
			return false
		}
		switch x := n.(type) {
		case *ast.CallExpr:
			if isMethodCall(x, "tr", "Next") {
				res = 2
				return false
			}
			if isMethodCall(x, "tr", "Token") {
				res = 1
				return false
			}
			if cal := load.Callee(info, x); cal != nil && cal != fn && startsWithCurrentToken(info, cal) {
				res = 1
				return false
			}
		case *ast.SelectorExpr:
			if x.Sel.Name == "concrete" {
				res = 1
				return false
			}
		}
		return true
	})
	if res == 1 {
		startsCache[fn] = 1
	}
	return res == 1
}

// attributesSurviveLineBreaks: R8. Format removes blank lines and re-breaks
// the text, so the parser must not let a line break decide whether a
// non-comment attribute ([deprecated], [opcode], [flags], readonly) reaches
// the definition that follows it. This is C11's typestate (R1b: an iteration
// of a definition loop that completed no definition does not clear a pending
// non-comment attribute) kept under this property's name; doc comments are
// exempt by the property's own wording.
func attributesSurviveLineBreaks(c *core.Ctx, p *load.Prog) {
	pkg := p.Bebop()
	kept := 0
	for _, name := range []string{"ReadFile", "readEnum", "readStruct", "readMessage", "readUnion"} {
		fd := p.FuncDecl(pkg, name)
		if fd == nil {
			c.Undecide("%s not found", name)
			continue
		}
		tmp := core.NewCtx(c.Prop, c.Tier, c.RepoDir, c.VerifDir)
		pendingTypestate(tmp, p, fd, name)
		for _, o := range tmp.Obls {
			if strings.HasSuffix(o.Rule, "/R1b") {
				kept++
				c.Check("R8", o.Key, o.Pos, o.OK, o.Msg+" — Format drops blank lines and re-breaks the text, so the formatted schema and the original then differ in this attribute")
			}
		}
		for _, u := range tmp.Undecided {
			c.Undecide("%s", u)
		}
	}
	c.Count("attribute_survival_obligations", kept)
	c.Floor("attribute_survival_obligations", 4)
}

// outputUntouched: R4e. What the formatter writes reaches the caller's writer
// as written: the value handed to iohelp.NewErrorWriter in format.go is the
// function's own io.Writer parameter, or a wrapper declared in this package
// whose Write hands its argument on unchanged. A wrapper that edits the bytes
// (normalising line ends, trimming) edits string literals and comments too —
// the one place where R4d's "token text is written verbatim" can be undone
// after the fact.
func outputUntouched(c *core.Ctx, p *load.Prog) {
	pkg := p.Bebop()
	info := pkg.TypesInfo
	n := 0
	for _, fd := range funcsOfFiles(p, pkg, "format.go") {
		ast.Inspect(fd.Body, func(nd ast.Node) bool {
			call, ok := nd.(*ast.CallExpr)
			if !ok || len(call.Args) != 1 {
				return true
			}
			cal := load.Callee(info, call)
			if cal == nil || cal.Name() != "NewErrorWriter" {
				return true
			}
			n++
			key := fd.Name.Name + " writes to the caller's writer itself"
			arg := ast.Unparen(call.Args[0])
			if id, ok := arg.(*ast.Ident); ok {
				if v, ok := info.ObjectOf(id).(*types.Var); ok && isParamOf(info, fd, v) {
					c.Check("R4e", key, p.Pos(call.Pos()), true, "")
					return true
				}
			}
			// a wrapper type of this package
			t := info.TypeOf(arg)
			var named *types.Named
			if t != nil {
				if pt, ok := t.(*types.Pointer); ok {
					t = pt.Elem()
				}
				named, _ = t.(*types.Named)
			}
			if named == nil || named.Obj().Pkg() != pkg.Types {
				c.Undecide("%s: the writer handed to NewErrorWriter (%s) is neither the function's parameter nor a wrapper declared in this package", fd.Name.Name, wire.Canon(arg))
				return true
			}
			var write *ast.FuncDecl
			for fn, d := range p.AllDecls() {
				if p.Owner(fn) == pkg && fn.Name() == "Write" && d.Recv != nil {
					if sig, ok := fn.Type().(*types.Signature); ok && sig.Recv() != nil {
						rt := sig.Recv().Type()
						if pt, ok := rt.(*types.Pointer); ok {
							rt = pt.Elem()
						}
						if rt == types.Type(named) {
							write = d
						}
					}
				}
			}
			if write == nil || write.Body == nil || len(write.Type.Params.List) != 1 || len(write.Type.Params.List[0].Names) != 1 {
				c.Undecide("%s: the Write method of the wrapper %s was not found", fd.Name.Name, named.Obj().Name())
				return true
			}
			param := info.Defs[write.Type.Params.List[0].Names[0]]
			edits := ""
			inner := 0
			ast.Inspect(write.Body, func(m ast.Node) bool {
				ic, ok := m.(*ast.CallExpr)
				if !ok || len(ic.Args) != 1 {
					return true
				}
				sel, ok := ast.Unparen(ic.Fun).(*ast.SelectorExpr)
				if !ok || sel.Sel.Name != "Write" {
					return true
				}
				inner++
				if id, ok := ast.Unparen(ic.Args[0]).(*ast.Ident); !ok || info.ObjectOf(id) != param {
					edits = wire.Canon(ic.Args[0])
				}
				return true
			})
			if inner == 0 {
				c.Undecide("%s: the wrapper %s does not call an inner Write the rule can see", fd.Name.Name, named.Obj().Name())
				return true
			}
			c.Check("R4e", key, p.Pos(call.Pos()), edits == "",
				fmt.Sprintf("the output goes through %s, whose Write hands on %s instead of the bytes it was given: string literals and comments are rewritten along with the layout, and the formatted file no longer denotes the same schema", named.Obj().Name(), edits))
			return true
		})
	}
	c.Count("formatter_output_handoffs", n)
	c.Floor("formatter_output_handoffs", 1)
}

// readonlyDerived: some boolean handed to formatStruct (any, when passed is
// nil) is defined as a comparison `<expr> == tokenKindReadOnly`.
func readonlyDerived(info *types.Info, ff *ast.FuncDecl, passed map[types.Object]bool) bool {
	if passed == nil {
		passed = map[types.Object]bool{}
		ast.Inspect(ff.Body, func(n ast.Node) bool {
			if call, ok := n.(*ast.CallExpr); ok && calleeNamed(call, "formatStruct") {
				for _, a := range call.Args {
					if id, ok := ast.Unparen(a).(*ast.Ident); ok {
						if o := info.ObjectOf(id); o != nil {
							if b, isB := o.Type().Underlying().(*types.Basic); isB && b.Kind() == types.Bool {
								passed[o] = true
							}
						}
					}
				}
			}
			return true
		})
	}
	found := false
	ast.Inspect(ff.Body, func(n ast.Node) bool {
		as, ok := n.(*ast.AssignStmt)
		if !ok || len(as.Lhs) != len(as.Rhs) {
			return true
		}
		for i, l := range as.Lhs {
			id, ok := ast.Unparen(l).(*ast.Ident)
			if !ok || !passed[info.ObjectOf(id)] {
				continue
			}
			if be, ok := ast.Unparen(as.Rhs[i]).(*ast.BinaryExpr); ok && be.Op == token.EQL {
				if wire.Canon(be.Y) == "tokenKindReadOnly" || wire.Canon(be.X) == "tokenKindReadOnly" {
					found = true
				}
			}
		}
		return true
	})
	return found
}

func attributeMarkersSurviveComments(c *core.Ctx, p *load.Prog, ff *ast.FuncDecl, top *ast.SwitchStmt) {
	if top == nil {
		return
	}
	info := p.Bebop().TypesInfo
	isBoolVar := func(e ast.Expr) types.Object {
		id, ok := ast.Unparen(e).(*ast.Ident)
		if !ok {
			return nil
		}
		o := info.ObjectOf(id)
		if o == nil {
			return nil
		}
		if b, isB := o.Type().Underlying().(*types.Basic); !isB || b.Kind() != types.Bool {
			return nil
		}
		return o
	}
	// booleans handed to a formatter of the package
	passed := map[types.Object]bool{}
	ast.Inspect(ff.Body, func(n ast.Node) bool {
		if call, ok := n.(*ast.CallExpr); ok && strings.HasPrefix(wire.Canon(call.Fun), "format") {
			for _, a := range call.Args {
				if o := isBoolVar(a); o != nil {
					passed[o] = true
				}
			}
		}
		return true
	})
	clauseOf := func(kind string) *ast.CaseClause {
		for _, cc := range top.Body.List {
			cl := cc.(*ast.CaseClause)
			for _, e := range cl.List {
				if wire.Canon(e) == kind {
					return cl
				}
			}
		}
		return nil
	}
	attr := clauseOf("tokenKindOpenSquare")
	if attr == nil {
		return
	}
	// markers: passed booleans assigned in the attribute arm
	markers := map[types.Object]bool{}
	ast.Inspect(attr, func(n ast.Node) bool {
		if as, ok := n.(*ast.AssignStmt); ok {
			for _, l := range as.Lhs {
				if o := isBoolVar(l); o != nil && passed[o] {
					markers[o] = true
				}
			}
		}
		return true
	})
	n := 0
	for m := range markers {
		n++
		clearsIn := func(node ast.Node) bool {
			found := false
			ast.Inspect(node, func(k ast.Node) bool {
				if as, ok := k.(*ast.AssignStmt); ok && len(as.Lhs) == len(as.Rhs) {
					for i, l := range as.Lhs {
						if isBoolVar(l) == m {
							if tv := info.Types[as.Rhs[i]]; tv.Value != nil && tv.Value.ExactString() == "false" {
								found = true
							}
						}
					}
				}
				return !found
			})
			return found
		}
		// a clearing statement of the loop body outside the switch reaches every
		// clause that does not leave the iteration with continue
		var loopBody *ast.BlockStmt
		ast.Inspect(ff.Body, func(k ast.Node) bool {
			if f, ok := k.(*ast.ForStmt); ok && f.Body.Pos() <= top.Pos() && top.End() <= f.Body.End() {
				loopBody = f.Body
			}
			return true
		})
		tailClears := false
		if loopBody != nil {
			for _, st := range loopBody.List {
				if st.Pos() > top.End() && clearsIn(st) {
					tailClears = true
				}
			}
		}
		lost := ""
		for _, kind := range []string{"tokenKindLineComment", "tokenKindBlockComment"} {
			cl := clauseOf(kind)
			if cl == nil {
				// no arm of its own: the token falls through the switch to the tail
				if tailClears {
					lost = kind
				}
				continue
			}
			endsInContinue := false
			if k := len(cl.Body); k > 0 {
				if br, ok := cl.Body[k-1].(*ast.BranchStmt); ok && br.Tok == token.CONTINUE {
					endsInContinue = true
				}
			}
			if clearsIn(cl) || (tailClears && !endsInContinue) {
				lost = kind
			}
		}
		c.Check("R5c", "the formatter's marker "+m.Name()+" raised by an attribute survives the comments before the definition", p.Pos(attr.Pos()), lost == "",
			"format raises "+m.Name()+" in its arm for `[` and hands it to a definition's formatter, but clears it on a "+lost+" token: ReadFile keeps the attribute pending across comments, so `[flags]`, a doc comment, and then the enum is one flags enum for the parser and a plain one for the formatter, which then copies only part of each member's value")
	}
	c.Count("formatter_attribute_markers", n)
}

// readonlyWrittenOnTheSpot: R5d. The other way to carry `readonly` to the
// struct: the arm for the keyword writes it itself and the arm for `struct`
// writes the rest. The parser wants the record keyword right after `readonly`,
// so nothing may be written in between: every bool the struct arm tests before
// it writes a line break (the pending blank line between records) is cleared
// in the readonly arm. Returns false when the readonly arm writes nothing.
func readonlyWrittenOnTheSpot(c *core.Ctx, p *load.Prog, info *types.Info, ff *ast.FuncDecl) bool {
	arm := func(kind string) *ast.CaseClause {
		var out *ast.CaseClause
		ast.Inspect(ff.Body, func(n ast.Node) bool {
			if cl, ok := n.(*ast.CaseClause); ok && out == nil {
				for _, e := range cl.List {
					if wire.Canon(e) == kind {
						out = cl
					}
				}
			}
			return out == nil
		})
		return out
	}
	isWrite := func(call *ast.CallExpr) bool {
		sel, ok := ast.Unparen(call.Fun).(*ast.SelectorExpr)
		return ok && (sel.Sel.Name == "SafeWrite" || sel.Sel.Name == "Write" || sel.Sel.Name == "WriteString")
	}
	ro, st := arm("tokenKindReadOnly"), arm("tokenKindStruct")
	if ro == nil || st == nil {
		return false
	}
	writes := false
	for _, s := range ro.Body {
		ast.Inspect(s, func(n ast.Node) bool {
			if call, ok := n.(*ast.CallExpr); ok && isWrite(call) {
				ast.Inspect(call, func(k ast.Node) bool {
					if bl, ok := k.(*ast.BasicLit); ok && strings.Contains(bl.Value, "readonly") {
						writes = true
					}
					return true
				})
			}
			return true
		})
	}
	if !writes {
		return false
	}
	// flags guarding a line break in the struct arm
	for _, s := range st.Body {
		ifs, ok := s.(*ast.IfStmt)
		if !ok {
			continue
		}
		id, ok := ast.Unparen(ifs.Cond).(*ast.Ident)
		if !ok {
			continue
		}
		breaks := false
		ast.Inspect(ifs.Body, func(n ast.Node) bool {
			if call, ok := n.(*ast.CallExpr); ok && isWrite(call) {
				ast.Inspect(call, func(k ast.Node) bool {
					if bl, ok := k.(*ast.BasicLit); ok && (strings.Contains(bl.Value, `\n`) || bl.Value == "'\\n'") {
						breaks = true
					}
					return true
				})
			}
			return true
		})
		if !breaks {
			continue
		}
		flag := info.ObjectOf(id)
		cleared := false
		for _, rs := range ro.Body {
			if as, ok := rs.(*ast.AssignStmt); ok && len(as.Lhs) == 1 && len(as.Rhs) == 1 {
				if l, ok := as.Lhs[0].(*ast.Ident); ok && info.ObjectOf(l) == flag {
					if tv := info.Types[as.Rhs[0]]; tv.Value != nil && tv.Value.String() == "false" {
						cleared = true
					}
				}
			}
		}
		c.Check("R5d", "nothing is written between `readonly` and `struct` (pending line break "+id.Name+")", p.Pos(ifs.Pos()), cleared,
			"the arm for `readonly` writes the keyword and leaves "+id.Name+" as it was; the arm for `struct` then writes the pending line break first: `readonly` and `struct` end up on two lines, which ReadFile refuses")
	}
	c.Check("R5d", "the readonly keyword is written where it is read (scan complete)", p.Pos(ro.Pos()), true, "")
	return true
}
