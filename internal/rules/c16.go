package rules

import (
	"fmt"
	"go/ast"
	"go/token"
	"sort"
	"strings"

	"bebopverif/internal/core"
	"bebopverif/internal/load"
	"bebopverif/internal/wire"
)

func init() { register("C16", checkC16) }

// counts is a set of possible token counts, possibly unbounded above.
type counts struct {
	set map[int]bool
	unb bool
}

func single(n int) counts { return counts{set: map[int]bool{n: true}} }
func none() counts       { return counts{set: map[int]bool{}} }

func (a counts) empty() bool { return len(a.set) == 0 && !a.unb }

func (a counts) plus(b counts) counts {
	out := counts{set: map[int]bool{}, unb: (a.unb && !b.empty()) || (b.unb && !a.empty())}
	for x := range a.set {
		for y := range b.set {
			out.set[x+y] = true
		}
	}
	if a.unb {
		for y := range b.set {
			_ = y
		}
	}
	return out
}

func (a counts) union(b counts) counts {
	out := counts{set: map[int]bool{}, unb: a.unb || b.unb}
	for x := range a.set {
		out.set[x] = true
	}
	for y := range b.set {
		out.set[y] = true
	}
	return out
}

func (a counts) String() string {
	var xs []int
	for x := range a.set {
		xs = append(xs, x)
	}
	sort.Ints(xs)
	var parts []string
	for _, x := range xs {
		parts = append(parts, fmt.Sprint(x))
	}
	if a.unb {
		parts = append(parts, "unbounded")
	}
	return "{" + strings.Join(parts, ",") + "}"
}

func (a counts) equal(b counts) bool { return a.String() == b.String() }

// covers reports whether every count in b is also possible in a (a general
// "until" loop covers every count).
func (a counts) covers(b counts) bool {
	if b.unb && !a.unb {
		return false
	}
	if a.unb {
		return true
	}
	for x := range b.set {
		if !a.set[x] {
			return false
		}
	}
	return true
}

// arityEngine computes how many tokens a piece of parser/formatter code takes
// from the tokenReader along its non-error paths.
type arityEngine struct {
	lastExpect map[string]bool
	p       *load.Prog
	summary map[string]counts
	inProg  map[string]bool
	unknown []string
}

// trivia helpers consume only optional newlines/comments: neutral for both sides.
var triviaHelpers = map[string]bool{"optNewline": true, "skipEndOfLineComments": true}

func (e *arityEngine) callCount(call *ast.CallExpr) (counts, bool) {
	if isMethodCall(call, "tr", "Next") {
		return single(1), true
	}
	if isMethodCall(call, "tr", "UnNext") {
		return single(-1), true
	}
	id, ok := call.Fun.(*ast.Ident)
	if !ok {
		return counts{}, false
	}
	takesTr := false
	for _, a := range call.Args {
		if wire.Canon(a) == "tr" {
			takesTr = true
		}
	}
	if !takesTr {
		return counts{}, false
	}
	switch id.Name {
	case "expectNext":
		return single(len(call.Args) - 1), true
	case "expectAnyOfNext":
		return single(1), true
	case "readUntil":
		return counts{set: map[int]bool{}, unb: true}, true
	}
	if triviaHelpers[id.Name] {
		return single(0), true
	}
	return e.funcSummary(id.Name), true
}

func (e *arityEngine) funcSummary(name string) counts {
	if c, ok := e.summary[name]; ok {
		return c
	}
	if e.inProg[name] {
		// recursion: the construct nests; report as unbounded
		return counts{set: map[int]bool{}, unb: true}
	}
	fd := e.p.FuncDecl(e.p.Bebop(), name)
	if fd == nil {
		e.unknown = append(e.unknown, name)
		return single(0)
	}
	e.inProg[name] = true
	open, done := e.seq(fd.Body.List)
	delete(e.inProg, name)
	c := open.union(done)
	e.summary[name] = c
	return c
}

// exprCount sums the token reads inside one expression or simple statement.
func (e *arityEngine) nodeCount(n ast.Node) counts {
	total := single(0)
	ast.Inspect(n, func(m ast.Node) bool {
		if _, isLit := m.(*ast.FuncLit); isLit {
			return false
		}
		if call, ok := m.(*ast.CallExpr); ok {
			if c, ok := e.callCount(call); ok {
				total = total.plus(c)
				return false
			}
		}
		return true
	})
	return total
}

func isErrorReturn(r *ast.ReturnStmt) bool {
	if len(r.Results) == 0 {
		return false
	}
	last := ast.Unparen(r.Results[len(r.Results)-1])
	switch x := last.(type) {
	case *ast.Ident:
		return x.Name == "err"
	case *ast.CallExpr:
		fn := wire.Canon(x.Fun)
		return fn == "readError" || strings.HasPrefix(fn, "fmt.Errorf") || fn == "tr.Err"
	}
	return false
}

// seq returns the counts of paths that fall out of the statement list (open)
// and of paths that ended normally inside it (done: return/continue/break).
func (e *arityEngine) seq(stmts []ast.Stmt) (open, done counts) {
	open = single(0)
	done = none()
	for _, s := range stmts {
		if open.empty() {
			break
		}
		ast.Inspect(s, func(n ast.Node) bool {
			if _, isSw := n.(*ast.SwitchStmt); isSw {
				return false
			}
			if call, ok := n.(*ast.CallExpr); ok {
				if id, ok := call.Fun.(*ast.Ident); ok && id.Name == "expectAnyOfNext" {
					e.lastExpect = map[string]bool{}
					for _, a := range call.Args[1:] {
						e.lastExpect[wire.Canon(a)] = true
					}
				}
			}
			return true
		})
		o, d := e.stmt(s)
		done = done.union(open.plus(d))
		open = open.plus(o)
	}
	return
}

func (e *arityEngine) stmt(s ast.Stmt) (open, done counts) {
	switch x := s.(type) {
	case *ast.ReturnStmt:
		if isErrorReturn(x) {
			return none(), none()
		}
		c := single(0)
		for _, r := range x.Results {
			c = c.plus(e.nodeCount(r))
		}
		return none(), c
	case *ast.BranchStmt:
		if x.Tok == token.CONTINUE || x.Tok == token.BREAK {
			return none(), single(0)
		}
		return single(0), none()
	case *ast.BlockStmt:
		return e.seq(x.List)
	case *ast.IfStmt:
		pre := single(0)
		if x.Init != nil {
			pre = pre.plus(e.nodeCount(x.Init))
		}
		pre = pre.plus(e.nodeCount(x.Cond))
		to, td := e.seq(x.Body.List)
		var eo, ed counts
		if x.Else != nil {
			eo, ed = e.stmt(x.Else)
		} else {
			eo, ed = single(0), none()
		}
		return pre.plus(to.union(eo)), pre.plus(td.union(ed))
	case *ast.ForStmt:
		// constant-trip loops: for j := 0; j < N; j++
		if x.Init != nil && x.Cond != nil && x.Post != nil {
			if be, ok := x.Cond.(*ast.BinaryExpr); ok && be.Op == token.LSS {
				if n, ok := constInt(e.p.Bebop().TypesInfo, be.Y); ok {
					bo, _ := e.seq(x.Body.List)
					total := single(0)
					for i := 0; i < n; i++ {
						total = total.plus(bo)
					}
					return total, none()
				}
			}
		}
		// a general loop takes any number of tokens
		return counts{set: map[int]bool{0: true}, unb: true}, none()
	case *ast.RangeStmt:
		return single(0), none()
	case *ast.SwitchStmt:
		pre := single(0)
		if x.Init != nil {
			pre = pre.plus(e.nodeCount(x.Init))
		}
		if x.Tag != nil {
			pre = pre.plus(e.nodeCount(x.Tag))
		}
		open, done = none(), none()
		exhaustive := false
		if x.Tag != nil && wire.Canon(x.Tag) == "tr.Token().kind" && len(e.lastExpect) > 0 {
			labels := map[string]bool{}
			for _, cc := range x.Body.List {
				for _, l := range cc.(*ast.CaseClause).List {
					labels[wire.Canon(l)] = true
				}
			}
			exhaustive = len(labels) == len(e.lastExpect)
			for k := range e.lastExpect {
				if !labels[k] {
					exhaustive = false
				}
			}
		}
		hasDefault := false
		for _, cc := range x.Body.List {
			cl := cc.(*ast.CaseClause)
			if cl.List == nil {
				hasDefault = true
			}
			o, d := e.seq(cl.Body)
			// a break inside a switch case only leaves the switch
			open = open.union(o)
			done = done.union(d)
		}
		if !hasDefault && !exhaustive {
			open = open.union(single(0))
		}
		return pre.plus(open), pre.plus(done)
	case *ast.LabeledStmt:
		return e.stmt(x.Stmt)
	default:
		return e.nodeCount(s), none()
	}
}

func caseBody(fd *ast.FuncDecl, kind string) []ast.Stmt {
	var out []ast.Stmt
	found := false
	ast.Inspect(fd.Body, func(n ast.Node) bool {
		cc, ok := n.(*ast.CaseClause)
		if !ok || found {
			return !found
		}
		for _, e := range cc.List {
			if wire.Canon(e) == kind {
				out = cc.Body
				found = true
			}
		}
		return !found
	})
	return out
}

func stmtsBeforeLoop(fd *ast.FuncDecl) []ast.Stmt {
	for i, s := range fd.Body.List {
		switch x := s.(type) {
		case *ast.ForStmt:
			if x.Cond != nil && x.Init == nil {
				return fd.Body.List[:i]
			}
			if x.Cond == nil {
				return fd.Body.List[:i]
			}
		case *ast.LabeledStmt:
			return fd.Body.List[:i]
		}
	}
	return fd.Body.List
}

func checkC16(c *core.Ctx) {
	c.Explainf("C16 (decided clause: parser/formatter sibling agreement; that equal token counts imply equal text, and comment attachment, are NOT decided). format.go is a second consumer of the token grammar, driven by fixed token counts. R1: every token kind for which ReadFile's switch records something in the File has an arm in format's switch that writes. R2: for each paired construct every token count the parser can take along its non-error paths (sum of expectNext arities, expectAnyOfNext = 1, Next = 1, UnNext = -1, readUntil/loops = unbounded; optNewline/skipEndOfLineComments = trivia) must be a count the formatter can consume (constant-trip loops x body + straight-line Next calls; a loop that runs to a delimiter covers every count); both are recomputed from source on every run. R3: where the parser loops (postfix [] in readFieldType) the formatter loops. R4: every token the formatter takes with a bare tr.Next() is written back as its own text (.concrete) or as the same punctuation literal. R5: the readonly marker is carried to the struct formatter.")
	p := loadRepo(c)
	if p == nil {
		return
	}
	pkg := p.Bebop()
	rf := p.FuncDecl(pkg, "ReadFile")
	ff := p.FuncDecl(pkg, "format")
	if rf == nil || ff == nil {
		c.Undecide("ReadFile / format not found")
		return
	}
	// ---- R1 coverage
	recordKinds := map[string]bool{}
	var ptop *ast.SwitchStmt
	ast.Inspect(rf.Body, func(n ast.Node) bool {
		if sw, ok := n.(*ast.SwitchStmt); ok && ptop == nil {
			ptop = sw
		}
		return ptop == nil
	})
	if ptop == nil {
		c.Undecide("ReadFile has no top-level switch")
		return
	}
	for _, cc := range ptop.Body.List {
		cl := cc.(*ast.CaseClause)
		src := srcOf(p, cl)
		records := strings.Contains(src, "= append(f.") || strings.Contains(src, "nextRecord")
		for _, e := range cl.List {
			k := wire.Canon(e)
			if strings.HasPrefix(k, "tokenKind") && records {
				recordKinds[k] = true
			}
		}
	}
	fmtKinds := map[string]bool{}
	var top *ast.SwitchStmt
	ast.Inspect(ff.Body, func(n ast.Node) bool {
		if sw, ok := n.(*ast.SwitchStmt); ok && top == nil {
			top = sw
		}
		return top == nil
	})
	if top != nil {
		for _, cc := range top.Body.List {
			cl := cc.(*ast.CaseClause)
			writes := strings.Contains(srcOf(p, cl), "SafeWrite") || strings.Contains(srcOf(p, cl), "readOnly = true")
			for _, e := range cl.List {
				if writes {
					fmtKinds[wire.Canon(e)] = true
				}
			}
		}
	}
	var ks []string
	for k := range recordKinds {
		ks = append(ks, k)
	}
	sort.Strings(ks)
	c.Count("parser_top_level_kinds", len(ks))
	c.Floor("parser_top_level_kinds", 7)
	for _, k := range ks {
		c.Check("R1", "format has a writing arm for "+k, p.Pos(ff.Pos()), fmtKinds[k], "ReadFile records this construct in the File but the formatter has no arm for it: the construct is dropped from (or mangled in) the formatted output")
	}

	// ---- R2 arity pairs
	e := &arityEngine{p: p, summary: map[string]counts{}, inProg: map[string]bool{}}
	pairs := 0
	compare := func(name string, ps, fs []ast.Stmt, pfn, ffn *ast.FuncDecl) {
		if ps == nil || fs == nil {
			c.Undecide("arity pair %q: anchor not found", name)
			return
		}
		po, pd := e.seq(ps)
		fo, fdn := e.seq(fs)
		pc, fc := po.union(pd), fo.union(fdn)
		pairs++
		c.Check("R2", "token arity: "+name, p.Pos(ffn.Pos()), fc.covers(pc) && (fc.unb || !pc.empty()),
			fmt.Sprintf("the parser (%s) takes %s tokens for this construct, the formatter (%s) consumes %s: a form with a different count is mis-split and written back as a different (or unparsable) schema", load.FuncName2(pfn), pc, load.FuncName2(ffn), fc))
	}
	compare("top-level [attribute]", caseBody(rf, "tokenKindOpenSquare"), caseBody(ff, "tokenKindOpenSquare"), rf, ff)
	compare("import", caseBody(rf, "tokenKindImport"), caseBody(ff, "tokenKindImport"), rf, ff)
	for _, k := range []struct{ parse, format string }{{"readEnum", "formatEnum"}, {"readStruct", "formatStruct"}, {"readMessage", "formatMessage"}, {"readUnion", "formatUnion"}} {
		pf, fmtf := p.FuncDecl(pkg, k.parse), p.FuncDecl(pkg, k.format)
		if pf == nil || fmtf == nil {
			c.Undecide("%s / %s not found", k.parse, k.format)
			continue
		}
		compare(k.parse+" header", stmtsBeforeLoop(pf), stmtsBeforeLoop(fmtf), pf, fmtf)
		compare(k.parse+" [deprecated] attribute", caseBody(pf, "tokenKindOpenSquare"), caseBody(fmtf, "tokenKindOpenSquare"), pf, fmtf)
	}
	if pf, fmtf := p.FuncDecl(pkg, "readEnum"), p.FuncDecl(pkg, "formatEnum"); pf != nil && fmtf != nil {
		compare("enum option", caseBody(pf, "tokenKindIdent"), caseBody(fmtf, "tokenKindIdent"), pf, fmtf)
	}
	if pf, fmtf := p.FuncDecl(pkg, "readConst"), p.FuncDecl(pkg, "formatConst"); pf != nil && fmtf != nil {
		compare("const", pf.Body.List, fmtf.Body.List, pf, fmtf)
	}
	if pf, fmtf := p.FuncDecl(pkg, "readMessage"), p.FuncDecl(pkg, "formatMessage"); pf != nil && fmtf != nil {
		// the part of a message field that precedes its type: index and arrow
		_ = pf
		_ = fmtf
	}
	c.Count("arity_pairs", pairs)
	c.Floor("arity_pairs", 10)
	if len(e.unknown) > 0 {
		c.Undecide("arity analysis met helpers it cannot summarise: %v", e.unknown)
	}

	// ---- R3 repetition
	if pf, fmtf := p.FuncDecl(pkg, "readFieldType"), p.FuncDecl(pkg, "formatType"); pf != nil && fmtf != nil {
		loops := func(fd *ast.FuncDecl) bool {
			found := false
			ast.Inspect(fd.Body, func(n ast.Node) bool {
				if f, ok := n.(*ast.ForStmt); ok {
					if strings.Contains(srcOf(p, f), "tokenKindOpenSquare") {
						found = true
					}
				}
				return true
			})
			return found
		}
		// every way out of formatType passes the postfix loop
		early := 0
		var loopPos token.Pos
		ast.Inspect(fmtf.Body, func(n ast.Node) bool {
			if f, ok := n.(*ast.ForStmt); ok && strings.Contains(srcOf(p, f), "tokenKindOpenSquare") && loopPos == 0 {
				loopPos = f.Pos()
			}
			return true
		})
		ast.Inspect(fmtf.Body, func(n ast.Node) bool {
			if r, ok := n.(*ast.ReturnStmt); ok && (loopPos == 0 || r.Pos() < loopPos) {
				early++
			}
			return true
		})
		c.Check("R3", "every path of formatType reaches the postfix [] loop", p.Pos(fmtf.Pos()), early == 0, fmt.Sprintf("%d return statements leave formatType before the loop that consumes postfix []: for that spelling of a type a following [] is left in the token stream and taken for the field name", early))
		pl, fl := loops(pf), loops(fmtf)
		c.Check("R3", "postfix [] repeats in the formatter as in the parser", p.Pos(fmtf.Pos()), !pl || fl, "readFieldType accepts any number of postfix [] in a loop, formatType handles at most one: T[][] is mis-split")
	} else {
		c.Undecide("readFieldType / formatType not found")
	}
	// ---- R4 token conservation: what the formatter takes from the reader it
	// writes back as the token's own text (or, for pure punctuation, as the
	// same literal)
	nNext := 0
	for _, fd := range funcsOfFiles(p, pkg, "format.go") {
		if fd.Name.Name == "Format" {
			continue
		}
		// simple statements of the function in source order
		var flat []ast.Stmt
		ast.Inspect(fd.Body, func(n ast.Node) bool {
			switch x := n.(type) {
			case *ast.ExprStmt, *ast.AssignStmt, *ast.ReturnStmt, *ast.BranchStmt:
				flat = append(flat, x.(ast.Stmt))
			case *ast.IfStmt:
				flat = append(flat, &ast.ExprStmt{X: x.Cond})
			case *ast.SwitchStmt:
				if x.Tag != nil {
					flat = append(flat, &ast.ExprStmt{X: x.Tag})
				}
			}
			return true
		})
		for i, st := range flat {
			es, ok := st.(*ast.ExprStmt)
			if !ok || !isMethodCall(es.X, "tr", "Next") {
				continue
			}
			nNext++
			okUse := false
			for _, follow := range flat[i+1:] {
				if fe, ok := follow.(*ast.ExprStmt); ok && isMethodCall(fe.X, "tr", "Next") {
					break
				}
				fs := srcOf(p, follow)
				if strings.Contains(fs, ".concrete") || strings.Contains(fs, "tr.UnNext()") || strings.Contains(fs, "formatType(tr)") ||
					strings.Contains(fs, "formatMessage(tr") || strings.Contains(fs, "formatStruct(tr") ||
					strings.Contains(fs, `[]byte(";")`) || strings.Contains(fs, `[]byte(";\n")`) || strings.Contains(fs, `[]byte("[]")`) || strings.Contains(fs, `';'`) {
					okUse = true
					break
				}
			}
			c.Check("R4", fmt.Sprintf("%s writes back the token it takes (Next #%d)", fd.Name.Name, nNext), p.Pos(es.Pos()), okUse,
				"a token is taken from the reader and neither its text (.concrete) nor the same punctuation is written before the next token is taken: its text is dropped or replaced by something the formatter computed")
		}
	}
	for _, fd := range funcsOfFiles(p, pkg, "format.go") {
		ast.Inspect(fd.Body, func(n ast.Node) bool {
			if as, ok := n.(*ast.AssignStmt); ok {
				for _, l := range as.Lhs {
					if sel, ok := ast.Unparen(l).(*ast.SelectorExpr); ok && sel.Sel.Name == "concrete" {
						c.Check("R4", fd.Name.Name+" does not rewrite a token's text", p.Pos(as.Pos()), false,
							"the formatter assigns to a token's .concrete: what it writes is no longer the text that was read (a decimal literal re-spelled as hex changes its value)")
					}
				}
			}
			return true
		})
	}
	c.Check("R4", "the formatter never assigns a token's text (scan complete)", "format.go", true, "")
	c.Count("formatter_next_calls", nNext)
	c.Floor("formatter_next_calls", 20)
	// ---- R5
	src := srcOf(p, ff.Body)
	c.Check("R5", "the readonly marker reaches formatStruct", p.Pos(ff.Pos()), strings.Contains(src, "readOnly = true") && strings.Contains(src, "formatStruct(tr, readOnly,"), "")
}
