// Package load reads /repo's current working tree with go/packages (engine E1).
package load

import (
	"fmt"
	"go/ast"
	"go/token"
	"go/types"
	"os"
	"path/filepath"
	"sort"
	"strings"

	"golang.org/x/tools/go/packages"
	"golang.org/x/tools/go/ssa"
	"golang.org/x/tools/go/ssa/ssautil"
)

const Mod = "github.com/200sc/bebop"

type Prog struct {
	Dir   string
	Fset  *token.FileSet
	Pkgs  map[string]*packages.Package // by import path
	All   []*packages.Package
	decls map[*types.Func]*ast.FuncDecl
	owner map[*types.Func]*packages.Package

	ssaProg *ssa.Program
	ssaPkgs map[string]*ssa.Package
}

// Load type-checks every non-test package of the module in dir. extra are
// additional patterns (e.g. "./testdata/generated/...").
func Load(dir string, goarch string, extra ...string) (*Prog, error) {
	env := []string{}
	for _, e := range os.Environ() {
		if strings.HasPrefix(e, "GOFLAGS=") || strings.HasPrefix(e, "GOWORK=") || strings.HasPrefix(e, "GOPROXY=") || strings.HasPrefix(e, "GOARCH=") || strings.HasPrefix(e, "GOTOOLCHAIN=") || strings.HasPrefix(e, "GOSUMDB=") {
			continue
		}
		env = append(env, e)
	}
	env = append(env, "GOFLAGS=-mod=mod", "GOWORK=off", "GOPROXY=off", "GOSUMDB=off", "GOTOOLCHAIN=local")
	if goarch != "" {
		env = append(env, "GOARCH="+goarch)
	}
	fset := token.NewFileSet()
	cfg := &packages.Config{
		Mode:  packages.NeedName | packages.NeedFiles | packages.NeedCompiledGoFiles | packages.NeedImports | packages.NeedDeps | packages.NeedTypes | packages.NeedSyntax | packages.NeedTypesInfo | packages.NeedTypesSizes | packages.NeedModule,
		Dir:   dir,
		Env:   env,
		Fset:  fset,
		Tests: false,
	}
	pats := append([]string{"./..."}, extra...)
	pkgs, err := packages.Load(cfg, pats...)
	if err != nil {
		return nil, err
	}
	p := &Prog{Dir: dir, Fset: fset, Pkgs: map[string]*packages.Package{}, decls: map[*types.Func]*ast.FuncDecl{}, owner: map[*types.Func]*packages.Package{}}
	var errs []string
	packages.Visit(pkgs, nil, func(pk *packages.Package) {
		for _, e := range pk.Errors {
			errs = append(errs, e.Error())
		}
	})
	if len(errs) > 0 {
		sort.Strings(errs)
		if len(errs) > 5 {
			errs = errs[:5]
		}
		return nil, fmt.Errorf("type errors in %s: %s", dir, strings.Join(errs, "; "))
	}
	for _, pk := range pkgs {
		if !strings.HasPrefix(pk.PkgPath, Mod) {
			continue
		}
		p.Pkgs[pk.PkgPath] = pk
		p.All = append(p.All, pk)
		for _, f := range pk.Syntax {
			for _, d := range f.Decls {
				if fd, ok := d.(*ast.FuncDecl); ok {
					if obj, ok := pk.TypesInfo.Defs[fd.Name].(*types.Func); ok {
						p.decls[obj] = fd
						p.owner[obj] = pk
					}
				}
			}
		}
	}
	sort.Slice(p.All, func(i, j int) bool { return p.All[i].PkgPath < p.All[j].PkgPath })
	if len(p.All) == 0 {
		return nil, fmt.Errorf("no packages of %s loaded from %s", Mod, dir)
	}
	// iohelp may be loaded only as a dependency when patterns exclude it
	packages.Visit(pkgs, nil, func(pk *packages.Package) {
		if strings.HasPrefix(pk.PkgPath, Mod) && p.Pkgs[pk.PkgPath] == nil && pk.TypesInfo != nil {
			p.Pkgs[pk.PkgPath] = pk
		}
	})
	return p, nil
}

func (p *Prog) Bebop() *packages.Package  { return p.Pkgs[Mod] }
func (p *Prog) Iohelp() *packages.Package { return p.Pkgs[Mod+"/iohelp"] }

func (p *Prog) Decl(f *types.Func) *ast.FuncDecl        { return p.decls[f] }
func (p *Prog) Owner(f *types.Func) *packages.Package   { return p.owner[f] }
func (p *Prog) AllDecls() map[*types.Func]*ast.FuncDecl { return p.decls }

// Func finds a package-level function or a method "Recv.Name" in pkg.
func (p *Prog) Func(pkg *packages.Package, name string) *types.Func {
	if pkg == nil {
		return nil
	}
	if i := strings.Index(name, "."); i >= 0 {
		recv, m := name[:i], name[i+1:]
		obj := pkg.Types.Scope().Lookup(recv)
		if obj == nil {
			return nil
		}
		named, ok := obj.Type().(*types.Named)
		if !ok {
			return nil
		}
		for i := 0; i < named.NumMethods(); i++ {
			if named.Method(i).Name() == m {
				return named.Method(i)
			}
		}
		return nil
	}
	if f, ok := pkg.Types.Scope().Lookup(name).(*types.Func); ok {
		return f
	}
	// a function that was made a method of some value (readEnum -> (*parser).readEnum)
	// keeps its name: accepted when exactly one method of the package has it
	var only *types.Func
	n := 0
	for fn := range p.decls {
		if p.owner[fn] != pkg || fn.Name() != name {
			continue
		}
		if sig, ok := fn.Type().(*types.Signature); ok && sig.Recv() != nil {
			only = fn
			n++
		}
	}
	if n == 1 {
		return only
	}
	return nil
}

func (p *Prog) FuncDecl(pkg *packages.Package, name string) *ast.FuncDecl {
	f := p.Func(pkg, name)
	if f == nil {
		return nil
	}
	return p.decls[f]
}

// Pos renders a position relative to the repo root.
func (p *Prog) Pos(pos token.Pos) string {
	if !pos.IsValid() {
		return "-"
	}
	ps := p.Fset.Position(pos)
	rel, err := filepath.Rel(p.Dir, ps.Filename)
	if err != nil {
		rel = ps.Filename
	}
	return fmt.Sprintf("%s:%d", rel, ps.Line)
}

// FuncName is a stable display name for a function object.
func FuncName(f *types.Func) string {
	if f == nil {
		return "?"
	}
	sig := f.Type().(*types.Signature)
	if r := sig.Recv(); r != nil {
		t := r.Type()
		if pt, ok := t.(*types.Pointer); ok {
			t = pt.Elem()
		}
		if n, ok := t.(*types.Named); ok {
			return n.Obj().Name() + "." + f.Name()
		}
	}
	return f.Name()
}

// Callee resolves the static callee of a call, if any.
func Callee(info *types.Info, call *ast.CallExpr) *types.Func {
	fun := ast.Unparen(call.Fun)
	switch f := fun.(type) {
	case *ast.IndexExpr:
		fun = f.X
	case *ast.IndexListExpr:
		fun = f.X
	}
	switch f := fun.(type) {
	case *ast.Ident:
		if fn, ok := info.Uses[f].(*types.Func); ok {
			return fn
		}
	case *ast.SelectorExpr:
		if sel, ok := info.Selections[f]; ok {
			if fn, ok := sel.Obj().(*types.Func); ok {
				return fn
			}
			return nil
		}
		if fn, ok := info.Uses[f.Sel].(*types.Func); ok {
			return fn
		}
	}
	return nil
}

// FullName is pkgpath.Name or (pkgpath.Recv).Name for any function.
func FullName(f *types.Func) string {
	if f == nil {
		return ""
	}
	return f.FullName()
}

// SSA builds (once) the SSA form of all loaded packages.
func (p *Prog) SSA() (*ssa.Program, map[string]*ssa.Package) {
	if p.ssaProg != nil {
		return p.ssaProg, p.ssaPkgs
	}
	prog, pkgs := ssautil.AllPackages(p.All, ssa.InstantiateGenerics)
	prog.Build()
	p.ssaProg = prog
	p.ssaPkgs = map[string]*ssa.Package{}
	for i, pk := range p.All {
		if pkgs[i] != nil {
			p.ssaPkgs[pk.PkgPath] = pkgs[i]
		}
	}
	return prog, p.ssaPkgs
}

// FuncName2 names a function declaration without type information.
func FuncName2(fd *ast.FuncDecl) string {
	if fd == nil {
		return "?"
	}
	if fd.Recv != nil && len(fd.Recv.List) == 1 {
		t := fd.Recv.List[0].Type
		if s, ok := t.(*ast.StarExpr); ok {
			t = s.X
		}
		if id, ok := t.(*ast.Ident); ok {
			return id.Name + "." + fd.Name.Name
		}
	}
	return fd.Name.Name
}
