package wire

import (
	"fmt"
	"go/token"
	"strings"
)

type Kind int

const (
	KScalar    Kind = iota // one fixed-width primitive
	KCount                 // u32 element/byte count of Operand
	KRaw                   // len(Operand) raw bytes
	KRec                   // nested record
	KLoop                  // per-element repetition over Operand
	KMapLoop               // per-entry repetition over Operand: Key then Body
	KOpt                   // optional tagged member: tag byte + Body when Operand != nil
	KConstByte             // literal byte (terminator)
	KPrefix                // u32 length prefix; Tag = K in Size()-K (writers)
	KSwitch                // decoder dispatch on a tag byte; Cases
	KUnknown
)

func (k Kind) String() string {
	return [...]string{"SCALAR", "COUNT", "RAW", "REC", "LOOP", "MAPLOOP", "OPT", "BYTE", "PREFIX", "SWITCH", "UNKNOWN"}[k]
}

type Item struct {
	Kind    Kind
	Prim    string // scalar: iohelp stem ("Int32", "GUID", "Date")
	Operand string // canonical, alpha-renamed operand
	Enum    bool   // value passes through an integer<->enum conversion
	Type    string // REC: record Go type name as emitted
	Tag     int    // OPT/BYTE value, PREFIX K
	Key     []Item // MAPLOOP key signature
	Body    []Item
	Cases   []Case // SWITCH
	Returns bool   // OPT/case body ends by returning (union)
	Text    string // source text for UNKNOWN
	Pos     token.Pos
	// REC written by an encoder: the record is a struct whose wire size is the
	// constant Fixed (all of its fields have fixed sizes, per the spec table)
	FixedOK bool
	Fixed   int
}

type Case struct {
	Tag     int
	Default bool
	Body    []Item
	Returns bool
}

func (it Item) String() string {
	switch it.Kind {
	case KScalar:
		e := ""
		if it.Enum {
			e = ",enum"
		}
		return fmt.Sprintf("SCALAR(%s,%s%s)", it.Prim, it.Operand, e)
	case KCount:
		return fmt.Sprintf("COUNT(%s)", it.Operand)
	case KRaw:
		return fmt.Sprintf("RAW(%s)", it.Operand)
	case KRec:
		return fmt.Sprintf("REC(%s)", it.Operand)
	case KLoop:
		return fmt.Sprintf("LOOP(%s)[%s]", it.Operand, Sig(it.Body))
	case KMapLoop:
		return fmt.Sprintf("MAPLOOP(%s)[%s ; %s]", it.Operand, Sig(it.Key), Sig(it.Body))
	case KOpt:
		r := ""
		if it.Returns {
			r = " return"
		}
		return fmt.Sprintf("OPT(%s,tag=%d)[%s%s]", it.Operand, it.Tag, Sig(it.Body), r)
	case KConstByte:
		return fmt.Sprintf("BYTE(%d)", it.Tag)
	case KPrefix:
		return fmt.Sprintf("PREFIX(K=%d)", it.Tag)
	case KSwitch:
		var cs []string
		for _, c := range it.Cases {
			r := ""
			if c.Returns {
				r = " return"
			}
			if c.Default {
				cs = append(cs, "default:"+r)
			} else {
				cs = append(cs, fmt.Sprintf("%d:[%s%s]", c.Tag, Sig(c.Body), r))
			}
		}
		return "SWITCH{" + strings.Join(cs, " ") + "}"
	}
	return "UNKNOWN(" + it.Text + ")"
}

func Sig(items []Item) string {
	var s []string
	for _, it := range items {
		s = append(s, it.String())
	}
	return strings.Join(s, " ")
}

// Normalize rewrites equivalent spellings to one form: a loop of single
// one-byte scalars over x is RAW(x).
func Normalize(items []Item) []Item {
	var out []Item
	for _, it := range items {
		it.Body = Normalize(it.Body)
		it.Key = Normalize(it.Key)
		for i := range it.Cases {
			it.Cases[i].Body = Normalize(it.Cases[i].Body)
		}
		if it.Kind == KLoop && len(it.Body) == 1 && it.Body[0].Kind == KScalar && (it.Body[0].Prim == "Byte" || it.Body[0].Prim == "Uint8") && !it.Body[0].Enum {
			out = append(out, Item{Kind: KRaw, Operand: it.Operand, Pos: it.Pos})
			continue
		}
		out = append(out, it)
	}
	return out
}

// Diff returns a description of the first difference between two signatures.
func Diff(got, want []Item) (string, token.Pos, bool) {
	for i := 0; i < len(got) || i < len(want); i++ {
		if i >= len(got) {
			return fmt.Sprintf("missing %s (signature ends early)", want[i]), token.NoPos, false
		}
		if i >= len(want) {
			return fmt.Sprintf("extra %s", got[i]), got[i].Pos, false
		}
		g, w := got[i], want[i]
		if g.Kind != w.Kind {
			return fmt.Sprintf("have %s, spec wants %s", g, w), g.Pos, false
		}
		switch g.Kind {
		case KScalar:
			if g.Prim != w.Prim || g.Operand != w.Operand || g.Enum != w.Enum {
				return fmt.Sprintf("have %s, spec wants %s", g, w), g.Pos, false
			}
		case KCount, KRaw, KRec:
			if g.Operand != w.Operand {
				return fmt.Sprintf("have %s, spec wants %s", g, w), g.Pos, false
			}
		case KConstByte, KPrefix:
			if g.Tag != w.Tag {
				return fmt.Sprintf("have %s, spec wants %s", g, w), g.Pos, false
			}
		case KLoop, KMapLoop, KOpt:
			if g.Operand != w.Operand || (g.Kind == KOpt && (g.Tag != w.Tag || g.Returns != w.Returns)) {
				return fmt.Sprintf("have %s, spec wants %s", g, w), g.Pos, false
			}
			if d, p, ok := Diff(g.Key, w.Key); !ok {
				return "in key of " + g.Kind.String() + "(" + g.Operand + "): " + d, pick(p, g.Pos), false
			}
			if d, p, ok := Diff(g.Body, w.Body); !ok {
				return "in " + g.Kind.String() + "(" + g.Operand + "): " + d, pick(p, g.Pos), false
			}
		case KSwitch:
			if len(g.Cases) != len(w.Cases) {
				return fmt.Sprintf("dispatch has %d arms, spec wants %d: have %s want %s", len(g.Cases), len(w.Cases), g, w), g.Pos, false
			}
			for j := range g.Cases {
				gc, wc := g.Cases[j], w.Cases[j]
				if gc.Default != wc.Default || gc.Tag != wc.Tag || gc.Returns != wc.Returns {
					return fmt.Sprintf("dispatch arm %d: have %v/%d/ret=%v want %v/%d/ret=%v", j, gc.Default, gc.Tag, gc.Returns, wc.Default, wc.Tag, wc.Returns), g.Pos, false
				}
				if d, p, ok := Diff(gc.Body, wc.Body); !ok {
					return fmt.Sprintf("in case %d: %s", gc.Tag, d), pick(p, g.Pos), false
				}
			}
		case KUnknown:
			return "unrecognised emitted statement: " + g.Text, g.Pos, false
		}
	}
	return "", token.NoPos, true
}

func pick(a, b token.Pos) token.Pos {
	if a.IsValid() {
		return a
	}
	return b
}

// HasUnknown reports the first statement the reader did not understand.
func HasUnknown(items []Item) (string, token.Pos, bool) {
	for _, it := range items {
		if it.Kind == KUnknown {
			return it.Text, it.Pos, true
		}
		if t, p, ok := HasUnknown(it.Body); ok {
			return t, p, true
		}
		if t, p, ok := HasUnknown(it.Key); ok {
			return t, p, true
		}
		for _, c := range it.Cases {
			if t, p, ok := HasUnknown(c.Body); ok {
				return t, p, true
			}
		}
	}
	return "", token.NoPos, false
}
